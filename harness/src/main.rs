// Verification harness for hclrs: runs the implementation (linked from /repo with
// --cfg hclrs_verif) on cases read from stdin, one case per line, and prints one
// canonical result block per case. Every case runs under catch_unwind.
extern crate hclrs;

use hclrs::verif_hooks as hk;
use hclrs::verif_hooks::{HookWireValue as WireValue, HookWireWidth as WireWidth};
use hclrs::{parse_y86_hcl, Error, FileContents, RunOptions, RunningProgram};
use std::io::{self, BufRead, Write};
use std::panic::{self, AssertUnwindSafe};

fn hex_encode(s: &[u8]) -> String {
    if s.is_empty() {
        return String::from("-");
    }
    let mut out = String::with_capacity(s.len() * 2);
    for b in s {
        out.push_str(&format!("{:02x}", b));
    }
    out
}

fn hex_decode(s: &str) -> Vec<u8> {
    if s == "-" {
        return Vec::new();
    }
    let b = s.as_bytes();
    let mut out = Vec::with_capacity(b.len() / 2);
    let mut i = 0;
    while i + 1 < b.len() {
        out.push(u8::from_str_radix(&s[i..i + 2], 16).unwrap());
        i += 2;
    }
    out
}

fn text_arg(s: &str) -> String {
    String::from_utf8_lossy(&hex_decode(s)).into_owned()
}

fn width_parse(s: &str) -> WireWidth {
    if s == "u" {
        WireWidth::Unlimited
    } else {
        WireWidth::Bits(s.parse::<u8>().unwrap())
    }
}

fn values_line(rp: &RunningProgram) -> String {
    let mut items: Vec<String> = rp
        .values()
        .iter()
        .map(|(k, v)| format!("{}={:x}/{}", k, v.bits, hk::width_str(v.width)))
        .collect();
    items.sort();
    items.join(",")
}

fn regs_line(rp: &RunningProgram) -> String {
    let v: Vec<String> = hk::registers(rp).iter().map(|x| format!("{:x}", x)).collect();
    v.join(",")
}

fn mem_line(bytes: &[(u64, u8)]) -> String {
    let v: Vec<String> = bytes.iter().map(|&(a, b)| format!("{:x}={:02x}", a, b)).collect();
    if v.is_empty() {
        String::from("-")
    } else {
        v.join(",")
    }
}

fn errs(e: &Error) -> String {
    hk::error_lines(e).join(" ; ")
}

fn make_options(flags: &str, timeout: u32) -> RunOptions {
    let mut o = RunOptions::default();
    for c in flags.chars() {
        match c {
            'q' => o.set_quiet(),
            'd' => o.set_debug(),
            't' => o.set_test(),
            'u' => o.set_no_group_wire_values(),
            'a' => o.set_trace_assignments(),
            '-' => {}
            _ => panic!("bad option flag"),
        }
    }
    o.set_timeout(timeout);
    o
}

fn load_program(out: &mut Vec<String>, hcl: &str) -> Option<RunningProgram> {
    let contents = FileContents::new_from_data(hk::preamble(), hcl, "input.hcl");
    match parse_y86_hcl(&contents) {
        Ok(p) => {
            out.push(format!("compiled {}", hk::compiled(&p)));
            Some(RunningProgram::new_y86(p))
        }
        Err(e) => {
            out.push(format!("reject {}", errs(&e)));
            None
        }
    }
}

fn load_image(out: &mut Vec<String>, rp: &mut RunningProgram, yo: &str) -> bool {
    if yo == "-" {
        return true;
    }
    let data = hex_decode(yo);
    let mut reader = io::BufReader::new(&data[..]);
    match rp.load_memory_y86(&mut reader) {
        Ok(()) => true,
        Err(e) => {
            out.push(format!("yoerr {}", errs(&e)));
            false
        }
    }
}

fn state_lines(out: &mut Vec<String>, rp: &RunningProgram) {
    out.push(format!("regs {}", regs_line(rp)));
    out.push(format!("mem {}", mem_line(&hk::memory(rp))));
    out.push(format!(
        "flags cycle={} done={} halted={} timedout={} stat={}",
        rp.cycle(),
        rp.done() as u8,
        rp.halted() as u8,
        rp.timed_out() as u8,
        match hk::last_status(rp) {
            Some(x) => format!("{}", x),
            None => String::from("-"),
        }
    ));
}

// sim <hclhex> <yohex|-> <cycles> <flags> <timeout> [inject...]
// step-by-step simulation; prints the values map before and after every step.
fn cmd_sim(args: &[&str], out: &mut Vec<String>) {
    let hcl = text_arg(args[0]);
    let cycles: u32 = args[2].parse().unwrap();
    let timeout: u32 = args[4].parse().unwrap();
    let mut rp = match load_program(out, &hcl) {
        Some(rp) => rp,
        None => return,
    };
    if !load_image(out, &mut rp, args[1]) {
        return;
    }
    rp.set_options(make_options(args[3], timeout));
    for inj in &args[5..] {
        inject(&mut rp, inj);
    }
    out.push(format!("mem0 {}", mem_line(&hk::memory(&rp))));
    state_lines(out, &rp);
    for _ in 0..cycles {
        out.push(format!("pre {}", values_line(&rp)));
        let mut text: Vec<u8> = Vec::new();
        match rp.step_with_output(&mut text) {
            Ok(()) => out.push(String::from("step ok")),
            Err(e) => {
                out.push(format!("step err {}", errs(&e)));
                return;
            }
        }
        out.push(format!("out {}", hex_encode(&text)));
        out.push(format!("post {}", values_line(&rp)));
        state_lines(out, &rp);
    }
    out.push(format!("dump {}", hex_encode(rp.dump_y86_str().as_bytes())));
}

// r<idx>=<hex> | m<addrhex>=<bytehex> | v<name>=<bitshex>/<width>
fn inject(rp: &mut RunningProgram, spec: &str) {
    let (kind, rest) = spec.split_at(1);
    let mut parts = rest.splitn(2, '=');
    let key = parts.next().unwrap();
    let val = parts.next().unwrap();
    match kind {
        "r" => hk::set_register(rp, key.parse().unwrap(), u64::from_str_radix(val, 16).unwrap()),
        "m" => hk::set_memory_byte(rp, u64::from_str_radix(key, 16).unwrap(), u8::from_str_radix(val, 16).unwrap()),
        "v" => {
            let mut bw = val.splitn(2, '/');
            let bits = u128::from_str_radix(bw.next().unwrap(), 16).unwrap();
            let width = width_parse(bw.next().unwrap());
            hk::set_value(rp, key, WireValue { bits: bits, width: width });
        }
        _ => panic!("bad injection"),
    }
}

// run <hclhex> <yohex|-> <flags> <timeout> [inject...]: RunningProgram::run as main.rs drives it
fn cmd_run(args: &[&str], out: &mut Vec<String>) {
    let hcl = text_arg(args[0]);
    let timeout: u32 = args[3].parse().unwrap();
    let mut rp = match load_program(out, &hcl) {
        Some(rp) => rp,
        None => return,
    };
    if !load_image(out, &mut rp, args[1]) {
        return;
    }
    rp.set_options(make_options(args[2], timeout));
    for inj in &args[4..] {
        inject(&mut rp, inj);
    }
    out.push(format!("mem0 {}", mem_line(&hk::memory(&rp))));
    let mut text: Vec<u8> = Vec::new();
    match rp.run(&mut text) {
        Ok(()) => out.push(String::from("run ok")),
        Err(e) => out.push(format!("run err {}", errs(&e))),
    }
    out.push(format!("out {}", hex_encode(&text)));
    out.push(format!("values {}", values_line(&rp)));
    state_lines(out, &rp);
    out.push(format!("dump {}", hex_encode(rp.dump_y86_str().as_bytes())));
}

// dis <hex u128>
fn cmd_dis(args: &[&str], out: &mut Vec<String>) {
    let v = u128::from_str_radix(args[0], 16).unwrap();
    let (n, text) = hk::disassemble(v);
    out.push(format!("{} {}", n, hex_encode(text.as_bytes())));
}

// expr <texthex> [name:width:bitshex:isconst ...]
fn cmd_expr(args: &[&str], out: &mut Vec<String>) {
    let text = text_arg(args[0]);
    let mut wires = Vec::new();
    let mut constants = Vec::new();
    for spec in &args[1..] {
        let f: Vec<&str> = spec.split(':').collect();
        wires.push((String::from(f[0]), width_parse(f[1]), u128::from_str_radix(f[2], 16).unwrap()));
        if f[3] == "1" {
            constants.push(String::from(f[0]));
        }
    }
    match hk::check_and_eval(&text, &wires, &constants) {
        Err(e) => out.push(format!("parse err {}", e.join(" ; "))),
        Ok((chk, ev)) => {
            out.push(match chk {
                Ok(w) => format!("check ok {}", hk::width_str(w)),
                Err(e) => format!("check err {}", e.join(" ; ")),
            });
            out.push(match ev {
                Ok(v) => format!("eval ok {:x}/{}", v.bits, hk::width_str(v.width)),
                Err(e) => format!("eval err {}", e.join(" ; ")),
            });
        }
    }
}

// graph <n> <a>-<b>,... : Graph::topological_sort on nodes 0..n-1 (added in order) and edges (inserted in order)
fn cmd_graph(args: &[&str], out: &mut Vec<String>) {
    let n: u32 = args[0].parse().unwrap();
    let nodes: Vec<u32> = (0..n).collect();
    let mut edges = Vec::new();
    if args.len() > 1 && args[1] != "-" {
        for e in args[1].split(',') {
            let mut p = e.split('-');
            edges.push((p.next().unwrap().parse().unwrap(), p.next().unwrap().parse().unwrap()));
        }
    }
    let show = |v: Vec<u32>| if v.is_empty() { String::from("-") } else { v.iter().map(|x| x.to_string()).collect::<Vec<_>>().join(",") };
    let (node_order, succ, result) = hk::toposort_trace(&nodes, &edges);
    out.push(format!("nodes {}", show(node_order)));
    let mut same = true;
    let mut items = Vec::new();
    for (n, direct, cloned) in succ {
        if direct != cloned {
            same = false;
        }
        if !direct.is_empty() {
            items.push(format!("{}>{}", n, show(direct)));
        }
    }
    out.push(format!("succ {}", if items.is_empty() { String::from("-") } else { items.join(";") }));
    out.push(format!("cloneorder {}", if same { "same" } else { "differs" }));
    out.push(format!("nedges {}", edges.len()));
    match result {
        Ok(order) => out.push(format!("order {}", show(order))),
        Err(cycle) => out.push(format!("cycle {}", show(cycle))),
    }
}

// mem <a=v,...|-> <op>...  with op = r<addrhex>:<bytes> | w<addrhex>:<valuehex>:<bytes>
fn cmd_mem(args: &[&str], out: &mut Vec<String>) {
    let mut bytes = Vec::new();
    if args[0] != "-" {
        for item in args[0].split(',') {
            let mut p = item.split('=');
            bytes.push((u64::from_str_radix(p.next().unwrap(), 16).unwrap(), u8::from_str_radix(p.next().unwrap(), 16).unwrap()));
        }
    }
    let mut m = hk::memory_from(&bytes);
    for op in &args[1..] {
        let (kind, rest) = op.split_at(1);
        let f: Vec<&str> = rest.split(':').collect();
        match kind {
            "r" => {
                let v = m.read(u64::from_str_radix(f[0], 16).unwrap(), f[1].parse().unwrap());
                out.push(format!("read {:x}/{}", v.bits, hk::width_str(v.width)));
            }
            "w" => {
                m.write(u64::from_str_radix(f[0], 16).unwrap(), u128::from_str_radix(f[1], 16).unwrap(), f[2].parse().unwrap());
            }
            _ => panic!("bad mem op"),
        }
    }
    out.push(format!("mem {}", mem_line(&hk::memory_bytes(&m))));
    out.push(format!("dump {}", hex_encode(hk::memory_dump(&m).as_bytes())));
}

// yo <filehex>: Memory::load_from_y86
fn cmd_yo(args: &[&str], out: &mut Vec<String>) {
    let data = hex_decode(args[0]);
    let mut reader = io::BufReader::new(&data[..]);
    let mut m = hk::Memory::new();
    match m.load_from_y86(&mut reader) {
        Ok(()) => out.push(format!("ok {}", mem_line(&hk::memory_bytes(&m)))),
        Err(e) => {
            let v = format!("{:?}", e);
            let variant: String = v.chars().take_while(|c| c.is_alphanumeric()).collect();
            out.push(format!("err {}", variant));
        }
    }
}

// region <prehex> <userhex> <start> <end>: FileContents::show_region and friends
fn cmd_region(args: &[&str], out: &mut Vec<String>) {
    let pre = text_arg(args[0]);
    let user = text_arg(args[1]);
    let start: usize = args[2].parse().unwrap();
    let end: usize = args[3].parse().unwrap();
    let fc = FileContents::new_from_data(&pre, &user, "F");
    out.push(format!("region {}", hex_encode(fc.show_region(start, end).as_bytes())));
}

// lex <texthex>
fn cmd_lex(args: &[&str], out: &mut Vec<String>) {
    let text = text_arg(args[0]);
    for item in hk::lex(&text, 100000) {
        match item {
            Ok((s, t, e)) => out.push(format!("tok {} {} {}", s, e, t)),
            Err(e) => out.push(format!("err {}", e)),
        }
    }
}

// parse <texthex> <with_spans 0|1>: the grammar alone (no preamble, no Program::new)
fn cmd_parse(args: &[&str], out: &mut Vec<String>) {
    let text = text_arg(args[0]);
    match hk::parse_statements(&text, args[1] == "1") {
        Ok(sts) => {
            for s in sts {
                out.push(format!("stmt {}", s));
            }
        }
        Err(es) => out.push(format!("err {}", es.join(" ; "))),
    }
}

// pexpr <texthex> <with_spans>
fn cmd_pexpr(args: &[&str], out: &mut Vec<String>) {
    let text = text_arg(args[0]);
    match hk::parse_expr(&text, args[1] == "1") {
        Ok(s) => out.push(format!("expr {}", s)),
        Err(es) => out.push(format!("err {}", es.join(" ; "))),
    }
}

// front <userhex> <render 0|1>: parse_y86_hcl with the real preamble, plus rendered diagnostics
fn cmd_front(args: &[&str], out: &mut Vec<String>) {
    let user = text_arg(args[0]);
    let contents = FileContents::new_from_data(hk::preamble(), &user, "input.hcl");
    out.push(format!("plen {}", hk::preamble().len()));
    if args[1] == "3" {
        match hk::parse_statements(contents.data(), false) {
            Ok(sts) => {
                for st in sts {
                    out.push(format!("stmt {}", st));
                }
            }
            Err(es) => out.push(format!("parseerr {}", es.join(" ; "))),
        }
    }
    match parse_y86_hcl(&contents) {
        Ok(p) => {
            if args[1] == "2" || args[1] == "3" {
                out.push(format!("accept {}", hk::compiled(&p)));
            } else {
                out.push(String::from("accept"));
            }
        }
        Err(e) => {
            out.push(format!("reject {}", errs(&e)));
            if args[1] != "0" {
                let mut text: Vec<u8> = Vec::new();
                e.format_for_contents(&mut text, &contents).unwrap();
                out.push(format!("render {}", hex_encode(&text)));
                // what the renderer read: the text, where the user's file begins, its name, every error with all its fields
                for item in hk::error_sexprs(&e) {
                    out.push(format!("errsexp {}", item));
                }
            }
        }
    }
}

fn cmd_tables(out: &mut Vec<String>) {
    out.push(format!("preamble {}", hex_encode(hk::preamble().as_bytes())));
    for f in hk::fixed_table() {
        out.push(format!("fixed {}", f));
    }
    let f = hk::features();
    out.push(format!("features {} {} {} {} {}", f[0] as u8, f[1] as u8, f[2] as u8, f[3] as u8, f[4] as u8));
    for (i, s) in hk::statuses().iter().enumerate() {
        out.push(format!("status {} {}", i, hex_encode(s.as_bytes())));
    }
    let (timeout, flags) = hk::run_defaults();
    let fl: Vec<String> = flags.iter().map(|b| (*b as u8).to_string()).collect();
    out.push(format!("rundefaults {} {}", timeout, fl.join(" ")));
    for i in 0..17u128 {
        // register and condition names as the disassembler prints them
        let (_, t) = hk::disassemble(0x20 | (i << 12) | (i << 8));
        out.push(format!("regname {} {}", i, hex_encode(t.as_bytes())));
    }
    out.push(format!("overflow_checks {}", cfg!(debug_assertions) as u8));
}

fn dispatch(cmd: &str, args: &[&str], out: &mut Vec<String>) {
    match cmd {
        "sim" => cmd_sim(args, out),
        "run" => cmd_run(args, out),
        "dis" => cmd_dis(args, out),
        "expr" => cmd_expr(args, out),
        "graph" => cmd_graph(args, out),
        "mem" => cmd_mem(args, out),
        "yo" => cmd_yo(args, out),
        "region" => cmd_region(args, out),
        "lex" => cmd_lex(args, out),
        "parse" => cmd_parse(args, out),
        "pexpr" => cmd_pexpr(args, out),
        "front" => cmd_front(args, out),
        "tables" => cmd_tables(out),
        _ => out.push(format!("unknown command {}", cmd)),
    }
}

fn main() {
    panic::set_hook(Box::new(|_| {}));
    let stdin = io::stdin();
    let stdout = io::stdout();
    let mut w = io::BufWriter::new(stdout.lock());
    let argv: Vec<String> = std::env::args().collect();
    if argv.len() > 1 && argv[1] == "tables" {
        let mut out = Vec::new();
        cmd_tables(&mut out);
        for l in out {
            writeln!(w, "{}", l).unwrap();
        }
        return;
    }
    for line in stdin.lock().lines() {
        let line = line.unwrap();
        let parts: Vec<&str> = line.split_whitespace().collect();
        if parts.len() < 2 {
            continue;
        }
        let id = parts[0];
        writeln!(w, "#BEGIN {}", id).unwrap();
        w.flush().unwrap();
        let mut out: Vec<String> = Vec::new();
        let result = panic::catch_unwind(AssertUnwindSafe(|| {
            dispatch(parts[1], &parts[2..], &mut out);
        }));
        for l in &out {
            writeln!(w, "{}", l).unwrap();
        }
        if let Err(p) = result {
            let msg = if let Some(s) = p.downcast_ref::<&str>() {
                String::from(*s)
            } else if let Some(s) = p.downcast_ref::<String>() {
                s.clone()
            } else {
                String::from("?")
            };
            writeln!(w, "PANIC {}", hex_encode(msg.as_bytes())).unwrap();
        }
        writeln!(w, "#END {}", id).unwrap();
    }
}
