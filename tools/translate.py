"""Translator: tables of the compiled implementation (`hclv tables`) and the precedence tiers of
src/parser.lalrpop -> coq/theories/Generated.v.  Re-run on every check; the theorems that
mention gen_* are therefore re-checked against what the code says now."""
import os
import re


def coq_string(b):
    """Coq term of type string for the bytes b (via a list of byte values)."""
    return "string_of_bytes [" + "; ".join(str(x) for x in b) + "]"


def sexp_parse(s):
    toks = re.findall(r'"[^"]*"|\(|\)|[^\s()]+', s)
    pos = [0]

    def item():
        t = toks[pos[0]]
        pos[0] += 1
        if t == "(":
            out = []
            while toks[pos[0]] != ")":
                out.append(item())
            pos[0] += 1
            return out
        if t.startswith('"'):
            return ("str", t[1:-1])
        return t
    return item()


def qs(s):
    return '"' + s.replace('"', '""') + '"'


def opt_name(x):
    return "None" if x == "-" else "Some %s" % qs(x)


def action_term(a):
    k = a[0]
    if k == "status":
        return "ASetStatus %s" % qs(a[1])
    if k == "rdmem":
        return "AReadMemory (%s) %s %s %s %s" % (opt_name(a[1]), qs(a[2]), qs(a[3]), a[4], "true" if a[5] == "1" else "false")
    if k == "wrmem":
        return "AWriteMemory (%s) %s %s %s" % (opt_name(a[1]), qs(a[2]), qs(a[3]), a[4])
    if k == "rdreg":
        return "AReadReg %s %s" % (qs(a[1]), qs(a[2]))
    if k == "wrreg":
        return "AWriteReg %s %s" % (qs(a[1]), qs(a[2]))
    raise ValueError("unexpected action in fixed table: %r" % (a,))


BINOP_NAMES = {
    '"+"': "Add", '"-"': "Sub", '"*"': "Mul", '"/"': "Div", '"|"': "Or", '"^"': "Xor", '"&"': "And",
    '"=="': "Equal", '"!="': "NotEqual", '"<="': "LessEqual", '">="': "GreaterEqual", '"<"': "Less",
    '">"': "Greater", '"&&"': "LogicalAnd", '"||"': "LogicalOr", '"<<"': "LeftShift", '">>"': "RightShift",
}


def scrape_tiers(repo):
    """Precedence chain of parser.lalrpop, loosest first:
    list of (kind, [ops]) with kind in left / nonassoc / in.  None if the file cannot be read this way."""
    try:
        text = open(os.path.join(repo, "src", "parser.lalrpop")).read()
    except OSError:
        return None
    text = re.sub(r"//[^\n]*", "", text)
    ops = {}
    for m in re.finditer(r"(BinOp\w+)\s*:\s*BinOpCode\s*=\s*\{(.*?)\};", text, re.S):
        lst = []
        for tok, code in re.findall(r'("[^"]+")\s*=>\s*BinOpCode::(\w+)', m.group(2)):
            lst.append((tok, code))
        ops[m.group(1)] = lst
    tiers = {}
    for m in re.finditer(r"(Expr\w+)\s*=\s*(BinTier|BinTierNonAssoc)<\s*(\w+)\s*,\s*(\w+)\s*>\s*;", text):
        tiers[m.group(1)] = (("left" if m.group(2) == "BinTier" else "nonassoc"), m.group(3), m.group(4))
    m = re.search(r"ExprIn\s*:\s*SpannedExpr\s*=\s*\{(.*?)\n\};", text, re.S)
    if not m:
        return None
    body = m.group(1)
    mm = re.search(r'<e:(\w+)>\s*"in"\s*"\{"', body)
    if not mm:
        return None
    in_next = mm.group(1)
    if not re.search(r",\s*\n\s*" + in_next + r"\s*$", body.rstrip() + "\n".rstrip()) and in_next not in body:
        return None
    m = re.search(r"pub Expr\s*:\s*SpannedExpr\s*=\s*\{(.*?)\n\};", text, re.S)
    if not m:
        return None
    top = re.findall(r"^\s*(Expr\w+),", m.group(1), re.M)
    if len(top) != 1:
        return None
    chain = []
    cur = top[0]
    seen = set()
    while cur not in seen:
        seen.add(cur)
        if cur in tiers:
            kind, opname, nxt = tiers[cur]
            if opname not in ops:
                return None
            chain.append((kind, [c for _, c in ops[opname]], [t for t, _ in ops[opname]]))
            cur = nxt
        elif cur == "ExprIn":
            chain.append(("in", [], []))
            cur = in_next
        elif cur == "Term":
            break
        else:
            return None
    # token <-> opcode pairing must be the conventional one
    for kind, codes, toks in chain:
        for t, c in zip(toks, codes):
            if BINOP_NAMES.get(t) != c:
                chain.append(("mispaired", [c], [t]))
    return chain


def scrape_lexer(repo):
    """The punctuation and keyword tables of lexer.rs as written in `Lexer::next` /
    `resolve_identifier`:  (simple, special, keywords) with
      simple   = [(char, token, [(second char, token), ...])]   ('x' => simple_token / choose_token)
      special  = [char]            ('x' => { ... } arms handled by code: comments, '..')
      keywords = [(word, token)]
    None if the file cannot be read this way."""
    try:
        text = open(os.path.join(repo, "src", "lexer.rs")).read()
    except OSError:
        return None
    m = re.search(r"let result = match c \{(.*?)\n                    \};", text, re.S)
    if not m:
        return None
    body = m.group(1)
    simple, special = [], []
    seen = set()
    # arms at the nesting depth of the match: lines starting with exactly 24 blanks
    arms = re.findall(r"^ {24}('(?:\\.|[^'])'|_) => (.*)$", body, re.M)
    if not arms or arms[-1][0] != "_":
        return None
    for pat, rest in arms[:-1]:
        ch = pat[1:-1]
        if len(ch) != 1 or ord(ch) >= 128 or ch in seen:
            return None
        seen.add(ch)
        m1 = re.fullmatch(r"simple_token\(i, Tok::(\w+)\),", rest.strip())
        m2 = re.fullmatch(r"self\.choose_token\(i, Tok::(\w+), &\[(.*)\]\),", rest.strip())
        if m1:
            simple.append((ch, m1.group(1), []))
        elif m2:
            alts = re.findall(r"\('(.)', Tok::(\w+)\)", m2.group(2))
            if len(alts) != m2.group(2).count("Tok::"):
                return None
            simple.append((ch, m2.group(1), alts))
        elif rest.strip().startswith("{"):
            special.append(ch)
        else:
            return None
    m = re.search(r"fn resolve_identifier.*?match name \{(.*?)\n        \}", text, re.S)
    if not m:
        return None
    kws = re.findall(r'^\s*"(\w+)" => Tok::(\w+),\s*$', m.group(1), re.M)
    other = [l for l in m.group(1).split("\n") if l.strip() and not re.match(r'^\s*"(\w+)" => Tok::(\w+),\s*$', l)]
    if len(other) != 1 or other[0].strip() != "_ => Tok::Identifier(name),":
        return None
    return simple, special, kws


def scrape_cli(repo):
    """main.rs: the option table (optflag calls, in order), the early exits, the (flag, RunOptions setter)
    pairs in the order main_real applies them, and the default timeout.  None if main.rs cannot be read this way."""
    try:
        text = open(os.path.join(repo, "src", "main.rs")).read()
    except OSError:
        return None
    m = re.search(r"fn main_real\(\).*?\n\}\n", text, re.S)
    if not m:
        return None
    body = m.group(0)
    decls = re.findall(r"^\s*opts\.(\w+)\((.*)\);$", body, re.M)
    if len(decls) != len(re.findall(r"\bopts\.opt", body)):
        return None
    flags = []
    for kind, args in decls:
        if kind == "parse":
            continue
        a = re.fullmatch(r'\s*"([^"]*)"\s*,\s*"([^"]*)"\s*,\s*"[^"]*"\s*', args)
        if kind != "optflag" or not a:
            return None
        flags.append((a.group(1), a.group(2)))
    early = re.findall(r'if parsed_opts\.opt_present\("([^"]+)"\) \{\n(?:[^{}]|\{[^{}]*\})*?return Ok\(true\);\n\s*\}', body)
    effects = re.findall(r'if parsed_opts\.opt_present\("([^"]+)"\) \{\n\s*run_options\.(\w+)\([^;]*\);\n\s*\}', body)
    others = re.findall(r'let (\w+) = parsed_opts\.opt_present\("([^"]+)"\);', body)
    n_present = len(re.findall(r'opt_present\(', body))
    if n_present != len(early) + len(effects) + len(others):
        return None
    m = re.search(r"\} else \{\n\s*(\d+)\n\s*\};\n\s*run_options\.set_timeout\(timeout\);", body)
    if not m:
        return None
    return flags, early, effects, others, int(m.group(1))

def translate(tables_text, repo):
    pre = b""
    fixed = []
    feats = None
    statuses = {}
    rundef = None
    for line in tables_text.split("\n"):
        f = line.split(" ", 1)
        if f[0] == "preamble":
            pre = bytes.fromhex(f[1]) if f[1] != "-" else b""
        elif f[0] == "fixed":
            fixed.append(sexp_parse(f[1]))
        elif f[0] == "features":
            feats = [x == "1" for x in f[1].split()]
        elif f[0] == "status":
            i, h = f[1].split()
            statuses[int(i)] = bytes.fromhex(h)
        elif f[0] == "rundefaults":
            rundef = f[1].split()
    out = []
    out.append("(* GENERATED by tools/translate.py from /repo's compiled tables - do not edit. *)")
    out.append("From HclV Require Import Base Expr Machine.")
    out.append("Open Scope string_scope.")
    out.append("Open Scope N_scope.")
    out.append("")
    out.append("Definition gen_preamble : string := %s." % coq_string(pre))
    out.append("")
    out.append("Definition gen_fixed : list fixed_fn := [")
    rows = []
    for fx in fixed:
        # (fixed "name" (ins (n w)...) (out (n w)|-) (enable x) (mandatory b) action)
        name = fx[1][1]
        ins = "; ".join("(%s, %s)" % (qs(n), w) for n, w in fx[2][1:])
        o = fx[3][1]
        outw = "None" if o == "-" else "Some (%s, %s)" % (qs(o[0]), o[1])
        en = opt_name(fx[4][1])
        mand = "true" if fx[5][1] == "1" else "false"
        rows.append("  {| ff_name := %s; ff_ins := [%s]; ff_out := %s; ff_enable := %s;\n     ff_mandatory := %s; ff_action := %s |}"
                    % (qs(name), ins, outw, en, mand, action_term(fx[6])))
    out.append(";\n".join(rows))
    out.append("].")
    out.append("")
    b = lambda x: "true" if x else "false"
    out.append("(* strict-boolean-ops, strict-wire-widths-binary, require-mux-default, "
               "disallow-multiple-mux-default, disallow-unreachable-options *)")
    out.append("Definition gen_features : features := {| f_sbo := %s; f_swb := %s; f_rmd := %s; f_dmd := %s; f_duo := %s |}."
               % tuple(b(x) for x in feats))
    out.append("")
    out.append("Definition gen_statuses : list string := [%s]." %
               "; ".join(coq_string(statuses[i]) for i in sorted(statuses)))
    out.append("")
    out.append("Definition gen_timeout : N := %s." % rundef[0])
    out.append("(* trace_assignments, trace_fixed_functionality, show_wire_values, group_wire_values,")
    out.append("   show_register_banks_with_registers, show_registers_and_memory, show_disassembly *)")
    out.append("Definition gen_run_flags : list bool := [%s]." % "; ".join(b(x == "1") for x in rundef[1:]))
    out.append("")
    tiers = scrape_tiers(repo)
    if tiers is None:
        out.append("(* parser.lalrpop could not be scraped: tiers unavailable *)")
        out.append("Definition gen_tiers : option (list (tier_kind * list binop)) := None.")
    else:
        rows = []
        for kind, codes, _ in tiers:
            k = {"left": "KLeft", "nonassoc": "KNonAssoc", "in": "KIn"}.get(kind, "KBad")
            rows.append("(%s, [%s])" % (k, "; ".join(codes)))
        out.append("(* loosest tier first *)")
        out.append("Definition gen_tiers : option (list (tier_kind * list binop)) := Some [\n  %s]." % ";\n  ".join(rows))
    out.append("")
    lx = scrape_lexer(repo)
    out.append("(* lexer.rs: punctuation arms of Lexer::next (character, token, [(second character, token)]), the")
    out.append("   characters handled by code ('#', '/', '.'), and the keywords of resolve_identifier *)")
    if lx is None:
        out.append("Definition gen_lex_simple : option (list (N * string * list (N * string))) := None.")
        out.append("Definition gen_lex_special : option (list N) := None.")
        out.append("Definition gen_keywords : option (list (string * string)) := None.")
    else:
        simple, special, kws = lx
        out.append("Definition gen_lex_simple : option (list (N * string * list (N * string))) := Some [\n  %s]." % ";\n  ".join(
            "(%d, %s, [%s])" % (ord(c), qs(t), "; ".join("(%d, %s)" % (ord(d), qs(t2)) for d, t2 in alts)) for c, t, alts in simple))
        out.append("Definition gen_lex_special : option (list N) := Some [%s]." % "; ".join(str(ord(c)) for c in special))
        out.append("Definition gen_keywords : option (list (string * string)) := Some [%s]." % "; ".join("(%s, %s)" % (qs(w), qs(t)) for w, t in kws))
    out.append("")
    ver = None
    try:
        mm = re.search(r'^\[package\]\n(?:[^\[]*\n)*?version = "([^"]+)"', open(os.path.join(repo, "Cargo.toml")).read(), re.M)
        ver = mm.group(1) if mm else None
    except OSError:
        pass
    out.append("(* Cargo.toml: [package] version (printed by --version) *)")
    out.append("Definition gen_package_version : option string := %s." % ("Some " + qs(ver) if ver else "None"))
    out.append("")
    cl = scrape_cli(repo)
    out.append("(* main.rs, main_real: the optflag table (short name, long name) in order; the options that end the")
    out.append("   program at once, in the order tested; (option, RunOptions setter) in the order applied; the options")
    out.append("   read into a variable; the timeout used when the third argument is absent *)")
    if cl is None:
        out.append("Definition gen_cli_flags : option (list (string * string)) := None.")
        out.append("Definition gen_cli_early : option (list string) := None.")
        out.append("Definition gen_cli_effects : option (list (string * string)) := None.")
        out.append("Definition gen_cli_others : option (list (string * string)) := None.")
        out.append("Definition gen_cli_default_timeout : option N := None.")
    else:
        flags, early, effects, others, dflt = cl
        pairs = lambda l: "; ".join("(%s, %s)" % (qs(a), qs(b)) for a, b in l)
        out.append("Definition gen_cli_flags : option (list (string * string)) := Some [%s]." % pairs(flags))
        out.append("Definition gen_cli_early : option (list string) := Some [%s]." % "; ".join(qs(x) for x in early))
        out.append("Definition gen_cli_effects : option (list (string * string)) := Some [%s]." % pairs(effects))
        out.append("Definition gen_cli_others : option (list (string * string)) := Some [%s]." % pairs(others))
        out.append("Definition gen_cli_default_timeout : option N := Some %d." % dflt)
    out.append("")
    return "\n".join(out)
