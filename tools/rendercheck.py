"""The model of Error::format_for_contents (Diag.render_all, extracted) against the real renderer:
the harness's `front` answer carries the text the real renderer wrote (`render`) and every error with
all its fields (`errsexp`, hook error_sexprs); the model renders those errors over the same file
contents (compiled preamble ++ user text, file name input.hcl) and must write the same bytes.
Also: the spans the hook lists for each error (`reject` line) equal the model's hook_spans."""
import lib

_PREAMBLE = {}


def preamble_hex():
    if "hex" not in _PREAMBLE:
        rc, out = lib.run([lib.build_harness("dev"), "tables"])
        for line in out.split("\n"):
            if line.startswith("preamble "):
                _PREAMBLE["hex"] = line.split(" ", 1)[1].strip()
        if "hex" not in _PREAMBLE:
            raise lib.BuildError("hclv tables printed no preamble")
    return _PREAMBLE["hex"]


def compare(report, texts, impl, key_prefix, ids=None, limit=None):
    """texts: {case id: user text}; impl: blocks of `front <hex> 1`.  Returns (#compared, #variants seen)."""
    pre = preamble_hex()
    if pre == "-":
        pre = ""
    lines, want = [], {}
    for cid in (ids if ids is not None else sorted(texts)):
        blk = impl.get(cid, [])
        rend = [l for l in blk if l.startswith("render ")]
        errs = [l[8:] for l in blk if l.startswith("errsexp ")]
        if not rend or not errs:
            continue
        if any(e.startswith(("(IoError", "(FmtError")) for e in errs):
            continue
        if limit is not None and len(lines) >= limit:
            break
        rej = [l for l in blk if l.startswith("reject ")]
        want[cid] = (rend[0][7:], errs, rej[0][7:] if rej else "")
        lines.append("%s mrender %s %s %s %s" % (cid, pre or "-", lib.hexs(texts[cid]) or "-", lib.hexs("input.hcl"),
                                              " ".join(lib.hexs(e) for e in errs)))
    model = lib.run_cases(lib.build_driver(), lines)
    variants = set()
    for cid, (rhex, errs, rej) in want.items():
        blk = model.get(cid, ["MISSING"])
        variants.update(e[1:].split(" ")[0].rstrip(")") for e in errs)
        m = [l for l in blk if l.startswith("render ")]
        rep = {"text": texts[cid][:3000], "errors": errs[:8], "impl_render": bytes.fromhex(rhex.replace("-", "")).decode("utf-8", "replace")[:1500],
               "model": [l[:300] for l in blk[:4]]}
        if not m:
            report.broken.append({"what": "the model renderer gave no answer", "detail": rep})
            return len(want), len(variants)
        got = m[0][7:]
        if got == "none":
            report.violation(key_prefix + "-render-would-panic", "the model says rendering this error panics (slicing off a character boundary, "
                             "missing width, malformed token string) although the real renderer wrote a text", rep)
            continue
        if got.replace("-", "") != rhex.replace("-", ""):
            rep["model_render"] = bytes.fromhex(got.replace("-", "")).decode("utf-8", "replace")[:1500]
            report.violation(key_prefix + "-render-differs-from-model", "the diagnostic text differs from the model of format_for_contents: %s"
                             % lib.first_diff(rep["impl_render"].split("\n"), rep["model_render"].split("\n"))[:200], rep)
            continue
        # spans: `Kind|names|s:e,s:e` items of the reject line, in order, against hook_spans
        items = [x.split("|") for x in rej.split(" ; ")] if rej else []
        mspans = [l[6:] for l in blk if l.startswith("spans")]
        ispans = [it[2] if len(it) > 2 else "" for it in items]
        if len(ispans) == len(mspans) and [x.strip() for x in ispans] != [x.strip() for x in mspans]:
            report.violation(key_prefix + "-error-spans-differ-from-model", "the spans attached to the errors differ from the model's: %r vs %r" % (ispans[:4], mspans[:4]), rep)
    return len(want), len(variants)
