"""C18 - debug and quiet options change what is printed, never what is simulated."""
import itertools
import random
import re
import collections
import gen, histgen, lib, simcheck

OPTS = "qdtua"


def table_rows(text):
    """rows 'name  0x..' of the -d tables in one cycle's output"""
    rows = []
    for line in text.split("\n"):
        m = re.match(r"^(\S+)\s+0x([0-9a-f]+)$", line)
        if m:
            rows.append((m.group(1), m.group(2)))
    return rows


def check(report, tier, seed):
    rng = random.Random(seed)
    nprog, cycles = (12, 4) if tier == "quick" else (120, 6)
    subsets = ["".join(s) or "-" for r in range(6) for s in itertools.combinations(OPTS, r)]
    progs = []
    for i in range(nprog):
        g = gen.ProgGen(rng, n_wires=rng.randint(3, 10), depth=rng.randint(1, 3), allow_div=False, wide_names=True,
                        halt_at=rng.choice([None, 2, 3]))
        progs.append((g.build(), gen.yo_image(rng, 10 * cycles + 30), g))
    # histories in which a built-in port is switched off after delivering data (its output must not go stale
    # under some options only), and register-file / bank activity
    for mk in (lambda r: histgen.mem_program(r, False), lambda r: histgen.mem_program(r, False), lambda r: histgen.mem_program(r, False),
               lambda r: histgen.mem_program(r, True), histgen.regfile_program, lambda r: histgen.bank_program(r)[0]):
        progs.append((mk(rng), gen.yo_image(rng, 10 * 12 + 30), None))
    # register banks whose entries do not fit a dump line (a long name next to many hex digits): the bank lines are
    # exactly what -t leaves out, so nothing about them may influence the run
    for _ in range(2):
        n1 = "instruction_bytes_as_fetched_in_the_previous_cycle" + "_x" * rng.randint(0, 12)
        n2 = "w" + "y" * rng.randint(30, 70)
        progs.append(("\n".join(["register pP { pc : 64 = 0; }", "p_pc = P_pc + 10;", "pc = P_pc;",
                                 "register fD { pc : 64 = 0; %s : 80 = 0; %s : 128 = 1; short : 3 = 2; }" % (n1, n2),
                                 "f_pc = P_pc;", "f_%s = i10bytes;" % n1, "f_%s = (i10bytes .. (P_pc)[0..48]);" % n2, "f_short = (D_short + 1);",
                                 "Stat = [ P_pc == %d : STAT_HLT; 1 : STAT_AOK ];" % (10 * rng.randint(1, 3))]) + "\n",
                      gen.yo_image(rng, 80), None))
    # a decoder-like program marching over an image whose instruction bytes take EVERY value of the
    # first byte (all opcodes and function codes, valid or not): code that only runs under some
    # options (the disassembler, the component messages) must not influence the run
    allop = "\n".join(["register pP { pc : 64 = 0; }", "p_pc = P_pc + 10;", "pc = P_pc;",
                       "Stat = [ (i10bytes)[4..8] > 11 : STAT_INS; P_pc == 2550 : STAT_HLT; 1 : STAT_AOK ];",
                       "reg_srcA = (i10bytes)[12..16];", "reg_dstE = (i10bytes)[8..12];", "reg_inputE = reg_outputA + (i10bytes)[16..80];"]) + "\n"
    order = list(range(256))
    rng.shuffle(order)
    order.sort(key=lambda b: (b >> 4) > 11)          # valid opcodes first: the run ends at the first invalid one
    for variant in range(2):
        seq = order if variant == 0 else [b for b in order if (b >> 4) <= 11]
        img = b"".join(bytes([b]) + bytes(rng.getrandbits(8) for _ in range(9)) for b in seq)
        yo = "\n".join(gen.yo_line(10 * k, img[10 * k:10 * k + 10]) for k in range(len(seq))) + "\n"
        progs.append((allop, yo, "allop"))
    nprog = len(progs)
    # 1. RunningProgram::run under all 32 subsets: text against the model, final state across subsets
    cases = {}
    for i, (hcl, yo, g) in enumerate(progs):
        for j, fl in enumerate(subsets):
            if g == "allop" and fl not in ("-", "q", "d", "t", "qd", "qt", "a", "du"):
                continue
            cases["o%d_%d" % (i, j)] = {"hcl": hcl, "yo": yo, "flags": fl, "timeout": 300 if g == "allop" else cycles if g is not None else 12}
    impl, model, stats = simcheck.run_sim_cases(report, cases, kind="run", key_prefix="options")
    for i in range(nprog):
        ref = None
        for j, fl in enumerate(subsets):
            blk = impl.get("o%d_%d" % (i, j), [])
            state = [l for l in blk if l.startswith(("values ", "regs ", "mem ", "flags ", "run "))]
            dump = [l for l in blk if l.startswith("dump ")]
            if not state or not dump:
                continue
            text = bytes.fromhex(dump[0][5:]).decode()
            if "t" in fl:
                if "register " in text:
                    report.violation("option-t-shows-banks", "-t still prints register banks", {"case": cases["o%d_%d" % (i, j)]})
            no_banks = "\n".join(l for l in text.split("\n") if not l.startswith(("| register", "|  ")) or l.startswith("|  0x"))
            key = (state, None)
            if ref is None:
                ref = (fl, state, text)
            elif state != ref[1]:
                report.violation("option-steers-simulation", "final state under options %s differs from that under %s: %s" % (fl, ref[0], lib.first_diff(ref[1], state)[:200]),
                                 {"case": cases["o%d_%d" % (i, j)], "other": ref[0]})
    # 2. step by step with -d: every table row against the wire's value in that cycle
    scases = {}
    for i, (hcl, yo, g) in enumerate(progs):
        for fl in ("d", "du"):
            if g == "allop":
                continue
            scases["d%d_%s" % (i, fl)] = {"hcl": hcl, "yo": yo, "cycles": cycles if g is not None else 12, "flags": fl, "timeout": 9999}
    simpl, smodel, sstats = simcheck.run_sim_cases(report, scases, key_prefix="debug-table")
    rows_checked = 0
    for cid, c in scases.items():
        blk = simpl.get(cid, [])
        comp = [l for l in blk if l.startswith("compiled ")]
        init, cyc = histgen.parse_trace(blk)
        consts = set(re.findall(r"\((\w+) \d+ \w+\)", comp[0].split("(banks")[0])) if comp else set()
        for k, cy in enumerate(cyc):
            if "post" not in cy or "out" not in cy:
                continue
            rows = table_rows(cy["out"])
            seen = collections.Counter(n for n, _ in rows)
            for name, hx in rows:
                rows_checked += 1
                # bank outputs are shown before the clock edge
                val = cy["pre"].get(name) if len(name) > 1 and name[0].isupper() and name[1] == "_" and name in cy["pre"] else cy["post"].get(name)
                if val is None:
                    report.violation("table-unknown-wire", "cycle %d: table lists %s which has no value" % (k, name), {"case": c})
                    continue
                bits, w = val
                wd = 64 if w is None else w
                if int(hx, 16) != bits or len(hx) != max((wd + 3) // 4, 0) and not (wd == 0 and hx == ""):
                    if not (len(hx) >= (wd + 3) // 4 and int(hx, 16) == bits and wd == 0):
                        report.violation("table-wrong-value", "cycle %d: %s printed as 0x%s, value %x width %s" % (k, name, hx, bits, w), {"case": c})
                if seen[name] > 1:
                    report.violation("table-duplicate-row", "cycle %d: %s listed %d times" % (k, name, seen[name]), {"case": c})
                if name in consts:
                    report.violation("table-lists-constant", "cycle %d: constant %s listed" % (k, name), {"case": c})
            # every assigned wire appears
            assigned = set(re.findall(r"\(assign (\S+) ", comp[0])) if comp else set()
            missing = assigned - set(seen) - consts
            if missing:
                report.violation("table-missing-wire", "cycle %d: assigned wires %s missing from the table" % (k, sorted(missing)[:4]), {"case": c})
    report.coverage["evaluations"] = len(cases) + len(scases)
    report.coverage["distinct_nontrivial"] = nprog * len(subsets)
    report.coverage["exhaustive"] = True
    report.coverage["rule"] = ("%d programs (wide and long-named wires, banks, halting or timing out; two of them fetch every possible first instruction byte) x all 32 subsets of -q -d -t --ungroup-debug-wires "
                               "--trace-assignments through RunningProgram::run: output text equal to the model's, final state equal across subsets; "
                               "plus step-by-step -d runs where every table row (%d rows) is compared with the wire's value of that cycle" % (nprog, rows_checked))
    report.coverage["distribution"] = dict(stats, table_rows=rows_checked)
    report.coverage["samples"] = [progs[0][0][:500]]
