"""C01 - each cycle's wire values are a consistent, order-independent settlement."""
import random
import collections
import gen
import lib
import simcheck


def make_cases(rng, n, cycles, **kw):
    cases = {}
    for i in range(n):
        g = gen.ProgGen(rng, n_wires=rng.randint(3, 14), depth=rng.randint(1, 4), allow_div=rng.random() < 0.15, **kw)
        hcl = g.build()
        cases["s%d" % i] = {"hcl": hcl, "yo": gen.yo_image(rng, 10 * cycles + 40), "cycles": cycles,
                            "flags": "-", "timeout": 9999}
    return cases


def check(report, tier, seed):
    rng = random.Random(seed)
    n, cycles = (250, 5) if tier == "quick" else (4000, 8)
    cases = make_cases(rng, n, cycles)
    impl, model, stats = simcheck.run_sim_cases(report, cases, key_prefix="settle")
    report.coverage["evaluations"] = len(cases)
    report.coverage["distinct_nontrivial"] = len(set(c["hcl"] for c in cases.values()))
    report.coverage["rule"] = "random accepted programs (ProgGen) x %d cycles; distinct = distinct program texts" % cycles
    report.coverage["distribution"] = stats
    report.coverage["samples"] = [list(cases.values())[0]["hcl"][:600]]
