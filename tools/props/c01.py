"""C01 - each cycle's wire values are a consistent, order-independent settlement.

Tie: (i) every schedule the implementation produces for a program - fetched through the hook
`compiled` after r independent parse_y86_hcl calls, each with freshly seeded hash tables - is
validated by the extracted predicate valid_schedule, the premise of the settlement and
order-independence theorems; (ii) the compiled program equals the model's build_program up to the
order of the actions; (iii) per-cycle wire values, registers and memory equal the model's."""
import random
import collections
import buildcheck, gen, lib, simcheck


def make_cases(rng, n, cycles, **kw):
    cases = {}
    for i in range(n):
        g = gen.ProgGen(rng, n_wires=rng.randint(3, 14), depth=rng.randint(1, 4), allow_div=rng.random() < 0.15, **kw)
        hcl = g.build()
        cases["s%d" % i] = {"hcl": hcl, "yo": gen.yo_image(rng, 10 * cycles + 40), "cycles": cycles,
                            "flags": "-", "timeout": 9999}
    return cases


def deep_program(rng):
    """Long dependency chains and diamonds through the built-in ports, statements reversed."""
    depth = rng.randint(10, 40)
    st = ["register pP { pc : 64 = 0; }", "p_pc = P_pc + 10;", "pc = P_pc;", "Stat = STAT_AOK;",
          "reg_srcA = (i10bytes)[0..4];", "mem_addr = (reg_outputA + c0);", "mem_readbit = 1;", "mem_writebit = 0;", "mem_input = c0;",
          "reg_srcB = (mem_output)[4..8];", "wire c0 : 64;", "c0 = (i10bytes)[8..72];"]
    prev = ["reg_outputB", "mem_output", "c0"]
    for i in range(1, depth):
        a, b = rng.choice(prev), rng.choice(prev)
        st.append("wire c%d : 64;" % i)
        st.append("c%d = (%s %s %s);" % (i, a, rng.choice(["+", "^", "-", "&", "|"]), b))
        prev.append("c%d" % i)
        if len(prev) > 6:
            prev.pop(0)
    st.append("reg_dstE = (c%d)[0..4];" % (depth - 1))
    st.append("reg_inputE = c%d;" % (depth - 1))
    st.reverse() if rng.random() < 0.5 else rng.shuffle(st)
    return "\n".join(st) + "\n"


def check(report, tier, seed):
    rng = random.Random(seed)
    n, cycles, reps = (200, 5, 4) if tier == "quick" else (3000, 8, 12)
    cases = make_cases(rng, n, cycles)
    for i in range(n // 5):
        cases["d%d" % i] = {"hcl": deep_program(rng), "yo": gen.yo_image(rng, 10 * cycles + 40), "cycles": cycles, "flags": "-", "timeout": 9999}
    # a pc that stays put or creeps while the data port stores at, inside, just below and just above the
    # fetched bytes (and a data address from a tiny set): the built-in outputs must follow memory
    import histgen
    for i in range(n // 8):
        cases["m%d" % i] = {"hcl": histgen.mem_program(rng, True), "yo": gen.yo_image(rng, 120), "cycles": 3 * cycles, "flags": "-", "timeout": 9999}
    impl, model, stats = simcheck.run_sim_cases(report, cases, key_prefix="settle")
    # schedules under fresh hash seeds
    bcases = {}
    for cid, c in cases.items():
        for r in range(reps):
            bcases["%s_%d" % (cid, r)] = {"hcl": c["hcl"]}
    verdicts, bstats = buildcheck.run_build_cases(report, bcases, key_prefix="schedule")
    orders = collections.defaultdict(set)
    for bid, v in verdicts.items():
        if v and v[0] == "accept":
            orders[bid.rsplit("_", 1)[0]].add(v[1])
    distinct = sum(len(s) for s in orders.values())
    report.coverage["evaluations"] = len(cases) + len(bcases)
    report.coverage["distinct_nontrivial"] = distinct
    report.coverage["rule"] = ("random accepted programs (ProgGen) and deep chains/diamonds through register file, data memory and instruction memory, "
                               "statements shuffled or reversed, x %d cycles vs the model; each program compiled %d times under fresh hash seeds and every "
                               "schedule validated by the extracted valid_schedule; distinct = distinct (program, action order) pairs seen" % (cycles, reps))
    report.coverage["distribution"] = dict(stats, **{"build_" + k: v for k, v in bstats.items()},
                                           programs_with_several_orders=sum(1 for s in orders.values() if len(s) > 1))
    report.coverage["samples"] = [list(cases.values())[0]["hcl"][:600]]
