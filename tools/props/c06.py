"""C06 - a run stops exactly at the first non-OK status or at the timeout, and says which."""
import itertools
import random
import re
import collections
import os
import shutil
import subprocess
import tempfile
import gen, histgen, lib, simcheck


def interactive_part(report, rng, tier):
    """The real binary with -i: the prompt between cycles must not change where the run stops nor what
    the final report says, whatever standard input holds (nothing, fewer lines than cycles, more)."""
    cli = lib.build_cli("dev")
    tmp = tempfile.mkdtemp(prefix="hclv-c06-")
    n = 0
    try:
        yo = os.path.join(tmp, "m.yo")
        with open(yo, "w") as fh:
            fh.write(gen.yo_line(0, b"\x00") + "\n")
        for i in range(10 if tier == "quick" else 120):
            L = rng.randint(1, 7)
            seq = [rng.choice([0, 1]) for _ in range(L)] + [rng.choice([0, 1, 2, 2, 3, 4, 5, 6, 7])]
            t = rng.choice([1, 2, L, L + 1, L + 2, 12])
            want_cycles, want_kind = histgen.stat_spec(seq, t)
            hcl = os.path.join(tmp, "p%d.hcl" % i)
            with open(hcl, "w") as fh:
                fh.write(histgen.stat_program(seq))
            flags = rng.choice([["-q"], [], ["-t"]])
            targ = rng.choice([str(t), str(t), "0%d" % t, "%04d" % t, "+%d" % t])      # the timeout is a DECIMAL numeral, however it is padded
            base = subprocess.run([cli] + flags + [hcl, yo, targ], capture_output=True, timeout=60, stdin=subprocess.DEVNULL)
            for k in sorted({0, 1, want_cycles // 2, want_cycles + 3}):
                opt = rng.choice(["-i", "--interactive"])
                answers = b"".join(rng.choice([b"\n", b"\n", b"\n", b"next\n", b"\xff\xfe\n", b"\r\n"]) for _ in range(k))
                r = subprocess.run([cli, opt] + flags + [hcl, yo, targ], capture_output=True, timeout=60, input=answers)
                n += 1
                out = b"".join(l for l in r.stdout.splitlines(True) if l.strip() != b"(press enter to continue)")
                prompts = r.stdout.count(b"(press enter to continue)")
                rep = {"hcl": open(hcl).read(), "seq": seq, "timeout": t, "flags": flags + [opt], "stdin_lines": k, "stdin_hex": answers.hex(),
                       "expected_cycles": want_cycles, "expected_kind": want_kind,
                       "exit": r.returncode, "exit_without_i": base.returncode,
                       "stdout": r.stdout.decode("utf-8", "replace")[-1500:], "stdout_without_i": base.stdout.decode("utf-8", "replace")[-1500:],
                       "stderr": r.stderr.decode("utf-8", "replace")[-500:]}
                if r.returncode != base.returncode or out != base.stdout:
                    report.violation("run-interactive-differs", "with %s and %d line(s) on standard input the run ends differently than without the prompt "
                                     "(Stat sequence %s, timeout %d: %d cycles, %s expected)" % (opt, k, seq, t, want_cycles, want_kind), rep)
                    break
                if prompts > want_cycles:
                    report.violation("run-interactive-differs", "%d prompts for a run of %d cycles" % (prompts, want_cycles), rep)
                    break
            m = re.search(rb"Cycles run: (\d+)", base.stdout)
            m2 = re.search(rb"timed out after\s+(\d+) cycles", base.stdout)
            got = int(m.group(1)) if m else int(m2.group(1)) if m2 else None
            if got is not None and got != want_cycles:
                report.violation("run-cycles", "the binary reports %d cycles, the property says %d (Stat sequence %s, timeout %d)" % (got, want_cycles, seq, t),
                                 {"hcl": open(hcl).read(), "stdout": base.stdout.decode("utf-8", "replace")[-1500:]})
    finally:
        shutil.rmtree(tmp, ignore_errors=True)
    return n


def long_part(report, rng, tier):
    """Runs that really last more than 2^16 / 10^5 cycles (a cycle budget clamped, narrowed or reset on the way is
    invisible in short runs): a counter that halts in cycle H+1, under budgets just below, at and above H+1."""
    cases, spec = {}, {}
    hs = [70000, 100001] if tier == "quick" else [65535, 65536, 70000, 99999, 100001, 131072, 262144]
    k = 0
    for h in hs:
        for t in sorted({h - 1, h + 1, h + 5, 99999, 100000, 131073}):
            if tier == "quick" and rng.random() < 0.4:
                continue
            cid = "L%d" % k
            k += 1
            hcl = "register cC { n : 32 = 0; }\nc_n = C_n + 1;\npc = 0;\nStat = [ C_n == %d : STAT_HLT; C_n > %d : STAT_INS; 1 : %s; ];\n" % (h, h, rng.choice(["STAT_AOK", "STAT_AOK", "[ (C_n)[3..4] == 1 : STAT_BUB; 1 : STAT_AOK ]"]))
            cases[cid] = {"hcl": hcl, "yo": gen.yo_line(0, b"\x00") + "\n", "flags": "q", "timeout": t}
            spec[cid] = (min(t, h + 1), "halted" if h + 1 <= t else "timeout", h, t)
    impl, model, stats = simcheck.run_sim_cases(report, cases, kind="run", key_prefix="longrun")
    for cid, (want_cycles, want_kind, h, t) in spec.items():
        blk = impl.get(cid, [])
        fl = [l for l in blk if l.startswith("flags ")]
        dump = [l for l in blk if l.startswith("dump ")]
        if not fl or not dump:
            continue
        flags = dict(x.split("=") for x in fl[0][6:].split())
        first = bytes.fromhex(dump[0][5:]).decode().split("\n")[0]
        got = "halted" if "halted in state" in first else "timeout" if "timed out after" in first else "error" if "error caused" in first else "running"
        rep = {"case": cases[cid], "halts_in_cycle": h + 1, "timeout": t, "impl": blk[-3:], "header": first}
        if int(flags["cycle"]) != want_cycles or got != want_kind:
            report.violation("run-cycles-long", "ran %s cycles and reports '%s'; the property says %d cycles and '%s' (halt in cycle %d, timeout %d)"
                             % (flags["cycle"], got, want_cycles, want_kind, h + 1, t), rep)
    return len(cases)


def check(report, tier, seed):
    rng = random.Random(seed)
    cases, meta = {}, {}
    seqs = []
    maxlen = 3 if tier == "quick" else 4
    for L in range(1, maxlen + 1):
        seqs += [list(s) for s in itertools.product(range(8), repeat=L)]
    tmax = 5 if tier == "quick" else 6
    k = 0
    for seq in seqs:
        for t in range(tmax + 1):
            if tier == "quick" and len(seq) == 3 and (k % 3):
                k += 1
                continue
            cid = "t%d" % k
            k += 1
            cases[cid] = {"hcl": histgen.stat_program(seq), "yo": gen.yo_line(0, b"\x00") + "\n", "flags": rng.choice(["-", "q", "q", "t"]), "timeout": t}
            meta[cid] = (seq, t)
    for _ in range(150 if tier == "quick" else 3000):
        L = rng.randint(3, 14)
        seq = [rng.choice([0, 1, 1, 1, 0, 2, 3, 4, 5, 6, 7]) if rng.random() < 0.25 else rng.choice([0, 1]) for _ in range(L)]
        t = rng.choice([0, 1, L - 1, L, L + 1, rng.randint(0, 16), 9999])
        cid = "t%d" % k
        k += 1
        cases[cid] = {"hcl": histgen.stat_program(seq), "yo": gen.yo_line(0, b"\x00") + "\n", "flags": rng.choice(["-", "q", "t", "d"]), "timeout": max(t, 0)}
        meta[cid] = (seq, max(t, 0))
    # huge budgets ("practically unlimited"): at and around every width a cycle counter could be narrowed to
    for t in [2 ** 15 - 1, 2 ** 15, 2 ** 16, 2 ** 31 - 1, 2 ** 31, 2 ** 31 + 1, 3000000000, 2 ** 32 - 2, 2 ** 32 - 1]:
        for _ in range(3 if tier == "quick" else 40):
            L = rng.randint(1, 9)
            seq = [rng.choice([0, 1]) for _ in range(L)] + [rng.choice([2, 2, 3, 4, 5, 6, 7])]
            cid = "t%d" % k
            k += 1
            cases[cid] = {"hcl": histgen.stat_program(seq), "yo": gen.yo_line(0, b"\x00") + "\n", "flags": rng.choice(["-", "q", "t", "d"]), "timeout": t}
            meta[cid] = (seq, t)
    # last value repeats forever: a sequence ending in 0/1 with timeout 9999 runs 9999 cycles; keep those few
    for cid in list(cases):
        seq, t = meta[cid]
        if t == 9999 and seq[-1] in (0, 1) and rng.random() < 0.9:
            cases[cid]["timeout"] = 40
            meta[cid] = (seq, 40)
    impl, model, stats = simcheck.run_sim_cases(report, cases, kind="run", key_prefix="run")
    kinds = collections.Counter()
    for cid, (seq, t) in meta.items():
        blk = impl.get(cid, [])
        want_cycles, want_kind = histgen.stat_spec(seq, t)
        kinds[want_kind.split(":")[0]] += 1
        fl = [l for l in blk if l.startswith("flags ")]
        dump = [l for l in blk if l.startswith("dump ")]
        if not fl or not dump:
            continue
        flags = dict(x.split("=") for x in fl[0][6:].split())
        text = bytes.fromhex(dump[0][5:]).decode()
        rep = {"case": cases[cid], "seq": seq, "timeout": t, "impl": blk[-4:], "dump": text[:200]}
        if int(flags["cycle"]) != want_cycles:
            report.violation("run-cycles", "ran %s cycles, the property says %d (Stat sequence %s, timeout %d)" % (flags["cycle"], want_cycles, seq, t), rep)
            continue
        first = text.split("\n")[0]
        got = "halted" if "halted in state" in first else "timeout" if "timed out after" in first else "error" if "error caused" in first else "running"
        if got != want_kind.split(":")[0]:
            report.violation("run-report-kind", "final report says %s, expected %s (Stat sequence %s, timeout %d)" % (got, want_kind, seq, t), rep)
            continue
        m = re.search(r"timed out after\s+(\d+) cycles", first)
        if m and int(m.group(1)) != want_cycles:
            report.violation("run-report-count", "header prints %s cycles, %d were simulated" % (m.group(1), want_cycles), rep)
        m = re.search(r"Cycles run: (\d+)", text)
        if m and int(m.group(1)) != want_cycles:
            report.violation("run-report-count", "'Cycles run: %s' but %d were simulated" % (m.group(1), want_cycles), rep)
        if want_kind.startswith("error:"):
            code = int(want_kind[6:])
            m = re.search(r"Error code: (.*)", text)
            if not m or not (m.group(1).startswith("%d " % code) or (code > 5 and m.group(1) == "<unknown>")):
                report.violation("run-report-code", "error report does not name status %d: %r" % (code, m.group(1) if m else None), rep)
    n_inter = interactive_part(report, rng, tier)
    n_long = long_part(report, rng, tier)
    report.coverage["evaluations"] = len(cases) + n_inter + n_long
    report.coverage["distinct_nontrivial"] = len(set((tuple(s), t) for s, t in meta.values()))
    report.coverage["exhaustive"] = True
    report.coverage["rule"] = ("every Stat sequence over the eight 3-bit values of length <= %d x timeouts 0..%d (exhaustive; quick tier thins length 3 to "
                               "one in three), plus random longer sequences with timeout = halting cycle +-1, plus halting sequences under budgets 2^15-1 .. 2^32-1; run through RunningProgram::run with "
                               "option sets -, -q, -t, -d; distinct = distinct (sequence, timeout); plus counters halting after 70 000 - 262 144 cycles under budgets just below, at and above the halting cycle and around 10^5 and 2^17; plus the real binary with -i / --interactive and 0, 1, half as many and more lines on standard input than cycles: same exit status and, prompts removed, same standard output as without the prompt" % (maxlen, tmax))
    report.coverage["distribution"] = dict(stats, interactive_runs=n_inter, **{"spec_" + k: v for k, v in kinds.items()})
    report.coverage["samples"] = [{"seq": meta["t5"][0], "timeout": meta["t5"][1], "hcl": cases["t5"]["hcl"]}]
