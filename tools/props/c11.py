"""C11 - source text is read with the documented precedence, literals and comments."""
import itertools
import random
import collections
import buildcheck, gen, lib, translate

# the documented table, tightest first (the property's own sentence)
DOC_TIERS = [(["Mul", "Div"], "left"), (["Add", "Sub"], "left"), (["LeftShift", "RightShift"], "left"), (["And"], "left"), (["Xor"], "left"),
             (["Or"], "left"), (["in"], "in"), (["Equal", "NotEqual", "LessEqual", "GreaterEqual", "Less", "Greater"], "nonassoc"),
             (["LogicalAnd"], "left"), (["LogicalOr"], "left")]
LEVEL = {op: i for i, (ops, _) in enumerate(DOC_TIERS) for op in ops}
CSAPP = {"STAT_BUB": 0, "STAT_AOK": 1, "STAT_HLT": 2, "STAT_ADR": 3, "STAT_INS": 4, "STAT_PIP": 6,
         "REG_RAX": 0, "REG_RCX": 1, "REG_RDX": 2, "REG_RBX": 3, "REG_RSP": 4, "REG_RBP": 5, "REG_RSI": 6, "REG_RDI": 7,
         "REG_R8": 8, "REG_R9": 9, "REG_R10": 10, "REG_R11": 11, "REG_R12": 12, "REG_R13": 13, "REG_R14": 14, "REG_NONE": 15,
         "HALT": 0, "NOP": 1, "RRMOVQ": 2, "IRMOVQ": 3, "RMMOVQ": 4, "MRMOVQ": 5, "OPQ": 6, "JXX": 7, "CALL": 8, "RET": 9, "PUSHQ": 10, "POPQ": 11,
         "CMOVXX": 2, "ALWAYS": 0, "LE": 1, "LT": 2, "EQ": 3, "NE": 4, "GE": 5, "GT": 6, "ADDQ": 0, "SUBQ": 1, "ANDQ": 2, "XORQ": 3,
         "true": 1, "false": 0, "TRUE": 1, "FALSE": 0}


def doc_parse(operands, ops):
    """AST of  o0 op0 o1 op1 o2 ...  by the documented table (None if a comparison chains)."""
    def climb(level, pos):
        if level < 0:
            return operands[pos], pos
        ops_here, kind = DOC_TIERS[level]
        left, pos = climb(level - 1, pos)
        if left is None:
            return None, pos
        if kind == "left":
            while pos < len(ops) and ops[pos] in ops_here:
                right, npos = climb(level - 1, pos + 1)
                if right is None:
                    return None, npos
                left = ("b", ops[pos], left, right)
                pos = npos
            return left, pos
        if kind == "nonassoc":
            if pos < len(ops) and ops[pos] in ops_here:
                right, npos = climb(level - 1, pos + 1)
                if right is None:
                    return None, npos
                left = ("b", ops[pos], left, right)
                pos = npos
                if pos < len(ops) and ops[pos] in ops_here:
                    return None, pos          # comparisons do not chain
            return left, pos
        return left, pos                       # 'in' never appears in these operator strings
    tree, pos = climb(len(DOC_TIERS) - 1, 0)
    return tree if pos == len(ops) else None


def pp_min(e, rng=None):
    """Text with only the parentheses the documented table requires."""
    def prec(x):
        return LEVEL[x[1]] if x[0] == "b" else LEVEL["in"] if x[0] == "in" else -1
    def show(x, max_level):
        # x may appear unparenthesised where a tier <= max_level is expected
        k = x[0]
        if k == "b":
            lv = LEVEL[x[1]]
            kind = DOC_TIERS[lv][1]
            l = show(x[2], lv if kind == "left" else lv - 1)
            r = show(x[3], lv - 1)
            s = "%s %s %s" % (l, gen.BINOP_TOK[x[1]], r)
            return s if lv <= max_level else "(" + s + ")"
        if k == "in":
            lv = LEVEL["in"]
            s = "%s in { %s }" % (show(x[1], lv - 1), ", ".join(show(i, 99) for i in x[2]))
            return s if lv <= max_level else "(" + s + ")"
        if k == "u":
            inner = x[2]
            t = show(inner, -1) if inner[0] in ("c", "w", "m", "cat") or (inner[0] == "c" and inner[2] != 0) else "(" + show(inner, 99) + ")"
            if inner[0] == "c" and inner[2] == 0:
                t = "(" + gen.to_text(inner) + ")"
            return gen.UNOP_TOK[x[1]] + t
        if k == "s":
            inner = x[1]
            t = show(inner, -1) if inner[0] in ("w", "m", "cat") or (inner[0] == "c" and inner[2] != 0) else "(" + show(inner, 99) + ")"
            return "%s[%d..%d]" % (t, x[2], x[3])
        if k == "m":
            return "[ " + " ".join("%s : %s;" % (show(c, 99), show(v, 99)) for c, v in x[1]) + " ]"
        if k == "cat":
            return "(%s .. %s)" % (show(x[1], 99), show(x[2], 99))
        return gen.to_text(x, rng)
    return show(e, 99)


def canon_stmt_lines(blk):
    out = []
    for y in blk:
        if y.startswith("stmt "):
            out.append(buildcheck.norm(translate.sexp_parse(y[5:])))
        elif y.startswith(("err", "parseerr")):
            out.append("err")
        else:
            out.append(y)
    return out


def ast_to_sexp_norm(e):
    return buildcheck.norm(translate.sexp_parse(gen.to_sexpr(e)))


def check(report, tier, seed):
    rng = random.Random(seed)
    harness = lib.build_harness("dev")
    driver = lib.build_driver()
    res = collections.Counter()
    # ---- 1. operator pairs and triples without parentheses ------------------------------------
    ops = gen.ALL_BINOPS
    seqs = [list(p) for p in itertools.product(ops, repeat=2)]
    triples = [list(p) for p in itertools.product(ops, repeat=3)]
    if tier == "quick":
        triples = rng.sample(triples, 1500)
    seqs += triples
    cases, lines = {}, []
    for i, s in enumerate(seqs):
        names = ["a", "b", "c", "d"][:len(s) + 1]
        text = " ".join(x for pair in zip(names, [gen.BINOP_TOK[o] for o in s] + [""]) for x in pair).strip()
        cid = "p%d" % i
        cases[cid] = {"text": "t = %s;" % text, "ops": s, "want": doc_parse([("w", n) for n in names], s)}
        lines.append("%s parse %s 0" % (cid, lib.hexs(cases[cid]["text"])))
    # unary operators in every operand position, slices, in-sets among the tiers
    extra = []
    for u in gen.UNOP_TOK.values():
        for o in ops:
            extra.append("t = %sa %s b;" % (u, gen.BINOP_TOK[o]))
            extra.append("t = a %s %sb;" % (gen.BINOP_TOK[o], u))
            extra.append("t = a %s b[1..2];" % gen.BINOP_TOK[o])
    for o in ops:
        extra += ["t = a %s b in { c, d };" % gen.BINOP_TOK[o], "t = a in { c } %s b;" % gen.BINOP_TOK[o], "t = a in { b } in { c };"]
    extra += ["t = ((a));", "t = (a) + ((b) * (c));", "t = - -a;", "t = -a[0..1];", "t = a < b < c;", "t = a == b != c;", "t = (a < b) < c;"]
    for j, text in enumerate(extra):
        cid = "x%d" % j
        cases[cid] = {"text": text, "want": "model"}
        lines.append("%s parse %s 0" % (cid, lib.hexs(text)))
    # random expressions printed with minimal parentheses must parse back to themselves
    env = [(n, 8, False) for n in "abcdefg"]
    for j in range(2000 if tier == "quick" else 50000):
        g = gen.ExprGen(rng, env)
        e = g.gen(rng.choice([1, 8, None]), rng.randint(1, 7))
        cid = "m%d" % j
        cases[cid] = {"text": "t = %s;" % pp_min(e, rng), "want": e, "full": "t = %s;" % gen.to_text(e)}
        lines.append("%s parse %s 0" % (cid, lib.hexs(cases[cid]["text"])))
    impl = lib.run_cases(harness, lines)
    model = lib.run_cases(driver, lines)
    for cid, c in cases.items():
        a, b = canon_stmt_lines(impl.get(cid, ["MISSING"])), canon_stmt_lines(model.get(cid, ["MISSING"]))
        rep = {"case": {k: (v if not isinstance(v, tuple) else gen.to_sexpr(v)) for k, v in c.items()}, "impl": impl.get(cid), "model": model.get(cid)}
        if a != b:
            report.violation("parse-differs-from-model", "the grammar and the model parser disagree on %r" % c["text"][:100], rep)
            continue
        want = c["want"]
        if want == "model":
            res["extra"] += 1
            continue
        if want is None:
            res["chained_rejected"] += 1
            if a != ["err"]:
                report.violation("parse-chained-comparison-accepted", "%r should be rejected (comparisons do not chain)" % c["text"], rep)
            continue
        res["precedence_checked"] += 1
        expect = ["assign", ["set", ["t"], ast_to_sexp_norm(want)]]
        if a != [expect]:
            report.violation("parse-precedence:" + "-".join(c.get("ops", ["random"])[:2]),
                             "%r is not read as its fully parenthesised form by the documented precedence" % c["text"][:100], rep)
    # ---- 2. literals ----------------------------------------------------------------------------
    lits = []
    for k in (1, 7, 8, 9, 63, 64, 65, 127, 128, 129, 130, 200, 255, 256, 300):
        for v in ((1 << k) - 1, 1 << k, (1 << k) + 1):
            lits += [str(v), "0x%x" % v, "0x%X" % v, "0X%x" % v, "0x" + "".join(rng.choice([ch, ch.upper()]) for ch in "%x" % v),
                     "0b" + format(v, "b"), "0b" + "0" * rng.randint(1, 5) + format(v, "b"), "0" * rng.randint(1, 3) + str(v)]
    lits += ["0b" + "0" * n + "1" for n in (0, 1, 126, 127, 128, 129, 254, 255, 256, 299)] + ["0", "00", "0x0", "0b0", "0b", "0x", "0b2", "0b012", "0xg",
                                                                                               "1x5", "9b1", "0b1a", "12ab", "0x1fg", "1_000", "１２"]
    llines = ["l%d lex %s" % (i, lib.hexs("x = %s ;" % t)) for i, t in enumerate(lits)]
    li, lm = lib.run_cases(harness, llines), lib.run_cases(driver, llines)
    import re
    def normtok(blk):
        return [re.sub(r"Constant (\d+) ", lambda m: "Constant 0x%x " % int(m.group(1)), y) for y in blk]
    for i, t in enumerate(lits):
        a, b = normtok(li.get("l%d" % i, ["MISSING"])), lm.get("l%d" % i, ["MISSING"])
        rep = {"literal": t, "impl": a, "model": b}
        if a != b:
            report.violation("lex-literal-differs-from-model", "literal %r is tokenised differently by the model" % t[:60], rep)
            continue
        res["literals"] += 1
        # the property itself: value, width, range
        m = re.fullmatch(r"(0[xX])([0-9a-fA-F]+)|(0b)([01]+)|([0-9]+)", t)
        if m and not re.fullmatch(r"0[0-9]*[xX].*", t[1:] if False else "z"):
            if m.group(1) and m.group(1) == "0x":
                val, w = int(m.group(2), 16), "u"
            elif m.group(3):
                val, w = int(m.group(4), 2), str(len(m.group(4)))
            elif m.group(5):
                val, w = int(m.group(5)), "u"
            else:
                continue
            ok = val < (1 << 128) and (w == "u" or int(w) <= 128)
            want = "Constant 0x%x %s" % (val, w)
            toks = [l for l in a if l.startswith("tok ")]
            got = toks[2].split(" ", 3)[3] if len(toks) >= 3 else None
            if ok and got != want:
                report.violation("lex-literal-value", "literal %r denotes %s, lexed as %s" % (t[:60], want, got), rep)
            if not ok and not any("InvalidConstant" in l for l in a):
                report.violation("lex-literal-out-of-range-accepted", "literal %r does not fit 128 bits but is not rejected as out of range" % t[:60], rep)
    # ---- 3. trivia: comments, white space, line endings between tokens --------------------------
    # the extracted model lexer is quadratic in the text length (unary offsets): keep the base program small
    base = gen.ProgGen(rng, n_wires=4, depth=2, allow_div=False).build()
    while len(base) > 1200:
        base = gen.ProgGen(rng, n_wires=3, depth=1, allow_div=False).build()
    bl = ["b0 lex %s" % lib.hexs(base)]
    btoks = [l.split(" ", 3)[3] for l in lib.run_cases(harness, bl)["b0"] if l.startswith("tok ")]
    trivia = [" ", "\n", "\r\n", "\r", "\t", " # c\n", " // c ❤\n", "/* c */", "/**/", "/* a * b **/", "/* / */", "/*\n*/", "/*/ x */", " /* é */ ", " ", "　",
              # comments full of multi-byte characters, directly followed by the next token
              "/*é*/", "/*停机指令：执行到此结束。*/", "/*❤❤❤❤❤❤*/", "/* 𝐱𝟙 */", "#é❤\n", "//停机\r"]
    tl, tcases = [], {}
    for j in range(300 if tier == "quick" else 6000):
        # re-render the program from its tokens with random trivia between every pair
        words = rebuild_words(btoks)
        text = "".join(w + "".join(rng.choice(trivia) for _ in range(rng.randint(1, 3))) for w in words)
        tcases["t%d" % j] = text
        tl.append("t%d lex %s" % (j, lib.hexs(text)))
    ti, tm = lib.run_cases(harness, tl), lib.run_cases(driver, tl)
    for cid, text in tcases.items():
        a, b = normtok(ti.get(cid, ["MISSING"])), tm.get(cid, ["MISSING"])
        if a != b:
            report.violation("lex-trivia-differs-from-model", "token stream differs from the model's with trivia inserted", {"text": text[:600], "impl": a[:6], "model": b[:6]})
            continue
        got = [l.split(" ", 3)[3] for l in ti[cid] if l.startswith("tok ")]
        if got != btoks or any(l.startswith("err") for l in ti[cid]):
            report.violation("lex-trivia-changes-tokens", "comments / white space / line endings between tokens change the token stream", {"text": text[:600]})
        res["trivia"] += 1
    # ---- 4. the predefined names ------------------------------------------------------------------
    blk = lib.run_cases(harness, ["c0 front %s 2" % lib.hexs("pc = 0; Stat = STAT_AOK;")])["c0"]
    acc = [l for l in blk if l.startswith("accept ")]
    if not acc:
        report.violation("preamble-rejected", "the minimal program is rejected", {"impl": blk})
    else:
        comp = buildcheck.canon_compiled(acc[0][7:])
        got = {c[0]: c[1] for c in comp["consts"]}
        if got != CSAPP:
            diff = {k: (got.get(k), CSAPP.get(k)) for k in set(got) | set(CSAPP) if got.get(k) != CSAPP.get(k)}
            report.violation("preamble-value", "predefined names differ from CS:APP: %s" % diff, {"diff": str(diff)})
        res["preamble_names"] = len(got)
    # ---- 5. files read from disk by the real binary: line-ending style and comments ------------------
    import os, subprocess, tempfile
    cli = lib.build_cli("dev")
    nfile = 8 if tier == "quick" else 100
    with tempfile.TemporaryDirectory(dir=lib.CACHE) as d:
        for i in range(nfile):
            g = gen.ProgGen(rng, n_wires=rng.randint(2, 8), depth=2, allow_div=False, halt_at=rng.choice([2, 3, 4]))
            stmts = [l for l in g.build().split("\n") if l]
            yo = gen.yo_image(rng, 90)
            open(os.path.join(d, "i.yo"), "w").write(yo)
            # the same statements, with comment lines between them and line comments after them
            decorated = []
            for l in stmts:
                r = rng.random()
                if r < 0.3:
                    decorated.append(rng.choice(["# a comment line", "// another comment", "#", "   # indented ❤"]))
                decorated.append(l + (rng.choice(["  # trailing", " // trailing"]) if rng.random() < 0.3 else ""))
            if rng.random() < 0.5:
                decorated.append("# the file ends in a comment")
            outs = {}
            for name, eol, lines_ in (("plain-lf", "\n", stmts), ("lf", "\n", decorated), ("crlf", "\r\n", decorated), ("cr", "\r", decorated)):
                final = eol if (name == "plain-lf" or rng.random() < 0.7) else ""
                hp = os.path.join(d, "f%d_%s.hcl" % (i, name))
                with open(hp, "wb") as f:
                    f.write((eol.join(lines_) + final).encode())
                pr = subprocess.run([cli, "-q", hp, os.path.join(d, "i.yo"), "8"], capture_output=True, timeout=60)
                outs[name] = (pr.returncode, pr.stdout, pr.stderr[:300])
                res["files"] += 1
            ref = outs["plain-lf"]
            for name, o in outs.items():
                if o[:2] != ref[:2]:
                    report.violation("file-line-endings-change-meaning:" + name,
                                     "the same program written with %s line ends / comments gives a different result through the command line (exit %d vs %d): %s" %
                                     (name, o[0], ref[0], lib.first_diff(o[1].decode("utf-8", "replace").split("\n"), ref[1].decode("utf-8", "replace").split("\n"))[:200]),
                                     {"program": "\n".join(decorated), "variant": name, "stderr": o[2].decode("utf-8", "replace")})
                    break
    report.coverage["evaluations"] = len(cases) + len(lits) + len(tcases) + 1 + res["files"]
    report.coverage["distinct_nontrivial"] = res["precedence_checked"] + res["literals"] + res["trivia"]
    report.coverage["exhaustive"] = True
    report.coverage["rule"] = ("all 289 ordered pairs and %d triples of binary operators without parentheses, each unary operator / slice / in-set beside each binary "
                               "operator, chained comparisons, and %d random expressions printed with only the parentheses the documented table requires: the "
                               "grammar's AST (hook parse_statements) equal to the model parser's AND to the fully parenthesised form per the documented table "
                               "(python oracle written from the property's sentence); literal spellings of 2^k-1, 2^k, 2^k+1 for k from 1 to 300 in three bases, "
                               "upper/lower/mixed hex, leading zeros, malformed ones; a program re-rendered with random comments / blanks / CR / LF / CRLF / "
                               "non-breaking spaces between every two tokens; %d programs written to disk with LF / CR LF / bare CR line ends and line comments between and after the "
                               "statements, run through the real binary: same exit status and output as the plain text; the preamble's names against the CS:APP table" % (len(triples), 2000 if tier == "quick" else 50000, nfile))
    report.coverage["distribution"] = dict(res)
    report.coverage["samples"] = [cases["p17"]["text"], cases["m0"]["text"], lits[9]]


def rebuild_words(btoks):
    """Token strings (hook format) -> source words."""
    simple = {"AndAnd": "&&", "OrOr": "||", "Equal": "==", "NotEqual": "!=", "GreaterEqual": ">=", "Greater": ">", "LessEqual": "<=", "Less": "<",
              "Assign": "=", "RightShift": ">>", "LeftShift": "<<", "Comma": ",", "Semicolon": ";", "Plus": "+", "Minus": "-", "And": "&", "Or": "|",
              "Xor": "^", "Times": "*", "Divide": "/", "Not": "!", "OpenParen": "(", "CloseParen": ")", "OpenBrace": "{", "CloseBrace": "}",
              "OpenBracket": "[", "CloseBracket": "]", "Colon": ":", "Complement": "~", "DotDot": "..", "Wire": "wire", "Const": "const",
              "Register": "register", "In": "in"}
    words = []
    for t in btoks:
        if t.startswith("Identifier "):
            words.append(t[11:])
        elif t.startswith("Constant "):
            _, v, w = t.split()
            words.append(str(int(v)) if w == "u" else "0b" + format(int(v), "0%db" % int(w)))
        else:
            words.append(simple[t])
    return words
