"""C09 - every wire has exactly one driver, or the program is rejected."""
import random
import re
import collections
import buildcheck, gen, lib


def lines_of(text):
    return [l for l in text.split("\n") if l.strip()]


def assigned_names(lines):
    out = []
    for l in lines:
        m = re.match(r"^((?:\w+ = )+)", l)
        if m:
            out += re.findall(r"(\w+) = ", m.group(1))
    return out


def inject(rng, text, force_kind=None):
    """Returns (new text, expected kind, expected name, fault class) or None."""
    # the generator's observer wires read built-in inputs this function may un-assign: leave them out
    lines = [l for l in lines_of(text) if not re.match(r"^(wire )?obs\d", l)]
    wires = [m.group(1) for l in lines for m in [re.match(r"^wire (\w+) :", l)] if m]
    consts = [m.group(1) for l in lines for m in [re.match(r"^const (\w+) =", l)] if m]
    assigned = assigned_names(lines)
    bank_in = [n for n in assigned if re.match(r"^[a-z]_\w+$", n) and n not in wires]
    bank_out = [n[0].upper() + n[1:] for n in bank_in]
    banks = [m for l in lines for m in [re.match(r"^register (\w)(\w) \{ (.*) \}$", l)] if m]
    real_out = []
    for b in banks:
        for r in re.findall(r"(\w+) : \d+ =", b.group(3)):
            real_out.append(b.group(2) + "_" + r)
    kind = rng.choice(["unset_wire", "unset_bank_in", "unset_builtin", "partial", "redecl_wire", "redecl_builtin", "redecl_const",
                       "redecl_as_const", "redecl_bank_signal", "dup_register", "assign_twice", "assign_twice_builtin",
                       "read_undeclared", "assign_undeclared", "assign_bank_out", "assign_builtin_out", "assign_const",
                       "assign_preamble_const", "const_reads_wire", "default_reads_wire", "partial_disabled_ok",
                       "assign_twice_in_chain", "assign_twice_in_chain", "bad_bank_name", "partial_shared", "partial_const_enable", "partial_const_enable", "dup_bank_signal", "dup_bank_signal", "chain_width_mismatch"])

    if force_kind is not None:
        kind = force_kind

    def drop_assign(name):
        out = []
        for l in lines:
            m = re.match(r"^((?:\w+ = )+)(.*)$", l)
            if m:
                names = re.findall(r"(\w+) = ", m.group(1))
                if name in names:
                    names = [n for n in names if n != name]
                    if not names:
                        continue
                    l = "".join(n + " = " for n in names) + m.group(2)
            out.append(l)
        return out

    def unchain(name):
        """Rewrite the program so that `name` has an assignment line of its own."""
        out = []
        for l in lines:
            m = re.match(r"^((?:\w+ = )+)(.*)$", l)
            if m:
                names = re.findall(r"(\w+) = ", m.group(1))
                if name in names and len(names) > 1:
                    out.append("".join(n + " = " for n in names if n != name) + m.group(2))
                    out.append("%s = %s" % (name, m.group(2)))
                    continue
            out.append(l)
        return out

    def add(*new):
        out = lines + list(new)
        rng.shuffle(out)
        return out

    if kind == "unset_wire" and wires:
        w = rng.choice(wires)
        return drop_assign(w), "UnsetWire", w, kind
    if kind == "unset_bank_in" and bank_in:
        w = rng.choice(bank_in)
        return drop_assign(w), "UnsetRegisterInputWire", w, kind
    if kind == "unset_builtin":
        w = rng.choice(["pc", "Stat"])
        return drop_assign(w), "UnsetBuiltinWire", w, kind
    if kind == "partial":
        opts = [("reg_inputE", "reg_dstE"), ("reg_dstM", "reg_inputM"), ("mem_input", "mem_writebit")]
        opts = [(a, b) for a, b in opts if a in assigned and b in assigned]
        if opts:
            a, b = rng.choice(opts)
            lines[:] = unchain("mem_writebit")
            new = drop_assign(a)
            if a == "mem_input":
                new = [l if not l.startswith("mem_writebit = ") else "mem_writebit = (P_pc)[0..1];" for l in new]
            return new, "PartialFixedInput", b, kind
    if kind == "partial_shared" and all(x in assigned for x in ("mem_addr", "mem_readbit", "mem_input", "mem_writebit")):
        # the read port is complete; the write port is left with the one input it shares with it
        new = drop_assign("mem_input")
        lines[:] = new
        return drop_assign("mem_writebit"), "PartialFixedInput", "mem_addr", kind
    if kind == "partial_disabled_ok" and "mem_input" in assigned:
        lines[:] = unchain("mem_writebit")
        new = drop_assign("mem_input")
        new = [l if not l.startswith("mem_writebit = ") else "mem_writebit = %s;" % rng.choice(["0", "0b0", "FALSE", "(1 == 2)"]) for l in new]
        return new, None, None, kind
    if kind == "partial_const_enable" and "mem_input" in assigned:
        # a write port without its data whose enable is some constant expression - also one that no
        # width rule has looked at yet when the builder evaluates it (over-wide concatenation,
        # division by zero, huge shifts): the port is off exactly when the expression evaluates to 0
        lines[:] = unchain("mem_writebit")
        new = drop_assign("mem_input")
        en = rng.choice(CONST_ENABLES)
        new = [l if not l.startswith("mem_writebit = ") else "mem_writebit = %s;" % en for l in new]
        return new + ["const EN0 = 0, EN2 = 2;"], "MODEL", None, kind
    if kind == "partial_after_disabled" and not (set(assigned) & {"mem_addr", "mem_readbit", "mem_input", "mem_writebit", "reg_dstE", "reg_inputE", "reg_dstM", "reg_inputM"}):
        # one memory port legally left incomplete (its enable is the constant 0) AND another component given
        # only part of its inputs: the second one is still a fault, wherever it stands in the table
        off = rng.choice([["mem_readbit = 0;"], ["mem_readbit = FALSE;"], ["mem_writebit = 0;", "mem_input = 1;"], ["mem_readbit = 0;", "mem_writebit = (1 == 2);"]])
        cands = [(["reg_dstE = REG_RAX;"], "reg_dstE"), (["reg_inputE = 42;"], "reg_inputE"), (["reg_inputM = 42;"], "reg_inputM"), (["reg_dstM = REG_RCX;"], "reg_dstM")]
        if not any(l.startswith("mem_writebit") for l in off):
            cands += [(["mem_input = 0x1234;"], "mem_input")]
        part, name = rng.choice(cands)
        return add(*(off + part)), "PartialFixedInput", name, kind
    if kind == "dup_bank_signal" and banks:
        # a second bank whose input (or output) prefix letter and one register name coincide with an existing
        # bank's: the generated wire x_r (or Y_r) would have two registers behind it
        b = rng.choice(banks)
        regs_ = re.findall(r"(\w+) : (\d+) =", b.group(3))
        used = set(m_.group(1) for m_ in banks) | set(m_.group(2) for m_ in banks) | {"p", "P"}
        free_lo = [c for c in "abcdefghijklmnoqrstuvwxyz" if c not in used]
        free_up = [c for c in "ABCDEFGHIJKLMNOQRSTUVWXYZ" if c not in used]
        if regs_ and free_lo and free_up:
            rname, rw = rng.choice(regs_)
            w2 = rng.choice([int(rw), 1, 8, 64, max(1, int(rw) - 1), max(1, int(rw) // 2)])
            if rng.random() < 0.5:
                up = rng.choice(free_up)
                nb, sig = b.group(1) + up, "%s_%s" % (b.group(1), rname)
                # the new register's output is read where its declared width matters
                extra = ["wire dupr9 : %d;" % w2, "dupr9 = (%s_%s ^ 0b%s);" % (up, rname, "1" * w2)] if w2 <= 128 else []
            else:
                li2 = rng.choice(free_lo)
                nb, sig = li2 + b.group(2), "%s_%s" % (b.group(2), rname)
                extra = ["%s_%s = 0;" % (li2, rname)]
            if rng.random() < 0.6 and len(free_lo) > 2 and len(free_up) > 2:
                # further, unrelated banks that merely have a register of the same name (anywhere between the two)
                for _ in range(rng.randint(1, 2)):
                    l3 = rng.choice([c for c in free_lo if c + "_" + rname not in " ".join(extra) and c != nb[0]])
                    u3 = rng.choice([c for c in free_up if c != nb[1]])
                    free_lo.remove(l3)
                    free_up.remove(u3)
                    extra += ["register %s%s { %s : %d = 0; }" % (l3, u3, rname, rng.choice([1, 8, 64])), "%s_%s = 0;" % (l3, rname)]
            return add("register %s { %s : %d = 0; }" % (nb, rname, w2), *extra), "DoubleDeclaredRegisterOutWire", sig, kind
    if kind == "chain_width_mismatch":
        # one statement driving two wires of different widths with a sized value: it fits one of them only -
        # whichever the checker looks at first, the program is rejected naming the other
        wa, wb = rng.sample([1, 3, 4, 8, 16, 64], 2)
        val = "(P_pc)[0..%d]" % wa if wa <= 64 else "0"
        names_ = ["cwa9", "cwb9"]
        rng.shuffle(names_)
        return add("wire cwa9 : %d;" % wa, "wire cwb9 : %d;" % wb, "%s = %s = %s;" % (names_[0], names_[1], val)), "MismatchedWireWidths", "cwb9", kind
    if kind == "redecl_wire" and wires:
        w = rng.choice(wires)
        return add("wire %s : %d;" % (w, rng.choice([1, 8, 64]))), "RedeclaredWire", w, kind
    if kind == "redecl_builtin":
        w = rng.choice(["pc", "Stat", "i10bytes", "mem_output", "reg_outputA", "reg_dstE", "mem_addr"])
        return add("wire %s : 64;" % w), "RedeclaredBuiltinWire", w, kind
    if kind == "redecl_const":
        w = rng.choice(consts + ["STAT_AOK", "REG_NONE", "true"])
        return add("const %s = 1;" % w), "RedeclaredWire", w, kind
    if kind == "redecl_as_const" and wires:
        w = rng.choice(wires)
        return add("const %s = 3;" % w), "RedeclaredWire", w, kind
    rbanks = [b for b in banks if re.findall(r"(\w+) : \d+ =", b.group(3))]
    if kind == "redecl_bank_signal" and real_out and rbanks:
        o = rng.choice(real_out)
        w = rng.choice([o, o[0].lower() + o[1:], "stall_" + o[0], "bubble_" + o[0]]) if False else None
        b = rng.choice(rbanks)
        r = re.findall(r"(\w+) : \d+ =", b.group(3))[0]
        w = rng.choice([b.group(2) + "_" + r, b.group(1) + "_" + r, "stall_" + b.group(2), "bubble_" + b.group(2)])
        if rng.random() < 0.35:
            # the same clash with a CONSTANT of that name (a bank's output signal)
            w = b.group(2) + "_" + r
            return add("const %s = %d;" % (w, rng.randint(0, 9))), "RedeclaredWire", w, kind
        return add("wire %s : %d;" % (w, rng.choice([1, 8]))), "RedeclaredWire", w, kind
    if kind == "dup_register" and rbanks:
        b = rng.choice(rbanks)
        r = re.findall(r"(\w+) : \d+ =", b.group(3))[0]
        old = "register %s%s { %s }" % (b.group(1), b.group(2), b.group(3))
        new = "register %s%s { %s %s : 8 = 0; }" % (b.group(1), b.group(2), b.group(3), r)
        return [new if l == old else l for l in lines], "DuplicateRegister", r, kind
    if kind == "assign_twice" and wires:
        w = rng.choice(wires + bank_in)
        return add("%s = 0;" % w), "DoubleAssignedWire", w, kind
    if kind == "assign_twice_in_chain":
        # the same target twice within ONE chained assignment: x = x = e, x = y = x = e, and for built-in inputs
        cands = [n for n in assigned if n in wires or n in bank_in or n in ("reg_srcA", "mem_addr", "reg_dstE", "mem_input", "reg_inputM")]
        if cands:
            w = rng.choice(cands)
            new, done = [], False
            for l in lines:
                m = re.match(r"^((?:\w+ = )*)%s = (.*)$" % re.escape(w), l)
                if m and not done:
                    done = True
                    form = rng.randint(0, 2)
                    if form == 0:
                        l = "%s%s = %s = %s" % (m.group(1), w, w, m.group(2))
                    elif form == 1:
                        l = "%s = %s%s = %s" % (w, m.group(1), w, m.group(2))
                    else:
                        l = "%s%s = %s = %s = %s" % (m.group(1), w, w, w, m.group(2))
                new.append(l)
            if done:
                return new, "DoubleAssignedWire", w, kind
    if kind == "bad_bank_name" and banks:
        # a bank name is one lower-case then one upper-case letter
        b = rng.choice(banks)
        bad = rng.choice([b.group(1).upper() + b.group(2), b.group(1) + b.group(2).lower(), b.group(1) + "9",
                          b.group(1) + b.group(2) + "x", b.group(1), "_" + b.group(2), b.group(1) + "_"])
        old = "register %s%s { %s }" % (b.group(1), b.group(2), b.group(3))
        return [("register %s { %s }" % (bad, b.group(3))) if l == old else l for l in lines], "InvalidRegisterBankName", bad, kind
    if kind == "assign_twice_builtin":
        w = rng.choice([n for n in assigned if n in ("pc", "Stat", "reg_srcA", "mem_addr", "reg_dstE")])
        return add("%s = 0;" % w), "DoubleAssignedWire", w, kind
    if kind == "read_undeclared":
        tgt = rng.choice(wires) if wires else None
        if tgt:
            lines[:] = unchain(tgt)
            new = [l[:-1] + " ^ zz9;" if l.startswith(tgt + " = ") else l for l in lines]
            new = [re.sub(r"^(%s = )(.*) \^ zz9;$" % tgt, r"\1((\2) ^ zz9);", l) for l in new]
            return new, "UndeclaredWireRead", "zz9", kind
    if kind == "assign_undeclared":
        return add("zz9 = 1;"), "UndeclaredWireAssigned", "zz9", kind
    if kind == "assign_bank_out" and real_out:
        w = rng.choice(real_out + ["P_pc"])
        return add("%s = 0;" % w), "DoubleAssignedRegisterWire", w, kind
    if kind == "assign_builtin_out":
        w = rng.choice(["i10bytes"] + [o for o, i in (("mem_output", "mem_addr"), ("reg_outputA", "reg_srcA"), ("reg_outputB", "reg_srcB")) if i in assigned])
        return add("%s = 0;" % w), "DoubleAssignedFixedOutWire", w, kind
    if kind == "assign_const" and consts:
        w = rng.choice(consts)
        return add("%s = 1;" % w), "ConstantAssigned", w, kind
    if kind == "assign_preamble_const":
        w = rng.choice(["STAT_AOK", "REG_RAX", "NOP", "true", "FALSE"])
        return add("%s = 2;" % w), "ConstantAssigned", w, kind
    if kind == "const_reads_wire":
        w = rng.choice(wires + ["P_pc", "pc", "i10bytes"]) if wires else "pc"
        exp = "NonConstantWireRead" if not (len(w) > 1 and w[0].isupper() and w[1] == "_") else "UndeclaredWireRead"
        return add("const KK9 = (%s == 0);" % w), exp, w, kind
    if kind == "default_reads_wire":
        w = rng.choice(wires + ["pc"]) if wires else "pc"
        return add("register qQ { z : 64 = %s; }" % w, "q_z = Q_z;"), "NonConstantWireRead", w, kind
    return None


CONST_ENABLES = ["0", "1", "2", "1 - 1", "EN0", "EN2", "EN2 - 2", "(0[0..128] .. 0[0..1]) != 0", "(1[0..128] .. 1[0..1]) != 0",
                 "(0[0..128] .. 0[0..128] .. 0[0..128]) == 0", "((0xffffffff)[0..100] .. (0xffffffff)[0..100])[0..1]",
                 "(0[0..128] .. 0[0..1])[128..129]", "1 / 0", "(1 / 0) == 0", "(0 / 0) > 1", "1 << 200", "((1 << 127) >> 127)", "(1 << 128) == 0",
                 "0b0 && 1", "!1", "!0", "(~0) == 0", "[ 1 : 0; ]", "[ 0 : 1; 1 : 0; ]", "[ 0 : 1; ]", "1 in { 1, 2 }", "3 in { 1, 2 }",
                 "(0b1 .. 0b0)[0..1]", "(0b1 .. 0b0)[1..2]", "(0xffffffffffffffffffffffffffffffff + 1) == 0", "(0 - 1) == 0",
                 "(0b1 .. 0b0) == 2", "0b10", "(2)[1..2]", "(2)[0..1]", "-1", "(0 * 5)", "1 && 0", "0 || 0", "4 > 5", "5 >= 5",
                 # expressions whose evaluation itself fails or that no width rule admits
                 "(1 .. 0)", "(EN2 .. 0b1)[0..1]", "(0x3 .. 0b01) == 13", "(0b1 .. 1) == 3", "(0 .. 0) == 0", "nosuchname9", "nosuchname9 == 0",
                 "(0b1)[3..1] == 0", "(0b11)[0..5] == 3", "(0b11)[2..2]", "0b11 && 1", "(0b11 == 0b1)", "[ 0 : 1; ] == 0", "[ 1 : 0b1; 1 : 0b11; ]",
                 "1 in { 0b11, 0b1 }", "(1 / (EN0 - 0))", "((1 .. 0) == 2) && 0"]


def check(report, tier, seed):
    rng = random.Random(seed)
    n = 700 if tier == "quick" else 15000
    cases, expect = {}, {}
    k = 0
    while len(cases) < n:
        g = gen.ProgGen(rng, n_wires=rng.randint(1, 12 if tier == "quick" else 40), depth=rng.randint(1, 3), allow_div=False,
                        use_regfile=True if rng.random() < 0.7 else None, use_mem=True if rng.random() < 0.7 else None)
        base = g.build()
        cid = "n%d" % k
        k += 1
        if rng.random() < 0.15:
            cases[cid] = {"hcl": base, "fault": "none"}
            expect[cid] = (None, None)
            continue
        r = inject(rng, base)
        if rng.random() < 0.06:
            base2 = gen.ProgGen(rng, n_wires=rng.randint(1, 6), depth=2, allow_div=False, use_regfile=False, use_mem=False).build()
            r = inject(rng, base2, force_kind="partial_after_disabled") or r
        if r is None:
            continue
        new, kind, name, cls = r
        cases[cid] = {"hcl": "\n".join(new) + "\n", "fault": cls}
        expect[cid] = (kind, name)
    verdicts, stats = buildcheck.run_build_cases(report, cases, key_prefix="driver")
    by = collections.Counter()
    for cid, (kind, name) in expect.items():
        v = verdicts.get(cid)
        if v is None:
            continue
        c = cases[cid]
        by[c["fault"]] += 1
        rep = {"case": c, "expected": [kind, name], "impl": v if v[0] == "reject" else "accept"}
        if kind == "MODEL":
            continue            # no oracle of its own: the model's verdict and diagnostics decide (oracle 2)
        if kind is None:
            if v[0] != "accept":
                report.violation("driver-wrongly-rejected:" + c["fault"], "a program without driver faults was rejected: %s" % v[1][:3], rep)
            continue
        if v[0] == "accept":
            report.violation("driver-fault-accepted:" + c["fault"], "a program with fault '%s' on %s was accepted" % (c["fault"], name), rep)
            continue
        hits = [e for e in v[1] if e.startswith(kind + "|") and name in re.split(r"[|,/]", e)]
        if not hits:
            report.violation("driver-fault-undiagnosed:" + c["fault"],
                             "fault '%s' on %s: no %s diagnostic naming it among %s" % (c["fault"], name, kind, v[1][:4]), rep)
    report.coverage["evaluations"] = len(cases)
    report.coverage["distinct_nontrivial"] = len(set(c["hcl"] for c in cases.values() if c["fault"] != "none"))
    report.coverage["rule"] = ("a correct random program (1-12, thorough up to 40 wires, banks, register file, memory) with exactly one injected driver fault "
                               "of a known kind on a known name (28 fault classes incl. a constant named like a bank's output, one statement driving two wires of different widths, a second bank sharing a prefix letter and a register name with another one, a partial component next to a port switched off by a constant-0 enable, a write port without data whose enable is one of 40 constant expressions (over-wide concatenations, division by zero, huge shifts; judged by the model only), a write port left with only the address it shares with the complete read port, malformed bank names, a name repeated within one chained assignment, over plain wires, constants incl. preamble ones, bank inputs/outputs, "
                               "stall/bubble, built-in inputs/outputs), or none; oracle 1: rejected with a diagnostic of that kind naming that wire / accepted "
                               "when fault-free; oracle 2: verdict, diagnostic multiset and compiled program equal the model's build_program")
    report.coverage["distribution"] = dict(stats, **{"fault_" + k2: v2 for k2, v2 in by.items()})
    report.coverage["samples"] = [c["hcl"][:500] for c in list(cases.values())[:2]]
