"""C20 - the instruction trace shows the fetched bytes and their Y86-64 disassembly.

Tie: hook `disassemble` on every first-two-byte combination (65 536) x several immediates,
implementation vs extracted model (exhaustive over the first two bytes in both tiers);
and the 'pc = ..; loaded [..]' line of real runs vs the model's trace_line (through the
shared sim engine, see simcheck)."""
import random
import re
import gen
import histgen
import lib
import simcheck

LEN = {0: 1, 1: 1, 2: 2, 3: 10, 4: 10, 5: 10, 6: 2, 7: 9, 8: 9, 9: 1, 10: 2, 11: 2}


def trace_part(report, rng, tier):
    """The 'pc = ..; loaded [..]' line of real runs: a window sliding byte by byte over a random
    image (so every cycle fetches another first byte), under every option set that shows or hides
    the trace; text equal to the model's trace_line, and judged directly: pc, byte count by opcode,
    bytes = the image bytes at pc in memory order."""
    n = 40 if tier == "quick" else 600
    cases, images = {}, {}
    for i in range(n):
        start = rng.choice([0, 0, 3, 0x7f0])
        step = rng.choice([1, 1, 2, 7])
        hcl = "register pP { pc : 64 = %d; }\np_pc = P_pc + %d;\npc = P_pc;\nStat = STAT_AOK;\n" % (start, step)
        img = bytes(rng.choice([rng.getrandbits(8), rng.choice([0x00, 0x10, 0x20, 0x26, 0x30, 0x40, 0x50, 0x60, 0x63, 0x70, 0x76, 0x80, 0x90, 0xA0, 0xB0, 0xC0, 0xF3])])
                    for _ in range(120))
        yo = "\n".join(gen.yo_line(start + k, img[k:k + 10]) for k in range(0, len(img), 10)) + "\n"
        flags = rng.choice(["-", "-", "d", "t", "a", "da", "dt", "u", "q"])
        cid = "t%d" % i
        cases[cid] = {"hcl": hcl, "yo": yo, "cycles": 24, "flags": flags, "timeout": 9999}
        images[cid] = (start, step, img)
    impl, model, stats = simcheck.run_sim_cases(report, cases, key_prefix="trace")
    lines_checked = 0
    for cid, (start, step, img) in images.items():
        quiet = "q" in cases[cid]["flags"]
        outs = [bytes.fromhex(l[4:]).decode("utf-8", "replace") if l[4:] != "-" else "" for l in impl.get(cid, []) if l.startswith("out ")]
        for k, text in enumerate(outs):
            pc = start + k * step
            m = re.search(r"^pc = 0x([0-9a-f]+); loaded \[((?:[0-9a-f]{2} )*): (.*)\]$", text, re.M)
            rep = {"case": cases[cid], "cycle": k, "out": text[:300]}
            if quiet:
                if m:
                    report.violation("trace-shown-under-q", "-q still prints the instruction trace", rep)
                continue
            if not m:
                report.violation("trace-line-missing", "cycle %d: no 'pc = ..; loaded [..]' line under options %r" % (k, cases[cid]["flags"]), rep)
                continue
            lines_checked += 1
            b0 = img[pc - start] if pc - start < len(img) else 0
            want_len = LEN.get(b0 >> 4, 1)
            want = [img[pc - start + j] if pc - start + j < len(img) else 0 for j in range(want_len)]
            got = [int(x, 16) for x in m.group(2).split()]
            if int(m.group(1), 16) != pc or got != want:
                report.violation("trace-bytes", "cycle %d: pc=%x shows pc=%s bytes %s, memory holds %s" % (k, pc, m.group(1), m.group(2), bytes(want).hex()), rep)
            if (b0 >> 4) > 11 and m.group(3) != "<invalid>":
                report.violation("trace-invalid-not-marked", "opcode byte %02x not marked invalid" % b0, rep)
    # self-modifying code: the pc revisits a few addresses while the data port stores new
    # instruction bytes there; every line must show the bytes memory holds when the cycle starts
    n2 = 25 if tier == "quick" else 400
    cases2 = {}
    for i in range(n2):
        k = rng.choice([1, 2, 3])
        opc = [0x00, 0x10, 0x20, 0x30, 0x40, 0x50, 0x60, 0x61, 0x64, 0x70, 0x76, 0x80, 0x90, 0xA0, 0xB0, 0xC0, 0xFF]
        hcl = "\n".join([
            "register pP { slot : 64 = 0; }", "register cC { n : 64 = %d; }" % rng.getrandbits(64),
            "c_n = (C_n * 6364136223846793005) + 1442695040888963407;",
            "p_slot = [ P_slot == %d : 0; 1 : P_slot + 1 ];" % (k - 1),
            "pc = (P_slot * 16) + 32;",
            "mem_addr = (((C_n >> 8) & %d) * 16) + 32 + ((C_n >> 16) & %d);" % (3, rng.choice([0, 1, 3, 15])),
            "mem_writebit = (C_n)[40..41] | (C_n)[41..42];", "mem_readbit = 0;",
            "mem_input = [ (C_n)[50..51] : C_n; 1 : %s ];" % " | ".join("(0x%x << %d)" % (rng.choice(opc), 8 * j) for j in range(8)),
            "Stat = STAT_AOK;"]) + "\n"
        img = bytes(rng.choice(opc) if j % 16 == 0 else rng.getrandbits(8) for j in range(96))
        yo = "\n".join(gen.yo_line(32 + j, img[j:j + 8]) for j in range(0, len(img), 8)) + "\n"
        cases2["m%d" % i] = {"hcl": hcl, "yo": yo, "cycles": 20, "flags": rng.choice(["-", "-", "d", "t"]), "timeout": 9999}
    # instructions lying across the top of the address space (bytes placed there through the hook)
    for i in range(12 if tier == "quick" else 150):
        top = (1 << 64)
        start = top - rng.choice([1, 2, 9, 10, 11, 16])
        hcl = "register pP { pc : 64 = %d; }\np_pc = P_pc + %d;\npc = P_pc;\nStat = STAT_AOK;\nmem_readbit = 0; mem_writebit = 0; mem_addr = 0; mem_input = 0;\n" % (start, rng.choice([1, 1, 3]))
        inj = []
        for a_ in list(range(top - 20, top)) + list(range(0, 24)):
            b_ = rng.choice([0x30, 0x50, 0x63, 0x70, 0x00, 0xB0, rng.getrandbits(8) | 1])
            inj.append("m%x=%02x" % (a_, b_))
        cases2["w%d" % i] = {"hcl": hcl, "yo": None, "cycles": 14, "flags": "-", "timeout": 9999, "inject": inj}
    impl2, model2, stats2 = simcheck.run_sim_cases(report, cases2, key_prefix="trace-selfmod")
    for cid in cases2:
        init, cyc = histgen.parse_trace(impl2.get(cid, []))
        memv = dict(init.get("mem", {}))
        for kk, c in enumerate(cyc):
            if "post" not in c:
                break
            pc = c["post"]["pc"][0]
            m = re.search(r"^pc = 0x([0-9a-f]+); loaded \[((?:[0-9a-f]{2} )*): (.*)\]$", c.get("out", ""), re.M)
            rep = {"case": cases2[cid], "cycle": kk, "out": c.get("out", "")[:300]}
            if not m:
                report.violation("trace-line-missing", "cycle %d: no trace line" % kk, rep)
                break
            b0 = memv.get(pc, 0)
            want = [memv.get((pc + j) & ((1 << 64) - 1), 0) for j in range(LEN.get(b0 >> 4, 1))]
            got = [int(x, 16) for x in m.group(2).split()]
            lines_checked += 1
            if int(m.group(1), 16) != pc or got != want:
                report.violation("trace-bytes-stale", "cycle %d: pc=%x shows bytes %s, memory holds %s at the start of the cycle" % (kk, pc, m.group(2), bytes(want).hex()), rep)
                break
            memv = dict(c.get("mem", memv))
    return len(cases) + len(cases2), lines_checked


def check(report, tier, seed):
    rng = random.Random(seed)
    imms = [0, 1, 1 << 63, (1 << 64) - 1, rng.getrandbits(64)]
    if tier == "thorough":
        imms += [rng.getrandbits(64) for _ in range(4)] + [0x8000000000000001, 0x00000000FFFFFFFF]
    cases = {}
    lines = []
    n = 0
    for b01 in range(65536):
        for imm in imms:
            # bytes 2..9 = imm, plus garbage above bit 80 now and then
            v = b01 | (imm << 16)
            if (b01 + imm) % 7 == 0:
                v |= rng.getrandbits(40) << 80
            v &= (1 << 128) - 1
            cid = "d%d" % n
            n += 1
            cases[cid] = {"cmd": "dis", "value": "%x" % v}
            lines.append("%s dis %x" % (cid, v))
    harness = lib.build_harness("dev")
    driver = lib.build_driver()
    impl = lib.run_cases(harness, lines)
    model = lib.run_cases(driver, lines)
    lib.compare_blocks(report, cases, impl, model,
                       key_fn=lambda cid, info, a, b: "disasm-opcode-%s" % info["value"][-2:],
                       what="disassembly differs from the model proved equal to the CS:APP table")
    distinct = len(set(tuple(v) for v in impl.values()))
    ntrace, ltrace = trace_part(report, rng, tier)
    report.coverage["trace_runs"] = ntrace
    report.coverage["trace_lines_checked"] = ltrace
    report.coverage["evaluations"] = len(lines) + ntrace
    report.coverage["distinct_nontrivial"] = distinct
    report.coverage["exhaustive"] = True
    report.coverage["rule"] = ("every value of the first two instruction bytes (65536) x %d immediates "
                               "(0, 1, 2^63, 2^64-1, seeded random; garbage above bit 80 in 1/7 of cases); "
                               "distinct = distinct (length, text) results of the implementation" % len(imms))
    report.coverage["samples"] = [dict(cases[c], impl=impl.get(c)) for c in ("d0", "d1543", "d%d" % (n - 1))]
    report.assumptions.append("the trace line itself (pc, byte order) is compared in the simulation checks that share the model's trace_line")


def replay(data):
    info = data["replay"]["case"]
    line = "r dis " + info["value"]
    print("impl :", lib.run_cases(lib.build_harness("dev"), [line]))
    print("model:", lib.run_cases(lib.build_driver(), [line]))
    return 0
