"""C20 - the instruction trace shows the fetched bytes and their Y86-64 disassembly.

Tie: hook `disassemble` on every first-two-byte combination (65 536) x several immediates,
implementation vs extracted model (exhaustive over the first two bytes in both tiers);
and the 'pc = ..; loaded [..]' line of real runs vs the model's trace_line (through the
shared sim engine, see simcheck)."""
import random
import lib


def check(report, tier, seed):
    rng = random.Random(seed)
    imms = [0, 1, 1 << 63, (1 << 64) - 1, rng.getrandbits(64)]
    if tier == "thorough":
        imms += [rng.getrandbits(64) for _ in range(4)] + [0x8000000000000001, 0x00000000FFFFFFFF]
    cases = {}
    lines = []
    n = 0
    for b01 in range(65536):
        for imm in imms:
            # bytes 2..9 = imm, plus garbage above bit 80 now and then
            v = b01 | (imm << 16)
            if (b01 + imm) % 7 == 0:
                v |= rng.getrandbits(40) << 80
            v &= (1 << 128) - 1
            cid = "d%d" % n
            n += 1
            cases[cid] = {"cmd": "dis", "value": "%x" % v}
            lines.append("%s dis %x" % (cid, v))
    harness = lib.build_harness("dev")
    driver = lib.build_driver()
    impl = lib.run_cases(harness, lines)
    model = lib.run_cases(driver, lines)
    lib.compare_blocks(report, cases, impl, model,
                       key_fn=lambda cid, info, a, b: "disasm-opcode-%s" % info["value"][-2:],
                       what="disassembly differs from the model proved equal to the CS:APP table")
    distinct = len(set(tuple(v) for v in impl.values()))
    report.coverage["evaluations"] = len(lines)
    report.coverage["distinct_nontrivial"] = distinct
    report.coverage["exhaustive"] = True
    report.coverage["rule"] = ("every value of the first two instruction bytes (65536) x %d immediates "
                               "(0, 1, 2^63, 2^64-1, seeded random; garbage above bit 80 in 1/7 of cases); "
                               "distinct = distinct (length, text) results of the implementation" % len(imms))
    report.coverage["samples"] = [dict(cases[c], impl=impl.get(c)) for c in ("d0", "d1543", "d%d" % (n - 1))]
    report.assumptions.append("the trace line itself (pc, byte order) is compared in the simulation checks that share the model's trace_line")


def replay(data):
    info = data["replay"]["case"]
    line = "r dis " + info["value"]
    print("impl :", lib.run_cases(lib.build_harness("dev"), [line]))
    print("model:", lib.run_cases(lib.build_driver(), [line]))
    return 0
