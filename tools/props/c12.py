"""C12 - results are deterministic: same inputs, same output, on every run."""
import os
import random
import re
import subprocess
import tempfile
import collections
import buildcheck, gen, histgen, lib, simcheck
from props import c09


def rename_program(rng, text):
    """Consistent renaming of user wires and constants (bank prefix rule respected: register
    names are renamed, prefix letters kept)."""
    names = set(re.findall(r"\b(w\d+|K\d+)\b", text))
    mapping = {}
    for n in sorted(names):
        mapping[n] = "%s_%s%d" % ("zq" if n.startswith("w") else "QC", "".join(rng.choice("abcxyz") for _ in range(rng.randint(1, 6))), len(mapping))
    out = re.sub(r"\b(w\d+|K\d+)\b", lambda m: mapping[m.group(1)], text)
    return out, mapping


def check(report, tier, seed):
    rng = random.Random(seed)
    nprog, k, cycles = (25, 4, 6) if tier == "quick" else (300, 12, 10)
    cli = lib.build_cli("dev")
    progs = []
    for i in range(nprog):
        g = gen.ProgGen(rng, n_wires=rng.randint(3, 12), depth=rng.randint(1, 3), allow_div=False, halt_at=rng.choice([None, 3, 4]))
        progs.append((g.build(), gen.yo_image(rng, 10 * cycles + 30)))
    # programs whose result records, cycle by cycle, what a wire READING an assigned control signal saw:
    # a scheduling race between the signal and its reader shows up as run-to-run variation
    for i in range(4 if tier == "quick" else 40):
        a, b = rng.sample("ABCDEFGHJKLMN", 2)
        st = ["register c%s { t : 8 = 0; hist : 32 = 0; }" % a, "c_t = %s_t + 1;" % a,
              "register h%s { v : 8 = 0; }" % b, "h_v = %s_v + 1;" % b,
              "wire a%d : 8;" % i, "a%d = %s_t;" % (i, a),
              # directly from register outputs: the signal and its reader are both "ready at once"
              "stall_%s = (%s_t)[0..1] == 1;" % (b, a), "bubble_%s = (a%d)[1..3] == 3;" % (b, i),
              "wire seen%d : 1; " % i, "seen%d = stall_%s;" % (i, b), "wire seen2%d : 1;" % i, "seen2%d = bubble_%s || seen%d;" % (i, b, i),
              "c_hist = (((%s_hist)[0..30] .. seen%d) .. seen2%d);" % (a, i, i),
              "pc = 0;", "Stat = [ %s_t >= %d : STAT_HLT; 1 : STAT_AOK ];" % (a, cycles - 1)]
        rng.shuffle(st)
        progs.append(("\n".join(st) + "\n", gen.yo_image(rng, 40)))
    nprog = len(progs)
    res = collections.Counter()
    # 1. the real binary, k processes per (program, mode): each process has its own hash keys
    with tempfile.TemporaryDirectory(dir=lib.CACHE) as d:
        for i, (hcl, yo) in enumerate(progs):
            hp, yp = os.path.join(d, "p%d.hcl" % i), os.path.join(d, "p%d.yo" % i)
            open(hp, "w").write(hcl)
            open(yp, "w").write(yo)
            for mode in ([], ["-q"], ["-t"], ["-d"], ["--trace-assignments"], ["-d", "--trace-assignments"]):
                outs = []
                for r in range(k):
                    p = subprocess.run([cli] + mode + [hp, yp, str(cycles)], capture_output=True, timeout=120)
                    outs.append((p.returncode, p.stdout.decode("utf-8", "replace")))
                res["runs"] += k
                rep = {"hcl": hcl, "yo": yo, "mode": mode}
                if len(set(o[0] for o in outs)) > 1:
                    report.violation("nondeterministic-exit-status", "exit status varies between runs: %s" % sorted(set(o[0] for o in outs)), rep)
                    continue
                if not any(m in ("-d", "--trace-assignments") for m in mode):
                    if len(set(o[1] for o in outs)) > 1:
                        a, b = sorted(set(o[1] for o in outs))[:2]
                        report.violation("nondeterministic-output", "standard output differs between runs in mode %s: %s" % (mode or "default", lib.first_diff(a.split("\n"), b.split("\n"))[:200]), rep)
                else:
                    # same lines per cycle; component/assignment activity lines in any order
                    def canon(text):
                        chunks = re.split(r"(?m)^(?=\+-)", text)
                        return [sorted(c.split("\n")) for c in chunks]
                    cs = [canon(o[1]) for o in outs]
                    if any(c != cs[0] for c in cs[1:]):
                        report.violation("nondeterministic-debug-lines", "the set of lines printed per cycle differs between runs in mode %s" % mode, rep)
    # 2. statement permutation and consistent renaming: same values in every cycle, same final state
    cases = {}
    maps = {}
    for i, (hcl, yo) in enumerate(progs):
        lines = [l for l in hcl.split("\n") if l]
        cases["o%d" % i] = {"hcl": hcl, "yo": yo, "cycles": cycles, "flags": "-", "timeout": 9999}
        sh = list(lines)
        rng.shuffle(sh)
        cases["s%d" % i] = {"hcl": "\n".join(sh) + "\n", "yo": yo, "cycles": cycles, "flags": "-", "timeout": 9999}
        rn, mapping = rename_program(rng, hcl)
        cases["r%d" % i] = {"hcl": rn, "yo": yo, "cycles": cycles, "flags": "-", "timeout": 9999}
        maps[i] = {v: k2 for k2, v in mapping.items()}
    impl, model, stats = simcheck.run_sim_cases(report, cases, key_prefix="determinism")
    for i in range(nprog):
        ref = [l for l in impl.get("o%d" % i, []) if l.startswith(("pre ", "post ", "regs ", "mem ", "flags "))]
        sh = [l for l in impl.get("s%d" % i, []) if l.startswith(("pre ", "post ", "regs ", "mem ", "flags "))]
        if ref != sh:
            report.violation("statement-order-changes-result", "reordering the statements changes the simulation: %s" % lib.first_diff(ref, sh)[:200],
                             {"case": cases["o%d" % i], "shuffled": cases["s%d" % i]["hcl"]})
        rn = []
        for l in impl.get("r%d" % i, []):
            if l.startswith(("pre ", "post ")):
                key, rest = l.split(" ", 1)
                vals = histgen.parse_values(rest)
                back = {maps[i].get(n, n): v for n, v in vals.items()}
                rn.append(key + " " + ",".join(sorted("%s=%x/%s" % (n, b, "u" if w is None else w) for n, (b, w) in back.items())))
            elif l.startswith(("regs ", "mem ", "flags ")):
                rn.append(l)
        if ref != rn:
            report.violation("renaming-changes-result", "consistent renaming changes the simulation: %s" % lib.first_diff(ref, rn)[:200],
                             {"case": cases["o%d" % i], "renamed": cases["r%d" % i]["hcl"]})
    # 3. rejected programs: same kinds of diagnostics about the same names on every run
    rej = {}
    for i in range(60 if tier == "quick" else 1000):
        g = gen.ProgGen(rng, n_wires=rng.randint(2, 8), depth=2, allow_div=False, use_regfile=True, use_mem=True)
        r = c09.inject(rng, g.build())
        if r is None or r[1] is None:
            continue
        lines_r = list(r[0])
        # several faults at once, and single statements with several offending names: which of them
        # is reported must not depend on the hash order either
        for _ in range(rng.choice([0, 0, 1, 2])):
            r2 = c09.inject(rng, "\n".join(lines_r) + "\n")
            if r2 is not None and r2[1] is not None:
                lines_r = list(r2[0])
        ws = [m.group(1) for l in lines_r for m in [re.match(r"^wire (\w+) :", l)] if m]
        many = rng.sample(ws, min(len(ws), rng.randint(2, 4))) + rng.sample(["pc", "i10bytes", "P_pc", "zz7", "zz8", "Zz9", "stat_aok"], rng.randint(1, 3))
        rng.shuffle(many)
        extra = rng.choice([None, "const KK8 = %s;" % " + ".join(many), "register vV { zr : 64 = %s; }\nv_zr = V_zr;" % " ^ ".join(many),
                            "wire zz_m : 64;\nzz_m = %s;" % " + ".join(n for n in many if n.lower().startswith("z") or n == "stat_aok")])
        if extra:
            lines_r.insert(rng.randint(0, len(lines_r)), extra)
        for rep_i in range(k):
            rej["j%d_%d" % (i, rep_i)] = {"hcl": "\n".join(lines_r) + "\n"}
    # one statement driving wires of different widths: rejected whichever of them the checker visits first
    for i in range(8 if tier == "quick" else 100):
        g = gen.ProgGen(rng, n_wires=rng.randint(1, 5), depth=2, allow_div=False)
        r = c09.inject(rng, g.build(), force_kind="chain_width_mismatch")
        if r is None:
            continue
        for rep_i in range(k):
            rej["cw%d_%d" % (i, rep_i)] = {"hcl": "\n".join(r[0]) + "\n"}
    # programs with combinational loops - random ones, and loops two of whose wires are fed by one upstream wire:
    # WHICH loop is shown may differ from run to run, that a loop is diagnosed (and nothing else) may not
    import props.c10 as c10
    nloop = 0
    for i in range(400):
        if nloop >= (25 if tier == "quick" else 400):
            break
        if i % 2 == 0:
            text, deps = c10.hcl_case(rng)
            if c10.find_dep_cycle(deps) is None:
                continue
        else:
            m_ = rng.randint(2, 5)
            loop = ["lw%d" % j for j in range(m_)]
            up = rng.choice(["pc", "i10bytes", "up0"])
            lines_l = ["wire %s : 64;" % w for w in loop] + ["pc = 0;", "Stat = STAT_AOK;"]
            if up == "up0":
                lines_l += ["wire up0 : 64;", "up0 = (i10bytes)[0..64];"]
            for j, w in enumerate(loop):
                nxt = loop[(j + 1) % m_]
                feeds = " + (%s)[0..64]" % up if rng.random() < 0.7 else ""
                lines_l.append("%s = [ (%s)[0..4] == %d : %s%s; 1 : %d ];" % (w, up, j, nxt, feeds, j))
            rng.shuffle(lines_l)
            text = "\n".join(lines_l) + "\n"
        for rep_i in range(k):
            rej["loop%d_%d" % (nloop, rep_i)] = {"hcl": text}
        nloop += 1
    verdicts, bstats = buildcheck.run_build_cases(report, rej, key_prefix="determinism-reject")
    groups = collections.defaultdict(set)
    for cid, v in verdicts.items():
        if v is not None:
            groups[cid.rsplit("_", 1)[0]].add((v[0], tuple(v[1]) if v[0] == "reject" else "accept"))
    for gname, vs in groups.items():
        if len(vs) > 1:
            report.violation("nondeterministic-diagnostics", "the same rejected program gives different diagnostics on different runs: %s" % sorted(vs)[:2],
                             {"case": rej[gname + "_0"]})
    report.coverage["evaluations"] = res["runs"] + len(cases) + len(rej)
    report.coverage["distinct_nontrivial"] = nprog * 6 + len(groups)
    report.coverage["rule"] = ("%d programs x 6 output modes x %d processes of the real binary (fresh hash keys each): exit status equal, stdout byte-identical in "
                               "default/-q/-t, equal as per-cycle line multisets under -d / --trace-assignments; each program also with statements shuffled and with "
                               "wires/constants consistently renamed: per-cycle values (renamed back), registers, memory and status equal; rejected programs "
                               "(one to three injected faults, plus statements naming several undeclared / non-constant names at once) compiled %d times each: equal (kind, names) multisets (loops reduced to 'some loop')" % (nprog, k, k))
    report.coverage["distribution"] = dict(res, **stats, **{"reject_" + k2: v for k2, v in bstats.items()})
    report.coverage["samples"] = [progs[0][0][:400]]
