"""C07 - a program that passes checking never fails or misbehaves at run time."""
import random
import collections
import exprcheck, gen, histgen, lib, simcheck


def biased_program(rng):
    """ProgGen plus wires built from the sites the property names."""
    g = gen.ProgGen(rng, n_wires=rng.randint(3, 9), depth=rng.randint(1, 4), allow_div=rng.random() < 0.3)
    text = g.build()
    extra = []
    sized = [(n, w) for n, w, c in g.env if not c and w]
    def pick(minw=1):
        c = [(n, w) for n, w in sized if w >= minw]
        return rng.choice(c) if c else ("P_pc", 64)
    for j in range(rng.randint(2, 6)):
        kind = rng.choice(["neg0", "slice128", "cat128", "muxcat", "muxneg", "divzero", "shift", "zero_width", "not0"])
        n, w = pick()
        name = "s%d" % j
        if kind == "neg0":
            extra += ["wire %s : %d;" % (name, w), "%s = -((%s ^ %s));" % (name, n, n)]
        elif kind == "slice128":
            extra += ["wire %s_t : 128;" % name, "%s_t = ((P_pc .. P_pc) ^ (%s)[0..0]);" % (name, n) if False else "%s_t = (P_pc .. P_pc);" % name,
                      "wire %s : 1;" % name, "%s = ((%s_t)[128..128] == (%s_t)[0..0]);" % (name, name, name)]
        elif kind == "cat128":
            extra += ["wire %s_t : 128;" % name, "%s_t = (i10bytes .. (P_pc)[0..48]);" % name,
                      "wire %s : 128;" % name, "%s = ((%s)[0..0] .. %s_t);" % (name, n, name)]
        elif kind == "muxcat":
            n2, w2 = pick()
            if w + w2 <= 128:
                extra += ["wire %s : %d;" % (name, w + w2),
                          "%s = ([ (P_cyc)[%d..%d] : %s; 1 : %d; ] .. %s);" % (name, j % 16, j % 16 + 1, n, rng.getrandbits(9), n2)]
        elif kind == "muxneg":
            extra += ["wire %s : %d;" % (name, w),
                      "%s = (-([ (P_cyc)[0..1] : %d; 1 : %s; ]) >> 1);" % (name, rng.getrandbits(9), n)]
        elif kind == "divzero" and rng.random() < 0.3 and w >= 2:
            extra += ["wire %s : %d;" % (name, w), "%s = (%s / (P_cyc)[1..3]);" % (name, n)]
        elif kind == "shift":
            extra += ["wire %s : %d;" % (name, w), "%s = ((%s << %d) >> (%s & 255));" % (name, n, rng.choice([0, 1, 127, 128, 129, 300]), n)]
        elif kind == "zero_width":
            extra += ["wire %s : 0;" % name, "%s = (%s)[%d..%d];" % (name, n, w, w),
                      "wire %s_u : 1;" % name, "%s_u = (!(%s) && (%s == 0));" % (name, name, name)]
        elif kind == "not0":
            extra += ["wire %s : 1;" % name, "%s = !((%s)[0..0]);" % (name, n)]
    lines = text.split("\n") + extra
    rng.shuffle(lines)
    return "\n".join(l for l in lines if l) + "\n"


def check(report, tier, seed):
    rng = random.Random(seed)
    n, cycles = (250, 6) if tier == "quick" else (5000, 10)
    cases = {}
    for i in range(n):
        cases["p%d" % i] = {"hcl": biased_program(rng), "yo": gen.yo_image(rng, 10 * cycles + 30), "cycles": cycles,
                            "flags": rng.choice(["-", "q", "d"]), "timeout": 9999}
    # programs with one driver fault each (the classes of C09): the checker rejects them; should one pass checking
    # all the same, it is simulated like any accepted program and must not misbehave either
    import props.c09 as c09
    nf = 0
    while nf < (80 if tier == "quick" else 1500):
        g = gen.ProgGen(rng, n_wires=rng.randint(1, 6), depth=2, allow_div=False)
        r = c09.inject(rng, g.build(), force_kind=rng.choice(["dup_bank_signal", "dup_bank_signal", "redecl_bank_signal", "dup_register",
                                                             "assign_twice", "assign_bank_out", "assign_builtin_out", "assign_const",
                                                             "redecl_wire", "redecl_as_const", "partial", "assign_twice_in_chain"]))
        if r is None or r[1] in (None, "MODEL"):
            continue
        cases["f%d" % nf] = {"hcl": "\n".join(r[0]) + "\n", "yo": gen.yo_image(rng, 10 * cycles + 30), "cycles": cycles,
                             "flags": "-", "timeout": 9999, "expect_accept": False}
        nf += 1
    # a width fault nested under every operator form (the checker must look inside all of them): rejected - or,
    # if ever accepted, simulated like the rest
    forms = ["!(%s)", "!(%s)", "!(%s)", "-(%s)", "-(%s)", "~(%s)", "~(%s)", "((%s))[0..1]", "[ (%s) == 0 : 1; 1 : 0 ]", "[ 1 : (%s); ]", "(1 in { (%s), 0 })", "((%s) in { 1, 2 })",
             "((%s) .. 0b1)", "(0b1 .. (%s))", "(1 + (%s))", "((%s) << 1)", "((%s) == 0)", "((%s) && 1)", "(1 || (%s))"]
    faults = ["fa & fb", "fa & fb", "fa | fb", "fb ^ fa", "fa == fb", "fa ^ fb", "(fa)[0..9]", "(fa)[3..1]", "(7 .. fa)", "fb && 1", "[ 1 : fa; 0 : fb; ]", "fa in { fb }", "nosuch9"]
    for j in range(90 if tier == "quick" else 1500):
        inner = rng.choice(faults)
        expr = rng.choice(forms) % inner
        if rng.random() < 0.4:
            expr = rng.choice(forms) % expr
        hcl = "\n".join(["register pP { pc : 64 = 0; }", "p_pc = P_pc + 1;", "pc = P_pc;", "Stat = STAT_AOK;", "wire fa : 4, fb : 8;",
                         "fa = (P_pc)[0..4];", "fb = (P_pc)[0..8];", "wire fz : %d;" % rng.choice([1, 4, 8, 64]), "fz = %s;" % expr]) + "\n"
        cases["g%d" % j] = {"hcl": hcl, "yo": gen.yo_image(rng, 40), "cycles": cycles, "flags": "-", "timeout": 9999, "expect_accept": False}
    total = collections.Counter()
    for profile in ("dev", "noovf"):
        impl, model, stats = simcheck.run_sim_cases(report, cases, profile=profile, key_prefix="safety-" + profile)
        for k, v in stats.items():
            total[profile + "." + k] = v
        # every wire fits its width, in every cycle (judged on the implementation's own values)
        for cid, c in cases.items():
            init, cyc = histgen.parse_trace(impl.get(cid, []))
            for k, cy in enumerate(cyc):
                for name, (bits, w) in cy.get("post", {}).items():
                    if w is not None and bits >> w:
                        report.violation("value-exceeds-width", "cycle %d: wire %s = %x does not fit %d bits" % (k, name, bits, w),
                                         {"case": dict(c, profile=profile)})
    feats = lib.default_features()
    ecases = exprcheck.random_cases(rng, 1500 if tier == "quick" else 30000, feats, depth=6)
    for profile in ("dev", "noovf"):
        st = exprcheck.run_expr_cases(report, ecases, feats, profile, prefix="x" + profile[0])
        for k, v in st.items():
            total[profile + ".expr_" + k] = v
    report.coverage["evaluations"] = 2 * (len(cases) + len(ecases))
    report.coverage["distinct_nontrivial"] = len(set(c["hcl"] for c in cases.values())) + len(set(gen.to_sexpr(c["ast"]) for c in ecases))
    report.coverage["rule"] = ("random accepted programs (and one-fault programs of the C09 classes, which must be rejected - or, if ever accepted, behave) plus wires built from the sites the property names (-x with x = 0, x[128..128], (e0 .. w128), "
                               "mux with selected unsized arm feeding .. and -, shifts by >= 128, zero-width values, zero divisors) on random images, "
                               "%d cycles, in the overflow-checking and the wrapping build; random well-typed expressions in explicit environments; "
                               "oracle: no panic, no run-time error but division by zero, every value fits its width, and equality with the model" % cycles)
    report.coverage["distribution"] = dict(total)
    report.coverage["samples"] = [list(cases.values())[0]["hcl"][:500]]
