"""C08 - acceptance is decided exactly by the documented width rules."""
import random
import collections
import exprcheck, gen, lib

TARGETS = [("const", None), ("regdefault", None), ("wire", None), ("reginput", None), ("stall", 1), ("bubble", 1), ("reg_dstE", 4), ("reg_inputE", 64),
           ("mem_readbit", 1), ("mem_addr", 64), ("Stat", 3), ("pc", 64)]


def wcombine(a, b):
    if a is None:
        return True
    if b is None:
        return True
    return a == b


def program_for(ast, env, target, tw):
    """A program assigning the expression (over wires a, b of the env's widths) to a target."""
    st = ["register pP { pc : 64 = 0; }", "p_pc = P_pc + 10;"]
    need = {"Stat": "Stat = STAT_AOK;", "pc": "pc = P_pc;"}
    if target in ("const", "regdefault"):
        # operands are constants themselves; zero-width ones cannot be written as constants
        for n, w, v, c in env:
            if w == 0:
                return None
            st.append("const %s = %s;" % (n, gen.const_text(v & ((1 << w) - 1), w) if w else str(v)))
        if target == "const":
            st.append("const KT = %s;" % gen.to_text(ast))
        else:
            # a register's initial value obeys the same rules, and must fit the register's width
            st += ["register xY { r : %d = %s; }" % (tw, gen.to_text(ast)), "x_r = Y_r;"]
        st += list(need.values())
        return "\n".join(st) + "\n"
    for n, w, v, c in env:
        if w is None:
            st.append("const %s = %d;" % (n, v))
        elif w == 0:
            st += ["wire %s : 0;" % n, "%s = (P_pc)[0..0];" % n]
        else:
            st += ["wire %s : %d;" % (n, w), "%s = %s;" % (n, gen.const_text(v & ((1 << w) - 1), w))]
    e = gen.to_text(ast)
    if target == "wire":
        st += ["wire t : %d;" % tw, "t = %s;" % e]
    elif target == "reginput":
        st += ["register xY { r : %d = 0; }" % tw, "x_r = %s;" % e]
    elif target in ("stall", "bubble"):
        st += ["register xY { r : 8 = 0; }", "x_r = Y_r;", "%s_Y = %s;" % (target, e)]
    elif target == "reg_dstE":
        st += ["reg_dstE = %s;" % e, "reg_inputE = P_pc;"]
    elif target == "reg_inputE":
        st += ["reg_inputE = %s;" % e, "reg_dstE = 0;"]
    elif target == "mem_readbit":
        st += ["mem_readbit = %s;" % e, "mem_addr = P_pc;", "mem_writebit = 0;", "mem_input = P_pc;"]
    elif target == "mem_addr":
        st += ["mem_readbit = 0;", "mem_addr = %s;" % e, "mem_writebit = 0;", "mem_input = P_pc;"]
    elif target == "Stat":
        need["Stat"] = "Stat = %s;" % e
    elif target == "pc":
        need["pc"] = "pc = %s;" % e
    st += list(need.values())
    return "\n".join(st) + "\n"


def check(report, tier, seed):
    rng = random.Random(seed)
    feats = lib.default_features()
    # 1. expression level: grid + random + one-fault, checker verdict and kind against the model
    cases = exprcheck.grid_cases(rng, "quick")
    if tier == "quick":
        rng.shuffle(cases)
        cases = cases[:12000]
    cases += exprcheck.random_cases(rng, 1000 if tier == "quick" else 15000, feats, depth=5)
    cases += exprcheck.fault_cases(rng, 2500 if tier == "quick" else 40000, feats)
    st = exprcheck.run_expr_cases(report, cases, feats, "dev", compare_eval="checked", prefix="k")
    # 2. program level: the same verdict when the expression is assigned to each kind of target
    widths = [0, 1, 3, 4, 8, 64, 128, None]
    pcases, hl, ml = {}, [], []
    fb = exprcheck.feature_bits(feats)
    k = 0
    ops = gen.ALL_BINOPS if tier == "thorough" else ["Add", "And", "Equal", "Less", "LogicalAnd", "LeftShift", "Div"]
    for op in ops:
        for wl in widths:
            for wr in widths:
                for target, tw0 in TARGETS:
                    if tier == "quick" and rng.random() < 0.75:
                        continue
                    tw = tw0 if tw0 is not None else rng.choice([0, 1, 4, 8, 64, 128])
                    mk = lambda w: rng.getrandbits(8) & ((1 << w) - 1 if w is not None else 255)
                    env = [("a", wl, mk(wl), False), ("b", wr, mk(wr), False)]
                    ast = ("b", op, ("w", "a"), ("w", "b"))
                    text = program_for(ast, env, target, tw)
                    if text is None:
                        continue
                    if target == "const":
                        tw = None              # a constant takes whatever width its expression has
                    cid = "q%d" % k
                    k += 1
                    pcases[cid] = {"hcl": text, "target": target, "tw": tw}
                    hl.append("%s front %s 0" % (cid, lib.hexs(pcases[cid]["hcl"])))
                    # unsized wires are constants in the program: visible to the always-true test
                    env2 = [(n, w, v, w is None or target in ("const", "regdefault")) for n, w, v, c in env]
                    ml.append("%s mexpr %s %s %s" % (cid, fb, lib.hexs(gen.to_sexpr(ast)), exprcheck.env_args(env2)))
    impl = lib.run_cases(lib.build_harness("dev", feats), hl)
    model = lib.run_cases(lib.build_driver(), ml)
    verdicts = collections.Counter()
    for cid, c in pcases.items():
        a = impl.get(cid, ["MISSING"])
        b = exprcheck.canon_block(model.get(cid, ["MISSING"]))
        rep = {"case": c, "impl": a, "model": model.get(cid)}
        v = [l for l in a if l.startswith(("accept", "reject"))]
        if not v or any(l.startswith("PANIC") for l in a):
            report.violation("front-died", "front end gave no verdict / panicked", rep)
            continue
        if b["check"][0] == "ok":
            w = None if b["check"][1] == "u" else int(b["check"][1])
            want = ("accept",) if wcombine(c["tw"], w) else ("reject", "MismatchedRegisterDefaultWidths" if c["target"] == "regdefault" else "MismatchedWireWidths")
            if c["target"] in ("const", "regdefault") and b["eval"] and b["eval"][0] == "err":
                want = ("reject", b["eval"][1][0].split("|")[0])       # constants are evaluated while building
        else:
            want = ("reject", b["check"][1][0].split("|")[0])
        verdicts[want[0]] += 1
        if want[0] == "accept":
            if not v[0].startswith("accept"):
                report.violation("wrongly-rejected:" + c["target"], "a program obeying the width rules was rejected: %s" % v[0][:150], rep)
        else:
            if v[0].startswith("accept"):
                report.violation("wrongly-accepted:" + c["target"], "a program breaking a width rule (%s) was accepted" % want[1], rep)
            else:
                kinds = [e.split("|")[0] for e in exprcheck.canon_err(v[0][7:])]
                if want[1] not in kinds:
                    report.violation("wrong-diagnostic:" + want[1], "rejected with %s, the rule broken is %s" % (kinds[:3], want[1]), rep)
    # 3. width literals and slice bounds: "declared widths are at most 128", "lo <= hi <= operand width",
    #    at and around every power of two a narrowing cast could wrap at
    lits = sorted(set([0, 1, 2, 7, 8, 9, 64, 127, 128, 129, 130, 192, 255, 256, 257, 264, 320, 384, 511, 512, 640,
                       65535, 65536, 65536 + 8, 2 ** 32 - 1, 2 ** 32, 2 ** 32 + 64, 2 ** 64, 2 ** 64 + 128, 2 ** 127, 2 ** 128 - 1]
                      + [rng.choice([256, 512, 65536, 2 ** 32, 2 ** 64]) * rng.randint(1, 3) + rng.randint(0, 128) for _ in range(20 if tier == "quick" else 300)]))
    wcases, wl_lines = {}, []

    def spell(n):
        return rng.choice([str(n), "0x%x" % n, "0x%X" % n])
    base = ["register pP { pc : 64 = 0; }", "p_pc = P_pc + 10;", "pc = P_pc;", "Stat = STAT_AOK;"]
    for n in lits:
        ok = n <= 128
        forms = [("wire-width", ["wire t : %s;" % spell(n), "t = 0;"], ok, "InvalidWireWidth"),
                 ("register-width", ["register xY { r : %s = 0; }" % spell(n), "x_r = 0;"], ok, "InvalidWireWidth"),
                 ("slice-hi", ["wire t : 128;", "t = 1;", "wire u : 1;", "u = (t)[0..%s] == 0;" % spell(n)], ok, "InvalidConstant"),
                 ("slice-lo", ["wire t : 128;", "t = 1;", "wire u : 1;", "u = (t)[%s..128] == 0;" % spell(n)], ok, "InvalidConstant"),
                 ("slice-narrow", ["wire t : 8;", "t = 1;", "wire u : 1;", "u = (t)[0..%s] == 0;" % spell(n)], n <= 8, "InvalidConstant" if n > 128 else "InvalidBitIndex" if False else None)]
        for form, body, accept, kindw in forms:
            cid = "w%d" % len(wcases)
            text = "\n".join(base + body) + "\n"
            wcases[cid] = {"hcl": text, "form": form, "literal": n, "accept": accept, "kind": kindw}
            wl_lines.append("%s front %s 0" % (cid, lib.hexs(text)))
    wimpl = lib.run_cases(lib.build_harness("dev", feats), wl_lines)
    for cid, c in wcases.items():
        a = wimpl.get(cid, ["MISSING"])
        v = [l for l in a if l.startswith(("accept", "reject"))]
        rep = {"case": c, "impl": a[:6]}
        if not v or any(l.startswith("PANIC") for l in a):
            report.violation("front-died", "front end gave no verdict / panicked", rep)
            continue
        verdicts["literal_" + ("accept" if c["accept"] else "reject")] += 1
        if c["accept"] and not v[0].startswith("accept"):
            report.violation("width-literal-wrongly-rejected:" + c["form"], "%s with literal %d was rejected: %s" % (c["form"], c["literal"], v[0][:120]), rep)
        elif not c["accept"]:
            if v[0].startswith("accept"):
                report.violation("width-literal-wrongly-accepted:" + c["form"], "%s with literal %d (beyond the limit) was accepted" % (c["form"], c["literal"]), rep)
            elif c["kind"]:
                kinds = [e.split("|")[0] for e in exprcheck.canon_err(v[0][7:])]
                if c["kind"] not in kinds:
                    report.violation("width-literal-wrong-diagnostic:" + c["form"], "%s with literal %d: rejected with %s, expected %s" % (c["form"], c["literal"], kinds[:3], c["kind"]), rep)
    pcases.update(wcases)
    report.coverage["evaluations"] = len(cases) + len(pcases)
    report.coverage["distinct_nontrivial"] = len(set(gen.to_sexpr(c["ast"]) + exprcheck.env_args(c["env"]) for c in cases)) + len(pcases)
    report.coverage["rule"] = ("expression level: operator x width-pair grid over %s, random well-typed nestings, and nestings with exactly one injected fault "
                               "(other width, unsized, undeclared wire, misordered slice, duplicated / missing default arm): verdict, width and diagnostic "
                               "kind against the model checker; program level: operators x width pairs assigned to a plain wire, a register input, a constant, a register initial value, "
                               "stall/bubble, and built-in inputs of widths 1/3/4/64, targets of width 0 included; width literals of wire and register declarations and slice bounds "
                               "at and around 128, 256, 2^16, 2^32, 2^64 (+ random multiples plus a small offset) in decimal and hex spelling: accepted iff within the limit" % exprcheck.GRID_WIDTHS)
    report.coverage["distribution"] = dict(st, **{"program_" + k2: v2 for k2, v2 in verdicts.items()})
    report.coverage["samples"] = [pcases["q0"]["hcl"], gen.to_text(cases[-1]["ast"])]
