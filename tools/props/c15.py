"""C15 - loading a .yo listing puts exactly the listed bytes at the listed addresses."""
import random
import collections
import gen, lib


def valid_listing(rng):
    """Returns (text, expected map)."""
    lines, mem = [], {}
    n = rng.randint(1, 12)
    for _ in range(n):
        r = rng.random()
        if r < 0.65:
            a = rng.choice([rng.randrange(0x1000), rng.randrange(0x20), 0xff8 + rng.randrange(8), 0])
            nb = rng.randint(0, 10)
            data = bytes(rng.getrandbits(8) for _ in range(nb))
            h = data.hex()
            if rng.random() < 0.3:
                h = h.upper()
            lines.append("0x%03x: %-20s | %s" % (a, h, rng.choice(["irmovq $1, %rax", "", "x: .quad 0x12 | y", "# c"])))
            for i, b in enumerate(data):
                mem[a + i] = b
        elif r < 0.8:
            lines.append(" " * 28 + "| " + rng.choice(["# comment", ".pos 0", "label:", ""]))
        elif r < 0.9:
            lines.append("")
        else:
            lines.append(rng.choice(["no pipe here", "   ", "0x000: 00", "# just text"]))
    eol = rng.choice(["\n", "\n", "\r\n"])
    text = eol.join(lines) + (eol if rng.random() < 0.8 else "")
    return text, mem


def malformed_listing(rng):
    good = "0x01a: 30f40001000000000000 | irmovq $256, %rsp"
    r = rng.random()
    if r < 0.35:
        line = good[:rng.randint(0, len(good) - 1)]
    elif r < 0.75:
        pos = rng.randrange(30)
        ch = rng.choice([" ", "g", "+", "|", ":", "é", "\x00", "x", "-", "❤", "\t", "\t", "\r", "\x0c", "\x0b", "\u00a0"])
        line = good[:pos] + ch + good[pos + 1:]
    elif r < 0.85:
        line = good[:7] + "0" * rng.choice([1, 3, 19]) + " " * 20
        line = line[:27] + " | x"
    elif r < 0.93:
        pos = rng.randrange(30)
        line = good[:pos] + rng.choice(["é", "+"]) + good[pos:]
    else:
        # white space other than blanks inside the data field, at an even and at an odd digit offset
        k_ = rng.choice([0, 2, 4, 3, 8, 19])
        field = ("30f40001000000000000" + " " * 20)[:20]
        field = field[:k_] + rng.choice(["\t", "\r", "\x0c"]) + field[k_ + 1:]
        line = "0x01a: " + field + " | x"
    before = ["0x000: 00                   | ok"] if rng.random() < 0.5 else []
    return "\n".join(before + [line]) + ("\n" if rng.random() < 0.5 else "")


def long_listing(rng, size, malformed):
    """A listing of about `size` bytes: filler (comment-only, blank, pipe-free and overwritten data
    lines) up to the size, then data lines that must still be loaded - or a malformed line that
    must still be refused."""
    lines, mem, total = [], {}, 0
    target = size - rng.choice([0, 1, 30, 45, 46, 47, 200])
    while total < target:
        r = rng.random()
        if r < 0.5:
            l = " " * 28 + "| # " + "filler " * rng.randint(0, 6)
        elif r < 0.6:
            l = ""
        elif r < 0.7:
            l = "# no pipe " + "x" * rng.randint(0, 60)
        else:
            a = rng.randrange(0x1000)
            data = bytes(rng.getrandbits(8) for _ in range(rng.randint(1, 10)))
            l = "0x%03x: %-20s | .byte" % (a, data.hex())
            for i, b in enumerate(data):
                mem[a + i] = b
        lines.append(l)
        total += len(l) + 1
    for _ in range(rng.randint(1, 4)):
        a = rng.randrange(0x1000)
        data = bytes(rng.getrandbits(8) | 1 for _ in range(rng.randint(1, 10)))
        lines.append("0x%03x: %-20s | tail" % (a, data.hex()))
        for i, b in enumerate(data):
            mem[a + i] = b
    if malformed:
        lines.append("0x%03x: zz                   | bad" % rng.randrange(0x1000))
        lines += [" " * 28 + "| after"] * rng.randint(0, 2)
    return "\n".join(lines) + "\n", mem


def check(report, tier, seed):
    rng = random.Random(seed)
    n = 3000 if tier == "quick" else 60000
    cases, lines, expect = {}, [], {}
    for i in range(n):
        cid = "y%d" % i
        if i % 2 == 0:
            text, mem = valid_listing(rng)
            expect[cid] = mem
            kind = "valid"
        else:
            text = malformed_listing(rng)
            kind = "malformed"
        cases[cid] = {"text": text, "kind": kind}
        lines.append("%s yo %s" % (cid, lib.hexs(text)))
    for j, text in enumerate(["", "\n", "\r\n", "|", " " * 28 + "|", "0x", "0x000:", "0x00g: 00                   | x",
                              "0x000: 0                    | x", "0x000: 0g                   | x", "0x+1f: 00                   | x",
                              "0x000: +f                   | x", "0x000: 00 11                | x", "é" * 20,
                              "0x000: 000102030405060708090a | x"]):
        cid = "yc%d" % j
        cases[cid] = {"text": text, "kind": "corner"}
        lines.append("%s yo %s" % (cid, lib.hexs(text)))
    # long listings: around every buffer size a reader could have (4 KiB .. 1 MiB)
    sizes = [4096, 8192, 16384, 65536, 131072] if tier == "quick" else [4096, 8192, 16384, 32768, 65536, 131072, 262144, 1048576] * 4
    for j, size in enumerate(sizes):
        for bad in (False, True):
            cid = "yl%d%s" % (j, "b" if bad else "")
            text, mem = long_listing(rng, size, bad)
            if not bad:
                expect[cid] = mem
            cases[cid] = {"text": text, "kind": "long-malformed" if bad else "long"}
            lines.append("%s yo %s" % (cid, lib.hexs(text)))
    # files that are not valid UTF-8 (an I/O error for the reader): refused whole, wherever the bad byte is
    raw_cases = {}
    for j in range(60 if tier == "quick" else 1000):
        text, mem = valid_listing(rng)
        ls = text.encode().split(b"\n")
        k = rng.randrange(len(ls))
        bad = rng.choice([b"\xe9", b"\xff", b"\xc3(", b"caf\xe9", b"\x80\x80"])
        where = rng.choice(["comment", "comment", "start", "data"])
        if where == "comment":
            ls[k] = ls[k] + b" # Ren" + bad
        elif where == "start":
            ls[k] = bad + ls[k]
        else:
            ls[k] = ls[k][:9] + bad + ls[k][9:]
        # make sure good data lines come both before and after the bad one now and then
        ls = [b"0x000: 01                   | first"] * rng.randint(0, 2) + ls + [b"0x010: 02                   | last"] * rng.randint(0, 2)
        cid = "yr%d" % j
        raw_cases[cid] = b"\n".join(ls) + b"\n"
        lines.append("%s yo %s" % (cid, raw_cases[cid].hex()))
    impl = lib.run_cases(lib.build_harness("dev"), lines)
    model = lib.run_cases(lib.build_driver(), [l for l in lines if not l.startswith("yr")])
    res = collections.Counter()
    for cid, raw in raw_cases.items():
        a = impl.get(cid, ["MISSING"])
        res["notutf8:" + a[0].split(" ")[0]] += 1
        if any(l.startswith(("PANIC", "DIED", "NOT-RUN")) for l in a):
            report.violation("yo-panic", "the loader crashed on a file that is not valid UTF-8", {"raw": raw.hex(), "impl": a})
        elif not a[0].startswith("err"):
            report.violation("yo-invalid-utf8-accepted", "a listing that is not valid UTF-8 was loaded (partially): %s" % a[0][:120], {"raw": raw.hex(), "impl": a})
    for cid, c in cases.items():
        a, b = impl.get(cid, ["MISSING"]), model.get(cid, ["MISSING"])
        rep = {"case": c, "impl": a, "model": b}
        if any(l.startswith(("PANIC", "DIED", "NOT-RUN")) for l in a):
            report.violation("yo-panic", "the loader crashed on %r" % c["text"][:60], rep)
            continue
        res[c["kind"] + ":" + a[0].split(" ")[0]] += 1
        if c["kind"] == "long-malformed" and not a[0].startswith("err UnparseableLine"):
            report.violation("yo-wrong-image", "a malformed line %d bytes into the listing was not refused: %s" % (c["text"].find(": zz"), a[0][:80]),
                             {"impl": a[0][:300], "size": len(c["text"]), "tail": c["text"][-300:]})
            continue
        if cid in expect:
            want = ",".join("%x=%02x" % kv for kv in sorted(expect[cid].items())) or "-"
            if c["text"] == "":
                want_line = "err EmptyFile"
            else:
                want_line = "ok " + want
            if a != [want_line]:
                report.violation("yo-wrong-image", "loaded image differs from the listing: got %s expected %s" % (a[0][:100], want[:100]), rep)
                continue
        if a != b:
            report.violation("yo-differs-from-model", "loader result differs from the model: %s vs %s on %r" % (a[0][:80], b[0][:80], c["text"][:80]), rep)
    report.coverage["evaluations"] = len(cases)
    report.coverage["distinct_nontrivial"] = len(set(c["text"] for c in cases.values()))
    report.coverage["rule"] = ("valid listings (any address 0x000-0xfff, 0-10 bytes, upper/lower hex, overlapping lines, comment-only, blank and "
                               "pipe-free lines, LF/CRLF, with/without final newline) judged against the generator's own byte map; malformed lines "
                               "(every truncation, one column replaced/inserted by blank g + | : e-acute NUL heart, odd digit counts) and corner files, "
                               "all compared with the model; long listings (4 KiB - 128 KiB, thorough 1 MiB) whose last data lines / malformed line lie beyond the size; files with a byte sequence that is not valid UTF-8 on any line (refused whole); distinct = distinct file texts")
    report.coverage["distribution"] = dict(res)
    report.coverage["samples"] = [cases["y0"]["text"], cases["y1"]["text"]]
