"""C19 - the command line reports success and failure through its exit status."""
import os
import random
import re
import subprocess
import tempfile
import collections
import gen, lib

HALTING = "register pP { c : 8 = 0; }\np_c = P_c + 1;\npc = 0;\nStat = [ P_c == 2 : STAT_HLT; 1 : STAT_AOK; ];\n"
FOREVER = "pc = 0;\nStat = STAT_AOK;\n"
BUBBLING = "register cC { n : 8 = 0; }\nc_n = C_n + 1;\npc = 0;\nStat = [ (C_n)[2..3] == 0 : STAT_BUB; 1 : STAT_AOK; ];\n"      # never stops either: bubbles and OK cycles alternate
ERRSTAT = "pc = 0;\nStat = STAT_INS;\n"
ABORTS = "register pP { c : 8 = 0; }\np_c = P_c + 1;\npc = 0;\nwire d : 8;\nd = 7 / (2 - P_c);\nStat = STAT_AOK;\n"
REJECTED = "wire x : 8;\npc = 0;\nStat = STAT_AOK;\n"
OPTIONS = ["-c", "--check", "-d", "--debug", "-q", "--quiet", "-t", "--testing", "-h", "--help", "-i", "--interactive",
           "--ungroup-debug-wires", "--trace-assignments", "--version", "--bogus", "-Z", "-dq", "-qt", "-tdi", "-cq", "-dd", "--debug=1", "--chec", "-",
           "--d", "--q", "--h", "--c", "--v", "--d=1", ""]
SHORT = {"c": "check", "d": "debug", "q": "quiet", "t": "testing", "h": "help", "i": "interactive"}
LONG = set(SHORT.values()) | {"ungroup-debug-wires", "trace-assignments", "version"}


def budget(free):
    """The cycle budget the third positional denotes (u32 grammar), the default when absent, -1 when malformed."""
    if len(free) < 3:
        return 9999
    t = free[2][1:] if free[2].startswith("+") else free[2]
    if t and all(c in "0123456789" for c in t) and int(t) < 2 ** 32:
        return int(t)
    return -1


def getopts(args):
    """What the getopts crate does with this option table (all flags, no arguments): (ok, flags, free)."""
    seen, free = [], []
    i = 0
    while i < len(args):
        a = args[i]
        i += 1
        if a == "--":
            free += args[i:]
            break
        if a.startswith("--"):
            name = a[2:]
            if len(name.split("=")[0]) == 1 and name[0] in SHORT:
                name = SHORT[name[0]] + name[1:]        # the crate reads a one-letter long name as the short name
            if "=" in name or name not in LONG:
                return False, set(), []
            seen.append(name)
        elif a.startswith("-") and len(a) > 1:
            for ch in a[1:]:
                if ch not in SHORT:
                    return False, set(), []
                seen.append(SHORT[ch])
        else:
            free.append(a)
    if len(seen) != len(set(seen)):
        return False, set(), []
    return True, set(seen), free
TIMEOUTS = [None, "0", "1", "3", "9999", "4294967295", "4294967296", "-1", "abc", "", "+5", "007", "1 ", "99999999999999999999",
            "010", "0012", "08", "0x10", "0b11", "0o7", "1e1", "1_0", "00"]


def inv_flags(lossy):
    ok, flags, free = getopts(lossy)
    return flags if ok else set()


def check(report, tier, seed):
    rng = random.Random(seed)
    n = 700 if tier == "quick" else 12000
    cli = lib.build_cli("dev")
    driver = lib.build_driver()
    res = collections.Counter()
    with tempfile.TemporaryDirectory(dir=lib.CACHE) as d:
        files = {}
        for name, text in (("halting.hcl", HALTING), ("forever.hcl", FOREVER), ("bubbling.hcl", BUBBLING), ("errstat.hcl", ERRSTAT), ("aborts.hcl", ABORTS), ("rejected.hcl", REJECTED)):
            files[name] = os.path.join(d, name)
            open(files[name], "w").write(text)
        good_yo = os.path.join(d, "prog.yo")
        open(good_yo, "w").write(gen.yo_line(0, b"\x30\xf4") + "\n")
        wrong_ext = os.path.join(d, "prog.txt")
        open(wrong_ext, "w").write(gen.yo_line(0, b"\x30\xf4") + "\n")
        bad_yo = os.path.join(d, "bad.yo")
        good_line = (gen.yo_line(0, b"\x30\xf4") + "\n").encode()
        open(bad_yo, "wb").write(rng.choice([b"0x000: zz | x\n", b"", b"0x000: 30f4 | short\n", b"\xff\xfe | \n",
                                             good_line + b"0x002: zz | x\n", good_line * 3 + b"0x00: 00 | x\n" + good_line]))
        # a line that is not valid UTF-8 makes the image unloadable wherever it stands: first, last, in the middle
        bad_line = b"0x008: 00                   | caf\xe9\n"
        latin = {}
        for j, content in enumerate([bad_line, good_line + bad_line, good_line + bad_line + good_line,
                                     good_line * 4 + b"# Ren\xe9\n", good_line + b"\xff\n" + good_line]):
            latin[os.path.join(d, "latin%d.yo" % j)] = content
            open(os.path.join(d, "latin%d.yo" % j), "wb").write(content)
        # names around the '.yo' rule, all with loadable contents: the rule is "ends in .yo", case-sensitively
        named = {}
        for nm in ("PROG.YO", "prog.Yo", "prog.yO", ".yo", "progyo", "prog.yo.bak", "prog.yoo", "prog.y", "prog.yo ", "é.yo", "prog..yo"):
            named[nm] = os.path.join(d, nm)
            open(named[nm], "w").write(gen.yo_line(0, b"\x30\xf4") + "\n")
        cases = []
        for k in range(n):
            opts = [o for o in OPTIONS if rng.random() < (0.05 if o in ("-h", "--help", "--version", "--bogus", "-Z", "-dd", "--debug=1", "--chec", "-", "--h", "--v", "--d=1", "", "--c") else 0.11)]
            rng.shuffle(opts)
            hk = rng.choice(["halting", "halting", "forever", "bubbling", "errstat", "aborts", "rejected", "missing"])
            plain = k < 120        # first the well-formed invocations: every program x every small timeout, a few output options
            if plain:
                opts = list(rng.choice([[], ["-q"], ["-t"], ["-q", "-t"], ["--quiet"], ["-d"]]))
                hk = ["halting", "forever", "bubbling", "errstat", "aborts"][k % 5]
            hcl_path = files.get(hk + ".hcl", os.path.join(d, "nonexistent.hcl"))
            yk = rng.choice(["good", "good", "good", "missing", "wrongext", "bad", "latin", "named", "named"])
            if yk == "named":
                yo_path = named[rng.choice(sorted(named))]
            else:
                yo_path = {"good": good_yo, "missing": os.path.join(d, "nothere.yo"), "wrongext": wrong_ext, "bad": bad_yo, "latin": rng.choice(sorted(latin))}[yk]
            nfree = rng.choice([0, 1, 2, 2, 3, 3, 3, 4])
            t = rng.choice(TIMEOUTS)
            if plain:
                yo_path, nfree, t = good_yo, 3, ["0", "1", "2", "3", "4", "5", "7", "9", "12", "010", "0012", "+11"][(k // 5) % 12]
            if hk in ("forever", "bubbling") and t in ("9999", "4294967295", None):
                t = rng.choice(["0", "1", "3", "+5", "007"])
            free = [hcl_path, yo_path, t if t is not None else "5", "extra"][:nfree]
            if t is None and nfree >= 3:
                free = free[:2]
            if rng.random() < 0.06 and free and not plain:
                # an argument that is not valid UTF-8: it is read lossily and reported like any other bad argument
                j = rng.randrange(len(free))
                free[j] = rng.choice(["\udcff.hcl", "prog\udcfe.yo", "1\udcff", "\udcc3("])
            args = list(opts)
            pos = rng.randint(0, len(args))
            args = args[:pos] + free + args[pos:]
            if rng.random() < 0.1 and not plain:
                # "--" ends the options: everything after it is positional, whatever it looks like
                cut = rng.randint(0, len(args))
                args = args[:cut] + ["--"] + args[cut:]
            # what the model needs to know about this invocation: the option syntax as the getopts crate reads it
            lossy = [a.encode("utf-8", "surrogateescape").decode("utf-8", "replace") for a in args]
            opts_ok, flags, free = getopts(lossy)
            # what the positionals really are (the terminator and a lone "-" can shift them)
            hcl_kind = {files[k]: k[:-4] for k in files}
            hk = hcl_kind.get(free[0], "missing") if free else hk
            yo_kind = {good_yo: "good", wrong_ext: "wrongext", bad_yo: "bad"}
            yo_kind.update({pth: "latin" for pth in latin})
            yo_kind.update({v: "good" for v in named.values()})
            yk2 = yo_kind.get(free[1], "missing") if len(free) > 1 else "missing"
            inv = {"opts_ok": opts_ok, "help": "help" in flags, "version": "version" in flags,
                   "check": "check" in flags,
                   "hcl": "U" if hk == "missing" else "R" if hk == "rejected" else "A",
                   "yo": "M" if yk2 == "missing" else "U" if yk2 in ("bad", "latin") else "L",
                   "sim": "A" if hk == "aborts" and budget(free) >= 3 else "C", "free": free}   # the division by zero happens in the third cycle
            cases.append((args, inv, hk, lossy))
        # the model decides from the RAW argument vector (CliArgs.main_in_world: its own reading of the option
        # syntax); the outside world is a table: what each file is for the front end, for the loader, and from
        # which cycle budget on the simulation of that HCL file aborts
        bad_as_hcl = "U" if open(bad_yo, "rb").read().startswith(b"\xff") else "R"
        world = [(files["halting.hcl"], "A", "U", "-"), (files["forever.hcl"], "A", "U", "-"), (files["bubbling.hcl"], "A", "U", "-"), (files["errstat.hcl"], "A", "U", "-"),
                 (files["aborts.hcl"], "A", "U", "3"), (files["rejected.hcl"], "R", "U", "-"),
                 (good_yo, "R", "L", "-"), (wrong_ext, "R", "L", "-"), (bad_yo, bad_as_hcl, "U", "-")]
        world += [(pth, "U", "U", "-") for pth in latin]
        world += [(pth, "R", "L", "-") for pth in named.values()]
        entries = " ".join("%s:%s:%s:%s" % (lib.hexs(pth), a_, b_, c_) for pth, a_, b_, c_ in world)
        lines = []
        for i, (args, inv, hk, lossy) in enumerate(cases):
            lines.append("a%d margv %d %s %s" % (i, len(lossy), " ".join(lib.hexs(x) for x in lossy), entries))
        model = lib.run_cases(driver, lines)
        # the python reading of the option syntax (used by the generator) must agree with the model's
        lines2 = ["b%d mcli %d %d %d %d %s %s %s %s" % (i, inv["opts_ok"], inv["help"], inv["version"], inv["check"], inv["hcl"], inv["yo"], inv["sim"],
                                                       " ".join(lib.hexs(f) for f in inv["free"])) for i, (args, inv, hk, lossy) in enumerate(cases)]
        model2 = lib.run_cases(driver, lines2)
        for i, (args, inv, hk, lossy) in enumerate(cases):
            if model.get("a%d" % i) != model2.get("b%d" % i):
                report.broken.append({"what": "the check's own reading of the arguments disagrees with the model's parse_argv",
                                      "detail": {"args": [a.replace(d, "<tmp>") for a in args], "argv-model": model.get("a%d" % i), "digested": model2.get("b%d" % i)}})
                break
        observed = {}
        for i, (args, inv, hk, lossy) in enumerate(cases):
            want = model.get("a%d" % i, ["?"])[0].split()
            try:
                # standard input matters only under -i (the prompt between cycles reads a line): nothing there, text,
                # bytes that are not UTF-8 - none of it may change what the run does or how it is reported
                stdin_bytes = b"".join(rng.choice([b"\n", b"\n", b"go on\n", b"\xff\xfe\n", b"caf\xe9\n", b"\x00\n", b"\r\n"]) for _ in range(rng.choice([0, 0, 1, 2, 5, 40])))
                stdin_bytes += rng.choice([b"", b"", b"no newline", b"\xe9"])
                r = subprocess.run([cli.encode()] + [a.encode("utf-8", "surrogateescape") for a in args], capture_output=True, timeout=60, input=stdin_bytes)
            except subprocess.TimeoutExpired:
                report.violation("cli-hang", "no termination within 60 s: %r" % args, {"args": args})
                continue
            out, err = r.stdout.decode("utf-8", "replace"), r.stderr.decode("utf-8", "replace")
            observed[i] = (r.returncode, r.stdout, r.stderr)
            final = any(m in out for m in ("halted in state", "timed out after", "error caused in state"))
            got = ("usage" if "Usage:" in out else "version" if "HCLRS version" in out else "syntaxok" if "syntax OK" in out
                   else "final" if final else "message" if err.strip() else "nothing")
            rep = {"args": [a.replace(d, "<tmp>") for a in args], "stdin_hex": stdin_bytes.hex(), "exit": r.returncode, "stdout": out[-300:], "stderr": err[:300], "model": want}
            res["%s:%s" % (r.returncode, got)] += 1
            if want[0] != "exit":
                continue
            if r.returncode != int(want[1]):
                report.violation("cli-exit-status:%s" % want[2], "exit status %d, the decision table says %s (%s) for %r" % (r.returncode, want[1], want[2], rep["args"]), rep)
                continue
            if got != want[2]:
                report.violation("cli-outcome:%s-vs-%s" % (got, want[2]), "observed '%s', the decision table says '%s' for %r" % (got, want[2], rep["args"]), rep)
                continue
            if r.returncode == 1:
                if final:
                    report.violation("cli-failure-with-final-state", "exit status 1 but a final state was printed", rep)
                if got == "message" and not err.strip():
                    report.violation("cli-failure-silent", "exit status 1 without a message", rep)
            if want[2] == "final":
                t = int(want[3])
                if hk in ("forever", "bubbling") and ("timed out after %5d cycles" % t) not in out:
                    report.violation("cli-timeout-not-honoured", "timeout %d not honoured: %s" % (t, out[-200:]), rep)
                if hk == "halting" and t > 3 and "Cycles run: 3" not in out:      # at t == 3 halt and timeout coincide: no "Cycles run" line (kept observation)
                    report.violation("cli-wrong-run", "halting program did not report 3 cycles", rep)
                if hk == "errstat" and t >= 2 and "Error code: 4" not in out:
                    report.violation("cli-wrong-run", "error status not reported", rep)
        # a final state that could not be printed is not "printed the final state": with standard output on a full
        # device the status must not be 0 (the unmodified program gives 1 with a message, or 101 from print! under -q)
        if os.path.exists("/dev/full"):
            n_full = 0
            for i, (args, inv, hk, lossy) in enumerate(cases):
                if n_full >= (12 if tier == "quick" else 150):
                    break
                if i not in observed or observed[i][0] != 0 or b"-------" not in observed[i][1] or hk in ("forever", "bubbling"):
                    continue
                n_full += 1
                with open("/dev/full", "wb") as sink:
                    r = subprocess.run([cli.encode()] + [a.encode("utf-8", "surrogateescape") for a in args], stdout=sink, stderr=subprocess.PIPE, timeout=60, input=b"\n" * 50)
                res["stdout_full:%d" % r.returncode] += 1
                if r.returncode == 0:
                    report.violation("cli-success-without-output", "standard output cannot be written (/dev/full) but the exit status is 0 for %r" % [a.replace(d, "<tmp>") for a in args],
                                     {"args": [a.replace(d, "<tmp>") for a in args], "exit": 0, "stderr": r.stderr.decode("utf-8", "replace")[:300]})
        # END TO END: the whole command composed in the model (Tool.tool_main_as: options, file reading, preamble, lexer,
        # parser, builder, loader, simulator, final dump) on the same argument vector and the same file contents:
        # exit status and standard output, byte for byte (lines as a multiset under -d / --trace-assignments, whose
        # line order follows the hash order; no output comparison when the simulation aborts: the model keeps no partial output)
        table = {}
        for nm in sorted(os.listdir(d)):
            pth = os.path.join(d, nm)
            try:
                table[pth] = open(pth, "rb").read().decode("utf-8")       # a file that is not UTF-8 cannot be read: absent
            except UnicodeDecodeError:
                pass
        entries = " ".join("%s:%s" % (lib.hexs(pth), content.encode().hex() or "") for pth, content in table.items())
        tool_lines, chosen = [], []
        want_n = 70 if tier == "quick" else 1500
        quota = {True: want_n // 2, False: want_n - want_n // 2}          # half successful invocations, half failing ones (their messages)
        for i, (args, inv, hk, lossy) in enumerate(cases):
            if i not in observed or quota[observed[i][0] == 0] <= 0:
                continue
            tmo = inv["free"][2] if len(inv["free"]) > 2 else None
            if tmo is not None and re.fullmatch(r"\+?[0-9]+", tmo) and int(tmo) > 100000:
                continue                    # the extracted model spends fuel in unary: huge budgets are checked by C06 instead
            if any("\ufffd" in a for a in lossy):
                continue
            if hk in ("forever", "bubbling") and budget(inv["free"]) > 200:
                continue                    # thousands of cycles of output: nothing new, and slow in the extracted model
            chosen.append(i)
            quota[observed[i][0] == 0] -= 1
            tool_lines.append("m%d mtool %s %d %s %s" % (i, lib.hexs(cli), len(table), entries, " ".join(lib.hexs(x) for x in lossy)))
        tool = lib.run_cases(driver, tool_lines)
        for i in chosen:
            args, inv, hk, lossy = cases[i]
            blk = tool.get("m%d" % i, ["MISSING"])
            code, out, errtext = observed[i]
            rep = {"args": [a.replace(d, "<tmp>") for a in args], "exit": code, "stdout": out.decode("utf-8", "replace")[-600:], "model": [l[:200] for l in blk]}
            if len(blk) != 3 or not blk[0].startswith("exit ") or not blk[1].startswith("stdout") or not blk[2].startswith("stderr"):
                report.broken.append({"what": "the composed model tool gave no answer", "detail": rep})
                break
            try:
                mcode, mout = int(blk[0][5:]), bytes.fromhex(blk[1][7:].replace("-", ""))
            except ValueError:
                report.broken.append({"what": "unreadable answer of the composed model tool", "detail": dict(rep, raw=[l[:300] for l in blk])})
                break
            rep["model_stdout"] = mout.decode("utf-8", "replace")[-600:]
            res["tool:%d" % mcode] += 1
            if mcode != code:
                report.violation("tool-exit-status", "exit status %d, the composed model says %d for %r" % (code, mcode, rep["args"]), rep)
                continue
            if code != 0 and inv["sim"] == "A":
                continue                    # aborted simulation: the output printed before the abort is not modelled
            unordered = any(f in inv_flags(lossy) for f in ("debug", "trace-assignments"))
            a_, b_ = (sorted(out.split(b"\n")), sorted(mout.split(b"\n"))) if unordered else (out, mout)
            if a_ != b_:
                report.violation("tool-stdout-differs", "standard output differs from the composed model's for %r" % rep["args"], rep)
                continue
            # standard error (ToolErr.tool_stderr): byte for byte, except the operating system's text after
            # "Error reading '..': " / "error: " for files that cannot be opened, and the hash-ordered parts of diagnostics
            if blk[2] == "stderr none":
                res["tool_stderr:none"] += 1
                continue
            merr = bytes.fromhex(blk[2][7:].replace("-", ""))
            rep["stderr"] = errtext.decode("utf-8", "replace")[-800:]
            rep["model_stderr"] = merr.decode("utf-8", "replace")[-800:]
            ph = b"<text of the I/O error>"
            if ph in merr:
                pre = merr[:merr.index(ph)]
                ok = errtext.startswith(pre)
            else:
                import frontcheck
                ok = errtext == merr or sorted(frontcheck._canon_block(b) for b in frontcheck._blocks(errtext.decode("utf-8", "replace").rstrip("\n"))) == \
                    sorted(frontcheck._canon_block(b) for b in frontcheck._blocks(merr.decode("utf-8", "replace").rstrip("\n")))
            res["tool_stderr:%s" % ("same" if ok else "differs")] += 1
            if not ok:
                report.violation("tool-stderr-differs", "standard error differs from the composed model's for %r" % rep["args"], rep)
    report.coverage["evaluations"] = len(cases)
    report.coverage["distinct_nontrivial"] = len(set(tuple(a) for a, _, _, _ in cases))
    report.coverage["rule"] = ("argument vectors: random subsets of the ten options in short, long and combined (-dq) spellings, unknown, doubled, abbreviated and valued ones, a lone -, the empty string, one-letter long names, arguments that are not valid UTF-8, the -- terminator, around 0-4 positionals; standard input empty, lines of text, lines that are not UTF-8 (read only by the -i prompt); HCL file valid (halting, running "
                               "forever, error status, aborting with division by zero), rejected or missing; image valid, missing, wrong extension, unloadable, "
                               "not UTF-8; timeouts absent 0 1 3 9999 2^32-1 2^32 -1 abc '' +5 007 '1 ' 10^20; the real binary's exit status and outcome class "
                               "(usage / version / syntax OK / final state / message) against Cli.main_model, and the printed cycle counts against the timeout; on a sample, exit status, standard output and standard error byte for byte (operating-system error texts and hash-ordered parts excepted) against the whole command composed in the model (Tool.tool_main_as) given the same files")
    report.coverage["distribution"] = dict(res)
    report.coverage["samples"] = [[a.replace(lib.CACHE, "<cache>") for a in cases[0][0]]]
