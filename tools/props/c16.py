"""C16 - the state dump shows the true machine state, completely and parseably."""
import random
import re
import collections
import gen, histgen, lib, simcheck


def parse_dump(text):
    """Reads a dump back: (regs[15], banks {label: (state, [(name, value)])}, memory {addr: byte}, bad lines)."""
    regs, banks, mem, bad = {}, collections.OrderedDict(), {}, []
    names = ["RAX", "RCX", "RDX", "RBX", "RSP", "RBP", "RSI", "RDI", "R8", "R9", "R10", "R11", "R12", "R13", "R14"]
    cur = None
    for line in text.split("\n"):
        if not line or line.startswith("+") or line.startswith(("Cycles run", "Error code")):
            continue
        if not (line.startswith("| ") and line.endswith(" |")):
            bad.append(line)
            continue
        body = line[2:-2]
        m = re.findall(r"(R[A-Z0-9]{1,2}):\s+([0-9a-f]+)", body) if re.match(r"^R[A-Z0-9]+:", body) else None
        if m:
            for n, v in m:
                regs[n] = int(v, 16)
            cur = None
            continue
        if body.startswith("used memory:"):
            cur = None
            continue
        m = re.match(r"^ 0x([0-9a-f]{7,})_:  (.*)$", body)
        if m:
            row = int(m.group(1), 16) << 4
            cells = m.group(2)
            # fixed columns: each cell is 3 chars, extra blank after 3 and 11, two after 7
            pos = 0
            for i in range(16):
                cell = cells[pos:pos + 3]
                pos += 3 + (1 if i in (3, 11) else 2 if i == 7 else 0)
                if cell.strip():
                    mem[row + i] = int(cell, 16)
            cur = None
            continue
        m = re.match(r"^register (\S+)\((.)\) \{(.*)$", body)
        if m:
            cur = m.group(1)
            banks[cur] = [m.group(2), []]
            rest = m.group(3)
        elif cur is not None:
            rest = body
        else:
            bad.append(line)
            continue
        for item in rest.split():
            if item == "}":
                cur_done = True
                continue
            if "=" in item:
                n, v = item.rsplit("=", 1)
                banks[cur][1].append((n, int(v, 16)))
    return [regs.get(n) for n in names], banks, mem, bad


def state_case(rng):
    nb = rng.choice([0, 1, 1, 2, 3])
    ins = rng.sample([c for c in gen.LOWER if c not in "s"], nb)
    outs = rng.sample(list("PFDEMW") + [c for c in gen.UPPER if c not in "PFDEMW"], nb)
    for k in range(nb):
        # letters outside ASCII: an upper-case output prefix is any char::is_uppercase, e.g. E-acute
        if rng.random() < 0.15 and "\u00c9" not in outs:
            outs[k] = "\u00c9"
        if rng.random() < 0.15:
            c = rng.choice(["\u00e9", "\u00fc", "\u03b1"])
            if c not in ins:
                ins[k] = c
    st = ["pc = 0;", "Stat = STAT_AOK;"]
    inject = []
    expect_banks = {}
    if nb >= 2 and rng.random() < 0.3:
        outs[1] = outs[0]            # two banks sharing an output letter (and stall_X / bubble_X): both must be shown
    ctl = {}
    for bi, (li, lo) in enumerate(zip(ins, outs)):
        regs = []
        tag = "s" if (bi == 1 and outs[0] == outs[1]) else ""
        for j in range(rng.choice([0, 1, 1, 2, 3, 5, 9, 14])):          # 0: a bank without registers
            w = rng.choice([1, 4, 8, 13, 32, 64, 65, 100, 128])
            name = tag + rng.choice(["r%d" % j, "reg%d" % j, "n" + "a" * rng.randint(1, 12) + str(j), "v_" + "x" * rng.randint(20, 68) + str(j), "a_b_%d" % j,
                                     # names that begin like the bank's own prefixes
                                     "%sone%d" % (lo, j), "%s%s_%d" % (lo, lo, j), "_x%d" % j, "__%d" % j, "%s_%s%d" % (lo, li, j), "%s%d" % (li, j)])
            regs.append((name, w))
        st.append("register %s%s { %s }" % (li, lo, " ".join("%s : %d = 0;" % (n, w) for n, w in regs)))
        for n, w in regs:
            st.append("%s_%s = %s_%s;" % (li, n, lo, n))
        vals = []
        for n, w in regs:
            v = rng.choice([0, (1 << w) - 1, rng.getrandbits(w)])
            inject.append("v%s_%s=%x/%d" % (lo, n, v, w))
            vals.append((n, v))
        if lo not in ctl:
            ctl[lo] = rng.choice([(0, 0), (1, 0), (0, 1), (1, 1)])
            inject.append("vstall_%s=%x/1" % (lo, ctl[lo][0]))
            inject.append("vbubble_%s=%x/1" % (lo, ctl[lo][1]))
        stall, bubble = ctl[lo]
        expect_banks[li + lo] = ["B" if bubble else "S" if stall else "N", vals]
    regs = [rng.choice([0, rng.getrandbits(64), (1 << 64) - 1, rng.getrandbits(8)]) for _ in range(15)] + [0]
    for i, v in enumerate(regs[:15]):
        if v:
            inject.append("r%d=%x" % (i, v))
    mem = {}
    kind = rng.choice(["single", "pair", "dense", "top", "sparse", "empty", "mid"])
    if kind == "single":
        mem[rng.randrange(64)] = rng.getrandbits(8)
    elif kind == "pair":
        a = rng.randrange(1 << 12)
        mem[a] = rng.getrandbits(8)
        mem[a + rng.choice([1, 15, 16, 17, 16 * rng.randint(2, 500)])] = rng.getrandbits(8)
    elif kind == "dense":
        a = rng.randrange(300)
        for i in range(rng.randint(1, 70)):
            if rng.random() < 0.8:
                mem[a + i] = rng.getrandbits(8)
    elif kind == "top":
        for i in range(rng.randint(1, 20)):
            mem[(1 << 64) - 1 - rng.randrange(40)] = rng.getrandbits(8)
        if rng.random() < 0.5:
            mem[rng.randrange(20)] = 1
    elif kind == "sparse":
        for i in range(rng.randint(2, 8)):
            mem[rng.getrandbits(rng.choice([8, 16, 32, 33, 48, 64]))] = rng.getrandbits(8)
    elif kind == "mid":
        base = rng.choice([1 << 32, (1 << 32) - 8, 1 << 28, (1 << 28) - 3])
        for i in range(rng.randint(1, 24)):
            mem[base + i] = rng.getrandbits(8)
    for a, b in mem.items():
        inject.append("m%x=%02x" % (a, b))
    rng.shuffle(st)
    return {"hcl": "\n".join(st) + "\n", "yo": None, "cycles": 0, "flags": "-", "timeout": 9999, "inject": inject}, regs[:15], expect_banks, mem


def check(report, tier, seed):
    rng = random.Random(seed)
    n = 1200 if tier == "quick" else 30000
    cases, expect = {}, {}
    for i in range(n):
        c, regs, banks, mem = state_case(rng)
        cases["u%d" % i] = c
        expect["u%d" % i] = (regs, banks, mem)
    impl, model, stats = simcheck.run_sim_cases(report, cases, key_prefix="dump")
    kinds = collections.Counter()
    for cid, (regs, banks, mem) in expect.items():
        blk = impl.get(cid, [])
        d = [l for l in blk if l.startswith("dump ")]
        if not d:
            continue
        text = bytes.fromhex(d[0][5:]).decode("utf-8", "replace")
        pregs, pbanks, pmem, bad = parse_dump(text)
        rep = {"case": cases[cid], "dump": text[:1500]}
        if bad:
            report.violation("dump-line-not-delimited", "dump line not of the form '| ... |': %r" % bad[0][:100], rep)
            continue
        if pregs != regs:
            report.violation("dump-registers", "program registers read back as %r, state is %r" % (pregs[:4], regs[:4]), rep)
        if pmem != mem:
            diff = sorted(set(pmem.items()) ^ set(mem.items()))[:4]
            report.violation("dump-memory", "memory read back from the dump differs from the state at %s" % [(hex(a), b) for a, b in diff], rep)
        want = {k: [v[0], v[1]] for k, v in banks.items()}
        got = {k: [v[0], v[1]] for k, v in pbanks.items()}
        if got != want:
            report.violation("dump-banks", "register banks read back as %r, state is %r" % (str(got)[:200], str(want)[:200]), rep)
        kinds["rows_%d" % min(len(set(a >> 4 for a in mem)), 5)] += 1
        kinds["banks_%d" % len(banks)] += 1
    report.coverage["evaluations"] = len(cases)
    report.coverage["distinct_nontrivial"] = len(set(" ".join(c["inject"]) for c in cases.values()))
    report.coverage["rule"] = ("machine states injected through hooks: 15 registers (0, 2^64-1, random), 0-3 banks (two of them sharing an output letter in 3 of 10 multi-bank cases) with 1-14 registers of widths 1..128 and names "
                               "up to 70 characters (forcing wraps), all stall/bubble states, memory sets (singletons at every residue, pairs 1/15/16/17/k rows "
                               "apart, dense runs, around 2^28 and 2^32, up to 2^64-1, random sparse); dump text equal to the model's AND read back by an "
                               "independent parser into exactly the injected state")
    report.coverage["distribution"] = dict(stats, **kinds)
    report.coverage["samples"] = [cases["u0"]["inject"][:12]]
