"""C04 - the Y86 register file reads old values, writes at cycle end, M port wins."""
import random
import collections
import gen, histgen, lib, simcheck


def check(report, tier, seed):
    rng = random.Random(seed)
    n, cycles = (300, 30) if tier == "quick" else (5000, 60)
    cases = {}
    for i in range(n):
        cases["r%d" % i] = {"hcl": histgen.regfile_program(rng), "yo": gen.yo_image(rng, 10 * cycles + 20), "cycles": cycles,
                            "flags": "-", "timeout": 9999}
    impl, model, stats = simcheck.run_sim_cases(report, cases, key_prefix="regfile")
    tot = collections.Counter()
    hist = set()
    for cid in cases:
        init, cyc = histgen.parse_trace(impl.get(cid, []))
        errs, st = histgen.regfile_oracle(init, cyc)
        tot.update(st)
        hist.add(tuple((c["post"]["reg_dstE"][0], c["post"]["reg_dstM"][0], c["post"]["reg_srcA"][0]) for c in cyc if "post" in c))
        if errs:
            report.violation("regfile-spec", "register file departs from the abstract register file: " + errs[0],
                             {"case": cases[cid], "errors": errs[:5]})
    report.coverage["evaluations"] = len(cases)
    report.coverage["distinct_nontrivial"] = len(hist)
    report.coverage["rule"] = ("port numbers and data from random image bits; dstE = dstM forced in 1/4 of cycles, REG_NONE forced on E and M in 1/4, "
                               "half the programs confined to 4 registers; %d cycles; distinct = distinct (dstE,dstM,srcA) histories" % cycles)
    report.coverage["distribution"] = dict(stats, **tot)
    report.coverage["samples"] = [list(cases.values())[0]["hcl"]]
