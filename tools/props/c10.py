"""C10 - combinational loops are detected exactly, and the reported loop is real.

Tie 1 (hook toposort_trace): every digraph (self-loops allowed) on <= 4 nodes, each sorted under
fresh hash seeds; the implementation's answer must (a) be a cycle iff the graph has one
(python oracle: independent DFS), (b) pass the extracted checker is_linear_extension /
is_cycle, (c) equal the model's answer when the model is run with the iteration orders the
implementation saw.
Tie 2 (HCL level): random wire graphs woven through plain wires, register banks and every
built-in component; accepted iff the dependency relation (python, from the AST) is acyclic;
the chain printed by Error::WireLoop must be a cycle of that relation."""
import itertools
import random
import re

import lib
import exprcheck


def has_cycle(n, edges):
    adj = {i: [] for i in range(n)}
    for a, b in edges:
        adj[a].append(b)
    color = {}

    def dfs(u):
        color[u] = 1
        for v in adj[u]:
            c = color.get(v, 0)
            if c == 1 or (c == 0 and dfs(v)):
                return True
        color[u] = 2
        return False
    return any(color.get(i, 0) == 0 and dfs(i) for i in range(n))


def all_graphs(n):
    pairs = [(a, b) for a in range(n) for b in range(n)]
    for mask in range(1 << len(pairs)):
        yield [p for i, p in enumerate(pairs) if mask >> i & 1]


def structured_graphs(rng, count):
    out = []
    for _ in range(count):
        n = rng.randint(6, 40)
        kind = rng.choice(["chain_back", "two_cycles", "dense_dag", "dense_dag_plus", "random", "tree_back"])
        edges = set()
        if kind in ("chain_back", "two_cycles"):
            for i in range(n - 1):
                edges.add((i, i + 1))
            a = rng.randint(0, n - 1)
            edges.add((rng.randint(a, n - 1), a))
            if kind == "two_cycles":
                b = rng.randint(0, n - 1)
                edges.add((rng.randint(b, n - 1), b))
        elif kind.startswith("dense_dag"):
            perm = list(range(n))
            rng.shuffle(perm)
            for i in range(n):
                for j in range(i + 1, n):
                    if rng.random() < 0.3:
                        edges.add((perm[i], perm[j]))
            if kind.endswith("plus"):
                i, j = sorted(rng.sample(range(n), 2))
                edges.add((perm[j], perm[i]))
        elif kind == "tree_back":
            for i in range(1, n):
                edges.add((rng.randint(0, i - 1), i))
            if rng.random() < 0.7:
                d = rng.randint(1, n - 1)
                edges.add((d, rng.randint(0, d)))
        else:
            for _ in range(rng.randint(0, 3 * n)):
                edges.add((rng.randrange(n), rng.randrange(n)))
        e = list(edges)
        rng.shuffle(e)
        out.append((n, e))
    return out


def graph_part(report, rng, tier):
    graphs = []
    for n in (1, 2, 3, 4):
        for e in all_graphs(n):
            graphs.append((n, e))
    reps = 2 if tier == "quick" else 6
    if tier == "thorough":
        pairs5 = [(a, b) for a in range(5) for b in range(5)]
        for _ in range(400000):
            mask = rng.getrandbits(25)
            graphs.append((5, [p for i, p in enumerate(pairs5) if mask >> i & 1]))
    graphs += structured_graphs(rng, 600 if tier == "quick" else 20000)
    cases = {}
    hl = []
    for gi, (n, e) in enumerate(graphs):
        for r in range(reps if n <= 5 else 2):
            cid = "g%d_%d" % (gi, r)
            es = ",".join("%d-%d" % p for p in e) or "-"
            cases[cid] = {"n": n, "edges": es, "cyclic": has_cycle(n, e)}
            hl.append("%s graph %d %s" % (cid, n, es))
    harness = lib.build_harness("dev")
    driver = lib.build_driver()
    impl = lib.run_cases(harness, hl)
    ml = []
    orders = set()
    for cid, c in cases.items():
        blk = impl.get(cid, [])
        d = dict(l.split(" ", 1) for l in blk if " " in l)
        rep = {"case": c, "impl": blk}
        if any(l.startswith("PANIC") for l in blk) or "nodes" not in d:
            report.violation("graph-panic", "Graph::topological_sort panicked or died on %s" % c["edges"][:100], rep)
            continue
        kind = "order" if "order" in d else "cycle" if "cycle" in d else None
        if kind is None:
            report.violation("graph-no-answer", "no answer from the sorter", rep)
            continue
        if (kind == "cycle") != c["cyclic"]:
            report.violation("graph-detection-%s" % kind,
                             "sorter says %s but the graph is %s: %s" % (kind, "cyclic" if c["cyclic"] else "acyclic", c["edges"][:120]), rep)
            continue
        if d.get("cloneorder") != "same":
            report.broken.append({"what": "HashSet clone iterates in another order than the original: model presentation assumption broken", "detail": rep})
        orders.add((c["edges"], d["nodes"], d["succ"]))
        c["kind"], c["answer"] = kind, d[kind]
        ml.append("%s mgraph %s %s %s %s %s" % (cid, d["nodes"], d["succ"], d["nedges"], kind, d[kind]))
    model = lib.run_cases(driver, ml)
    for cid, c in cases.items():
        if "kind" not in c:
            continue
        blk = model.get(cid, ["MISSING"])
        rep = {"case": c, "impl": impl.get(cid), "model": blk}
        if "implcheck 1" not in blk:
            report.violation("graph-answer-invalid-%s" % c["kind"],
                             "the sorter's %s %s is not a valid %s of %s" % (c["kind"], c["answer"], "linear extension" if c["kind"] == "order" else "cycle", c["edges"][:100]), rep)
        elif blk[0] != "%s %s" % (c["kind"], c["answer"]):
            # same presentation, different answer: model no longer mirrors the code (answer is valid)
            report.broken.append({"what": "model and implementation give different (valid) answers on the same presentation", "detail": rep})
    return len(hl), len(orders), graphs


# ------------------------------------------------------------------ HCL level
BUILTIN_PATHS = [(["pc"], "i10bytes", 80), (["mem_addr", "mem_readbit"], "mem_output", 64),
                 (["reg_srcA"], "reg_outputA", 64), (["reg_srcB"], "reg_outputB", 64)]
IN_WIDTH = {"pc": 64, "mem_addr": 64, "mem_readbit": 1, "reg_srcA": 4, "reg_srcB": 4,
            "reg_dstE": 4, "reg_inputE": 64, "reg_dstM": 4, "reg_inputM": 64, "mem_input": 64, "mem_writebit": 1,
            "Stat": 3}


def hcl_case(rng):
    """Returns (text, dep edges as set of (from, to) over names, names that exist)."""
    k = rng.randint(2, 7)
    wires = ["w%d" % i for i in range(k)]
    width = {w: 64 for w in wires}
    stmts = ["wire %s : 64;" % w for w in wires]
    deps = set()
    sources = list(wires)
    targets = list(wires)
    use = [p for p in BUILTIN_PATHS if rng.random() < 0.5 or p[1] == "i10bytes"]
    readers = {}
    for ins, out, w in use:
        for i in ins:
            deps.add((i, out))
            targets.append(i)
        sources.append(out)
        width[out] = w
    bank = rng.random() < 0.5
    local_in_width = dict(IN_WIDTH)
    if bank:
        stmts.append("register xY { a : 64 = 0; }")
        targets.append("x_a")
        sources.append("Y_a")          # bank output: a source that depends on nothing
        width["Y_a"] = 64
        # the bank's control signals, when the program assigns them, are wires like any other: they can be read,
        # and a loop can run through them (one, the other, or both assigned)
        for c in rng.choice([[], [], ["bubble_Y"], ["stall_Y"], ["stall_Y", "bubble_Y"]]):
            targets.append(c)
            sources.append(c)
            width[c] = 1
            local_in_width[c] = 1
    writers = []
    if rng.random() < 0.5:
        writers += ["reg_dstE", "reg_inputE"]
    if any(o == "mem_output" for _, o, _ in use):
        # the write port shares mem_addr: it must be given all its inputs
        writers += ["mem_input", "mem_writebit"]
    targets += writers
    assigned = {}
    p_edge = rng.choice([0.2, 0.35, 0.5])
    p_back = rng.choice([0.0, 0.0, 0.03, 0.1])
    # a random ranking: edges mostly go from lower to higher rank, so about half the programs are loop-free
    everything = list(dict.fromkeys(sources + targets))
    rng.shuffle(everything)
    rank = {}
    for nme in everything:
        rank[nme] = len(rank)
    for ins, out, w in use:          # a built-in's output ranks above its inputs
        rank[out] = max([rank[out]] + [rank[i] + 1 for i in ins])
    for t in targets:
        if t in assigned:
            continue
        tw = local_in_width.get(t, 64)
        srcs = [s for s in sources if (rank[s] < rank[t] and rng.random() < p_edge) or rng.random() < p_back]
        if t == "pc" and rng.random() < 0.7:
            srcs = [s for s in srcs if s != "i10bytes"]      # keep most programs acyclic through pc
        terms = []
        for s in srcs:
            deps.add((s, t)) if s != "Y_a" else None
            m_ = min(tw, width[s])
            term = "(%s)[0..%d]" % (s, m_) if m_ != width[s] or tw != width[s] else s
            r_ = rng.random()
            if r_ < 0.12:
                # mentioned only in a position that is never evaluated: it is a dependency all the same
                term = "[ %s : %s; 1 : 0b%s; ]" % (rng.choice(["0", "FALSE", "KF", "(1 == 2)", "0b0"]), term, "0" * m_)
            elif r_ < 0.2:
                term = "[ KF : 0b%s; (1 == 2) : %s; 1 : 0b%s; ]" % ("0" * m_, term, "0" * m_)
            elif r_ < 0.5:
                # the name mentioned in every other syntactic position an expression has
                z = "0b" + "0" * m_
                term = rng.choice([
                    "[ 5 in { 7, %s } : %s; 1 : %s; ]" % (s, z, z),            # member of a set
                    "[ 5 in { %s } : %s; 1 : %s; ]" % (s, z, z),
                    "[ 0 in { 1, 2, %s, 3 } : %s; 1 : %s; ]" % (s, z, z),
                    "[ %s in { 1, 2 } : %s; 1 : %s; ]" % (s, z, z),            # left of 'in'
                    "[ %s == 0 : %s; 1 : %s; ]" % (s, z, z),                   # mux condition
                    "[ 0 : %s; (%s > 3) || KF : %s; 1 : %s; ]" % (z, s, z, z),
                    "((%s .. 0b0)[0..%d])" % (s, m_),                          # concatenation
                    "((0b0 .. %s)[0..%d])" % (s, m_),
                    "((~%s)[0..%d])" % (s, m_), "((-%s)[0..%d])" % (s, m_),    # unary
                    "((%s ^ %s)[0..%d])" % (s, s, m_),
                    "(((%s)[1..%d] .. 0b0)[0..%d])" % (s, width[s], m_),
                ])
            terms.append(term)
        # every term has width <= tw; pad with a tw-wide zero so '+' (max rule) yields tw
        zero = "0b" + "0" * tw
        expr = " + ".join([zero] + terms)
        assigned[t] = expr
        # now and then one statement drives several wires: each of them depends on what the expression reads,
        # none of them on the others
        twins = []
        if rng.random() < 0.2:
            for t2 in targets:
                if t2 not in assigned and local_in_width.get(t2, 64) == tw and rank[t2] >= max([rank[s_] for s_ in srcs] + [-1]) and len(twins) < 2 and rng.random() < 0.6:
                    if t2 == "pc" and "i10bytes" in srcs:
                        continue
                    twins.append(t2)
                    assigned[t2] = expr
                    for s_ in srcs:
                        if s_ != "Y_a":
                            deps.add((s_, t2))
        names_ = [t] + twins
        rng.shuffle(names_)
        stmts.append("%s = %s;" % (" = ".join(names_), expr))
    stmts.append("const KF = 0, KT = 1;")
    if "Stat" not in assigned:
        stmts.append("Stat = STAT_AOK;")
    if "pc" not in assigned:
        stmts.append("pc = 0;")
    rng.shuffle(stmts)
    return "\n".join(stmts) + "\n", deps


def find_dep_cycle(deps):
    nodes = sorted({a for a, b in deps} | {b for a, b in deps})
    idx = {n: i for i, n in enumerate(nodes)}
    return has_cycle(len(nodes), [(idx[a], idx[b]) for a, b in deps])


def hcl_part(report, rng, tier):
    n = 1500 if tier == "quick" else 30000
    cases = {}
    lines = []
    for i in range(n):
        if i % 25 == 7:
            # one long ring (up to 40 wires), possibly with a tail leading into it: the WHOLE chain must be shown
            m_ = rng.randint(2, 40)
            ring = ["r%d" % j for j in range(m_)]
            tail = ["t%d" % j for j in range(rng.randint(0, 3))]
            st = ["wire %s : 64;" % w for w in ring + tail] + ["pc = 0;", "Stat = STAT_AOK;"]
            deps = set()
            for j, w in enumerate(ring):
                prev = ring[(j - 1) % m_]
                st.append("%s = %s + %d;" % (w, prev, j))
                deps.add((prev, w))
            for j, w in enumerate(tail):
                src = ring[rng.randrange(m_)] if j == 0 else tail[j - 1]
                st.append("%s = %s;" % (w, src))
                deps.add((src, w))
            rng.shuffle(st)
            text = "\n".join(st) + "\n"
        else:
            text, deps = hcl_case(rng)
        cid = "h%d" % i
        cases[cid] = {"hcl": text, "deps": sorted(deps), "cyclic": find_dep_cycle(deps)}
        lines.append("%s front %s 1" % (cid, lib.hexs(text)))
    impl = lib.run_cases(lib.build_harness("dev"), lines)
    # the text of every loop diagnostic against the model of the renderer, and against the program itself
    import rendercheck
    cyc_ids = [cid for cid, c in cases.items() if c["cyclic"]]
    rendercheck.compare(report, {cid: cases[cid]["hcl"] for cid in cyc_ids}, impl, "loop", ids=cyc_ids, limit=200 if tier == "quick" else 5000)
    ncyc = 0
    for cid, c in cases.items():
        blk = impl.get(cid, ["MISSING"])
        rep = {"case": c, "impl": blk}
        verdict = [l for l in blk if l.startswith(("accept", "reject"))]
        if not verdict:
            report.violation("loop-frontend-died", "front end gave no verdict", rep)
            continue
        if verdict[0].startswith("accept"):
            if c["cyclic"]:
                report.violation("loop-missed", "a program with a combinational loop was accepted", rep)
            continue
        errs = exprcheck.canon_err(verdict[0][7:])
        loops = [e for e in errs if e.startswith("WireLoop|")]
        if not c["cyclic"]:
            if loops:
                report.violation("loop-spurious", "circular dependency reported for an acyclic program: %s" % loops[0], rep)
            else:
                report.broken.append({"what": "generated loop-free program rejected for another reason", "detail": rep})
            continue
        ncyc += 1
        if not loops:
            report.violation("loop-other-error", "cyclic program rejected without a WireLoop diagnostic: %s" % errs[:3], rep)
            continue
        chain = loops[0].split("|")[1].split(",")
        deps = set(map(tuple, c["deps"]))
        ok = len(chain) > 0 and all((chain[j], chain[(j + 1) % len(chain)]) in deps for j in range(len(chain)))
        if not ok:
            report.violation("loop-chain-not-a-cycle", "reported chain %s is not a cycle of the program" % chain, rep)
            continue
        # ... and the chain as PRINTED: every "'x' depends on 'y'" line is a read of the program, the lines close a cycle
        rend = [l for l in blk if l.startswith("render ")]
        if rend:
            text_ = bytes.fromhex(rend[0][7:].replace("-", "")).decode("utf-8", "replace")
            links = re.findall(r"'([^']+)' depends on '([^']+)'", text_)
            bad = [(x, y) for x, y in links if (y, x) not in deps]
            closes = len(links) > 0 and all(links[j][1] == links[j - 1][0] for j in range(1, len(links))) and links[0][1] == links[-1][0]
            if bad or not closes or len(links) != len(chain):
                report.violation("loop-printed-chain-not-a-cycle", "the printed chain is not a cycle of the program: %s%s"
                                 % (["%s depends on %s" % l for l in (bad or links)[:4]], "" if closes else " (does not close)"),
                                 dict(rep, printed=text_[:1500]))
    return n, ncyc, cases


def check(report, tier, seed):
    rng = random.Random(seed)
    n1, orders, graphs = graph_part(report, rng, tier)
    n2, ncyc, cases = hcl_part(report, rng, tier)
    report.coverage["evaluations"] = n1 + n2
    report.coverage["distinct_nontrivial"] = orders + ncyc
    report.coverage["exhaustive"] = True
    report.coverage["rule"] = ("all digraphs with self-loops on 1..4 nodes (exhaustive), structured larger graphs, each sorted under fresh "
                               "hash seeds; distinct = distinct (graph, node order, successor orders) presentations seen, plus cyclic HCL programs "
                               "whose printed chain was verified edge by edge")
    report.coverage["distribution"] = {"graph_runs": n1, "presentations": orders, "hcl_programs": n2, "hcl_cyclic": ncyc}
    report.coverage["samples"] = [{"n": graphs[777][0], "edges": graphs[777][1]}, list(cases.values())[0]["hcl"][:400]]
