"""C03 - register banks update only at the clock edge, honouring stall and bubble."""
import random
import collections
import gen, histgen, lib, simcheck


def check(report, tier, seed):
    rng = random.Random(seed)
    n, cycles = (300, 16) if tier == "quick" else (5000, 40)
    cases, meta = {}, {}
    for i in range(n):
        hcl, banks = histgen.bank_program(rng)
        cid = "b%d" % i
        cases[cid] = {"hcl": hcl, "yo": gen.yo_image(rng, 10 * cycles + 20), "cycles": cycles, "flags": "-", "timeout": 9999}
        meta[cid] = banks
    impl, model, stats = simcheck.run_sim_cases(report, cases, key_prefix="bank")
    tot = collections.Counter()
    hist = set()
    for cid, banks in meta.items():
        init, cyc = histgen.parse_trace(impl.get(cid, []))
        errs, st = histgen.bank_oracle(banks, cyc)
        tot.update(st)
        hist.add(tuple((c.get("post", {}).get("stall_" + b[1], (0,))[0], c.get("post", {}).get("bubble_" + b[1], (0,))[0]) for c in cyc for b in banks))
        if errs:
            report.violation("bank-recurrence", "register bank does not follow the stall/bubble recurrence: " + errs[0],
                             {"case": cases[cid], "errors": errs[:5]})
    report.coverage["evaluations"] = len(cases)
    report.coverage["distinct_nontrivial"] = len([h for h in hist if any(x != (0, 0) for x in h)])
    report.coverage["rule"] = ("1-3 banks with distinct letters, register widths 1..128, stall/bubble driven by random image bits (random, bursty, "
                               "stall-only, bubble-only, never), %d cycles; distinct = distinct (stall,bubble) histories with at least one assertion" % cycles)
    report.coverage["distribution"] = dict(stats, **{"bank_cycles_" + k: v for k, v in tot.items()})
    report.coverage["samples"] = [list(cases.values())[0]["hcl"]]
