"""C13 - any input text yields diagnostics or a run, never a crash or a hang."""
import os
import random
import subprocess
import tempfile
import collections
import gen, lib

VOCAB = ["wire", "const", "register", "in", "x", "y_1", "pP", "Stat", "pc", "0", "1", "42", "0x1f", "0b101", "0x", "0b", "0b2", "9z",
         "340282366920938463463374607431768211456", "0b" + "1" * 129, "&&", "||", "==", "!=", ">=", ">", "<=", "<", "=", ">>", "<<",
         ",", ";", "+", "-", "&", "|", "^", "*", "/", "!", "(", ")", "{", "}", "[", "]", ":", "~", "..", ".", "#c\n", "//c\n", "/*c*/", "/*", "*/",
         "/*/", "\n", "\r\n", "\r", " ", "\t", "é", "É", "❤", " ", "　", "$", "@", "\x00", "\\", "'", "\"",
         # non-ASCII characters of every Unicode class the lexer's predicates distinguish: numeric (superscript two,
         # Arabic-Indic three, one half, Roman numeral eight, mathematical double-struck one), alphabetic beyond Latin-1 and
         # beyond the BMP, zero-width space, byte-order mark; alone and glued to ASCII digits / literal prefixes
         "²", "٣", "½", "Ⅷ", "𝟙", "x²", "3²", "٣٣", "0x٣", "0b²", "1٣", "á", "𝐱", "​", "﻿"]

BASE_PROGRAMS = [
    "register pP { pc : 64 = 0; }\np_pc = P_pc + 1;\npc = P_pc;\nStat = [ P_pc == 3 : STAT_HLT; 1 : STAT_AOK; ];\n",
    "wire a : 8, b : 4;\na = 0x1F & 0b00011111;\nb = a[0..4];\nconst K = 3, L = K + 1;\npc = 0; Stat = (b in { 1, 2, K }) ? ;\n".replace(" ? ", ""),
    "register fD { icode : 4 = NOP; valC : 64 = 0; }\nf_icode = i10bytes[4..8];\nf_valC = (i10bytes[16..80]);\npc = 0;\nstall_D = f_icode == HALT;\nbubble_D = 0;\nStat = STAT_AOK;\n",
    "wire x : 64;\nx = [ reg_outputA > 5 : reg_outputA - 5; 1 : 0 ];\nreg_srcA = REG_RAX;\nreg_dstE = REG_RBX; reg_inputE = x;\nmem_addr = x; mem_readbit = 0; mem_writebit = 1; mem_input = ~x;\npc = 0; Stat = STAT_AOK\n",
    "const é = 1;\nwire ü_w : 8;\nü_w = é + 0x0f; # ❤ comment\n/* multi\nline */ pc = 0; Stat = STAT_AOK;\n",
]


def cases_for(rng, tier):
    texts = []
    progs = list(BASE_PROGRAMS)
    for _ in range(3 if tier == "quick" else 15):
        progs.append(gen.ProgGen(rng, n_wires=rng.randint(2, 6), depth=2, allow_div=True).build())
    # truncation at every byte (on char boundaries the text is valid UTF-8; off them it is not -> lossy)
    for p in progs:
        b = p.encode()
        step = 1 if tier == "thorough" or len(b) < 400 else 3
        for i in range(0, len(b) + 1, step):
            texts.append(b[:i].decode("utf-8", "replace"))
    # single token insert / delete / substitute
    for p in progs[:5 if tier == "quick" else len(progs)]:
        toks = p.replace("\n", " \n ").split(" ")
        positions = range(len(toks)) if tier == "thorough" else rng.sample(range(len(toks)), min(len(toks), 25))
        for pos in positions:
            for v in (VOCAB if tier == "thorough" else rng.sample(VOCAB, 12)):
                texts.append(" ".join(toks[:pos] + [v] + toks[pos:]))
                texts.append(" ".join(toks[:pos] + [v] + toks[pos + 1:]))
            texts.append(" ".join(toks[:pos] + toks[pos + 1:]))
    # token soup
    for _ in range(4000 if tier == "quick" else 100000):
        n = rng.randint(1, 25)
        sep = rng.choice([" ", " ", "", "\n"])
        texts.append(sep.join(rng.choice(VOCAB) for _ in range(n)))
    # endings in the middle of things
    for tail in ["0x", "0b", "0b1", "/*", "/* x", "/", "#", "# x", "x = ", "x = (", "x = [", "x = [1:", "wire", "wire x", "wire x :", "register", "register xY",
                 "register xY {", "register xY { a", "register xY { a :", "register xY { a : 8", "register xY { a : 8 =", "x = 1 é", "x = é", "é", "x = 1  ",
                 "x = ", "x = (　", "const", "const x", "const x =", "x = y in", "x = y in {", "x = y[", "x = y[1", "x = y[1..", "x = y[1..2", "x = (a ..",
                 "x = !", "x = -", ".", "..", "x = 1..2", "x = 0b" + "0" * 300, "x = " + "9" * 60, "x = " + "(" * 200, "x = " + "[1:" * 100]:
        for pre in ["", "pc = 0; Stat = 1;\n", "wire x : 8;\n"]:
            texts.append(pre + tail)
            texts.append(pre + tail + "\n")
    # every hint / list-formatting path of the diagnostic renderer, with ASCII and non-ASCII names
    for nm, other in [("zq", "ZQ"), ("é_x", "É_x"), ("x_é", "X_É"), ("日本", "日本2"), ("aé", "Aé"), ("ß", "SS"), ("ǆ", "ǅ")]:
        texts.append("wire %s : 8; %s = 1; pc = 0; Stat = 1;\n%s = 2;\n" % (nm, nm, other))
        texts.append("wire %s : 8; %s = 1; pc = 0; Stat = 1;\nwire q9 : 8; q9 = %s + 1;\n" % (nm, nm, other))
        texts.append("pc = 0; Stat = 1;\n%s = 2;\n" % other)
        texts.append("const %s = 1; pc = 0; Stat = 1;\n%s = 2;\nconst K9 = %s;\n" % (nm, nm, other))
        texts.append("register xY { %s : 8 = %s; } pc = 0; Stat = 1;\n" % (nm, other))
    texts.append("wire z : 8; z = [ pc == 0 : 0b11; pc == 1 : 5; pc == 2 : 0b111; 1 : 0b1 ]; pc = 0; Stat = 1;\n")
    texts.append("mem_addr = 0; pc = 0; Stat = 1;\n")
    texts.append("mem_addr = 0; mem_input = 1; pc = 0; Stat = 1;\n")
    texts.append("reg_dstE = 0; pc = 0; Stat = 1;\nreg_dstM = 1;\n")
    # deep but VALID texts: nothing may take more than a moment
    for dpt in (24, 64, 150):
        mux = "1"
        for _ in range(dpt):
            mux = "[ 1 : %s; ]" % mux
        texts.append("const DEEP = %s;\npc = 0; Stat = 1;\n" % mux)
        texts.append("wire dw : 8; dw = %s;\npc = 0; Stat = 1;\n" % mux.replace("1 :", "pc == 0 : 1; 1 :", 1))
        texts.append("register xY { a : 8 = %s; } x_a = Y_a; pc = 0; Stat = 1;\n" % mux)
        texts.append("const PAR = %s1%s;\npc = 0; Stat = 1;\n" % ("(" * dpt, ")" * dpt))
        texts.append("const UN = %s1;\npc = 0; Stat = 1;\n" % ("-~!" * dpt))
        texts.append("const SUM = %s1;\npc = 0; Stat = 1;\n" % ("1 + " * (8 * dpt)))
        texts.append("wire sl : 1; sl = (pc%s == 0);\npc = 0; Stat = 1;\n" % ("[0..64]" * dpt))
        texts.append("const INS = %s1%s;\npc = 0; Stat = 1;\n" % ("(1 in { " * dpt, " })" * dpt))
        texts.append("const CAT = %s0b1%s;\npc = 0; Stat = 1;\n" % ("(" * min(dpt, 100), " .. 0b1)" * min(dpt, 100)))
    # constant expressions (evaluated while building)
    for e in ["-0", "1/0", "0b11[3..1]", "0b11[0..5]", "(0b1 .. %s)" % ("0b" + "1" * 128), "(%s .. %s)" % ("0b" + "1" * 128, "0b" + "1" * 128), "1 << 200", "~0 + 1",
              "[ 1/0 : 1; 1 : 2 ]", "K", "K2 + 1", "0b1 & 0b11", "3[128..128]", "-(0b0)", "!(0b1[0..0])", "1 in { 1/0 }"]:
        texts.append("const K2 = 1; const K = %s;\npc = 0; Stat = 1;\n" % e)
        texts.append("register xY { a : 8 = %s; }\nx_a = Y_a; pc = 0; Stat = 1;\n" % e)
        texts.append("mem_readbit = %s; mem_addr = 0; mem_writebit = 0; mem_input = 0; pc = 0; Stat = 1;\n" % e)
    # enables of partially connected memory ports are evaluated before any width rule has seen them
    import props.c09 as c09
    for e in c09.CONST_ENABLES:
        texts.append("const EN0 = 0, EN2 = 2; pc = 0; Stat = 1;\nmem_addr = 0;\nmem_writebit = %s;\n" % e)
        texts.append("const EN0 = 0, EN2 = 2; pc = 0; Stat = 1;\nmem_input = 0;\nmem_writebit = %s;\n" % e)
        texts.append("const EN0 = 0, EN2 = 2; pc = 0; Stat = 1;\nmem_readbit = %s;\n" % e)
        texts.append("const EN0 = 0, EN2 = 2; pc = 0; Stat = 1;\nmem_readbit = %s; mem_writebit = %s; mem_input = 1;\n" % (e, e))
    return texts


def check(report, tier, seed):
    rng = random.Random(seed)
    texts = list(dict.fromkeys(cases_for(rng, tier)))
    lines = ["c%d front %s 1" % (i, lib.hexs(t)) for i, t in enumerate(texts)]
    res = collections.Counter()
    for profile in ("dev", "noovf"):
        impl = lib.run_cases(lib.build_harness(profile), lines, timeout=60 if tier == "quick" else 600, restarts=1)
        for i, t in enumerate(texts):
            blk = impl.get("c%d" % i, ["MISSING"])
            rep = {"text": t[:2000], "profile": profile, "impl": [l[:300] for l in blk]}
            if any(l.startswith(("PANIC", "DIED", "NOT-RUN", "MISSING")) for l in blk):
                msg = [bytes.fromhex(l[6:]).decode("utf-8", "replace") for l in blk if l.startswith("PANIC") and len(l) > 7]
                import re
                if any(l.startswith("HUNG") for l in blk):
                    msg = ["no answer within the time limit (hang)"]
                report.violation("input-panic:" + re.sub(r"[^A-Za-z]+", "-", (msg or ["died"])[0])[:50],
                                 "front end or diagnostic renderer panicked / hung on %r: %s" % (t[-60:], (msg or ["process died or timed out"])[0][:100]), rep)
                continue
            v = [l for l in blk if l.startswith(("accept", "reject"))]
            if not v:
                report.violation("input-no-verdict", "no verdict", rep)
                continue
            if v[0].startswith("accept"):
                res[profile + ".accept"] += 1
                continue
            res[profile + ".reject"] += 1
            if "InternalParserErrorNear" in v[0]:
                report.violation("input-internal-error", "internal parser error (a caught panic) on %r" % t[-60:], rep)
                continue
            rend = [l for l in blk if l.startswith("render ")]
            out = bytes.fromhex(rend[0][7:]).decode("utf-8", "replace") if rend and rend[0] != "render -" else ""
            if "error:" not in out:
                report.violation("input-rejected-silently", "rejected without any 'error:' diagnostic", rep)
        if profile == "dev":
            import rendercheck
            tx = {"c%d" % i: t for i, t in enumerate(texts)}
            order = list(tx)
            rng.shuffle(order)
            n_r, n_v = rendercheck.compare(report, tx, impl, "input", ids=order, limit=2500 if tier == "quick" else 60000)
            res["renderings_compared_with_model"] = n_r
            res["error_variants_rendered"] = n_v
            import frontcheck
            sres = frontcheck.compare_stderr(report, {cid: tx[cid] for cid in order}, impl, "input", limit=300 if tier == "quick" else 8000)
            for k_, v_ in sres.items():
                res["model_" + k_] = v_
    # a sample through the real binary: exit status, stderr, wall time
    cli = lib.build_cli("dev")
    sample = rng.sample(texts, 60 if tier == "quick" else 600) + ["\xff\xfe\x00 invalid utf8".encode("latin-1")]
    with tempfile.TemporaryDirectory(dir=lib.CACHE) as d:
        for i, t in enumerate(sample):
            p = os.path.join(d, "t%d.hcl" % i)
            with open(p, "wb") as f:
                f.write(t if isinstance(t, bytes) else t.encode("utf-8", "replace"))
            try:
                r = subprocess.run([cli, "--check", p], capture_output=True, timeout=20)
            except subprocess.TimeoutExpired:
                report.violation("cli-hang", "hclrs --check did not terminate within 20 s", {"text": str(t)[:500]})
                continue
            res["cli.exit%d" % r.returncode] += 1
            if r.returncode not in (0, 1):
                report.violation("cli-crash", "hclrs --check exited with status %d: %s" % (r.returncode, r.stderr.decode("utf-8", "replace")[:150]), {"text": str(t)[:500]})
            elif r.returncode == 1 and b"error:" not in r.stderr:
                report.violation("cli-silent-failure", "exit status 1 without an 'error:' diagnostic", {"text": str(t)[:500]})
            elif r.returncode == 0 and b"syntax OK" not in r.stdout:
                report.violation("cli-silent-success", "exit status 0 without 'syntax OK'", {"text": str(t)[:500]})
        # deeply nested but VALID texts through the real binary (the in-process harness has its own, small stack):
        # sums, mux nests, parentheses, slices, concatenations a few thousand levels deep must simply be accepted
        deep = []
        for n_ in ([1500, 6000] if tier == "quick" else [1500, 6000, 20000, 60000]):
            deep += [("sum%d" % n_, "wire w : 64; w = " + "pc + " * n_ + "1;\npc = 0; Stat = STAT_AOK;\n"),
                     ("constsum%d" % n_, "const K = " + "1 + " * n_ + "1;\npc = 0; Stat = STAT_AOK;\n"),
                     ("paren%d" % n_, "const K = " + "(" * n_ + "1" + ")" * n_ + ";\npc = 0; Stat = STAT_AOK;\n"),
                     # (a syntax error followed by tens of thousands of tokens: the parser's recovery is quadratic in them,
                     #  30 s for 60 000 repetitions on an idle machine - kept below that, the time limit is about hanging)
                     ("slice%d" % min(n_, 20000), "wire w : 1; w = (pc" + "[0..64]" * min(n_, 20000) + " == 0);\npc = 0; Stat = STAT_AOK;\n"),
                     ("andor%d" % n_, "wire w : 1; w = " + "(pc == 0) && " * n_ + "1;\npc = 0; Stat = STAT_AOK;\n")]
        for n_ in ([1500] if tier == "quick" else [1500, 6000]):
            deep += [("mux%d" % n_, "const K = " + "[ 1 : " * n_ + "1" + "; ]" * n_ + ";\npc = 0; Stat = STAT_AOK;\n"),
                     ("cat%d" % n_, "wire w : 1; w = (" + "(" * min(n_, 100) + "0b1" + " .. 0b1)" * min(n_, 100) + ")[0..1];\npc = 0; Stat = STAT_AOK;\n")]
        # beyond every stack: recorded finding (known_findings.txt), reported as such and not as a new violation
        deep += [("sum250000", "wire w : 64; w = " + "pc + " * 250000 + "1;\npc = 0; Stat = STAT_AOK;\n")]
        for name, t in deep:
            p = os.path.join(d, name + ".hcl")
            with open(p, "w") as f:
                f.write(t)
            try:
                r = subprocess.run([cli, "--check", p], capture_output=True, timeout=400)
            except subprocess.TimeoutExpired:
                report.violation("cli-hang-deep", "hclrs --check did not terminate within 400 s on a valid text nested %s levels deep" % name, {"shape": name, "text_head": t[:120]})
                continue
            res["deep.exit%d" % r.returncode] += 1
            if not (r.returncode == 0 and b"syntax OK" in r.stdout) and not (r.returncode == 1 and b"error:" in r.stderr):
                key = "cli-abort-nesting-beyond-250000" if name == "sum250000" and r.returncode < 0 or r.returncode == 134 and name == "sum250000" else "cli-crash-deep"
                report.violation(key, "hclrs --check on a deeply nested text (%s) exited with status %d: %s" % (name, r.returncode, r.stderr.decode("utf-8", "replace")[-160:]),
                                 {"shape": name, "bytes": len(t), "text_head": t[:120], "text_tail": t[-80:]})
    report.coverage["evaluations"] = 2 * len(texts) + len(sample)
    report.coverage["distinct_nontrivial"] = len(texts)
    report.coverage["rule"] = ("truncation of %d valid programs at every byte (lossy-decoded when inside a character); single token insert / replace / delete "
                               "over a %d-token vocabulary (keywords, literals incl. out-of-range and over-long ones, every operator, brackets, three comment "
                               "forms, CR/LF/CRLF, non-ASCII letters, no-break and ideographic space, stray characters); token soups; texts ending in the middle of "
                               "a literal, comment, declaration or multi-byte character; constant / default / enable expressions that overflow or divide by "
                               "zero; valid texts nested 1500-6000 (thorough 60000) levels deep through the real binary; in-process under catch_unwind in the overflow-checking and the wrapping build with diagnostics rendered, plus a sample and "
                               "invalid UTF-8 through the real binary" % (len(BASE_PROGRAMS) + 3, len(VOCAB)))
    report.coverage["distribution"] = dict(res)
    report.coverage["samples"] = [texts[5], texts[-1]]
