"""C05 - memory is little-endian and byte-addressed; writes land at the end of the cycle."""
import random
import collections
import gen, histgen, lib, simcheck


def direct_cases(rng, n):
    """Memory::read / Memory::write through the hook, all byte counts 0..16."""
    lines = []
    for i in range(n):
        mem = {}
        for _ in range(rng.randint(0, 6)):
            mem[rng.choice([rng.getrandbits(4), (1 << 64) - 1 - rng.getrandbits(3), rng.getrandbits(64)])] = rng.getrandbits(8)
        ops = []
        for _ in range(rng.randint(1, 8)):
            a = rng.choice([rng.getrandbits(4), (1 << 64) - 1 - rng.getrandbits(4), rng.getrandbits(64), 0xff8 + rng.getrandbits(4)])
            nb = rng.randint(0, 16)
            if rng.random() < 0.5:
                ops.append("r%x:%d" % (a, nb))
            else:
                ops.append("w%x:%x:%d" % (a, rng.getrandbits(128), nb))
        m = ",".join("%x=%02x" % kv for kv in sorted(mem.items())) or "-"
        lines.append("m%d mem %s %s" % (i, m, " ".join(ops)))
    return lines


def check(report, tier, seed):
    rng = random.Random(seed)
    n, cycles = (300, 30) if tier == "quick" else (5000, 60)
    cases = {}
    for i in range(n):
        cases["m%d" % i] = {"hcl": histgen.mem_program(rng), "yo": gen.yo_image(rng, 10 * cycles + 40), "cycles": cycles,
                            "flags": "-", "timeout": 9999}
    impl, model, stats = simcheck.run_sim_cases(report, cases, key_prefix="memory")
    tot = collections.Counter()
    hist = set()
    for cid in cases:
        init, cyc = histgen.parse_trace(impl.get(cid, []))
        errs, st = histgen.mem_oracle(init, cyc)
        tot.update(st)
        hist.add(tuple((c["post"]["mem_addr"][0], c["post"]["mem_writebit"][0]) for c in cyc if "post" in c))
        if errs:
            report.violation("memory-spec", "memory departs from the abstract byte map: " + errs[0],
                             {"case": cases[cid], "errors": errs[:5]})
    lines = direct_cases(rng, 2000 if tier == "quick" else 40000)
    di = lib.run_cases(lib.build_harness("dev"), lines)
    dm = lib.run_cases(lib.build_driver(), lines)
    dcases = {l.split(" ", 1)[0]: {"line": l} for l in lines}
    lib.compare_blocks(report, dcases, di, dm, key_fn=lambda *a: "memory-direct",
                       what="Memory::read/write/dump differ from the model")
    report.coverage["evaluations"] = len(cases) + len(lines)
    report.coverage["distinct_nontrivial"] = len(hist)
    report.coverage["rule"] = ("(addr, data, read, write) histories from random image bits over 4 of the bases %s plus offsets 0..15 "
                               "(unaligned, overlapping, wrapping at 2^64, inside the loaded image), %d cycles; plus direct read/write sequences "
                               "with 0..16 bytes; distinct = distinct (address, write) histories" % ([hex(b) for b in histgen.BASES], cycles))
    report.coverage["distribution"] = dict(stats, **tot)
    report.coverage["samples"] = [list(cases.values())[0]["hcl"], lines[0]]
