"""C02 - expression operators compute the HCL-defined function at every width."""
import random
import collections
import exprcheck
import gen
import lib


def check(report, tier, seed):
    rng = random.Random(seed)
    feats = lib.default_features()
    cases = exprcheck.grid_cases(rng, tier)
    if tier == "quick":
        rng.shuffle(cases)
        keep = [c for c in cases if c["tag"].startswith("mux")] + cases[:14000]
        cases = keep
    cases += exprcheck.random_cases(rng, 1500 if tier == "quick" else 20000, feats, depth=6)
    total = collections.Counter()
    for profile in ("dev", "noovf"):
        st = exprcheck.run_expr_cases(report, cases, feats, profile, prefix="e" + profile[0])
        for k, v in st.items():
            total[profile + "." + k] = v
    tags = collections.Counter(c["tag"] for c in cases)
    opsh = collections.Counter(o for c in cases for o in gen.ops_of(c["ast"]))
    report.coverage["evaluations"] = 2 * len(cases)
    report.coverage["distinct_nontrivial"] = len(set(gen.to_sexpr(c["ast"]) + exprcheck.env_args(c["env"]) for c in cases
                                                     if total.get("dev.accepted", 0)))
    report.coverage["rule"] = ("operator x width pair x boundary value pair grid (widths %s), muxes mixing sized/unsized arms "
                               "feeding width-sensitive operators, random well-typed nestings to depth 6; each case run in the "
                               "overflow-checking and the wrapping build; distinct = distinct (expression, environment)" % exprcheck.GRID_WIDTHS)
    report.coverage["distribution"] = {"tags": dict(tags), "operators": dict(opsh), "results": dict(total)}
    report.coverage["samples"] = [{"text": gen.to_text(c["ast"]), "env": exprcheck.env_args(c["env"])} for c in cases[:3] + cases[-2:]]
