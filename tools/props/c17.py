"""C17 - each strictness option changes exactly the check it names, nothing else."""
import itertools
import random
import collections
import exprcheck, gen, lib, simcheck
from props import c01

F = lib.FEATURES
# expressions separating each rule (accepted iff the named option is off); env: a:8 b:4 c:1
SEPARATORS = {
    "strict-boolean-ops": [("b", "LogicalAnd", ("w", "a"), ("w", "c")), ("b", "LogicalOr", ("w", "c"), ("w", "b"))],
    "strict-wire-widths-binary": [("b", "Add", ("w", "a"), ("w", "b")), ("b", "Div", ("w", "b"), ("w", "a")),
                                  ("m", [(("b", "Mul", ("w", "a"), ("w", "b")), ("w", "a")), (("c", 1, None), ("w", "a"))])],
    "require-mux-default": [("m", [(("w", "c"), ("w", "a"))]), ("m", [])],
    "disallow-multiple-mux-default": [("m", [(("c", 1, None), ("w", "a")), (("c", 1, None), ("w", "a"))])],
    "disallow-unreachable-options": [("m", [(("c", 1, None), ("w", "a")), (("w", "c"), ("w", "a"))]),
                                     ("m", [(("c", 1, None), ("w", "a")), (("c", 1, None), ("w", "a"))])],
}
ENV = [("a", 8, 0x5a, False), ("b", 4, 9, False), ("c", 1, 1, False)]


def check(report, tier, seed):
    rng = random.Random(seed)
    default = lib.default_features()
    if tier == "thorough":
        sets = [list(s) for r in range(6) for s in itertools.combinations(F, r)]
    else:
        # none, all, all-but-one, each alone: every assignment of every three options occurs
        # (a 3-way covering array), so an interaction of up to three options cannot hide
        sets = [default, [], list(F)] + [[f for f in F if f != g] for g in F] + [[g] for g in F]
        sets = [s for i, s in enumerate(sets) if s not in sets[:i]]
    total = collections.Counter()
    sep_cases = [{"ast": ast, "env": ENV, "tag": "sep:" + name} for name, lst in SEPARATORS.items() for ast in lst]
    finals = {}
    pcases = c01.make_cases(rng, 25 if tier == "quick" else 150, 4)
    for fs in sets:
        tag = "+".join(sorted(x[:9] for x in fs)) or "none"
        cases = sep_cases + exprcheck.random_cases(rng, 250, fs, depth=4) + exprcheck.fault_cases(rng, 250, fs)
        # the boundary widths of the rules the options name: 0, 1, 2 bits and unsized under the boolean and the
        # arithmetic operators (a zero-width operand is neither "one bit" nor "unsized")
        for op_ in ("LogicalAnd", "LogicalOr", "Add", "Sub", "Mul", "Div"):
            for wl_ in (0, 1, 2, None):
                for wr_ in (0, 1, 2, None):
                    cases.append({"ast": ("b", op_, ("w", "a"), ("w", "b")), "tag": "edge:" + op_,
                                  "env": [("a", wl_, 1 if wl_ != 0 else 0, False), ("b", wr_, 1 if wr_ != 0 else 0, False)]})
        st = exprcheck.run_expr_cases(report, cases, fs, "dev", prefix="f%d_" % len(finals))
        total["sets"] += 1
        for k, v in st.items():
            total[k] += v
        # the separating expressions must be accepted iff the option naming them is off
        # (judged on the implementation alone)
        harness = lib.build_harness("dev", fs)
        lines = ["s%d expr %s %s" % (i, lib.hexs(gen.to_text(c["ast"])), exprcheck.env_args(ENV)) for i, c in enumerate(sep_cases)]
        res = lib.run_cases(harness, lines)
        for i, c in enumerate(sep_cases):
            name = c["tag"][4:]
            blk = exprcheck.canon_block(res.get("s%d" % i, []))
            accepted = blk["check"] is not None and blk["check"][0] == "ok"
            # an expression may break several rules (the unreachable example with two defaults)
            breaks = [n for n, lst in SEPARATORS.items() if c["ast"] in lst]
            want = not any(n in fs for n in breaks)
            if accepted != want:
                report.violation("option-%s-%s" % (name, "accepts" if accepted else "rejects"),
                                 "with options %s the expression %s is %s" % (fs, gen.to_text(c["ast"]), "accepted" if accepted else "rejected"),
                                 {"features": fs, "text": gen.to_text(c["ast"]), "impl": res.get("s%d" % i)})
        # programs accepted under the default set: simulate under this set too
        impl, model, stats = simcheck.run_sim_cases(report, {k: dict(v, expect_accept=False) for k, v in pcases.items()}, features=fs, key_prefix="feat-sim")
        for cid in pcases:
            blk = [l for l in impl.get(cid, []) if not l.startswith("compiled ")]
            if blk and not blk[0].startswith("reject"):
                finals.setdefault(cid, {})[tag] = blk
    for cid, by in finals.items():
        ref_tag, ref = next(iter(by.items()))
        for tag, blk in by.items():
            if blk != ref:
                report.violation("option-changes-simulation", "program simulates differently under %s and %s: %s" % (ref_tag, tag, lib.first_diff(ref, blk)[:200]),
                                 {"case": pcases[cid], "sets": [ref_tag, tag]})
    report.coverage["evaluations"] = total["accepted"] + total["rejected"] + len(sets) * (len(sep_cases) + len(pcases))
    report.coverage["distinct_nontrivial"] = len(sets) * len(sep_cases)
    report.coverage["exhaustive"] = tier == "thorough"
    report.coverage["rule"] = ("%d of the 32 option sets (none, all, all-but-one, each alone: every combination of any three options occurs; thorough: all 32), each a separate build of the implementation: separating expressions per rule "
                               "(accepted iff the option is off), random well-typed and one-fault expressions against the model run with the same option "
                               "record, and programs simulated under every set that accepts them with all traces compared" % len(sets))
    report.coverage["distribution"] = dict(total)
    report.coverage["samples"] = [gen.to_text(c["ast"]) for c in sep_cases[:4]]
