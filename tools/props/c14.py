"""C14 - diagnostics point at the offending construct in the user's own file."""
import itertools
import random
import re
import collections
import gen, lib

ALPHABET = ["a", " ", "\n", "\r", "é", "=", "❤"]


def spec_region(user, s, e):
    """What the property says for a span [s,e) inside the user text lying on one ASCII line:
    (line number, echoed line, caret column, caret count)."""
    b = user.encode()
    line_no = 1 + b[:s].count(b"\n")
    ls = b.rfind(b"\n", 0, s) + 1
    le = b.find(b"\n", ls)
    if le < 0:
        le = len(b)
    text = b[ls:le]
    if text.endswith(b"\r"):
        text = text[:-1]
    return line_no, text, s - ls, e - s


def parse_regions(text):
    """Regions of a rendered diagnostic: list of (file, line, [(number, echoed, caret_col, caret_len)])"""
    regions = []
    lines = text.split("\n")
    i = 0
    while i < len(lines):
        m = re.match(r"^     -> (.*):(\d+)$", lines[i])
        if m and i + 1 < len(lines) and lines[i + 1] == "     |":
            rows = []
            j = i + 2
            while j + 1 < len(lines):
                m2 = re.match(r"^\s*(\d+) \| (.*)$", lines[j])
                m3 = re.match(r"^     \| ( *)(\^*)$", lines[j + 1])
                if not (m2 and m3) or len(lines[j]) < 7 or lines[j][4:7] != " | ":
                    break
                rows.append((int(m2.group(1)), lines[j][7:], len(m3.group(1)), len(m3.group(2))))
                j += 2
            regions.append((m.group(1), int(m.group(2)), rows))
            i = j
        else:
            i += 1
    return regions


def direct_part(report, rng, tier):
    lines, cases = [], {}
    k = 0
    maxlen = 4 if tier == "quick" else 5
    pre = "#p\n"
    for L in range(0, maxlen + 1):
        for tup in itertools.product(ALPHABET, repeat=L):
            user = "".join(tup)
            ub = user.encode()
            total = len(pre) + len(ub)
            pairs = [(s, e) for s in range(0, total + 2) for e in range(s, total + 3)]
            if len(pairs) > 12:
                pairs = rng.sample(pairs, 12)
            for s, e in pairs:
                cid = "r%d" % k
                k += 1
                cases[cid] = {"pre": pre, "user": user, "s": s, "e": e}
                lines.append("%s region %s %s %d %d" % (cid, lib.hexs(pre), lib.hexs(user), s, e))
    for _ in range(2000 if tier == "quick" else 40000):
        n = rng.randint(1, 60)
        user = "".join(rng.choice(["ab", "x = 1;", " ", "\n", "\n", "\r\n", "é", "# c", "wire w : 8;", "❤"]) for _ in range(n))
        prex = rng.choice(["\n", "const A = 1;\nconst B = 2;\n", ""])
        total = len(prex.encode()) + len(user.encode())
        s = rng.randint(0, total + 1)
        e = rng.choice([s, s + 1, s + 2, rng.randint(s, total + 2)])
        cid = "r%d" % k
        k += 1
        cases[cid] = {"pre": prex, "user": user, "s": s, "e": e}
        lines.append("%s region %s %s %d %d" % (cid, lib.hexs(prex), lib.hexs(user), s, e))
    impl = lib.run_cases(lib.build_harness("dev"), lines)
    model = lib.run_cases(lib.build_driver(), lines)
    spec_checked = 0
    for cid, c in cases.items():
        a, b = impl.get(cid, ["MISSING"]), model.get(cid, ["MISSING"])
        rep = {"case": c, "impl": a, "model": b}
        if any(l.startswith(("PANIC", "DIED", "NOT-RUN")) for l in a):
            report.violation("region-panic", "show_region panicked on offsets (%d,%d) of %r" % (c["s"], c["e"], c["user"][:40]), rep)
            continue
        if a != b:
            report.violation("region-differs-from-model", "show_region differs from the model on (%d,%d) of %r" % (c["s"], c["e"], c["user"][:40]), rep)
            continue
        # the property itself, for spans inside the user text on one ASCII line
        plen = len(c["pre"].encode())
        ub = c["user"].encode()
        s, e = c["s"] - plen, c["e"] - plen
        lone_cr = re.search(rb"\r(?!\n)", ub) is not None
        if 0 <= s < e <= len(ub) and b"\n" not in ub[s:e] and not lone_cr:
            line_no, text, col, cnt = spec_region(c["user"], s, e)
            if all(x < 128 for x in text):
                spec_checked += 1
                out = bytes.fromhex(a[0][7:]).decode("utf-8", "replace")
                regs = parse_regions(out)
                want = ("F", line_no, [(line_no, text.decode(), col, cnt)])
                if not regs or regs[0] != want:
                    report.violation("region-wrong-location", "span (%d,%d) of %r rendered as %r, expected %r" % (s, e, c["user"][:40], regs[:1], want), rep)
    return len(cases), spec_checked


FAULTS = [
    # (statement template with «..» around every span the diagnostic must underline, diagnostic kind).
    # Every single blank of a template is replaced by random trivia (blanks, tab, a comment), so
    # spans are exercised with arbitrary spacing inside and around them.
    ("wire zq : 8; zq = «undefinedname9»;", "UndeclaredWireRead"),
    ("wire zq : «300»;", "InvalidWireWidth"),
    ("wire zq : 8; zq = «999999999999999999999999999999999999999999999»;", "InvalidConstant"),
    ("wire zq : 8; zq = 1 «$» 2;", "LexicalError"),
    ("wire zq : 8; zq = [ pc == 0 : «0b11»; pc == 1 : «0b01»; pc == 2 : «0b10»; pc == 3 : «0b00»; pc == 4 : «0b11»; 1 : «0b111»; ];", "MismatchedMuxWidths"),
    ("wire zq : 8; zq = [ pc == 0 : «0b1»; pc == 1 : «0b01»; pc == 2 : «0b1»; pc == 3 : «0b00»; pc == 4 : «0b1»; pc == 5 : «0b1»; pc == 6 : «0b1»; 1 : 7; ];", "MismatchedMuxWidths"),
    # two faults in one statement: the missing '=' is a syntax error, so nothing else is (or may be) said about the mux
    ("wire zq : 4; «zq» [ pc == 1 : 0b10; 1 : 0b11; ];", "MissingAssignmentMux"),
    ("wire zq : 4; «zq» [ pc == 1 : 2; ];", "MissingAssignmentMux"),
    ("wire zq : 4; «zq» [ 1 : 2; pc == 1 : 3; ];", "MissingAssignmentMux"),
    # every way a literal can be out of range: decimal, hexadecimal, binary with more than 128 digits
    ("wire zq : 8; zq = «0x%s»;" % ("f" * 33), "InvalidConstant"),
    ("wire zq : 8; zq = «0x1%s» + 1;" % ("0" * 32), "InvalidConstant"),
    ("wire zq : 8; zq = «0b%s»;" % ("1" * 129), "InvalidConstant"),
    ("wire zq : 8; zq = 2 + «0b%s»;" % ("01" * 100), "InvalidConstant"),
    ("wire zq : 8; zq = «340282366920938463463374607431768211456»;", "InvalidConstant"),
    ("wire zq : 8; zq = 1 «@»;", "LexicalError"),
    ("wire zq : 8; zq = 1 «.» 2;", "LexicalError"),
    ("wire zq : 8; zq = 0b1«2»;", "LexicalError"),
    ("wire zq : 8; zq = 0x«g»;", "LexicalError"),
    ("wire zq : 8; zq = 0b«2»;", "LexicalError"),
    ("wire zq : 4; zq = «0b11111»;", "MismatchedWireWidths"),
    ("wire zq : 8; zq = «[ 1 : 1; 1 : 2; ]»;", "MultipleMuxDefaultOption"),
    ("wire zq : 8; zq = «(0b1111)[5..3]»;", "MisorderedBitIndexes"),
    ("wire zq : 8; zq = «(0b1111)[0..9]»;", "InvalidBitIndex"),
    ("wire zq : 1; zq = «0b11» && 1;", "NonBooleanWidth"),
    ("wire zq : 8; zq = («7» .. 0b1);", "NoBitWidth"),
    ("wire zq : 128; zq = «(0b1 .. %s)»;" % ("0b" + "1" * 128), "WireTooWide"),
    ("wire «zq : 8»;", "UnsetWire"),
    ("«zq9» = 1;", "UndeclaredWireAssigned"),
    ("wire zq : 8; zq = «[ pc == 0 : 1; ]»;", "NoMuxDefaultOption"),
    ("wire «zq» ;", "MissingWireWidth"),
    ("register «zzz» { }", "InvalidRegisterBankName"),
    ("wire zq : 8; zq = 1; «zq» = 2;", "DoubleAssignedWire"),
    ("«i10bytes» = 0;", "DoubleAssignedFixedOutWire"),
    ("wire zq : 8; zq = [ pc == 0 : «0b11»; 1 : «0b111»; ];", "MismatchedMuxWidths"),
    ("wire zq : 8; wire zr : 4; zq = 1; zr = 2; wire zs : 8; zs = «zq» & «zr»;", "MismatchedExprWidths"),
    ("register xY { zr : 8 = «0b111»; } x_zr = Y_zr;", "MismatchedRegisterDefaultWidths"),
    ("wire zw : 8; zw = 1; const ZK = «zw» + 1;", "NonConstantWireRead"),
    ("register xY { «zr : 8 = 0»; }", "UnsetRegisterInputWire"),
    ("wire «zq : 8»; zq = 1; wire «zq : 4»;", "RedeclaredWire"),
    ("register xY { «zr : 8 = 0»; } x_zr = 1; «Y_zr» = 2;", "DoubleAssignedRegisterWire"),
    ("register xY { «zr : 8 = 0»; } register qY { «zr : 8 = 0»; } x_zr = 1; q_zr = 1;", "DoubleDeclaredRegisterOutWire"),
    ("const «ZK» = 1; «ZK» = 2;", "ConstantAssigned"),
    ("wire «pc : 8»;", "RedeclaredBuiltinWire"),
    ("1 «+» 2;", "UnrecognizedToken"),
    ("wire «zq : 8 =» 1;", "WireAssignedInDeclaration"),
    ("wire «zq =» 1;", "WireAssignedInDeclaration"),
    ("register xY { «zr = 0»; }", "MissingRegisterWidth"),
    ("const ZK «: 8» = 1;", "AddedConstWidth"),
    ("wire zq : 8; «zq» [ 1 : 2; ];", "MissingAssignmentMux"),
    ("register xY { «wire» zr : 8 = 0; }", "RegisterDeclaredWithWire"),
    ("wire zq : 8; zq = «[ 1 : 1; pc == 0 : 2; ]»;", "UnreachableOptions"),
    ("wire zq : 8; zq = 1 «1»;", "UnrecognizedToken"),
    ("wire zq : 8; zq = «;»", "UnrecognizedToken"),
    ("wire zq : 8; zq = 1; «}»", "UnrecognizedToken"),
    ("wire zq : 8; zq = 1; «/*»never_closed", "UnterminatedComment"),
    ("wire zq : 8; zq = 1; «ZQ» = 1;", "UndeclaredWireAssigned"),                       # with a "did you mean" hint
    ("wire zq : 8; zq = 1; wire zr : 8; zr = «Zq» + 1;", "UndeclaredWireRead"),
    ("wire zq : 8; zq = [ pc == 0 : «0b11»; pc == 1 : 5; 1 : «0b111»; ];", "MismatchedMuxWidths"),   # an unsized arm in between
    ("«x_zr» = 1;", "UndeclaredWireAssigned"),                                           # "missing register declaration?" hint
    # spans of compound expressions with parentheses at their edges: a binary expression spans the
    # tokens of its own production (its operands' parentheses included), a parenthesised
    # expression passes the span of what is inside
    ("wire zq : 8; wire zr : 4; zq = 1; zr = 2; wire zs : 8; zs = «( zq + 1 ) & ( zq | zq )» & ( «zr» );", "MismatchedExprWidths"),
    ("wire zq : 4; zq = «( 0b11 .. 0b11 ) + ( 0b1 .. 0b1111 )»;", "MismatchedWireWidths"),
    ("wire zq : 1; zq = ( «( 0b1 .. 0b1 ) & 0b11» ) && 1;", "NonBooleanWidth"),
    ("wire zq : 8; zq = 1; wire zs : 1; zs = ( «( zq + 1 ) == ( zq )» ) & ( «( 0b11 )[0..2] + ( 0b11 )» );", "MismatchedExprWidths"),
    ("wire zq : 8; zq = ( «undefinedname8» ) + ( ( 1 ) );", "UndeclaredWireRead"),
]
TRIVIA = [" ", " ", " ", "  ", "   ", "\t", " /*c*/ ", "/**/ ", " \t "]


def expand(rng, tmpl, plain):
    """Replaces every blank of the template by random trivia; returns (statement, [(col, len)..])."""
    out, spans, start = [], [], None
    for ch in tmpl:
        if ch == "«":
            start = sum(len(x) for x in out)
        elif ch == "»":
            spans.append((start, sum(len(x) for x in out) - start))
        elif ch == " " and not plain:
            out.append(rng.choice(TRIVIA))
        else:
            out.append(ch)
    return "".join(out), spans


def located_part(report, rng, tier):
    n = 1200 if tier == "quick" else 20000
    cases, lines = {}, []
    for i in range(n):
        tmpl, kind = FAULTS[i % len(FAULTS)] if i < 2 * len(FAULTS) else rng.choice(FAULTS)
        nlines = rng.randint(0, 30)
        filler = []
        for j in range(nlines):
            filler.append(rng.choice(["wire f%d : 8; f%d = %d;" % (j, j, j), "# comment %d" % j, "", "/* c%d */ wire g%d : 4; g%d = 1;" % (j, j, j),
                                      "   ", "const C%d = %d;" % (j, j), "// é ❤ non-ascii comment"]))
        if rng.random() < 0.1:
            filler = ["# " + "x" * 5000] + filler
        pos = rng.choice([0, len(filler), rng.randint(0, len(filler))])
        indent = " " * rng.choice([0, 0, 3, 17])
        body, spans = expand(rng, tmpl, plain=i < len(FAULTS))
        stmt = indent + body
        spans = [(c + len(indent), l) for c, l in spans]
        tail = ["pc = 0;", "Stat = STAT_AOK;"]
        if kind == "UnterminatedComment" or rng.random() < 0.3:
            all_lines = filler + tail + [stmt]            # the fault on the very last line
        else:
            all_lines = filler[:pos] + [stmt] + filler[pos:] + tail
        eol = rng.choice(["\n", "\n", "\r\n"])
        trailing = rng.random() < 0.6
        text = eol.join(all_lines) + (eol if trailing else "")
        idx = all_lines.index(stmt)
        cid = "l%d" % i
        cases[cid] = {"hcl": text, "kind": kind, "line": idx + 1, "spans": spans,
                      "echo": stmt, "last_line": idx == len(all_lines) - 1, "trailing_newline": trailing,
                      "eol": eol}
        lines.append("%s front %s 1" % (cid, lib.hexs(text)))
    impl = lib.run_cases(lib.build_harness("dev"), lines)
    stats = collections.Counter()
    import rendercheck
    n_r, n_v = rendercheck.compare(report, {cid: c["hcl"] for cid, c in cases.items()}, impl, "diag")
    stats["renderings_compared_with_model"] = n_r
    stats["error_variants_rendered"] = n_v
    import frontcheck
    order = list(cases)
    head, rest = order[:2 * len(FAULTS)], order[2 * len(FAULTS):]      # every template twice (once plain, once with trivia), then a sample
    rng.shuffle(rest)
    order = head + rest
    fres = frontcheck.compare(report, {cid: cases[cid]["hcl"] for cid in order}, impl, "diag", limit=2 * len(FAULTS) + (120 if tier == "quick" else 6000))
    for k_, v_ in fres.items():
        stats["model_" + k_] = v_
    sres = frontcheck.compare_stderr(report, {cid: cases[cid]["hcl"] for cid in order}, impl, "diag", limit=2 * len(FAULTS) + (120 if tier == "quick" else 6000))
    for k_, v_ in sres.items():
        stats["model_" + k_] = v_
    for cid, c in cases.items():
        blk = impl.get(cid, ["MISSING"])
        rep = {"case": c, "impl": [l[:400] for l in blk]}
        if any(l.startswith(("PANIC", "DIED", "NOT-RUN", "MISSING")) for l in blk):
            report.violation("diag-panic", "front end or renderer panicked", rep)
            continue
        rend = [l for l in blk if l.startswith("render ")]
        if not rend:
            report.violation("diag-fault-accepted", "a program with a %s fault was accepted" % c["kind"], rep)
            continue
        out = bytes.fromhex(rend[0][7:]).decode("utf-8", "replace")
        regs = parse_regions(out)
        stats[c["kind"]] += 1
        if "<builtin>" in out:
            report.violation("diag-attributed-to-preamble", "a fault in user code is attributed to <builtin>", rep)
            continue
        if "Internal parser error" in out:
            report.violation("diag-internal-error", "internal parser error instead of a diagnostic", rep)
            continue
        if not any(l.startswith("reject") and (c["kind"] + "|") in l for l in blk):
            report.violation("diag-wrong-kind:" + c["kind"], "expected a %s diagnostic: %s" % (c["kind"], [l[:120] for l in blk if l.startswith("reject")]), rep)
            continue
        for col, ln in c["spans"]:
            want_row = (c["line"], c["echo"], col, ln)
            hit = [r for r in regs if r[0] == "input.hcl" and r[1] == c["line"] and r[2] == [want_row]]
            if not hit:
                report.violation("diag-wrong-location:" + c["kind"],
                                 "%s fault at line %d col %d len %d: rendered regions %r" % (c["kind"], c["line"], col, ln, [(r[0], r[1], [x[2:] for x in r[2]][:2]) for r in regs][:4]), rep)
                break
    return len(cases), stats


def spans_part(report, rng, tier):
    """Every span the real parser attaches to the syntax tree (expressions and sub-expressions, declared
    names, declarations, assignments, registers, banks) against the spanned model parser, whose spans
    the theorems C14_spans_* are about."""
    import buildcheck, translate
    n = 150 if tier == "quick" else 2500
    texts = []
    for i in range(n):
        r = rng.random()
        if r < 0.45:
            stmts = []
            for _ in range(rng.randint(1, 6)):
                tmpl, _k = rng.choice(FAULTS)
                if "never_closed" in tmpl or "$" in tmpl or "@" in tmpl:
                    continue
                stmts.append(expand(rng, tmpl, plain=False)[0])
            text = rng.choice(["\n", " ", "\r\n", "\n\n# c\n"]).join(stmts) + rng.choice(["", "\n", " "])
        elif r < 0.8:
            g = gen.ProgGen(rng, n_wires=rng.randint(1, 5), depth=rng.randint(1, 3), allow_div=True)
            base = g.build()
            text = "".join(rng.choice(TRIVIA + ["\n", " // \u00e9\n"]) if ch == " " and rng.random() < 0.5 else ch for ch in base)
        else:
            env = [("a", 8, False), ("b", 8, False), ("c4", 4, False), ("f", 1, False), ("K9", None, True), ("wide", 64, False)]
            e = gen.ExprGen(rng, env).gen(rng.choice([8, 4, 1, None, 64]), rng.randint(1, 4))
            body = gen.to_text(e, rng)
            text = rng.choice(["wire \u00e9 : 8 , q:4;", "const K=%s , L = ( %s );" % (body, body), "register xY { a : 8 = %s ; b:1=0; }" % body, "x = y = z = %s;" % body, ""]) + \
                   " w = " + body + rng.choice([";", " ;", ""])
        if len(text.encode()) < 1200:
            texts.append(text)
    li = ["s%d parse %s 1" % (i, lib.hexs(t)) for i, t in enumerate(texts)]
    lm = ["s%d psp %s" % (i, lib.hexs(t)) for i, t in enumerate(texts)]
    impl, model = lib.run_cases(lib.build_harness("dev"), li), lib.run_cases(lib.build_driver(), lm)

    def _st(blk):
        return [buildcheck.norm(translate.sexp_parse(y[5:])) if y.startswith("stmt ") else ("err" if y.startswith("err") else y) for y in blk]
    nspans = accepted = 0
    for i, t in enumerate(texts):
        a, b = _st(impl.get("s%d" % i, ["MISSING"])), _st(model.get("s%d" % i, ["MISSING"]))
        if a and a[0] != "err":
            accepted += 1
            nspans += sum(str(x).count("@") for x in a)
        if a != b:
            report.violation("span-differs-from-model", "the parser and the spanned model parser attach different spans (or read the text differently): %s"
                             % lib.first_diff([str(x) for x in a], [str(x) for x in b])[:200],
                             {"text": t, "impl": [str(x)[:300] for x in a[:6]], "model": [str(x)[:300] for x in b[:6]]})
    return len(texts), accepted, nspans


def check(report, tier, seed):
    rng = random.Random(seed)
    n1, spec_checked = direct_part(report, rng, tier)
    n2, stats = located_part(report, rng, tier)
    n3, n3acc, nspans = spans_part(report, rng, tier)
    stats["span_texts"] = n3
    stats["span_texts_accepted"] = n3acc
    stats["spans_compared"] = nspans
    report.coverage["evaluations"] = n1 + n2 + n3
    report.coverage["distinct_nontrivial"] = spec_checked + sum(stats.values())
    report.coverage["exhaustive"] = True
    report.coverage["rule"] = ("show_region on every text of length <= %d over the alphabet a, blank, LF, CR, e-acute, =, heart (12 sampled offset pairs each, "
                               "beyond both ends included) and random longer texts, vs the model; spans on one ASCII line additionally judged by the property's "
                               "own statement (line = 1 + LFs before, echoed line, caret column and count); %d located fault templates (every diagnostic variant that shows a location, all its spans) injected at "
                               "first/middle/last line, any indentation, random blanks / tabs / comments between all tokens inside and around the spans, LF/CRLF, "
                               "with/without final newline, after comments and 5 kB lines: rendered file name, line number, echo and carets of EVERY span "
                               "compared with the generator's known position (a region must show exactly that one line)" % (4 if tier == "quick" else 5, len(FAULTS)))
    report.coverage["distribution"] = {"direct": n1, "direct_spec_checked": spec_checked, "located": n2, **{"kind_" + k: v for k, v in stats.items()}}
    report.coverage["samples"] = [{"user": "a = ❤\n", "s": 3, "e": 4}, FAULTS[0][0]]
