"""History generators: small fixed-shape programs whose control/data signals are driven, cycle
by cycle, by the 80 random bits the instruction port delivers from a random image, so that one
program text x many images = many histories.  Plus parsers for the harness output and
python-side spec oracles that judge the implementation's own per-cycle values."""
import random

import gen

ZERO64 = "0b" + "0" * 64


def stat_stmt(rng, bits="(i10bytes)[72..76]"):
    """Stat mostly AOK, now and then BUB / HLT / ADR / INS / PIP, driven by image bits: state
    changes must also land in the cycle in which the status turns non-OK."""
    if rng.random() < 0.35:
        return "Stat = STAT_AOK;"
    return ("Stat = [ %s == 0 : STAT_HLT; %s == 1 : STAT_INS; %s == 2 : STAT_BUB; %s == 3 : STAT_ADR; %s == 4 : STAT_PIP; 1 : STAT_AOK; ];"
            % (bits, bits, bits, bits, bits))


def parse_values(line):
    """'a=ff/8,b=0/u' -> {name: (bits, width|None)}"""
    out = {}
    if not line:
        return out
    for item in line.split(","):
        k, v = item.split("=", 1)
        b, w = v.split("/")
        out[k] = (int(b, 16), None if w == "u" else int(w))
    return out


def parse_trace(blk):
    """Splits a `sim` block into cycles: list of dict(pre, post, regs, mem, flags, out)."""
    cycles = []
    init = {}
    cur = None
    for l in blk:
        if l.startswith("pre "):
            cur = {"pre": parse_values(l[4:])}
            cycles.append(cur)
        elif l.startswith("post "):
            cur["post"] = parse_values(l[5:])
        elif l.startswith("out "):
            cur["out"] = bytes.fromhex(l[4:]).decode("utf-8", "replace") if l[4:] != "-" else ""
        elif l.startswith(("regs ", "mem ", "flags ")):
            tgt = cur if cur is not None else init
            key, rest = l.split(" ", 1)
            if key == "regs":
                tgt["regs"] = [int(x, 16) for x in rest.split(",")]
            elif key == "mem":
                tgt["mem"] = {} if rest == "-" else {int(a, 16): int(b, 16) for a, b in (x.split("=") for x in rest.split(","))}
            else:
                tgt["flags"] = dict(x.split("=") for x in rest.split())
        elif l.startswith("step err"):
            if cur is not None:
                cur["err"] = l
    return init, cycles


# ------------------------------------------------------------------ C03: banks
def bank_program(rng):
    nb = rng.randint(1, 3)
    ins = rng.sample([c for c in gen.LOWER if c not in "ps"], nb)
    outs = rng.sample([c for c in gen.UPPER if c != "P"], nb)
    st = ["register pP { pc : 64 = 0; }", "p_pc = P_pc + 10;", "pc = P_pc;", stat_stmt(rng, "(i10bytes)[60..64]")]
    banks = []
    bit = 0
    for li, lo in zip(ins, outs):
        regs = []
        for j in range(rng.randint(1, 3)):
            w = rng.choice([1, 2, 8, 31, 64, 65, 80, 127, 128])
            # defaults that fit, and unsized ones that do not fit before truncation (-1, ~0, oversize)
            kind = rng.choice(["fit", "fit", "minus1", "not0", "oversize"])
            if kind == "fit" or w >= 127:
                d, dtext = rng.getrandbits(min(w, 24)), None
            elif kind == "minus1":
                d, dtext = (1 << 128) - 1, "-1"
            elif kind == "not0":
                d, dtext = (1 << 128) - 1, "~0"
            else:
                d = (1 << w) + rng.getrandbits(w) + (rng.getrandbits(3) << (w + 1))
                dtext = None
            regs.append(("r%d" % j, w, d, dtext if dtext else str(d)))
        body = " ".join("%s : %d = %s;" % (r, w, dt) for r, w, d, dt in regs)
        st.append("register %s%s { %s }" % (li, lo, body))
        for r, w, d, dt in regs:
            # next value: old value plus fresh data (so stalls are visible)
            if w <= 80:
                src = "(i10bytes)[%d..%d]" % (0, w) if w < 80 else "i10bytes"
            else:
                src = "((i10bytes)[0..%d] .. i10bytes)" % (w - 80)
            st.append("%s_%s = (%s_%s + %s);" % (li, r, lo, r, src))
        mode = rng.choice(["random", "random", "bursty", "never", "stall_only", "bubble_only"])
        sb, bb = 70 + bit, 71 + bit
        bit += 2
        if mode in ("random", "stall_only"):
            st.append("stall_%s = (i10bytes)[%d..%d];" % (lo, sb, sb + 1))
        if mode in ("random", "bubble_only"):
            st.append("bubble_%s = (i10bytes)[%d..%d];" % (lo, bb, bb + 1))
        if mode == "bursty":
            st.append("stall_%s = ((i10bytes)[%d..%d] == 0);" % (lo, sb, sb + 2))
            st.append("bubble_%s = ((i10bytes)[%d..%d] >= 2);" % (lo, sb + 1, sb + 3))
        banks.append((li, lo, regs))
    # banks without any register (legal): they must not disturb their neighbours, wherever they are declared
    for _ in range(rng.choice([0, 0, 1, 1, 2])):
        li = rng.choice([c for c in gen.LOWER if c not in "ps" and c not in ins])
        lo = rng.choice([c for c in gen.UPPER if c != "P" and c not in outs and c not in [b[1] for b in banks]])
        ins.append(li)
        st.append("register %s%s { }" % (li, lo))
        if rng.random() < 0.5:
            st.append("stall_%s = (i10bytes)[%d..%d];" % (lo, 60 + bit % 8, 61 + bit % 8))
        if rng.random() < 0.5:
            st.append("bubble_%s = (i10bytes)[%d..%d];" % (lo, 50 + bit % 8, 51 + bit % 8))
        banks.append((li, lo, []))
    rng.shuffle(st)
    return "\n".join(st) + "\n", banks


def bank_oracle(banks, cycles):
    """Checks the recurrence on the implementation's own values. Returns (errors, stats)."""
    errs = []
    stats = {"stall": 0, "bubble": 0, "both": 0, "normal": 0}
    for n, cyc in enumerate(cycles):
        if "post" not in cyc:
            break
        pre, post = cyc["pre"], cyc["post"]
        for li, lo, regs in banks:
            stall = post.get("stall_" + lo, (0, 1))[0] != 0
            bubble = post.get("bubble_" + lo, (0, 1))[0] != 0
            stats["both" if stall and bubble else "bubble" if bubble else "stall" if stall else "normal"] += 1
            for r, w, d, dt in regs:
                o, i = "%s_%s" % (lo, r), "%s_%s" % (li, r)
                if n == 0 and pre[o] != (d & ((1 << w) - 1), w):
                    errs.append("cycle 0: %s = %r, declared default %d" % (o, pre[o], d))
                # the combinational phase must not have changed the output: value seen by readers
                want = d & ((1 << w) - 1) if bubble else pre[o][0] if stall else post[i][0]
                if post[o] != (want, w):
                    errs.append("cycle %d: %s became %r, expected %x (stall=%d bubble=%d)" % (n, o, post[o], want, stall, bubble))
    return errs, stats


# ------------------------------------------------------------------ C04: register file

def decoy_banks(rng, exclude="P"):
    """Register banks named with the textbook stage letters (F D E M W ...) whose stall / bubble are
    driven by bits of the fetched instruction: none of the built-in components may care."""
    st = []
    letters = [c for c in "FDEMW" if c not in exclude]
    if rng.random() < 0.5:
        return st
    for lo in rng.sample(letters, rng.randint(1, len(letters))):
        li = lo.lower() if lo != "D" else "f"          # fD dE eM mW style names
        li = {"F": "f", "D": "f", "E": "d", "M": "e", "W": "m"}[lo]
        n = "dk%s" % lo
        st.append("register %s%s { %s : 8 = 0; }" % (li, lo, n))
        st.append("%s_%s = %s_%s + 1;" % (li, n, lo, n))
        b = rng.randint(0, 70)
        if rng.random() < 0.8:
            st.append("stall_%s = (i10bytes)[%d..%d];" % (lo, b, b + 1))
        if rng.random() < 0.6:
            st.append("bubble_%s = (i10bytes)[%d..%d] & (i10bytes)[%d..%d];" % (lo, b + 3, b + 4, b + 5, b + 6))
    # two banks may not share an input letter: keep the first of each
    seen, out = set(), []
    for l in st:
        if l.startswith("register "):
            key = l.split()[1][0]
            if key in seen:
                skip = l.split()[1][1]
                out = [x for x in out]
                continue_bank = skip
                seen.add("skip" + skip)
                continue
            seen.add(key)
        out.append(l)
    skipped = [k[4:] for k in seen if k.startswith("skip")]
    out = [l for l in out if not any(("_dk%s" % x) in l or l.startswith(("stall_%s" % x, "bubble_%s" % x)) for x in skipped)]
    return out


def regfile_program(rng):
    st = ["register pP { pc : 64 = 0; }", "p_pc = P_pc + 10;", "pc = P_pc;", stat_stmt(rng, "(i10bytes)[72..76]")]
    small = rng.random() < 0.6      # few registers in play: many collisions
    def sel(lo):
        s = "(i10bytes)[%d..%d]" % (lo, lo + 4)
        if small:
            return "(%s & 0b0011)" % s
        return s
    st.append("reg_srcA = %s;" % sel(0))
    st.append("reg_srcB = %s;" % sel(4))
    st.append("wire dE : 4;")
    st.append("dE = [ (i10bytes)[76..78] == 0 : 0xF; 1 : %s; ];" % sel(8))
    st.append("reg_dstE = dE;")
    if rng.random() < 0.25:
        # a selector written as an unsized constant beyond 15: it is truncated to the port's four bits
        k_ = rng.choice([16 + 1, 19, 0x22, 0x26, 0x13f, 32 + 14, 16, 31, 15 + 16 * 7])
        st.append("reg_dstM = %s;" % rng.choice([str(k_), "0x%x" % k_, "%d + %d" % (k_ - 3, 3)]))
        if rng.random() < 0.5:
            st = [x for x in st if not x.startswith("reg_dstE = ")]
            k2 = rng.choice([19, 0x22, 0x10 + 5, 47, 16])
            st.append("reg_dstE = %d;" % k2)
    else:
        st.append("reg_dstM = [ (i10bytes)[78..80] == 0 : dE; (i10bytes)[78..80] == 1 : REG_NONE; 1 : %s; ];" % sel(12))
    st.append("reg_inputE = (0b11101110 .. (i10bytes)[16..72]);")
    st.append("reg_inputM = (0b01001101 .. (i10bytes)[20..76]);")
    st.append("wire seenA : 64; seenA = reg_outputA;")
    st.append("wire seenB : 64; seenB = reg_outputB;")
    st += decoy_banks(rng)
    st = const_enables(rng, st)
    if rng.random() < 0.4:
        # the data memory next to the register file, in every configuration: both ports live, a port wired but
        # switched off by a constant enable, a port partly connected and switched off - whatever happens to the
        # memory components must not disturb the register file's ports (their relative order least of all)
        st.append("mem_addr = %s;" % rng.choice(["P_pc", "0x100", "(i10bytes)[16..80]"]))
        st.append("mem_readbit = %s;" % rng.choice(["0", "1", "FALSE", "(i10bytes)[72..73]"]))
        cfg = rng.choice(["off", "off", "on", "data", "partial_off"])
        if cfg != "partial_off":
            st.append("mem_input = %s;" % rng.choice(["reg_outputA", "P_pc", "0x1234"]))
        st.append("mem_writebit = %s;" % {"off": rng.choice(["0", "FALSE", "false", "(1 == 2)", "2"]), "on": "1", "data": "(i10bytes)[73..74]",
                                          "partial_off": rng.choice(["0", "FALSE"])}[cfg])
    rng.shuffle(st)
    return "\n".join(st) + "\n"


def regfile_oracle(init, cycles):
    errs = []
    stats = {"collide": 0, "src_eq_dst": 0, "reg15": 0, "writes": 0}
    rf = [0] * 16
    if init.get("regs") != rf:
        errs.append("registers not all zero initially: %r" % init.get("regs"))
    for n, cyc in enumerate(cycles):
        if "post" not in cyc:
            break
        v = cyc["post"]
        a, b = v["reg_srcA"][0], v["reg_srcB"][0]
        if v["reg_outputA"][0] != rf[a] or v["reg_outputB"][0] != rf[b]:
            errs.append("cycle %d: read ports delivered %x/%x, start-of-cycle content %x/%x" % (n, v["reg_outputA"][0], v["reg_outputB"][0], rf[a], rf[b]))
        dE, dM = v["reg_dstE"][0], v["reg_dstM"][0]
        if dE == dM:
            stats["collide"] += 1
        if dE in (a, b) or dM in (a, b):
            stats["src_eq_dst"] += 1
        if 15 in (a, b, dE, dM):
            stats["reg15"] += 1
        if dE != 15:
            rf[dE] = v["reg_inputE"][0] & ((1 << 64) - 1)
            stats["writes"] += 1
        if dM != 15:
            rf[dM] = v["reg_inputM"][0] & ((1 << 64) - 1)
            stats["writes"] += 1
        if cyc["regs"] != rf:
            errs.append("cycle %d: registers %r, expected %r" % (n, cyc["regs"], rf))
            rf = list(cyc["regs"])
    return errs, stats


# ------------------------------------------------------------------ C05: memory
BASES = [0x10, 0x0, 0x3, 0xff8, 0xffffffffffffffe8, 0xfffffffffffffff8, 0x7ffffffffffffffc, 0x40]


def mem_program(rng, stationary=None):
    if stationary is None:
        stationary = rng.random() < 0.4
    if stationary:
        return mem_program_stationary(rng)
    bases = rng.sample(BASES, 4)
    st = ["register pP { pc : 64 = 0; }", "p_pc = P_pc + 10;", "pc = P_pc;", stat_stmt(rng, "(i10bytes)[11..15]"),
          "wire base : 64;",
          "base = [ (i10bytes)[0..2] == 0 : 0x%x; (i10bytes)[0..2] == 1 : 0x%x; (i10bytes)[0..2] == 2 : 0x%x; 1 : 0x%x; ];" % tuple(bases),
          "mem_addr = (base + (i10bytes)[2..6]);",
          "mem_readbit = (i10bytes)[6..7] | (i10bytes)[9..10];",
          "mem_writebit = (i10bytes)[7..8] | (i10bytes)[10..11];",
          "mem_input = (i10bytes)[16..80];",
          "wire seen : 64; seen = mem_output;"]
    st += decoy_banks(rng)
    st = const_enables(rng, st)
    rng.shuffle(st)
    return "\n".join(st) + "\n"


CONST_ENABLES = ["0", "1", "2", "3", "1 + 1", "4 - 2", "6 & 2", "EN2", "EN3", "0x10", "0x11", "(2 || 0)", "!2", "!0", "5 > 3", "2 * 3"]


def const_enables(rng, st):
    """Sometimes the enable of a memory port is a constant expression - also one whose value does
    not fit the one-bit wire (the wire then holds bit 0 of it: 2 disables the port, 3 enables it)."""
    if rng.random() >= 0.3:
        return st
    out = []
    which = rng.choice(["r", "w", "rw"])
    for line in st:
        if line.startswith("mem_readbit =") and "r" in which:
            line = "mem_readbit = %s;" % rng.choice(CONST_ENABLES)
        elif line.startswith("mem_writebit =") and "w" in which:
            line = "mem_writebit = %s;" % rng.choice(CONST_ENABLES)
        out.append(line)
    out.append("const EN2 = 0x10, EN3 = 0x11;")
    return out


def mem_program_stationary(rng):
    """The same addresses are read again and again (a pc that stays put or creeps, a data address
    from a tiny set) while stores land at, inside, just below and just above them; control bits
    come from a linear congruential register, not from the fetched bytes."""
    start = rng.choice([0, 8, 16, 21, 100, (1 << 64) - 6])
    stride = rng.choice([0, 0, 0, 1, 2])
    seedv = rng.getrandbits(64)
    off = rng.choice(["((C_n >> 20) & 0xf)", "((C_n >> 20) & 7)", "((C_n >> 20) & 3)"])
    target = rng.choice(["P_pc", "P_pc", "0x%x" % rng.choice(BASES)])
    st = ["register pP { pc : 64 = %d; }" % start, "p_pc = P_pc + %d;" % stride, "pc = P_pc;",
          "register cC { n : 64 = %d; }" % seedv, "c_n = (C_n * 6364136223846793005) + 1442695040888963407;",
          "Stat = STAT_AOK;",
          "wire delta : 64;", "delta = %s;" % off,
          "mem_addr = [ (C_n)[30..31] == 1 : (%s + delta); 1 : (%s - delta) ];" % (target, target),
          "mem_readbit = %s;" % rng.choice(["0", "0", "(C_n)[40..41]", "(C_n)[40..41] & (C_n)[41..42]"]),
          "mem_writebit = %s;" % rng.choice(["(C_n)[50..51]", "(C_n)[50..51] & (C_n)[51..52]", "(C_n)[50..51] | (C_n)[51..52]"]),
          "mem_input = C_n;",
          "wire seen : 64; seen = mem_output;"]
    st = const_enables(rng, st)
    rng.shuffle(st)
    return "\n".join(st) + "\n"


def mem_oracle(init, cycles):
    errs = []
    stats = {"reads": 0, "writes": 0, "rw_same_cycle": 0, "hit_earlier_write": 0, "wrap": 0}
    am = dict(init.get("mem", {}))
    written = set()
    M = (1 << 64) - 1
    for n, cyc in enumerate(cycles):
        if "post" not in cyc:
            break
        v = cyc["post"]
        addr = v["mem_addr"][0] & M
        re, we = v["mem_readbit"][0] != 0, v["mem_writebit"][0] != 0
        pcv = v["pc"][0] & M
        want_i = sum(am.get((pcv + i) & M, 0) << (8 * i) for i in range(10))
        if v["i10bytes"] != (want_i, 80):
            errs.append("cycle %d: i10bytes=%x expected %x at pc=%x" % (n, v["i10bytes"][0], want_i, pcv))
        if re:
            stats["reads"] += 1
            want = sum(am.get((addr + i) & M, 0) << (8 * i) for i in range(8))
            if any(((addr + i) & M) in written for i in range(8)):
                stats["hit_earlier_write"] += 1
        else:
            want = 0
        if addr > M - 7:
            stats["wrap"] += 1
        if v["mem_output"] != (want, 64):
            errs.append("cycle %d: mem_output=%x expected %x (addr=%x read=%d)" % (n, v["mem_output"][0], want, addr, re))
        if we:
            stats["writes"] += 1
            if re:
                stats["rw_same_cycle"] += 1
            data = v["mem_input"][0]
            for i in range(8):
                am[(addr + i) & M] = (data >> (8 * i)) & 0xFF
                written.add((addr + i) & M)
        if cyc["mem"] != am:
            diff = {k for k in set(am) | set(cyc["mem"]) if am.get(k) != cyc["mem"].get(k)}
            errs.append("cycle %d: memory differs at %s" % (n, sorted(hex(x) for x in diff)[:6]))
            am = dict(cyc["mem"])
    return errs, stats


# ------------------------------------------------------------------ C06: status sequences
def stat_program(seq):
    """Stat follows seq[k] in cycle k (last value repeats)."""
    st = ["register pP { pc : 64 = 0; cyc : 16 = 0; }", "p_pc = P_pc + 1;", "p_cyc = P_cyc + 1;", "pc = P_pc;"]
    arms = " ".join("P_cyc == %d : %d;" % (k, s) for k, s in enumerate(seq[:-1]))
    st.append("Stat = [ %s 1 : %d; ];" % (arms, seq[-1]))
    return "\n".join(st) + "\n"


def stat_spec(seq, timeout):
    """(cycles executed, report kind) as the property states."""
    k = 0
    last = None
    while True:
        if last is not None and last not in (0, 1):
            break
        if k >= timeout:
            break
        last = seq[min(k, len(seq) - 1)]
        k += 1
    if last == 2:
        kind = "halted"
    elif k >= timeout:
        kind = "timeout"
    else:
        kind = "error:%d" % last
    return k, kind
