"""Shared machinery for the hclrs verification checks.

Build steps (all incremental, all from /repo's current working tree):
  * harness  : cargo build of /verif/harness (path dependency on /repo, --cfg hclrs_verif)
  * tables   : `hclv tables` -> coq/theories/Generated.v (rewritten only when it changes)
  * coq      : make in /verif/coq (full .vo build)
  * driver   : extraction of the model to OCaml + ocamlfind ocamlopt
Run steps: feed the same case lines to harness and driver, collect `#BEGIN id .. #END id`
blocks, compare.
"""
import fcntl
import hashlib
import json
import os
import re
import subprocess
import sys
import time

VERIF = os.path.dirname(os.path.dirname(os.path.abspath(__file__)))
REPO = os.environ.get("HCLRS_REPO", "/repo")
CACHE = os.path.join(VERIF, ".cache")
COQ = os.path.join(VERIF, "coq")
NPROC = os.cpu_count() or 4

FEATURES = ["strict-boolean-ops", "strict-wire-widths-binary", "require-mux-default",
            "disallow-multiple-mux-default", "disallow-unreachable-options"]

TRUSTED_BASE = [
    "Coq 8.16.1 kernel (coqc, full .vo build; vm_compute used for reflection over finite tables; no native_compute)",
    "no axioms: every property theorem must print 'Closed under the global context'",
    "extraction: Require Extraction + ExtrOcamlBasic only (bool, option, unit, list, prod, sumbool, sumor; andb/orb inlined); N, positive, nat, ascii, string stay extracted datatypes; OCaml 4.13.1",
    "hand-written OCaml glue driver/glue.ml, driver/main.ml (S-expression reader, number/string conversion, printers)",
    "Rust harness /verif/harness and the cfg(hclrs_verif) hooks in /repo (read-only views)",
    "tools/*.py: generators, canonicalisation, diff, table translator (tools/translate.py)",
    "Rust std, rustc code generation, LALRPOP-generated parser tables: modelled by correspondence only",
]


class Lock:
    def __init__(self, name):
        os.makedirs(CACHE, exist_ok=True)
        self.path = os.path.join(CACHE, name + ".lock")

    def __enter__(self):
        self.f = open(self.path, "w")
        fcntl.flock(self.f, fcntl.LOCK_EX)
        return self

    def __exit__(self, *a):
        fcntl.flock(self.f, fcntl.LOCK_UN)
        self.f.close()


def log(*a):
    print("[vp]", *a, file=sys.stderr, flush=True)


def run(cmd, cwd=None, env=None, timeout=3600, input=None):
    e = dict(os.environ)
    e.update({"CARGO_NET_OFFLINE": "true"})
    if env:
        e.update(env)
    p = subprocess.run(cmd, cwd=cwd, env=e, timeout=timeout, input=input,
                       stdout=subprocess.PIPE, stderr=subprocess.STDOUT, text=True, errors="replace")
    return p.returncode, p.stdout


# ------------------------------------------------------------------ harness
def default_features():
    text = open(os.path.join(REPO, "Cargo.toml")).read()
    m = re.search(r"^default\s*=\s*\[(.*?)\]", text, re.S | re.M)
    if not m:
        return []
    return [x for x in re.findall(r'"([^"]+)"', m.group(1)) if x in FEATURES]


def build_harness(profile="dev", features=None):
    """Returns the path of a harness binary built from /repo's current tree."""
    if features is None:
        features = default_features()
    features = sorted(features)
    # tools/coverage.py substitutes a coverage-instrumented binary (diagnostic runs only)
    if os.environ.get("HCLV_COVERAGE_BIN") and profile == "dev" and features == sorted(default_features()):
        return os.environ["HCLV_COVERAGE_BIN"]
    tag = profile + "-" + ("+".join(f[:10] for f in features) if features else "none")
    tag = profile + "-" + hashlib.sha1(",".join(features).encode()).hexdigest()[:10]
    bindir = os.path.join(CACHE, "bin")
    os.makedirs(bindir, exist_ok=True)
    dest = os.path.join(bindir, "hclv-" + tag)
    with Lock("cargo"):
        cmd = ["cargo", "build", "--offline", "--no-default-features",
               "--manifest-path", os.path.join(VERIF, "harness", "Cargo.toml")]
        if features:
            cmd += ["--features", ",".join(features)]
        if profile != "dev":
            cmd += ["--profile", profile]
        env = {"RUSTFLAGS": "--cfg hclrs_verif", "CARGO_TARGET_DIR": os.path.join(CACHE, "target")}
        t0 = time.time()
        rc, out = run(cmd, env=env, timeout=1800)
        if rc != 0:
            raise BuildError("cargo build failed (%s):\n%s" % (tag, out[-4000:]))
        sub = "debug" if profile == "dev" else profile
        src = os.path.join(CACHE, "target", sub, "hclv")
        # copy (not link): another feature set will overwrite src
        tmp = dest + ".tmp%d" % os.getpid()
        with open(src, "rb") as a, open(tmp, "wb") as b:
            b.write(a.read())
        os.chmod(tmp, 0o755)
        os.replace(tmp, dest)
        log("harness %s built in %.1fs" % (tag, time.time() - t0))
    return dest


def build_cli(profile="dev"):
    """The real hclrs binary (no hooks), built from /repo's current tree into the cache."""
    if os.environ.get("HCLRS_COVERAGE_CLI"):
        return os.environ["HCLRS_COVERAGE_CLI"]
    with Lock("cargo"):
        cmd = ["cargo", "build", "--offline", "--bin", "hclrs",
               "--manifest-path", os.path.join(REPO, "Cargo.toml")]
        if profile == "release":
            cmd.append("--release")
        env = {"CARGO_TARGET_DIR": os.path.join(CACHE, "target-cli")}
        rc, out = run(cmd, env=env, timeout=1800)
        if rc != 0:
            raise BuildError("cargo build of the hclrs binary failed:\n" + out[-4000:])
    return os.path.join(CACHE, "target-cli", "release" if profile == "release" else "debug", "hclrs")


class BuildError(Exception):
    pass


# ------------------------------------------------------------------ coq
def regenerate_tables():
    """Translate the tables of the compiled code into coq/theories/Generated.v."""
    import translate
    binary = build_harness("dev")
    rc, out = run([binary, "tables"])
    if rc != 0:
        raise BuildError("hclv tables failed:\n" + out)
    text = translate.translate(out, REPO)
    path = os.path.join(COQ, "theories", "Generated.v")
    old = open(path).read() if os.path.exists(path) else None
    if old != text:
        with open(path, "w") as f:
            f.write(text)
        log("Generated.v rewritten")
    return out


def coq_make(targets=None):
    """make the given .vo targets (or everything). Returns (ok, output)."""
    with Lock("coq"):
        if not os.path.exists(os.path.join(COQ, "Makefile")) or \
           os.path.getmtime(os.path.join(COQ, "Makefile")) < os.path.getmtime(os.path.join(COQ, "_CoqProject")):
            rc, out = run(["coq_makefile", "-f", "_CoqProject", "-o", "Makefile"], cwd=COQ)
            if rc != 0:
                return False, out
        cmd = ["make", "-j%d" % NPROC] + (targets or [])
        rc, out = run(cmd, cwd=COQ, timeout=3000)
        return rc == 0, out


HYGIENE_RE = re.compile(r"\b(Admitted|admit|Axiom|Axioms|Parameter|Parameters|Conjecture|Abort All|"
                        r"Unset Guard Checking|Unset Positivity Checking|Unset Universe Checking|"
                        r"bypass_check|Admit Obligations|native_compute|type-in-type|impredicative-set)\b")


def strip_coq_comments(text):
    out = []
    depth = 0
    i = 0
    while i < len(text):
        if text.startswith("(*", i):
            depth += 1
            i += 2
        elif text.startswith("*)", i) and depth > 0:
            depth -= 1
            i += 2
        else:
            if depth == 0:
                out.append(text[i])
            i += 1
    return "".join(out)


def hygiene():
    """Scan every .v file of the development for escape hatches. Returns list of offences."""
    bad = []
    for root, _, files in os.walk(COQ):
        for fn in files:
            if fn.endswith(".v"):
                p = os.path.join(root, fn)
                body = strip_coq_comments(open(p).read())
                # string literals may legitimately contain the words
                body = re.sub(r'"[^"]*"', '""', body)
                for m in HYGIENE_RE.finditer(body):
                    bad.append("%s: %s" % (os.path.relpath(p, VERIF), m.group(1)))
                # Variable / Hypothesis outside a section
                depth = 0
                for line in body.split("\n"):
                    s = line.strip()
                    if re.match(r"Section\b", s):
                        depth += 1
                    elif re.match(r"End\b", s) and depth > 0:
                        depth -= 1
                    elif depth == 0 and re.match(r"(Variable|Variables|Hypothesis|Hypotheses|Context)\b", s):
                        bad.append("%s: %s outside a section" % (os.path.relpath(p, VERIF), s.split()[0]))
    for flag in ("-type-in-type", "-impredicative-set", "-vos", "-vok"):
        if flag in open(os.path.join(COQ, "_CoqProject")).read():
            bad.append("_CoqProject: " + flag)
    return bad


def coqchk(prop_id):
    """Independent re-check of the compiled property file and everything it depends on
    (thorough tier). Returns (ok, summary)."""
    # coqchk re-checks the property file AND everything it depends on; the twenty property files share almost all of
    # their dependencies (the whole development), so one run over all of them is made per state of the compiled files
    # and its verdict - which covers this property's file and its whole dependency cone - is reused by the others
    with Lock("coqchk"):
        ok_all, _ = coq_make(None)
        vos = []
        for root, _, files in os.walk(os.path.join(COQ, "theories")):
            vos += [os.path.join(root, f) for f in files if f.endswith(".vo")]
        key = _tree_hash(sorted(vos))
        cache = os.path.join(CACHE, "coqchk.json")
        saved = None
        if os.path.exists(cache):
            try:
                saved = json.load(open(cache))
            except ValueError:
                saved = None
        if not ok_all:
            rc, out = 1, "coq build failed: nothing to re-check"
        elif saved and saved.get("key") == key:
            rc, out = saved["rc"], saved["out"]
        else:
            mods = sorted("HclV.Props." + f[:-2] for f in os.listdir(os.path.join(COQ, "theories", "Props")) if re.fullmatch(r"C\d\d\.v", f))
            with Lock("coq"):
                rc, out = run(["coqchk", "-silent", "-o", "-Q", "theories", "HclV"] + mods, cwd=COQ, timeout=6000)
            with open(cache, "w") as f:
                json.dump({"key": key, "rc": rc, "out": out[-6000:]}, f)
    tail = out[out.find("CONTEXT SUMMARY"):] if "CONTEXT SUMMARY" in out else out[-1500:]
    fields = dict((k.strip(), v.strip()) for k, v in re.findall(r"\* ([^:\n]+):\s*([^\n]*(?:\n    [^\n]+)*)", tail))
    ok = (rc == 0 and fields.get("Axioms") == "<none>"
          and fields.get("Constants/Inductives relying on type-in-type") == "<none>"
          and fields.get("Constants/Inductives relying on unsafe (co)fixpoints") == "<none>"
          and fields.get("Inductives whose positivity is assumed") == "<none>")
    return ok, tail.strip()[:1500]


def check_props(prop_id, tier="quick"):
    """Compile the property file and collect its obligations.

    Returns dict(ok, theorems=[names], closed=[names], open={name: assumptions}, log).
    """
    res = {"ok": False, "theorems": [], "closed": [], "open": {}, "log": "", "hygiene": []}
    try:
        regenerate_tables()
    except BuildError as e:
        res["log"] = str(e)
        return res
    vfile = "theories/Props/%s.v" % prop_id
    ok, out = coq_make([vfile + "o"])
    res["log"] = out[-6000:]
    if not ok:
        return res
    # re-run coqc on the property file alone to capture Print Assumptions output
    with Lock("coq"):
        rc, out = run(["coqc", "-Q", "theories", "HclV", vfile], cwd=COQ, timeout=1200)
    res["log"] = out[-6000:]
    if rc != 0:
        return res
    src = strip_coq_comments(open(os.path.join(COQ, vfile)).read())
    theorems = re.findall(r"^\s*(?:Theorem|Lemma|Corollary)\s+(\w+)", src, re.M)
    printed = re.findall(r"Print Assumptions\s+(\w+)\s*\.", src)
    res["theorems"] = theorems
    # split coqc output into one chunk per Print Assumptions, in order
    chunks = re.split(r"(?=Closed under the global context|Axioms:|Section Variables:)", out)
    chunks = [c for c in chunks if c.startswith(("Closed under", "Axioms:", "Section Variables:"))]
    for name, chunk in zip(printed, chunks):
        if chunk.startswith("Closed under the global context"):
            res["closed"].append(name)
        else:
            res["open"][name] = chunk.strip()[:500]
    missing = [t for t in theorems if t not in printed]
    for t in missing:
        res["open"][t] = "no Print Assumptions for this theorem"
    if len(chunks) != len(printed):
        res["open"]["<output>"] = "expected %d Print Assumptions results, got %d" % (len(printed), len(chunks))
    res["hygiene"] = hygiene()
    if tier == "thorough":
        ok2, summary = coqchk(prop_id)
        res["coqchk"] = summary
        if not ok2:
            res["open"]["<coqchk>"] = "coqchk does not report an axiom-free, fully checked context: " + summary[-600:]
    res["ok"] = (not res["open"]) and (not res["hygiene"]) and len(theorems) > 0
    return res


# ------------------------------------------------------------------ driver
def _tree_hash(paths):
    h = hashlib.sha1()
    for p in sorted(paths):
        h.update(p.encode())
        h.update(open(p, "rb").read())
    return h.hexdigest()


def build_driver():
    """Extract the model and build the OCaml driver; returns the binary path."""
    # only the model files Extract.v imports (and what they depend on): a proof obligation that no longer
    # checks must not keep the executable model from being built - the search for a failing input needs it
    ext = open(os.path.join(COQ, "Extract.v")).read()
    mods = []
    for m in re.finditer(r"From HclV Require Import ([^.]*)\.", ext):
        mods += m.group(1).split()
    ok, out = coq_make(["theories/%s.vo" % m for m in mods])
    if not ok:
        raise BuildError("coq build of the model failed:\n" + out[-4000:])
    with Lock("driver"):
        srcs = [os.path.join(COQ, "Extract.v"), os.path.join(VERIF, "driver", "glue.ml"),
                os.path.join(VERIF, "driver", "main.ml")]
        for root, _, files in os.walk(os.path.join(COQ, "theories")):
            srcs += [os.path.join(root, f) for f in files if f.endswith(".v")]
        key = _tree_hash(srcs)
        bdir = os.path.join(CACHE, "extract")
        os.makedirs(bdir, exist_ok=True)
        stamp = os.path.join(bdir, "stamp")
        binary = os.path.join(bdir, "driver")
        if os.path.exists(stamp) and open(stamp).read() == key and os.path.exists(binary):
            return binary
        t0 = time.time()
        rc, out = run(["coqc", "-Q", os.path.join(COQ, "theories"), "HclV",
                       os.path.join(COQ, "Extract.v"), "-o", os.path.join(bdir, "Extract.vo")], cwd=bdir)
        if rc != 0:
            raise BuildError("extraction failed:\n" + out[-4000:])
        for f in ("glue.ml", "main.ml"):
            with open(os.path.join(VERIF, "driver", f)) as a, open(os.path.join(bdir, f), "w") as b:
                b.write(a.read())
        rc, out = run(["ocamlfind", "ocamlopt", "-w", "-a", "-package", "str", "-linkpkg",
                       "model.mli", "model.ml", "glue.ml", "main.ml", "-o", "driver"], cwd=bdir)
        if rc != 0:
            raise BuildError("ocaml build failed:\n" + out[-4000:])
        with open(stamp, "w") as f:
            f.write(key)
        log("driver built in %.1fs" % (time.time() - t0))
        return binary


# ------------------------------------------------------------------ running cases
def _big_stack():
    """The extracted model is not tail-recursive and counts fuel in unary: runs of 10^5 cycles need more than the
    default 8 MiB of stack.  (The implementation under test is not affected: hclv handles each case on the main
    thread with whatever stack it gets; the real binary is started elsewhere.)"""
    import resource
    try:
        soft, hard = resource.getrlimit(resource.RLIMIT_STACK)
        want = 4 << 30
        resource.setrlimit(resource.RLIMIT_STACK, (want if hard == resource.RLIM_INFINITY else min(want, hard), hard))
    except (ValueError, OSError):
        pass


def hexs(s):
    if isinstance(s, str):
        s = s.encode("utf-8")
    return s.hex() if s else "-"


def unhexs(h):
    return b"" if h == "-" else bytes.fromhex(h)


def parse_blocks(text):
    blocks = {}
    cur = None
    lines = None
    for line in text.split("\n"):
        if line.startswith("#BEGIN "):
            cur = line[7:].strip()
            lines = []
        elif line.startswith("#END "):
            if cur is not None:
                blocks[cur] = lines
            cur = None
        elif cur is not None:
            lines.append(line)
    if cur is not None:            # process died inside this case
        blocks[cur] = (lines or []) + ["DIED"]
    return blocks


DEFAULT_CASE_TIMEOUT = {"quick": 240, "thorough": 3600}
CURRENT_TIER = "quick"


def run_cases(binary, lines, shards=None, timeout=None, restarts=None):
    """lines: list of 'id cmd args'. Returns dict id -> list of output lines.

    A shard whose process dies or gives no answer within `timeout` seconds is restarted after
    the offending case (marked DIED / DIED+HUNG), up to `restarts` times; cases that never ran
    are marked NOT-RUN."""
    if not lines:
        return {}
    if timeout is None:
        timeout = DEFAULT_CASE_TIMEOUT.get(CURRENT_TIER, 240)
    if restarts is None:
        restarts = 1 if CURRENT_TIER == "quick" else 4
    shards = shards or min(NPROC, max(1, len(lines) // 200))
    chunks = [lines[i::shards] for i in range(shards)]
    import threading
    results = [None] * len(chunks)

    def work(i, ch):
        pending = list(ch)
        blocks = {}
        failures = 0
        while pending:
            p = subprocess.Popen([binary], stdin=subprocess.PIPE, stdout=subprocess.PIPE,
                                 stderr=subprocess.DEVNULL, text=True, errors="replace", preexec_fn=_big_stack)
            hung = False
            try:
                out, _ = p.communicate("\n".join(pending) + "\n", timeout=timeout)
            except subprocess.TimeoutExpired:
                p.kill()
                out, _ = p.communicate()
                hung = True
            b = parse_blocks(out or "")
            done = 0
            for line in pending:
                cid = line.split(" ", 1)[0]
                if cid in b and b[cid][-1:] != ["DIED"]:
                    blocks[cid] = b[cid]
                    done += 1
                else:
                    break
            if done == len(pending):
                break
            cid = pending[done].split(" ", 1)[0]
            blocks[cid] = [l for l in b.get(cid, []) if l != "DIED"] + ["DIED"] + \
                          (["HUNG (no answer within %d s)" % timeout] if hung else ["(process exit status %s)" % p.returncode])
            failures += 1
            pending = pending[done + 1:]
            if failures > restarts:
                for line in pending:
                    blocks[line.split(" ", 1)[0]] = ["NOT-RUN (the process died or hung %d times before this case)" % failures]
                break
        results[i] = blocks

    threads = [threading.Thread(target=work, args=(i, ch)) for i, ch in enumerate(chunks)]
    for t in threads:
        t.start()
    for t in threads:
        t.join()
    blocks = {}
    for b in results:
        blocks.update(b or {})
    return blocks


# ------------------------------------------------------------------ verdicts / evidence
def load_known_findings():
    path = os.path.join(VERIF, "known_findings.txt")
    findings = []
    if os.path.exists(path):
        for line in open(path):
            line = line.strip()
            if line.startswith("finding:"):
                m = re.match(r"finding:\s*property=(\S+)\s+key=(\S+)\s*(.*)", line)
                if m:
                    findings.append({"property": m.group(1), "key": m.group(2), "text": m.group(3)})
    return findings


class Report:
    """Collects what a check did; writes evidence; prints verdict lines."""

    def __init__(self, prop_id, tier, seed):
        self.prop_id = prop_id
        self.tier = tier
        self.seed = seed
        self.t0 = time.time()
        self.violations = []       # dicts: key, what, replay (json-able)
        self.broken = []           # obligations / correspondences that no longer check
        self.coverage = {"evaluations": 0, "distinct_nontrivial": 0, "rule": "", "samples": []}
        self.assumptions = []
        self.obligations = 0
        self.discharged = 0
        self.notes = {}
        # stale replay files of this property and tier must not outlive this run
        rdir = os.path.join(VERIF, "replays")
        if os.path.isdir(rdir):
            for fn in os.listdir(rdir):
                if fn.startswith("%s-%s-" % (prop_id, tier)):
                    os.remove(os.path.join(rdir, fn))

    def add_props(self, res):
        n = len(res["theorems"]) + 1          # + hygiene scan
        self.obligations += max(n, 1)
        self.discharged += len(res["closed"]) + (0 if res["hygiene"] else 1)
        self.notes["theorems"] = res["theorems"]
        if res.get("coqchk"):
            self.notes["coqchk"] = res["coqchk"]
            self.obligations += 1
            self.discharged += 0 if "<coqchk>" in res["open"] else 1
        if not res["ok"]:
            what = "proof obligations of Props/%s.v do not check" % self.prop_id
            detail = {"open": res["open"], "hygiene": res["hygiene"], "log": res["log"][-3000:]}
            self.broken.append({"what": what, "detail": detail})

    def violation(self, key, what, replay):
        self.violations.append({"key": key, "what": what, "replay": replay})

    def finish(self):
        known = [k for k in load_known_findings() if k["property"] == self.prop_id]
        os.makedirs(os.path.join(VERIF, "replays"), exist_ok=True)
        os.makedirs(os.path.join(VERIF, "evidence"), exist_ok=True)
        new = []
        seen_known = {}
        for v in self.violations:
            hit = [k for k in known if k["key"] == v["key"]]
            if hit:
                seen_known.setdefault(hit[0]["key"], (hit[0], v))
            else:
                new.append(v)
        lines = []
        for key, (k, v) in seen_known.items():
            lines.append("KNOWN-FINDING: property=%s %s (%s)" % (self.prop_id, k["text"] or key, v["what"]))
        exit_code = 0
        if new:
            # one VIOLATION line per distinct key (first example each), capped
            by_key = {}
            for v in new:
                by_key.setdefault(v["key"], v)
            for i, (key, v) in enumerate(list(by_key.items())[:10]):
                path = os.path.join(VERIF, "replays", "%s-%s-%d.json" % (self.prop_id, self.tier, i))
                with open(path, "w") as f:
                    json.dump({"property": self.prop_id, "key": key, "what": v["what"],
                               "replay": v["replay"]}, f, indent=1)
                lines.append("VIOLATION property=%s replay=%s" % (self.prop_id, path))
                log("violation %s: %s" % (key, str(v["what"])[:400].replace("\n", " ")))
            exit_code = 1
        elif self.broken:
            path = os.path.join(VERIF, "replays", "%s-%s-broken.json" % (self.prop_id, self.tier))
            with open(path, "w") as f:
                json.dump({"property": self.prop_id, "broken": self.broken,
                           "note": "a proof obligation or the model/implementation correspondence no longer "
                                   "checks; the search found no input on which the property fails"}, f, indent=1)
            lines.append("VIOLATION property=%s replay=%s no-failing-input-found" % (self.prop_id, path))
            for b_ in self.broken[:3]:
                log("broken: %s %s" % (b_.get("what"), str(b_.get("detail"))[:400].replace("\n", " ")))
            exit_code = 1
        cov = dict(self.coverage)
        cov["obligations"] = self.obligations
        cov["discharged"] = self.discharged
        cov["checker_cmd"] = "make -C coq theories/Props/%s.vo && coqc -Q theories HclV theories/Props/%s.v (Print Assumptions) ; hygiene scan" % (self.prop_id, self.prop_id)
        cov["trusted_base"] = TRUSTED_BASE
        cov.update(self.notes)
        if len(cov.get("samples", [])) == 0:
            cov["samples"] = ["(no case was generated)"]
        ev = {
            "property_id": self.prop_id,
            "tier": self.tier,
            "seed": self.seed,
            "level": "proof",
            "coverage": cov,
            "assumptions": self.assumptions,
            "wall_s": round(time.time() - self.t0, 2),
            "violations": len(new) + (1 if (self.broken and not new) else 0),
        }
        with open(os.path.join(VERIF, "evidence", self.prop_id + ".json"), "w") as f:
            json.dump(ev, f, indent=1)
        for l in lines:
            print(l)
        sys.stdout.flush()
        log("%s %s: %d cases, %d violations, %d broken, %.1fs" % (
            self.prop_id, self.tier, cov["evaluations"], len(new), len(self.broken), time.time() - self.t0))
        return exit_code


def compare_blocks(report, cases, impl, model, key_fn=None, what="implementation and model disagree",
                   canon=None):
    """cases: dict id -> replay info. Adds a violation for every differing block."""
    n = 0
    for cid, info in cases.items():
        a = impl.get(cid, ["MISSING"])
        b = model.get(cid, ["MISSING"])
        if canon:
            a, b = canon(a), canon(b)
        if a != b:
            n += 1
            key = key_fn(cid, info, a, b) if key_fn else "mismatch"
            diff = first_diff(a, b)
            report.violation(key, what + ": " + diff[:300], {"case": info, "impl": a[:40], "model": b[:40]})
    return n


def first_diff(a, b):
    for i in range(max(len(a), len(b))):
        x = a[i] if i < len(a) else "<none>"
        y = b[i] if i < len(b) else "<none>"
        if x != y:
            return "line %d: impl=%s | model=%s" % (i, x[:200], y[:200])
    return "equal"
