#!/usr/bin/env python3
"""Diagnostic (not a check): which lines of /repo/src do the quick checks execute?

Builds the harness and the hclrs binary with `-C instrument-coverage` (nightly toolchain, which
ships llvm-profdata / llvm-cov), runs every property's quick check with those binaries and prints
the llvm-cov report plus the uncovered lines of every source file, so that blind spots of the
correspondence (glue code no generator reaches) can be seen.  Usage: coverage.py [C01 C02 ...]"""
import glob, os, subprocess, sys
V = os.path.dirname(os.path.dirname(os.path.abspath(__file__)))
sys.path.insert(0, os.path.join(V, "tools"))
import lib
OUT = os.environ.get("COVERAGE_DIR", "/tmp/cov")
BIN = os.path.expanduser("~/.rustup/toolchains/nightly-x86_64-unknown-linux-gnu/lib/rustlib/x86_64-unknown-linux-gnu/bin")


def sh(cmd, **kw):
    return subprocess.run(cmd, shell=isinstance(cmd, str), text=True, capture_output=True, **kw)


def main():
    props = sys.argv[1:] or ["C%02d" % i for i in range(1, 21)]
    os.makedirs(OUT, exist_ok=True)
    env = dict(os.environ, RUSTFLAGS="-C instrument-coverage --cfg hclrs_verif", CARGO_TARGET_DIR=os.path.join(OUT, "target"), CARGO_NET_OFFLINE="true")
    r = sh(["cargo", "+nightly", "build", "--offline", "--no-default-features", "--features", ",".join(lib.default_features()),
            "--manifest-path", os.path.join(V, "harness", "Cargo.toml")], env=env)
    assert r.returncode == 0, r.stderr[-2000:]
    env2 = dict(os.environ, RUSTFLAGS="-C instrument-coverage", CARGO_TARGET_DIR=os.path.join(OUT, "target-cli"), CARGO_NET_OFFLINE="true")
    r = sh(["cargo", "+nightly", "build", "--offline", "--bin", "hclrs", "--manifest-path", "/repo/Cargo.toml"], env=env2)
    assert r.returncode == 0, r.stderr[-2000:]
    hclv = os.path.join(OUT, "target", "debug", "hclv")
    cli = os.path.join(OUT, "target-cli", "debug", "hclrs")
    for f in glob.glob(os.path.join(OUT, "prof", "*.profraw")):
        os.remove(f)
    os.makedirs(os.path.join(OUT, "prof"), exist_ok=True)
    renv = dict(os.environ, HCLV_COVERAGE_BIN=hclv, HCLRS_COVERAGE_CLI=cli, LLVM_PROFILE_FILE=os.path.join(OUT, "prof", "%p-%m.profraw"))
    for p in props:
        r = sh([sys.executable, os.path.join(V, "tools", "vp.py"), "check", p, "--tier", "quick"], env=renv, cwd=V)
        print(p, "exit", r.returncode, file=sys.stderr)
    raws = glob.glob(os.path.join(OUT, "prof", "*.profraw"))
    sh([os.path.join(BIN, "llvm-profdata"), "merge", "-sparse", "-o", os.path.join(OUT, "all.profdata")] + raws)
    args = [os.path.join(BIN, "llvm-cov"), "report", "-instr-profile", os.path.join(OUT, "all.profdata"), hclv, "-object", cli,
            "-ignore-filename-regex", r"(registry|rustc|/verif/|verif_hooks|tests\.rs|/target/)"]
    print(sh(args).stdout)
    show = sh([os.path.join(BIN, "llvm-cov"), "show", "-instr-profile", os.path.join(OUT, "all.profdata"), hclv, "-object", cli,
               "-ignore-filename-regex", r"(registry|rustc|/verif/|verif_hooks|tests\.rs|/target/)", "-show-line-counts-or-regions"]).stdout
    cur = None
    for line in show.split("\n"):
        if line.startswith("/repo/"):
            cur = line.rstrip(":")
            print("==", cur)
        else:
            parts = line.split("|")
            if len(parts) >= 3 and parts[1].strip() == "0":
                print("%s:%s: %s" % (os.path.basename(cur or "?"), parts[0].strip(), "|".join(parts[2:])[:140]))


if __name__ == "__main__":
    main()
