#!/usr/bin/env python3
"""Writes MANIFEST.json from the table below (kept in one place so it stays valid)."""
import json, os, subprocess
VERIF = os.path.dirname(os.path.dirname(os.path.abspath(__file__)))

TECH = "Coq proof over a Gallina model + differential correspondence (extracted model vs implementation)"
CHECKS = {
 "C01": dict(
   text="Theorems (Props/C01.v): for ANY valid schedule (each action reads only wires already holding this cycle's value, each wire written once, state changes last) every written wire ends the cycle holding exactly the value its definition yields from the end-of-cycle wire values and the start-of-cycle registers/memory; known wires keep their values; state changes are the write ports applied to the start-of-cycle state with the final values; two valid schedules of the same actions give the same values and state; evaluation reads only the wires an expression mentions. (The first-draft statement without 'known wires hold values' is refuted in Coq.) Tie: every schedule the implementation produces (4, thorough 12, compilations per program under fresh hash seeds, fetched through the hook) validated by the extracted valid_schedule; compiled program equal to the model's build_program up to action order; per-cycle values/registers/memory equal to the model.",
   note="that Program::new always produces a valid schedule is proved in BuildProofs.v when available and tied by validating every observed schedule; HashMap semantics trusted.", ref="4 C01"),
 "C12": dict(
   text="Theorems (Props/C12.v): the model is a function of its inputs; the two places where a randomly seeded hash table can reorder simulation work are shown not to reach any value or state: any two valid schedules of the same actions give equal wire values, registers, memory, status and cycle; the clock edge does not depend on the order in which a bank's defaults are listed. Tie: the real binary run k times per (program, mode) - each process draws fresh hash keys - with exit status equal, stdout byte-identical in default/-q/-t and equal as per-cycle line multisets under -d/--trace-assignments; statement-shuffled and consistently renamed variants compared on per-cycle values and final state; rejected programs compiled k times: equal (kind, names) multisets.",
   note="that the model's order parameters are ALL the places hash order can leak is argued from the reviewed list of iteration sites (DESIGN 6) and supported by the repeated runs; diagnostic ORDER is free by the property.", ref="4 C12"),
 "C19": dict(
   text="Theorems (Props/C19.v) about the decision table Cli.main_model: exit 0 exactly for help/version/'syntax OK' under --check on an accepted file/a simulation that completed and printed its final state, exit 1 with usage or a message and never a final state otherwise; --check never simulates; the timeout honoured is the parsed third positional (u32 grammar: optional '+', digits, < 2^32) or the default of the compiled code (Generated.gen_timeout). Tie: the real binary on ~700 (thorough 12000) argument vectors over all options, 0-4 positionals, valid/rejected/missing HCL, valid/missing/wrong-extension/unloadable/non-UTF-8 images, boundary and malformed timeouts: exit status and outcome class vs the extracted decision table, printed cycle counts vs the timeout.",
   note="partial by nature: getopts (incl. 'option given more than once'), process exit and stream plumbing are modelled by their outcomes, not verified.", ref="4 C19"),
 "C11": dict(
   text="Theorems (Props/C11.v): the precedence chain scraped from parser.lalrpop on this run equals the documented table; the predefined names of the compiled preamble, read by the model's own lexer, parser and constant evaluator, have their CS:APP values; chained comparisons rejected, redundant parentheses / comments / line endings irrelevant (computed instances; general round-trip and literal theorems in LexParseProofs.v when available). Tie: all 289 pairs and 1500 (thorough 4913) triples of binary operators without parentheses, unary/slice/in beside every operator, 2000 (50000) random expressions printed with minimal parentheses: grammar AST = model parser AST = fully parenthesised form per the documented table (python oracle from the property's sentence); literal spellings around every power of two to 2^300 in three bases and cases; a program re-rendered with random trivia between all tokens; the preamble's names vs the CS:APP table.",
   note="the LALRPOP automaton is generated code: tied by correspondence and by re-proving the scraped tier table each run; Unicode classification of non-ASCII characters is a parameter of the lexer model (a small table in the driver).", ref="4 C11"),
 "C13": dict(
   text="Theorems (Props/C13.v): rendering a diagnostic never panics for ARBITRARY offsets; the dependency sorter never panics (no counter underflow, cycle search total, fuel suffices) for every hash order; a rejected expression carries a diagnostic; (with C15: the loader is total; with C07: simulation is total). Tie: ~9000 (thorough ~200000) inputs - truncations at every byte, single token insert/replace/delete over a 75-token vocabulary, token soups, texts ending inside literals/comments/declarations/multi-byte characters, overflowing or zero-dividing constant/default/enable expressions - in-process under catch_unwind in the overflow-checking and the wrapping build with diagnostics rendered; a sample and invalid UTF-8 through the real binary.",
   note="partial: the LALRPOP-generated automaton, its error recovery and lalrpop_util are trusted not to panic or loop (generated/library code); 'promptly' is shown as model-level termination with explicit fuel plus measured timeouts.", ref="4 C13"),
 "C14": dict(
   text="Theorems (Props/C14.v): a span of the user's text on one line is rendered with the user's file name, the 1-based line number counted in the user's text whatever the preamble, that line's text and carets under exactly the span (any position: first/last line, with/without final newline, CRLF); regions at or after the preamble's end are headed by the user's file name (the unconditional version is refuted: it needs end >= start). Tie: show_region on every text of length <= 4 (thorough 5) over {a, blank, LF, CR, e-acute, =, heart} with offsets beyond both ends vs the model and vs the property's own arithmetic; 18 located fault kinds injected at known line/column in varied layouts: rendered file, line, echo and carets vs the generator's position.",
   note="spans produced by the LALRPOP actions (@L/@R) are tied by the located-fault correspondence; binary_search_by_key's choice among equal keys (std-internal) is modelled as 'last' and validated by correspondence.", ref="4 C14"),
 "C15": dict(
   text="Theorems (Props/C15.v): a well-formed data line loads exactly its bytes at consecutive addresses; comment-only and pipe-free lines contribute nothing; every other line is refused (complete characterisation of accepted lines); a file is refused iff empty or containing a refused line, else it is the effect of its lines in order; put_bytes/mem_get law. Tie: valid listings judged against the generator's own byte map, malformed lines (every truncation, column replaced/inserted by blank g + | : e-acute NUL heart), corner files, all vs the model.",
   note="BufRead::lines modelled by split_lines (LF / CRLF); invalid UTF-8 (an io::Error in Rust) is outside the model and exercised through the binary in C19/C13.", ref="4 C15"),
 "C02": dict(
   text="Theorems (Props/C02.v): for every accepted expression and every environment agreeing with the declarations, eval yields exactly the denotation ExprSpec.den (plain arithmetic mod 2^width on unbounded numbers; unsigned comparisons; shifts >= 128 give 0; ~ and - within the operand width; slices; concat order; in-set by value; mux = first non-zero arm reduced to the shared width) at the checker's width, in which it fits; assignment truncates. Tie: operator x width x boundary-value grid, mux/unsized combinations and random nestings through the hook check_and_eval vs the extracted model, in the overflow-checking and the wrapping build.",
   note="Model of ast.rs hand-written (Expr.v); spans and message wording not modelled; tie by differential correspondence; Rust u128/u8 arithmetic modelled on N with explicit wrap.", ref="4 C02"),
 "C03": dict(
   text="Theorems (Props/C03.v): initial_state puts the defaults on bank outputs and 0 on stall/bubble; within a cycle a wire changes only through the action writing it; the clock edge is the bubble/stall/latch recurrence for every bank at once, banks independent, nothing else changes. Tie: random (stall,bubble) histories over 1-3 banks, widths 1..128, per-cycle values vs the model, plus the recurrence evaluated on the implementation's own values.",
   note="Machine.v mirrors initial_state/process_register_banks; HashMap iteration order of `defaults` is a list in arbitrary order (NoDup keys) in the theorem; tie by correspondence.", ref="4 C03"),
 "C04": dict(
   text="Theorems (Props/C04.v): read port delivers rf_read of the current registers and changes nothing else; write port = rf_write (never register 15); register-file laws; M wins over E; register 15 stays 0; no non-effect action changes the registers; E-before-M order proved on the regenerated built-in table (Generated.v). Tie: random port histories with forced dstE=dstM / REG_NONE / src=dst collisions, all 16 registers read back through a hook every cycle vs model and vs an abstract register file in python.",
   note="position of the write ports after all reads in the schedule is tied by the action lists fetched in C01 and by per-cycle correspondence; Build model not yet proved.", ref="4 C04"),
 "C05": dict(
   text="Theorems (Props/C05.v): sorted-list memory obeys map laws and keeps its invariant; read = little-endian sum of the n bytes at a.. (wrapping at 2^64), absent bytes 0; write stores exactly the n low bytes; read-after-write; any write history = abstract byte map with latest write winning; value fits the port; byte i of a read is the byte at a+i. Tie: (addr,data,re,we) histories near 0, inside the image, unaligned, overlapping, at 2^64-1; memory map read back through a hook each cycle vs model and vs an abstract byte map in python; direct Memory::read/write sequences with 0..16 bytes.",
   note="BTreeMap modelled as strictly sorted association list; cycle-level placement of the write after all reads tied by correspondence (C01 engine).", ref="4 C05"),
 "C06": dict(
   text="Theorems (Props/C06.v): step adds one cycle; run stops in the first done state, having executed exactly k cycles none of which was done; fuel = remaining budget always suffices (termination within timeout, none with timeout 0); report = function of (last Stat, cycles, timeout) with halt > timeout > error; dump header/footer/'Cycles run'/'Error code' selected by the report kind and printing the true count; default timeout and status names proved equal to the regenerated tables. Tie: every Stat sequence of length <=3 (thorough 4) over all eight values x timeouts 0..5, random longer ones, through RunningProgram::run under several option sets vs the model and vs the property's own stopping rule in python.",
   note="u32 cycle counter modelled as N (bounded by the timeout theorem).", ref="4 C06"),
 "C07": dict(
   text="Theorems (Props/C07.v): type soundness - an accepted expression evaluates, in every environment agreeing with the declarations, to a value of exactly the static width that fits it, or to the explicit division-by-zero report; static and dynamic width disciplines agree; stored values fit the declared width. Tie: accepted programs biased to the sites the property names, on random images, both arithmetic builds: no panic, no run-time error but division by zero, every value of every cycle fits its width, all equal to the model.",
   note="step-level safety (unwrap of bank/wire lookups) is tied by correspondence; the theorem proved so far is expression-level soundness.", ref="4 C07"),
 "C08": dict(
   text="Theorems (Props/C08.v): check f G C e = Ok w <-> has_width f G C e w for the declarative rule system written from the property's sentences (ExprRules.v); widths unique; a rejection carries a diagnostic; default feature set proved on the regenerated table. Tie: operator x width-pair grid, random nestings, one-fault nestings: verdict, width and diagnostic kind vs the model; program level: the expression assigned to a plain wire, register input, stall/bubble and built-in inputs.",
   note="declared-width and slice-bound limits (<=128) live in the grammar and are tied by correspondence only.", ref="4 C08"),
 "C09": dict(
   text="Theorems (Props/C09.v): a program accepted by Program::new (model Build.build_program, any built-in table / feature set) declares no name twice and none a built-in owns, assigns no name twice and none that already has a driver (built-in output, constant, bank output), assigns every declared wire and bank input, lets no constant read a wire, has well-formed banks; a rejection always carries a diagnostic; with the table of the compiled implementation the schedule is valid: everything an action reads has exactly one driver earlier in the cycle, for every hash order. Tie: a correct random program with exactly one injected driver fault out of 21 classes on a known name (plain wires, constants incl. preamble ones, bank inputs/outputs, stall/bubble, built-in inputs/outputs) or none: (1) rejected with a diagnostic of that kind naming that wire / accepted when fault-free, (2) verdict, diagnostic multiset and compiled program equal to the model fed with the implementation's own parse.",
   note="the converse (fault-free programs without width or cycle faults are accepted) is tied by the fault-free and one-fault correspondence only; error ORDER is hash dependent and compared as a multiset.", ref="4 C09"),
 "C10": dict(
   text="Theorems (Props/C10.v), for EVERY presentation (hash iteration order) of a well-formed graph: toposort answers a cycle iff one exists; a reported cycle is a real cycle; otherwise the answer is a linear extension; find_cycle's panic is unreachable; Kahn's counters never underflow and its fuel suffices. Tie: hook toposort_trace on every digraph with self-loops on <=4 nodes under fresh hash seeds (thorough: + 400k on 5 nodes, 20k structured larger ones): detection vs an independent python DFS, answers validated by the extracted checkers, and equality with the model run on the very iteration orders the implementation saw; HCL level: random wire graphs through every built-in path and non-path, printed chain verified edge by edge.",
   note="graph construction from assignments (which edges exist) tied at HCL level by correspondence; HashSet semantics (each element once, clone keeps order) trusted / checked by the hook.", ref="4 C10"),
 "C16": dict(
   text="Theorems (Props/C16.v): the memory section is exactly the header plus one canonical row per 16-byte row containing a used byte, ascending, each used byte at its own column under the row's address label, nothing else (sparse, unaligned first address, far rows, top of the address space incl. the wrap at 2^64-1); rows cover exactly the used bytes; hex fields denote the value and fit their field; every line of the memory section and of a register bank (wrapped or not, any number/width/name length) is delimited '| ... |'. Tie: 1200 (thorough 30000) machine states injected through hooks (registers, 0-3 banks with 1-14 registers and names to 70 chars, all stall/bubble states, memory sets at every residue / 1,15,16,17,k rows apart / around 2^28, 2^32 / up to 2^64-1): dump text equal to the model's AND read back by an independent python parser into exactly the injected state.",
   note="a Coq parse_dump inverse is not defined; 'can be read back' is shown by the canonical-row theorem plus hex round trips in Coq and by the independent parser in the check.", ref="4 C16"),
 "C17": dict(
   text="Theorems (Props/C17.v): acceptance is monotone in the option set and the width is unchanged; an expression accepted under two sets has the same value under both; acceptance under any set = derivability in the rule system where each option guards exactly its own premise. Tie: 7 (thorough: all 32) separate builds of the implementation: separating expressions per option judged on the implementation alone, random and one-fault expressions vs the model with the same option record, programs simulated under every set with traces compared.",
   note="cfg! plumbing tied by building each feature set.", ref="4 C17"),
 "C18": dict(
   text="Theorems (Props/C18.v): exec_actions, step and run reach the same state under any two option sets (same timeout); -t only drops the bank lines from the dump. Tie: all 32 subsets of -q -d -t --ungroup-debug-wires --trace-assignments through RunningProgram::run: text equal to the model's, final state equal across subsets; step-by-step -d runs with every table row compared with that cycle's wire value, no duplicates, no constants, every assigned wire present.",
   note="option-guarded writeln! calls are mirrored by hand in Machine.exec_action; std formatting modelled by Base.hex/dec/pad.", ref="4 C18"),
 "C20": dict(
   text="Theorems (Props/C20.v): every row of the CS:APP instruction table, with symbolic registers, 64-bit immediate and trailing memory, disassembles to the CS:APP mnemonic/operands/length; length depends on the opcode nibble only; opcode > 0xB is '<invalid>' alone; trace bytes are bytes 0..len-1 in memory order, each printed as the two hex digits of that byte. Tie: exhaustive differential of the hook `disassemble` against the extracted model over all 65536 first-two-byte values x immediates; trace lines compared in every simulation check.",
   note="Model of y86_disasm.rs hand-written (Disasm.v); std formatting ({:x}) modelled by Base.hex.", ref="4 C20"),
}
for _c in CHECKS.values():
    _c.setdefault("technique", TECH)

NA_REASON = "check not built yet in this round (work in progress; see DESIGN.md section 9)"

def main():
    props = [json.loads(l)["id"] for l in open(os.path.join(VERIF, "properties.jsonl"))]
    hook_commits = subprocess.run(["git", "-C", "/repo", "log", "--format=%H %s"], capture_output=True, text=True).stdout
    hooks = [l.split()[0] for l in hook_commits.splitlines() if "verif hook" in l]
    m = {
      "version": 1,
      "setup_cmd": "python3 tools/vp.py setup",
      "hooks": {
        "guard": "hclrs_verif",
        "enable": "RUSTFLAGS=\"--cfg hclrs_verif\" (set by tools/lib.py for the harness build; the hook modules src/verif_hooks.rs and src/program/verif_hooks.rs are compiled only then)",
        "baseline_off_cmd": "cd /repo && cargo test --workspace --no-fail-fast --offline",
        "source_commits": hooks,
        "add_only": True,
      },
      "engines": [
        {"name": "coq-model", "path": "coq/", "serves_properties": sorted(CHECKS), "kind_free_text": "Gallina model of hclrs + theorems (Coq 8.16.1), Props/Cxx.v hold the property theorems"},
        {"name": "correspondence", "path": "tools/ harness/ driver/", "serves_properties": sorted(CHECKS), "kind_free_text": "Rust harness (impl, hooks on) vs OCaml driver (extracted model) on generated cases; regenerated tables (Generated.v)"},
      ],
      "checks": [],
      "not_applicable": [],
      "notes": "All checks: python3 tools/vp.py check <ID> --tier quick|thorough. Evidence level 'proof' = Coq obligations counted from this run plus the correspondence coverage of this run.",
    }
    for pid in props:
        if pid in CHECKS:
            c = CHECKS[pid]
            m["checks"].append({
              "property_id": pid,
              "quick_cmd": "python3 tools/vp.py check %s --tier quick" % pid,
              "thorough_cmd": "python3 tools/vp.py check %s --tier thorough" % pid,
              "evidence_file": "evidence/%s.json" % pid,
              "replay_cmd_template": "python3 tools/vp.py replay {path}",
              "engine": "coq-model+correspondence",
              "level_claimed": {"category": "proof", "text": c["text"], "design_ref": c["ref"]},
              "level_note": c["note"],
              "technique": c["technique"],
            })
        else:
            m["not_applicable"].append({"property_id": pid, "reason": NA_REASON})
    json.dump(m, open(os.path.join(VERIF, "MANIFEST.json"), "w"), indent=1)

if __name__ == "__main__":
    main()
