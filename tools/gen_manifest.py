#!/usr/bin/env python3
"""Writes MANIFEST.json from the table below (kept in one place so it stays valid)."""
import json, os, subprocess
VERIF = os.path.dirname(os.path.dirname(os.path.abspath(__file__)))

CHECKS = {
 "C20": dict(
   text="Theorems (Props/C20.v): every row of the CS:APP instruction table, with symbolic registers, 64-bit immediate and trailing memory, disassembles to the CS:APP mnemonic/operands/length; length depends on the opcode nibble only; opcode > 0xB is '<invalid>' alone; trace bytes are bytes 0..len-1 in memory order, each printed as the two hex digits of that byte. Tie: exhaustive differential of the hook `disassemble` against the extracted model over all 65536 first-two-byte values x immediates.",
   note="Model of y86_disasm.rs hand-written (Disasm.v); tie by exhaustive correspondence on the first two bytes; std formatting ({:x}) modelled by Base.hex.",
   technique="Coq proof over a Gallina model + exhaustive differential correspondence (extracted model vs implementation)",
   ref="4 C20"),
}

NA_REASON = "check not built yet in this round (work in progress; see DESIGN.md section 9)"

def main():
    props = [json.loads(l)["id"] for l in open(os.path.join(VERIF, "properties.jsonl"))]
    hook_commits = subprocess.run(["git", "-C", "/repo", "log", "--format=%H %s"], capture_output=True, text=True).stdout
    hooks = [l.split()[0] for l in hook_commits.splitlines() if "verif hook" in l]
    m = {
      "version": 1,
      "setup_cmd": "python3 tools/vp.py setup",
      "hooks": {
        "guard": "hclrs_verif",
        "enable": "RUSTFLAGS=\"--cfg hclrs_verif\" (set by tools/lib.py for the harness build; the hook modules src/verif_hooks.rs and src/program/verif_hooks.rs are compiled only then)",
        "baseline_off_cmd": "cd /repo && cargo test --workspace --no-fail-fast --offline",
        "source_commits": hooks,
        "add_only": True,
      },
      "engines": [
        {"name": "coq-model", "path": "coq/", "serves_properties": sorted(CHECKS), "kind_free_text": "Gallina model of hclrs + theorems (Coq 8.16.1), Props/Cxx.v hold the property theorems"},
        {"name": "correspondence", "path": "tools/ harness/ driver/", "serves_properties": sorted(CHECKS), "kind_free_text": "Rust harness (impl, hooks on) vs OCaml driver (extracted model) on generated cases; regenerated tables (Generated.v)"},
      ],
      "checks": [],
      "not_applicable": [],
      "notes": "All checks: python3 tools/vp.py check <ID> --tier quick|thorough. Evidence level 'proof' = Coq obligations counted from this run plus the correspondence coverage of this run.",
    }
    for pid in props:
        if pid in CHECKS:
            c = CHECKS[pid]
            m["checks"].append({
              "property_id": pid,
              "quick_cmd": "python3 tools/vp.py check %s --tier quick" % pid,
              "thorough_cmd": "python3 tools/vp.py check %s --tier thorough" % pid,
              "evidence_file": "evidence/%s.json" % pid,
              "replay_cmd_template": "python3 tools/vp.py replay {path}",
              "engine": "coq-model+correspondence",
              "level_claimed": {"category": "proof", "text": c["text"], "design_ref": c["ref"]},
              "level_note": c["note"],
              "technique": c["technique"],
            })
        else:
            m["not_applicable"].append({"property_id": pid, "reason": NA_REASON})
    json.dump(m, open(os.path.join(VERIF, "MANIFEST.json"), "w"), indent=1)

if __name__ == "__main__":
    main()
