#!/usr/bin/env python3
"""Orchestrator of the hclrs verification checks.

  vp.py setup                        build everything once (harness, Coq development, driver)
  vp.py check Cxx [--tier quick|thorough]
  vp.py replay <replay.json>
Exit status of `check`: 0 = property held on everything explored, 1 = VIOLATION printed.
"""
import argparse
import importlib
import json
import os
import sys
import traceback

sys.path.insert(0, os.path.dirname(os.path.abspath(__file__)))
import lib


def cmd_setup(args):
    lib.build_harness("dev")
    lib.build_harness("noovf")
    lib.regenerate_tables()
    ok, out = lib.coq_make(None)
    if not ok:
        print(out[-5000:])
        return 1
    lib.build_driver()
    try:
        lib.build_cli("dev")
    except lib.BuildError as e:
        print(e)
        return 1
    return 0


def cmd_check(args):
    pid = args.property
    tier = args.tier or os.environ.get("VERIF_TIER") or "quick"
    if tier not in ("quick", "thorough"):
        tier = "quick"
    lib.CURRENT_TIER = tier
    seed = int(os.environ.get("VERIF_SEED", "20260926"))
    report = lib.Report(pid, tier, seed)
    try:
        mod = importlib.import_module("props." + pid.lower())
        res = lib.check_props(pid, tier)
        report.add_props(res)
        mod.check(report, tier, seed)
    except lib.BuildError as e:
        report.broken.append({"what": "build failed", "detail": str(e)[-3000:]})
    except Exception:
        report.broken.append({"what": "check machinery raised an exception", "detail": traceback.format_exc()[-3000:]})
    return report.finish()


def cmd_replay(args):
    data = json.load(open(args.path))
    pid = data["property"]
    mod = importlib.import_module("props." + pid.lower())
    if "broken" in data:
        print(json.dumps(data, indent=1)[:4000])
        return 0
    if hasattr(mod, "replay"):
        return mod.replay(data)
    print(json.dumps(data, indent=1)[:4000])
    return 0


def main():
    ap = argparse.ArgumentParser()
    sub = ap.add_subparsers(dest="cmd")
    sub.add_parser("setup")
    c = sub.add_parser("check")
    c.add_argument("property")
    c.add_argument("--tier", default=None)
    r = sub.add_parser("replay")
    r.add_argument("path")
    args = ap.parse_args()
    if args.cmd == "setup":
        sys.exit(cmd_setup(args))
    if args.cmd == "check":
        sys.exit(cmd_check(args))
    if args.cmd == "replay":
        sys.exit(cmd_replay(args))
    ap.print_help()
    sys.exit(2)


if __name__ == "__main__":
    main()
