"""Simulation-level correspondence: whole programs run cycle by cycle on the implementation
(harness `sim` / `run`) and on the extracted model (`msim` / `mrun`) fed with the program as
the implementation compiled it (hook `compiled`) and the image as the implementation loaded it.
Compared per cycle: the complete values map before and after the step, the 16 registers, the
memory map, last status, cycle count, done/halted/timed-out, the text written by the step, and
the final state dump.  Shared by C01, C03-C07, C12, C16, C18."""
import re

import exprcheck
import lib


def sim_lines(cases, kind="sim"):
    lines = []
    for cid, c in cases.items():
        inj = " ".join(c.get("inject", []))
        if kind == "sim":
            lines.append("%s sim %s %s %d %s %d %s" % (cid, lib.hexs(c["hcl"]), lib.hexs(c["yo"]) if c.get("yo") else "-",
                                                       c["cycles"], c.get("flags", "-"), c.get("timeout", 9999), inj))
        else:
            lines.append("%s run %s %s %s %d %s" % (cid, lib.hexs(c["hcl"]), lib.hexs(c["yo"]) if c.get("yo") else "-",
                                                    c.get("flags", "-"), c.get("timeout", 9999), inj))
    return lines


def model_lines(cases, impl, features, kind="sim"):
    """Build the model's case lines from the implementation's compiled program and loaded image."""
    fb = exprcheck.feature_bits(features)
    lines = []
    skipped = {}
    for cid, c in cases.items():
        blk = impl.get(cid, [])
        comp = [l for l in blk if l.startswith("compiled ")]
        if not comp:
            skipped[cid] = blk[:3]
            continue
        mem0 = "-"
        for l in blk:
            if l.startswith("mem0 "):
                mem0 = l[5:]
                break
        # the image as loaded, before injections: injections are replayed on the model as well,
        # so strip injected bytes is unnecessary (mem_put is idempotent)
        inj = " ".join(c.get("inject", []))
        comphex = lib.hexs(comp[0][9:])
        if kind == "sim":
            lines.append("%s msim %s %s %s %d %s %d %s" % (cid, fb, comphex, mem0, c["cycles"], c.get("flags", "-"),
                                                           c.get("timeout", 9999), inj))
        else:
            lines.append("%s mrun %s %s %s %s %d %s" % (cid, fb, comphex, mem0, c.get("flags", "-"),
                                                        c.get("timeout", 9999), inj))
    return lines, skipped


def strip_compiled(blk):
    out = []
    for l in blk:
        if l.startswith(("compiled ", "mem0 ")):
            continue
        for pre in ("step err ", "run err ", "init err ", "dump err "):
            if l.startswith(pre):
                l = pre + " ; ".join(exprcheck.canon_err(l[len(pre):]))
        out.append(l)
    return out


def run_sim_cases(report, cases, features=None, profile="dev", kind="sim", key_prefix="sim"):
    """cases: dict id -> {hcl, yo, cycles, flags, timeout, inject}. Returns (impl, model, stats)."""
    if features is None:
        features = lib.default_features()
    harness = lib.build_harness(profile, features)
    driver = lib.build_driver()
    impl = lib.run_cases(harness, sim_lines(cases, kind))
    mlines, skipped = model_lines(cases, impl, features, kind)
    model = lib.run_cases(driver, mlines)
    stats = {"ran": 0, "rejected": 0, "step_err": 0, "panics": 0, "cycles": 0}
    for cid, c in cases.items():
        a = impl.get(cid, ["MISSING"])
        rep = {"case": dict(c, profile=profile, features=features, kind=kind), "impl": a[:12]}
        if any(l.startswith("PANIC") or l == "DIED" or l.startswith("NOT-RUN") for l in a):
            stats["panics"] += 1
            msg = [l for l in a if l.startswith("PANIC")]
            text = bytes.fromhex(msg[0][6:]).decode("utf-8", "replace") if msg and len(msg[0]) > 7 else "process died"
            report.violation("%s-panic:%s" % (key_prefix, re.sub(r"[^A-Za-z]+", "-", text)[:50]),
                             "implementation panicked while simulating an accepted program: " + text[:120], rep)
            continue
        if cid in skipped:
            stats["rejected"] += 1
            if c.get("expect_accept", True):
                report.broken.append({"what": "generated program was not accepted (generator or front end)", "detail": rep})
            continue
        b = model.get(cid, ["MISSING"])
        a2 = strip_compiled(a)
        stats["ran"] += 1
        stats["cycles"] += sum(1 for l in a2 if l == "step ok")
        if any(l.startswith("step err") for l in a2):
            stats["step_err"] += 1
            bad = [l for l in a2 if l.startswith("step err") and "DivisionByZero" not in l]
            if bad:
                report.violation("%s-runtime-error" % key_prefix,
                                 "accepted program failed at run time: " + bad[0][:160], rep)
                continue
        b = strip_compiled(b)
        if a2 != b:
            d = lib.first_diff(a2, b)
            m = re.match(r"line \d+: impl=(\w+)", d)
            what = m.group(1) if m else "line"
            rep["model"] = b[:12]
            rep["diff"] = d[:600]
            report.violation("%s-%s-differs" % (key_prefix, what),
                             "simulation differs from the model (%s)" % d[:300], rep)
    return impl, model, stats
