"""Expression-level correspondence: the hook `check_and_eval` (parser + get_width_and_check +
evaluate on an explicit environment) against the extracted model's check / eval.
Shared by C02, C07, C08, C17."""
import random
import re

import gen
import lib

GRID_WIDTHS = [0, 1, 2, 4, 8, 63, 64, 65, 127, 128, None]


def env_args(env):
    return " ".join("%s:%s:%x:%d" % (n, "u" if w is None else w, v, 1 if c else 0) for n, w, v, c in env)


def feature_bits(features):
    order = ["strict-boolean-ops", "strict-wire-widths-binary", "require-mux-default",
             "disallow-multiple-mux-default", "disallow-unreachable-options"]
    return "".join("1" if f in features else "0" for f in order)


def canon_err(text):
    """'Variant|names|spans ; ...' or 'Variant|names ; ...' -> sorted list of 'Variant|names'."""
    out = []
    for item in text.split(" ; "):
        f = item.strip().split("|")
        out.append("%s|%s" % (f[0], f[1] if len(f) > 1 else ""))
    return sorted(out)


def canon_block(lines):
    res = {"check": None, "eval": None, "panic": None, "other": []}
    for l in lines:
        if l.startswith("check ok "):
            res["check"] = ("ok", l[9:])
        elif l.startswith("check err "):
            res["check"] = ("err", canon_err(l[10:]))
        elif l.startswith("eval ok "):
            res["eval"] = ("ok", l[8:])
        elif l.startswith("eval err "):
            res["eval"] = ("err", canon_err(l[9:]))
        elif l.startswith("PANIC"):
            res["panic"] = bytes.fromhex(l[6:]).decode("utf-8", "replace") if len(l) > 6 and l[6:] != "-" else "?"
        else:
            res["other"].append(l)
    return res


def grid_cases(rng, tier):
    """Operator x width pair x value pair."""
    cases = []
    widths = GRID_WIDTHS
    nvals = 3 if tier == "quick" else 6

    def vals(w):
        iv = gen.interesting_values(w, rng, 1)
        if len(iv) > nvals:
            iv = rng.sample(iv, nvals)
        return iv

    for op in gen.ALL_BINOPS:
        for wl in widths:
            for wr in widths:
                for a in vals(wl):
                    for b in vals(wr):
                        cases.append({"ast": ("b", op, ("w", "a"), ("w", "b")),
                                      "env": [("a", wl, a, False), ("b", wr, b, False)], "tag": "bin:" + op})
    for op in ["Plus", "Negate", "Complement", "Not"]:
        for w in widths:
            for a in gen.interesting_values(w, rng, 1):
                cases.append({"ast": ("u", op, ("w", "a")), "env": [("a", w, a, False)], "tag": "un:" + op})
    for w in widths:
        top = 128 if w is None else w
        bounds = sorted({0, 1, top // 2, max(top - 1, 0), top, min(top + 1, 128), 128})
        for lo in bounds:
            for hi in bounds:
                for a in vals(w)[:3]:
                    cases.append({"ast": ("s", ("w", "a"), lo, hi), "env": [("a", w, a, False)], "tag": "slice"})
    for wl in widths:
        for wr in widths:
            for a in vals(wl)[:2]:
                for b in vals(wr)[:2]:
                    cases.append({"ast": ("cat", ("w", "a"), ("w", "b")),
                                  "env": [("a", wl, a, False), ("b", wr, b, False)], "tag": "concat"})
                    cases.append({"ast": ("in", ("w", "a"), [("w", "b"), ("c", a, None)]),
                                  "env": [("a", wl, a, False), ("b", wr, b, False)], "tag": "in"})
    # muxes mixing sized and unsized arms, selected arm varied by c
    for w in [1, 4, 8, 64, 128]:
        for cval in (0, 1):
            for k in (5, 200, (1 << 128) - 1):
                env = [("c", 1, cval, False), ("z", w, rng.getrandbits(w), False), ("x", 4, 11, False)]
                m = ("m", [(("w", "c"), ("w", "z")), (("c", 1, None), ("c", k, None))])
                m2 = ("m", [(("w", "c"), ("c", k, None)), (("c", 1, None), ("w", "z"))])
                for mm in (m, m2):
                    cases.append({"ast": mm, "env": env, "tag": "mux"})
                    cases.append({"ast": ("b", "Add", mm, ("w", "x")), "env": env, "tag": "mux+"})
                    cases.append({"ast": ("u", "Complement", mm), "env": env, "tag": "mux~"})
                    cases.append({"ast": ("b", "RightShift", ("u", "Negate", mm), ("c", 1, None)), "env": env, "tag": "mux-"})
                    if w <= 124:
                        cases.append({"ast": ("cat", mm, ("w", "x")), "env": env, "tag": "mux.."})
                        cases.append({"ast": ("cat", ("w", "x"), ("s", mm, 0, w)), "env": env, "tag": "mux[]"})
    return cases


def random_env(rng):
    env = []
    names = "abcdefghijk"
    for i, n in enumerate(names):
        w = rng.choice(gen.WIDTHS + [0, None, 4, 8, 64]) if i > 2 else [1, 8, 64][i]
        env.append((n, w, gen.rand_value(w, rng), False))
    # constants (visible to the always-true test)
    env.append(("K1", None, 1, True))
    env.append(("K0", None, 0, True))
    env.append(("KW", 4, rng.getrandbits(4), True))
    return env


def random_cases(rng, count, features, depth=5):
    cases = []
    fdict = {"sbo": "strict-boolean-ops" in features, "swb": "strict-wire-widths-binary" in features,
             "rmd": "require-mux-default" in features, "dmd": "disallow-multiple-mux-default" in features,
             "duo": "disallow-unreachable-options" in features}
    for _ in range(count):
        env = random_env(rng)
        g = gen.ExprGen(rng, [(n, w, c) for n, w, v, c in env], fdict)
        want = rng.choice(gen.WIDTHS + [None, 1, 1, 8, 64])
        ast = g.gen(want, rng.randint(1, depth))
        cases.append({"ast": ast, "env": env, "tag": "random", "want": want})
    return cases


def subexprs(e, path=()):
    yield path, e
    k = e[0]
    if k == "b":
        yield from subexprs(e[2], path + (2,)); yield from subexprs(e[3], path + (3,))
    elif k == "u":
        yield from subexprs(e[2], path + (2,))
    elif k in ("s",):
        yield from subexprs(e[1], path + (1,))
    elif k == "cat":
        yield from subexprs(e[1], path + (1,)); yield from subexprs(e[2], path + (2,))
    elif k == "m":
        for i, (c, v) in enumerate(e[1]):
            yield from subexprs(c, path + (1, i, 0)); yield from subexprs(v, path + (1, i, 1))
    elif k == "in":
        yield from subexprs(e[1], path + (1,))
        for i, x in enumerate(e[2]):
            yield from subexprs(x, path + (2, i))


def replace_at(e, path, new):
    if not path:
        return new
    lst = list(e)
    i = path[0]
    if e[0] == "m" and i == 1:
        arms = list(e[1])
        arm = list(arms[path[1]])
        arm[path[2]] = replace_at(arm[path[2]], path[3:], new)
        arms[path[1]] = tuple(arm)
        lst[1] = arms
    elif e[0] == "in" and i == 2:
        items = list(e[2])
        items[path[1]] = replace_at(items[path[1]], path[2:], new)
        lst[2] = items
    else:
        lst[i] = replace_at(e[i], path[1:], new)
    return tuple(lst)


def fault_cases(rng, count, features):
    """A well-typed expression with one sub-expression replaced by something of another width
    (or by an undeclared wire / an unsized value / a misordered slice)."""
    cases = []
    base = random_cases(rng, count, features, depth=4)
    for c in base:
        subs = list(subexprs(c["ast"]))
        path, old = rng.choice(subs)
        r = rng.random()
        if r < 0.5:
            w = rng.choice(gen.WIDTHS)
            new = ("c", gen.rand_value(w, rng), w)
        elif r < 0.65:
            new = ("c", rng.getrandbits(8), None)
        elif r < 0.75:
            new = ("w", "undeclared_%d" % rng.randint(0, 3))
        elif r < 0.85:
            new = ("s", old, 9, 3)
        elif r < 0.95:
            new = ("m", [(("c", 1, None), old), (("c", 1, None), old)])
        else:
            new = ("m", [(("w", "a"), old)])
        cases.append({"ast": replace_at(c["ast"], path, new), "env": c["env"], "tag": "fault"})
    return cases


def run_expr_cases(report, cases, features=None, profile="dev", compare_eval="checked", prefix="e"):
    """Runs the cases on implementation and model and records violations.
    compare_eval: 'checked' = compare evaluation only for expressions the checker accepts."""
    if features is None:
        features = lib.default_features()
    fb = feature_bits(features)
    hl, ml, info = [], [], {}
    for i, c in enumerate(cases):
        cid = "%s%d" % (prefix, i)
        text = gen.to_text(c["ast"])
        sx = gen.to_sexpr(c["ast"])
        ea = env_args(c["env"])
        hl.append("%s expr %s %s" % (cid, lib.hexs(text), ea))
        ml.append("%s mexpr %s %s %s" % (cid, fb, lib.hexs(sx), ea))
        info[cid] = {"text": text, "sexpr": sx, "env": ea, "features": features, "profile": profile, "tag": c.get("tag")}
    harness = lib.build_harness(profile, features)
    driver = lib.build_driver()
    impl = lib.run_cases(harness, hl)
    model = lib.run_cases(driver, ml)
    stats = {"accepted": 0, "rejected": 0, "eval_err": 0, "panics": 0, "compared_eval": 0}
    for cid, inf in info.items():
        a = canon_block(impl.get(cid, ["MISSING"]))
        b = canon_block(model.get(cid, ["MISSING"]))
        rep = {"case": inf, "impl": impl.get(cid), "model": model.get(cid)}
        if a["other"] or b["other"]:
            # parse failure of our own rendering or a driver exception: machinery, not the property
            report.broken.append({"what": "expression case did not run", "detail": rep})
            continue
        if a["panic"] is not None:
            stats["panics"] += 1
            report.violation("panic:" + re.sub(r"[^A-Za-z]+", "-", a["panic"])[:60],
                             "implementation panicked on an expression: " + a["panic"][:100], rep)
            continue
        if a["check"] != b["check"]:
            key = "check:%s-vs-%s:%s" % (a["check"][0] if a["check"] else "?", b["check"][0] if b["check"] else "?", inf["tag"])
            report.violation(key, "checker verdict differs: impl=%s model=%s on %s" % (a["check"], b["check"], inf["text"][:120]), rep)
            continue
        if a["check"] and a["check"][0] == "ok":
            stats["accepted"] += 1
        else:
            stats["rejected"] += 1
        if compare_eval == "all" or (a["check"] and a["check"][0] == "ok"):
            stats["compared_eval"] += 1
            if a["eval"] != b["eval"]:
                key = "eval:%s" % inf["tag"]
                report.violation(key, "value differs: impl=%s model=%s on %s" % (a["eval"], b["eval"], inf["text"][:120]), rep)
            elif a["eval"] and a["eval"][0] == "err":
                stats["eval_err"] += 1
                if a["check"][0] == "ok" and a["eval"][1] != ["DivisionByZero|"]:
                    report.violation("accepted-but-fails:" + a["eval"][1][0],
                                     "accepted expression fails at run time: %s on %s" % (a["eval"], inf["text"][:120]), rep)
    return stats
