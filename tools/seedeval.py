#!/usr/bin/env python3
"""Evaluates seeded changes (written by independent sub-agents) against the checks.

  seedeval.py confirm <dir>...   confirm a candidate in a scratch worktree (compiles, the pinned
                                 test suite passes, the demonstration fails with the change and
                                 passes without) and copy it to /verif/seeded/<name>/
  seedeval.py run <name>... [--tier quick] [--props C01,C02]
                                 apply /verif/seeded/<name>/patch.diff to /repo, run the checks of
                                 the property it breaks (or the given ones), undo it, and record
                                 the outcome in /verif/seeded/<name>/result.json
"""
import json
import os
import shutil
import subprocess
import sys
import time

VERIF = os.path.dirname(os.path.dirname(os.path.abspath(__file__)))
REPO = "/repo"
SCRATCH = "/tmp/seed/confirm"


def sh(cmd, cwd=None, timeout=3600):
    p = subprocess.run(cmd, cwd=cwd, shell=isinstance(cmd, str), capture_output=True, text=True, timeout=timeout,
                       env=dict(os.environ, CARGO_NET_OFFLINE="true"))
    return p.returncode, p.stdout + p.stderr


def confirm(path):
    name = os.path.basename(path.rstrip("/"))
    patch = os.path.join(path, "patch.diff")
    demo = os.path.join(path, "demo.sh")
    if not os.path.exists(patch) or not os.path.exists(demo):
        return name, {"ok": False, "why": "patch.diff or demo.sh missing"}
    if not os.path.isdir(SCRATCH):
        rc, out = sh(["git", "-C", REPO, "worktree", "add", "--detach", SCRATCH, "HEAD"])
        if rc != 0:
            return name, {"ok": False, "why": "cannot create worktree: " + out[-300:]}
    sh("git checkout -q --detach $(git -C /repo rev-parse HEAD) && git checkout -- . && git clean -fdq -e target", cwd=SCRATCH)
    res = {}
    rc, out = sh(["bash", demo, SCRATCH], timeout=1800)
    res["demo_clean_exit"] = rc
    rc, out = sh(["git", "apply", patch], cwd=SCRATCH)
    if rc != 0:
        rc, out = sh(["git", "apply", "--3way", patch], cwd=SCRATCH)
    res["applies"] = rc == 0
    if rc != 0:
        sh("git checkout -- .", cwd=SCRATCH)
        return name, dict(res, ok=False, why="patch does not apply to the current HEAD: " + out[-300:])
    rc, out = sh("cargo test --workspace --no-fail-fast --offline 2>&1 | grep -E '^test result|FAILED|error(\\[|:)' ", cwd=SCRATCH, timeout=3600)
    res["tests"] = out.strip().split("\n")
    res["tests_pass"] = ("FAILED" not in out and "error" not in out and out.count("test result: ok") >= 2)
    rc, out = sh(["bash", demo, SCRATCH], timeout=1800)
    res["demo_patched_exit"] = rc
    res["demo_patched_tail"] = out[-400:]
    sh("git checkout -- . && git clean -fdq -e target", cwd=SCRATCH)
    res["ok"] = bool(res["tests_pass"] and res["demo_patched_exit"] != 0 and res["demo_clean_exit"] == 0)
    if res["ok"]:
        dest = os.path.join(VERIF, "seeded", name)
        os.makedirs(dest, exist_ok=True)
        for fn in os.listdir(path):
            if os.path.isfile(os.path.join(path, fn)) and os.path.abspath(path) != os.path.abspath(dest):
                shutil.copy(os.path.join(path, fn), os.path.join(dest, fn))
        meta = {}
        try:
            meta = json.load(open(os.path.join(path, "meta.json")))
        except Exception:
            pass
        meta["confirmed_by_coordinator"] = {"worktree": SCRATCH, "repo_head": sh(["git", "-C", REPO, "rev-parse", "--short", "HEAD"])[1].strip(),
                                            "ran": ["bash demo.sh <clean worktree> -> exit %d" % res["demo_clean_exit"],
                                                    "git apply patch.diff", "cargo test --workspace --no-fail-fast --offline -> all ok",
                                                    "bash demo.sh <patched worktree> -> exit %d" % res["demo_patched_exit"]]}
        json.dump(meta, open(os.path.join(dest, "meta.json"), "w"), indent=1)
    return name, res


def run(name, tier, props):
    d = os.path.join(VERIF, "seeded", name)
    patch = os.path.join(d, "patch.diff")
    meta = json.load(open(os.path.join(d, "meta.json")))
    if meta.get("retired"):
        return {"retired": meta["retired"], "detected": None}
    props = props or [meta.get("property", name.split("-")[0])]
    rc, out = sh(["git", "-C", REPO, "status", "--porcelain", "--untracked-files=no"])
    if out.strip():
        return {"error": "/repo is not clean: " + out[:200]}
    rc, out = sh(["git", "-C", REPO, "apply", patch])
    if rc != 0:
        rc, out = sh(["git", "-C", REPO, "apply", "--3way", patch])
        if rc != 0:
            # /repo was clean (checked above): drop the half-merged state the 3-way attempt leaves
            sh(["git", "-C", REPO, "reset", "-q", "--hard", "HEAD"])
            return {"error": "patch does not apply: " + out[-200:]}
    result = {"tier": tier, "checks": {}}
    try:
        for p in props:
            t0 = time.time()
            rc, out = sh([sys.executable, os.path.join(VERIF, "tools", "vp.py"), "check", p, "--tier", tier], cwd=VERIF, timeout=7200)
            viol = [l for l in out.split("\n") if l.startswith("VIOLATION")]
            keys = []
            for l in viol[:3]:
                try:
                    rp = l.split("replay=")[1].split()[0]
                    data = json.load(open(rp))
                    keys.append(data.get("key") or ("broken: " + str(data.get("broken", [{}])[0].get("what"))))
                except Exception:
                    pass
            result["checks"][p] = {"exit": rc, "violations": len(viol), "keys": keys, "nofail": any("no-failing-input-found" in l for l in viol),
                                   "wall_s": round(time.time() - t0, 1)}
    finally:
        sh(["git", "-C", REPO, "checkout", "--", "."])
        sh(["git", "-C", REPO, "clean", "-fdq", "src", "tests"])
    result["detected"] = any(c["exit"] != 0 for c in result["checks"].values())
    result["verif_commit"] = sh(["git", "-C", VERIF, "rev-parse", "--short", "HEAD"])[1].strip()
    rp = os.path.join(d, "result.json")
    history = []
    if os.path.exists(rp):
        try:
            old = json.load(open(rp))
            history = old.pop("history", []) + [old]
        except Exception:
            pass
    result["history"] = history
    json.dump(result, open(rp, "w"), indent=1)
    return result


def main():
    if sys.argv[1] == "confirm":
        for p in sys.argv[2:]:
            name, res = confirm(p)
            print(name, "CONFIRMED" if res.get("ok") else "REJECTED", json.dumps({k: v for k, v in res.items() if k not in ("tests", "demo_patched_tail")})[:300])
    elif sys.argv[1] == "run":
        tier = "quick"
        props = None
        names = []
        args = sys.argv[2:]
        i = 0
        while i < len(args):
            if args[i] == "--tier":
                tier = args[i + 1]; i += 2
            elif args[i] == "--props":
                props = args[i + 1].split(","); i += 2
            else:
                names.append(args[i]); i += 1
        for n in names:
            r = run(n, tier, props)
            print(n, "RETIRED" if r.get("retired") else "DETECTED" if r.get("detected") else "MISSED", json.dumps(r)[:400])


if __name__ == "__main__":
    main()
