"""Seeded generators shared by the checks: expression ASTs (well-typed by construction, or
with one injected fault), their two renderings (HCL text for the implementation,
S-expression for the model), whole programs, and .yo images.

AST (python tuples):
  ('c', bits, w)         constant; w = int (sized) or None (unsized)
  ('w', name)            wire
  ('b', op, l, r)        binary, op = Rust BinOpCode name
  ('u', op, e)           unary, op = Plus/Negate/Complement/Not
  ('m', [(cond, val)..]) mux
  ('s', e, lo, hi)       bit slice
  ('cat', l, r)          concatenation
  ('in', e, [items])     set membership
"""
import random

BINOP_TOK = {"Add": "+", "Sub": "-", "Mul": "*", "Div": "/", "Or": "|", "Xor": "^", "And": "&",
             "Equal": "==", "NotEqual": "!=", "LessEqual": "<=", "GreaterEqual": ">=", "Less": "<",
             "Greater": ">", "LogicalAnd": "&&", "LogicalOr": "||", "LeftShift": "<<", "RightShift": ">>"}
UNOP_TOK = {"Plus": "+", "Negate": "-", "Complement": "~", "Not": "!"}
BITWISE = ["Or", "Xor", "And", "LeftShift", "RightShift"]
ARITH = ["Add", "Sub", "Mul", "Div"]
COMPARE = ["Equal", "NotEqual", "LessEqual", "GreaterEqual", "Less", "Greater"]
LOGICAL = ["LogicalAnd", "LogicalOr"]
ALL_BINOPS = ARITH + ["Or", "Xor", "And"] + COMPARE + LOGICAL + ["LeftShift", "RightShift"]

WIDTHS = [1, 2, 3, 4, 7, 8, 9, 31, 32, 33, 63, 64, 65, 80, 127, 128]


# ------------------------------------------------------------------ renderings
def const_text(bits, w, rng=None):
    if w is None:
        if rng is not None and rng.random() < 0.4:
            h = "%x" % bits
            if rng.random() < 0.5:
                h = h.upper()
            return "0x" + h
        return str(bits)
    assert w >= 1
    return "0b" + format(bits, "0%db" % w)


def to_text(e, rng=None):
    """Fully parenthesised HCL text."""
    k = e[0]
    if k == "c":
        if e[2] == 0:
            # a zero-width value has no literal: slice nothing out of a one-bit literal
            return "(0b0)[0..0]"
        return const_text(e[1], e[2], rng)
    if k == "w":
        return e[1]
    if k == "b":
        return "(%s %s %s)" % (to_text(e[2], rng), BINOP_TOK[e[1]], to_text(e[3], rng))
    if k == "u":
        return "%s(%s)" % (UNOP_TOK[e[1]], to_text(e[2], rng))
    if k == "m":
        return "[ " + " ".join("%s : %s;" % (to_text(c, rng), to_text(v, rng)) for c, v in e[1]) + " ]"
    if k == "s":
        return "(%s)[%d..%d]" % (to_text(e[1], rng), e[2], e[3])
    if k == "cat":
        return "(%s .. %s)" % (to_text(e[1], rng), to_text(e[2], rng))
    if k == "in":
        return "(%s in { %s })" % (to_text(e[1], rng), ", ".join(to_text(x, rng) for x in e[2]))
    raise ValueError(e)


def to_sexpr(e):
    k = e[0]
    if k == "c":
        if e[2] == 0:
            return "(s (c 0 1) 0 0)"
        return "(c %d %s)" % (e[1], "u" if e[2] is None else e[2])
    if k == "w":
        return "(w %s)" % e[1]
    if k == "b":
        return "(b %s %s %s)" % (e[1], to_sexpr(e[2]), to_sexpr(e[3]))
    if k == "u":
        return "(u %s %s)" % (e[1], to_sexpr(e[2]))
    if k == "m":
        return "(m" + "".join(" (arm %s %s)" % (to_sexpr(c), to_sexpr(v)) for c, v in e[1]) + ")"
    if k == "s":
        return "(s %s %d %d)" % (to_sexpr(e[1]), e[2], e[3])
    if k == "cat":
        return "(cat %s %s)" % (to_sexpr(e[1]), to_sexpr(e[2]))
    if k == "in":
        return "(in %s%s)" % (to_sexpr(e[1]), "".join(" " + to_sexpr(x) for x in e[2]))
    raise ValueError(e)


def size(e):
    k = e[0]
    if k in ("c", "w"):
        return 1
    if k == "b":
        return 1 + size(e[2]) + size(e[3])
    if k == "u":
        return 1 + size(e[2])
    if k == "m":
        return 1 + sum(size(c) + size(v) for c, v in e[1])
    if k == "s":
        return 1 + size(e[1])
    if k == "cat":
        return 1 + size(e[1]) + size(e[2])
    if k == "in":
        return 1 + size(e[1]) + sum(size(x) for x in e[2])
    return 1


def ops_of(e, acc=None):
    acc = acc if acc is not None else []
    k = e[0]
    if k == "b":
        acc.append(e[1]); ops_of(e[2], acc); ops_of(e[3], acc)
    elif k == "u":
        acc.append(e[1]); ops_of(e[2], acc)
    elif k == "m":
        acc.append("mux")
        for c, v in e[1]:
            ops_of(c, acc); ops_of(v, acc)
    elif k == "s":
        acc.append("slice"); ops_of(e[1], acc)
    elif k == "cat":
        acc.append("concat"); ops_of(e[1], acc); ops_of(e[2], acc)
    elif k == "in":
        acc.append("in"); ops_of(e[1], acc)
        for x in e[2]:
            ops_of(x, acc)
    return acc


# ------------------------------------------------------------------ values
def interesting_values(w, rng, extra=2):
    """Boundary values for width w (None = unsized, up to 128 bits)."""
    bitsz = 128 if w is None else w
    if bitsz == 0:
        return [0]
    top = (1 << bitsz) - 1
    vals = {0, 1 & top, 2 & top, top, top - 1 if top else 0, 1 << (bitsz - 1), ((1 << (bitsz - 1)) - 1) & top}
    for k in (63, 64, 65, 127):
        if k < bitsz:
            vals.add(1 << k)
            vals.add((1 << k) - 1)
            vals.add(((1 << k) + 1) & top)
    for _ in range(extra):
        vals.add(rng.getrandbits(bitsz))
    for k in (3, 7, 8, 128, 129, 255):   # shift amounts / small divisors
        vals.add(k & top)
    return sorted(vals)


def rand_value(w, rng):
    bitsz = 128 if w is None else w
    if bitsz == 0:
        return 0
    r = rng.random()
    if r < 0.25:
        return rng.choice(interesting_values(w, rng, 0))
    if r < 0.4:
        return rng.getrandbits(min(bitsz, 8))
    return rng.getrandbits(bitsz)


# ------------------------------------------------------------------ well-typed expressions
class ExprGen:
    """env: list of (name, width|None, is_constant). Builds expressions whose static width is
    known: gen(want, depth) with want = int (exactly that width), None (unsized),
    ('compat', W) (W or unsized)."""

    def __init__(self, rng, env, features=None, allow_div=True, max_mux=3):
        self.rng = rng
        self.env = env
        self.allow_div = allow_div
        self.max_mux = max_mux
        self.features = features or {"sbo": True, "swb": False, "rmd": True, "dmd": True, "duo": True}

    def wires_of(self, w, const_ok=True):
        return [n for n, ww, c in self.env if ww == w and (const_ok or not c)]

    def nonconst_wires(self):
        return [(n, w) for n, w, c in self.env if not c and w is not None]

    def leaf(self, want):
        rng = self.rng
        if isinstance(want, tuple):
            w = want[1]
            if rng.random() < 0.35:
                return ("c", rand_value(None, rng) if rng.random() < 0.3 else rng.getrandbits(min(w, 16) if w else 1), None)
            want = w
        if want is None:
            cands = self.wires_of(None)
            if cands and rng.random() < 0.3:
                return ("w", rng.choice(cands))
            return ("c", rand_value(None, rng) if rng.random() < 0.5 else rng.getrandbits(6), None)
        cands = self.wires_of(want)
        if cands and rng.random() < 0.75:
            return ("w", rng.choice(cands))
        if want == 0:
            return ("c", 0, 0)
        # no wire of that width: slice or literal
        bigger = [(n, w) for n, w in self.nonconst_wires() if w >= want and want > 0]
        if bigger and rng.random() < 0.5:
            n, w = rng.choice(bigger)
            lo = rng.randint(0, w - want)
            return ("s", ("w", n), lo, lo + want)
        return ("c", rand_value(want, rng), want)

    def cond(self, depth):
        """A one-bit condition that is not 'always true' (reads a non-constant wire)."""
        rng = self.rng
        nc = self.nonconst_wires()
        if not nc:
            return ("c", 0, None)
        n, w = rng.choice(nc)
        r = rng.random()
        if r < 0.5 or w == 0:
            other = self.gen(("compat", w), max(0, depth - 1))
            return ("b", rng.choice(COMPARE), ("w", n), other)
        if r < 0.7:
            items = [self.gen(("compat", w), 0) for _ in range(rng.randint(1, 3))]
            return ("in", ("w", n), items)
        if r < 0.85:
            return ("u", "Not", ("w", n))
        b = rng.randint(0, w - 1)
        return ("s", ("w", n), b, b + 1)

    def gen(self, want, depth):
        rng = self.rng
        if depth <= 0 or rng.random() < 0.15:
            return self.leaf(want)
        if isinstance(want, tuple):
            # compatible: either exactly W or unsized
            if rng.random() < 0.3:
                return self.gen(None, depth - 1)
            return self.gen(want[1], depth)
        d = depth - 1
        if want is None:
            r = rng.random()
            if r < 0.45:
                op = rng.choice(ARITH if self.allow_div else ARITH[:3])
                return ("b", op, self.gen(None, d), self.gen(None, d))
            if r < 0.65:
                return ("b", rng.choice(BITWISE), self.gen(None, d), self.gen(None, d))
            if r < 0.8:
                return ("u", rng.choice(["Plus", "Negate", "Complement"]), self.gen(None, d))
            if r < 0.9 and self.nonconst_wires():
                arms = [(self.cond(d), self.gen(None, d)) for _ in range(rng.randint(0, self.max_mux - 1))]
                arms.append((("c", 1, None), self.gen(None, d)))
                return ("m", arms)
            return self.leaf(None)
        W = want
        choices = ["bitwise", "arith", "unary", "mux", "slice"]
        if W >= 2:
            choices.append("concat")
        if W == 1:
            choices += ["compare", "compare", "logical", "not", "in"]
        c = rng.choice(choices)
        if c == "bitwise":
            op = rng.choice(BITWISE)
            if rng.random() < 0.5:
                return ("b", op, self.gen(W, d), self.gen(("compat", W), d))
            return ("b", op, self.gen(("compat", W), d), self.gen(W, d))
        if c == "arith":
            op = rng.choice(ARITH if self.allow_div else ARITH[:3])
            if self.features["swb"]:
                a, b = self.gen(W, d), self.gen(("compat", W), d)
            else:
                # max rule: the other operand may be narrower or unsized
                small = rng.choice([w for w in WIDTHS + [0] if w <= W])
                a, b = self.gen(W, d), (self.gen(small, d) if rng.random() < 0.5 else self.gen(("compat", W), d))
            return ("b", op, a, b) if rng.random() < 0.5 else ("b", op, b, a)
        if c == "unary":
            return ("u", rng.choice(["Plus", "Negate", "Complement"]), self.gen(W, d))
        if c == "mux" and self.nonconst_wires():
            n = rng.randint(1, self.max_mux)
            vals = [self.gen(("compat", W), d) for _ in range(n)]
            vals[rng.randrange(n)] = self.gen(W, d)
            arms = [(self.cond(d), v) for v in vals[:-1]]
            arms.append((("c", 1, None), vals[-1]))
            return ("m", arms)
        if c == "slice":
            srcw = rng.choice([w for w in WIDTHS if w >= W] or [128])
            if rng.random() < 0.15:
                inner = self.gen(None, d)      # slicing an unsized value is allowed
                lo = rng.randint(0, 128 - W)
                return ("s", inner, lo, lo + W)
            lo = rng.randint(0, srcw - W)
            if rng.random() < 0.3:
                lo = srcw - W                # top slice: hi = width
            return ("s", self.gen(srcw, d), lo, lo + W)
        if c == "concat":
            a = rng.randint(0, W)
            if rng.random() < 0.7:
                a = rng.randint(1, W - 1)
            return ("cat", self.gen(a, d), self.gen(W - a, d))
        if c == "compare":
            w2 = rng.choice(WIDTHS)
            return ("b", rng.choice(COMPARE), self.gen(w2, d), self.gen(("compat", w2), d))
        if c == "logical":
            return ("b", rng.choice(LOGICAL), self.gen(("compat", 1), d), self.gen(("compat", 1), d))
        if c == "not":
            return ("u", "Not", self.gen(rng.choice(WIDTHS), d))
        if c == "in":
            w2 = rng.choice(WIDTHS)
            return ("in", self.gen(w2, d), [self.gen(("compat", w2), d) for _ in range(rng.randint(0, 4))])
        return self.leaf(W)


# ------------------------------------------------------------------ .yo images
def yo_line(addr, data, comment="x"):
    hexs = data.hex()
    return "0x%03x: %-20s | %s" % (addr, hexs, comment)


def yo_image(rng, nbytes=400, base=0):
    """A listing filling [base, base+nbytes) with random bytes, 1..10 bytes per line."""
    lines = []
    a = base
    end = base + nbytes
    while a < end and a < 0x1000:
        n = min(rng.randint(1, 10), end - a, 0x1000 - a)
        lines.append(yo_line(a, bytes(rng.getrandbits(8) for _ in range(n))))
        a += n
    return "\n".join(lines) + "\n"


# ------------------------------------------------------------------ whole programs
LOWER = "abcdefghijklmnopqrstuvwxyz"
UPPER = "ABCDEFGHIJKLMNOPQRSTUVWXYZ"


class ProgGen:
    """Random accepted programs: a pc bank feeding the instruction memory (fresh 80 random bits
    per cycle from the image), random wires over everything defined so far, optional register
    file / data memory / extra register banks with stall and bubble, statements shuffled.

    knobs: n_wires, depth, use_regfile, use_mem, n_banks, halt_at (cycle or None), stat_expr,
    small_addr (data addresses drawn from a small set so that reads hit earlier writes)."""

    def __init__(self, rng, **kw):
        self.rng = rng
        self.k = dict(n_wires=8, depth=3, use_regfile=None, use_mem=None, n_banks=None, halt_at=None,
                      small_addr=True, stride=10, allow_div=True, wide_names=False, chains=0.12)
        self.k.update(kw)
        self.stmts = []          # each a string (one statement)
        self.env = []            # (name, width|None, is_const)
        self.decl = {}           # name -> width
        self.counter = 0

    def fresh(self, prefix="w"):
        self.counter += 1
        if self.k["wide_names"] and self.rng.random() < 0.3:
            return "%s_long_wire_name_%s_%d" % (prefix, "x" * self.rng.randint(5, 40), self.counter)
        return "%s%d" % (prefix, self.counter)

    def eg(self):
        return ExprGen(self.rng, list(self.env), allow_div=self.k["allow_div"])

    def expr(self, want, depth=None):
        d = self.k["depth"] if depth is None else depth
        return to_text(self.eg().gen(want, self.rng.randint(0, d)), self.rng)

    def add_wire(self, name, width, text):
        self.stmts.append("wire %s : %d;" % (name, width))
        self.env.append((name, width, False))
        self.decl[name] = width
        if self.rng.random() < self.k["chains"]:
            # a chained assignment: two or three wires of one width driven by one statement
            names = [name]
            for _ in range(self.rng.randint(1, 2)):
                twin = self.fresh()
                self.stmts.append("wire %s : %d;" % (twin, width))
                self.env.append((twin, width, False))
                self.decl[twin] = width
                names.append(twin)
            self.rng.shuffle(names)
            self.stmts.append("%s = %s;" % (" = ".join(names), text))
        else:
            self.stmts.append("%s = %s;" % (name, text))

    def assign_builtin(self, name, width, text):
        self.stmts.append("%s = %s;" % (name, text))
        self.builtin_inputs = getattr(self, "builtin_inputs", []) + [(name, width)]

    def build(self):
        rng = self.rng
        k = self.k
        # constants
        for i in range(rng.randint(0, 3)):
            name = "K%d" % i
            if rng.random() < 0.5:
                w = rng.choice([1, 4, 8, 64])
                self.stmts.append("const %s = %s;" % (name, const_text(rng.getrandbits(w), w)))
                self.env.append((name, w, True))
            else:
                self.stmts.append("const %s = %d;" % (name, rng.getrandbits(rng.choice([3, 8, 40]))))
                self.env.append((name, None, True))
        # pc bank
        # the pc usually advances by one instruction per cycle; sometimes it starts elsewhere, creeps,
        # or stays put for the whole run (the same bytes fetched again and again while the data port
        # may store into them)
        start = rng.choice([0, 0, 0, 0, 8, 16, 21])
        stride = k["stride"] if rng.random() < 0.7 else rng.choice([0, 0, 1, 3])
        self.stmts.append("register pP { pc : 64 = %d; cyc : 16 = 0; }" % start)
        self.env += [("P_pc", 64, False), ("P_cyc", 16, False)]
        self.stmts.append("p_pc = P_pc + %d;" % stride)
        self.stmts.append("p_cyc = P_cyc + 1;")
        # extra banks: outputs are available from the start
        n_banks = k["n_banks"] if k["n_banks"] is not None else rng.choice([0, 0, 1, 2, 3])
        letters_in = rng.sample([c for c in LOWER if c != "p"], n_banks)
        letters_out = rng.sample([c for c in UPPER if c != "P"], n_banks)
        for bk in range(n_banks):
            # now and then a prefix letter outside ASCII (any lower-case / upper-case character is legal)
            if rng.random() < 0.06 and "\u00c9" not in letters_out:
                letters_out[bk] = "\u00c9"
            if rng.random() < 0.06:
                c = rng.choice(["\u00e9", "\u00fc", "\u03b1"])
                if c not in letters_in:
                    letters_in[bk] = c
        if n_banks >= 2 and rng.random() < 0.3:
            # two banks sharing an output prefix letter (and hence stall_X / bubble_X): legal as long
            # as their register names differ
            letters_out[1] = letters_out[0]
        share_in = None
        if n_banks >= 2 and rng.random() < 0.25:
            # two banks sharing an INPUT prefix letter: legal too, as long as their register names differ
            share_in = (n_banks - 1, 0) if letters_out[n_banks - 1] != letters_out[0] else None
            if share_in:
                letters_in[share_in[0]] = letters_in[share_in[1]]
        banks = []
        for bi, (li, lo) in enumerate(zip(letters_in, letters_out)):
            regs = []
            shared = (letters_out.count(lo) > 1 and bi == 1) or (share_in is not None and bi == share_in[0])
            # now and then a bank without any register (legal: it only has its control signals)
            for j in range(0 if rng.random() < 0.12 else rng.randint(1, 4)):
                w = rng.choice(WIDTHS)
                rname = ("s%d" if shared else "r%d") % j if rng.random() < 0.7 else ("sreg_%s%d" if shared else "reg_%s%d") % ("y" * (rng.randint(1, 30) if rng.random() < 0.85 else rng.randint(40, 75)), j)
                d = rng.getrandbits(min(w, 20))
                dt = str(d) if rng.random() < 0.6 else "0x%x" % d
                if rng.random() < 0.2 and w < 127:
                    dt = rng.choice(["-1", "~0", str((1 << w) + d), "-(%d)" % (d + 1)])   # truncated to the register's width
                if rng.random() < 0.15:
                    # an initial value computed from the constants (it obeys the width rules like any expression)
                    ceg = ExprGen(rng, [e for e in self.env if e[2]], allow_div=False)
                    dt = to_text(ceg.gen(("compat", w), rng.randint(1, 2)), rng)
                regs.append((rname, w, dt))
                self.env.append(("%s_%s" % (lo, rname), w, False))
            banks.append((li, lo, regs))
            body = " ".join("%s : %d = %s;" % (r, w, dt) for r, w, dt in regs)
            self.stmts.append("register %s%s { %s }" % (li, lo, body))
        # tasks whose order is random
        tasks = [("pc",)]
        use_rf = k["use_regfile"] if k["use_regfile"] is not None else rng.random() < 0.6
        use_mem = k["use_mem"] if k["use_mem"] is not None else rng.random() < 0.6
        if use_rf:
            tasks += [("srcA",), ("srcB",)]
        if use_mem:
            tasks += [("memread",)]
        tasks += [("wire",)] * k["n_wires"]
        # control signals of the extra banks: assigned somewhere in the middle, so that later
        # wires (and other banks' control signals) can read them in the same cycle
        for lo in sorted(set(lo for li, lo, regs in banks)):
            for sig in ("stall", "bubble"):
                if rng.random() < 0.7:
                    tasks.append(("ctl", "%s_%s" % (sig, lo)))
        if k["halt_at"] is None and rng.random() < 0.25:
            tasks.append(("ctl", "stall_P"))      # the pc bank itself held now and then
        # control signals the program leaves unassigned are 0 throughout and may be read
        assigned_ctl = set(t[1] for t in tasks if t[0] == "ctl")
        for lo in sorted(set(lo for li, lo, regs in banks) | {"P"}):
            for sig in ("stall", "bubble"):
                if "%s_%s" % (sig, lo) not in assigned_ctl:
                    self.env.append(("%s_%s" % (sig, lo), 1, False))
        rng.shuffle(tasks)
        have_i10 = False
        for t in tasks:
            if t[0] == "pc":
                self.assign_builtin("pc", 64, "P_pc")
                self.env.append(("i10bytes", 80, False))
            elif t[0] in ("srcA", "srcB"):
                port = t[0][-1]
                self.assign_builtin("reg_src" + port, 4, self.expr(4))
                self.env.append(("reg_output" + port, 64, False))
            elif t[0] == "ctl":
                self.stmts.append("%s = %s;" % (t[1], self.expr(1, 2)))
                self.env.append((t[1], 1, False))
            elif t[0] == "memread":
                self.assign_builtin("mem_addr", 64, self.addr_expr())
                self.assign_builtin("mem_readbit", 1, self.expr(1))
                self.env.append(("mem_output", 64, False))
            else:
                w = rng.choice(WIDTHS + [4, 8, 64, 64])
                self.add_wire(self.fresh(), w, self.expr(w))
        # writers and bank inputs last (they can read anything)
        if use_rf:
            for p in "EM":
                if rng.random() < 0.8:
                    self.assign_builtin("reg_dst" + p, 4, self.expr(4))
                    self.assign_builtin("reg_input" + p, 64, self.expr(64))
        if use_mem:
            self.assign_builtin("mem_writebit", 1, self.expr(1))
            self.assign_builtin("mem_input", 64, self.expr(64))
        for li, lo, regs in banks:
            for r, w, d in regs:
                self.stmts.append("%s_%s = %s;" % (li, r, self.expr(w)))
        # Stat
        if k["halt_at"] is not None:
            self.stmts.append("Stat = [ P_cyc == %d : STAT_HLT; 1 : STAT_AOK; ];" % k["halt_at"])
        elif rng.random() < 0.3:
            # a status that turns non-OK now and then (the step engine keeps stepping)
            self.stmts.append("Stat = [ (P_cyc)[0..2] == %d : %s; 1 : STAT_AOK; ];" % (rng.randint(0, 3), rng.choice(["STAT_HLT", "STAT_INS", "STAT_ADR", "STAT_BUB", "STAT_PIP", "7"])))
        else:
            self.stmts.append("Stat = STAT_AOK;")
        # the inputs of the built-in components are wires like any other: now and then further wires read them
        # (also the inputs of the output-less components: Stat, the write ports), in this very cycle
        if rng.random() < 0.35:
            readable = list(getattr(self, "builtin_inputs", [])) + [("Stat", 3), ("pc", 64)]
            for j in range(rng.randint(1, 3)):
                n_, w_ = rng.choice(readable)
                form = rng.choice(["%s", "(%s ^ %s)", "~%s", "(%s + 1)", "[ %s == 0 : 1; 1 : %s ]"])
                self.stmts.append("wire obs%d : %d;" % (j, w_))
                self.stmts.append("obs%d = %s;" % (j, form.replace("%s", n_)))
        body = list(self.stmts)
        rng.shuffle(body)
        return "\n".join(body) + "\n"

    def addr_expr(self):
        rng = self.rng
        if rng.random() < 0.2:
            # at, just below, or inside the instruction being fetched
            return "(P_pc %s %d)" % (rng.choice(["+", "-"]), rng.randint(0, 12))
        if self.k["small_addr"] and rng.random() < 0.8:
            small = [n for n, w, c in self.env if not c and w is not None and w >= 4]
            if small:
                n = rng.choice(small)
                w = dict((a, b) for a, b, _ in self.env)[n]
                lo = rng.randint(0, w - 4)
                return "((P_pc & 0) + (%s)[%d..%d])" % (n, lo, lo + rng.randint(2, 4))
        return self.expr(64)
