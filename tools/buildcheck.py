"""Program-level correspondence: parse_y86_hcl (front end + Program::new) against the model's
build_program fed with the statements as the implementation's parser produced them (hook
parse_statements).  Compared: accept/reject; the multiset of (diagnostic kind, names); for
accepted programs the compiled program (constants, banks, defaulted wires, wire types, and the
action list as a multiset, since the schedule order is hash dependent), and the extracted
valid_schedule predicate run on the implementation's own action list."""
import re

import exprcheck
import lib
import translate


def norm(x):
    if isinstance(x, list):
        return [norm(y) for y in x]
    if isinstance(x, tuple):
        return x
    if re.fullmatch(r"\d+", x):
        return int(x)
    if re.fullmatch(r"0x[0-9a-fA-F]+", x):
        return int(x, 16)
    return x


def canon_compiled(text):
    t = norm(translate.sexp_parse(text))
    # (prog (consts ..) (banks ..) (actions ..) (defaulted ..) (types ..))
    out = {}
    for sec in t[1:]:
        out[sec[0]] = sec[1:]
    out["consts"] = sorted(out["consts"], key=repr)
    out["actions_multiset"] = sorted(out.pop("actions"), key=repr)
    out["defaulted"] = sorted(out["defaulted"], key=repr)
    out["types"] = sorted(out["types"], key=repr)
    return out


def canon_errors(text):
    items = []
    for e in exprcheck.canon_err(text):
        kind, names = e.split("|", 1)
        if kind == "WireLoop":
            names = "*"                       # which loop is shown may differ
        if kind == "PartialFixedInput":
            a, _, b = names.partition(",/,")
            names = ",".join(sorted(a.split(","))) + "/" + ",".join(sorted(b.split(",")))
        items.append("%s|%s" % (kind, names))
    return sorted(items)


def run_build_cases(report, cases, features=None, key_prefix="build"):
    """cases: dict id -> {hcl, ...}. Returns dict id -> ('accept', compiled_text) | ('reject', [errs]) | None."""
    if features is None:
        features = lib.default_features()
    fb = exprcheck.feature_bits(features)
    harness = lib.build_harness("dev", features)
    driver = lib.build_driver()
    impl = lib.run_cases(harness, ["%s front %s 3" % (cid, lib.hexs(c["hcl"])) for cid, c in cases.items()])
    # every diagnostic text the real renderer wrote, against the model of format_for_contents
    import rendercheck
    n_rendered, _nv = rendercheck.compare(report, {cid: c["hcl"] for cid, c in cases.items()}, impl, key_prefix)
    import frontcheck
    fres = frontcheck.compare(report, {cid: c["hcl"] for cid, c in cases.items()}, impl, key_prefix, features=features, limit=60)
    ml, vl = [], []
    verdicts = {}
    for cid, c in cases.items():
        blk = impl.get(cid, ["MISSING"])
        rep = {"case": c, "impl": [l[:300] for l in blk[-3:]]}
        if any(l.startswith(("PANIC", "DIED", "NOT-RUN", "MISSING")) for l in blk):
            report.violation("%s-panic" % key_prefix, "front end panicked / died", rep)
            verdicts[cid] = None
            continue
        v = [l for l in blk if l.startswith(("accept", "reject"))]
        stm = [l[5:] for l in blk if l.startswith("stmt ")]
        if not v:
            verdicts[cid] = None
            continue
        if v[0].startswith("accept"):
            verdicts[cid] = ("accept", v[0][7:])
            vl.append("%s mvalid %s" % (cid, lib.hexs(v[0][7:])))
        else:
            verdicts[cid] = ("reject", canon_errors(v[0][7:]))
        if any(l.startswith("parseerr") for l in blk):
            continue                             # syntax errors: outside Program::new
        ml.append("%s mbuild %s %s" % (cid, fb, lib.hexs("(" + " ".join(stm) + ")")))
    model = lib.run_cases(driver, ml)
    valid = lib.run_cases(driver, vl)
    # end to end at text level, on a sample (the extracted model lexer is quadratic in the text length): the
    # model's OWN lexer and parser on the program text give the statement list the implementation's parser gives
    sample = [cid for cid, c in cases.items() if len(c["hcl"]) < 1500][:40]
    pl = ["%s parse %s 0" % (cid, lib.hexs(cases[cid]["hcl"])) for cid in sample]
    pi, pm = lib.run_cases(harness, pl), lib.run_cases(driver, pl)

    def _stmts(blk):
        return [norm(translate.sexp_parse(y[5:])) if y.startswith("stmt ") else ("err" if y.startswith(("err", "parseerr")) else y) for y in blk]
    for cid in sample:
        a_, b_ = _stmts(pi.get(cid, ["MISSING"])), _stmts(pm.get(cid, ["MISSING"]))
        if a_ != b_:
            report.violation("%s-parse-differs-from-model" % key_prefix,
                             "the grammar and the model parser read the program text differently: %s" % lib.first_diff([str(x) for x in a_], [str(x) for x in b_])[:200],
                             {"case": cases[cid], "impl": [str(x)[:200] for x in a_[:6]], "model": [str(x)[:200] for x in b_[:6]]})
    stats = {"accepted": 0, "rejected": 0, "syntax": 0, "schedules_validated": 0, "texts_parsed_by_model": len(sample), "renderings_compared_with_model": n_rendered, "texts_through_spanned_model_front_end": sum(fres.values())}
    for cid, c in cases.items():
        v = verdicts.get(cid)
        if v is None:
            continue
        if cid not in model:
            stats["syntax"] += 1
            continue
        mb = model[cid]
        rep = {"case": c, "impl": v if v[0] == "reject" else ("accept", v[1][:300]), "model": [l[:300] for l in mb]}
        if v[0] == "accept":
            stats["accepted"] += 1
            vb = valid.get(cid, [])
            if vb != ["valid_schedule 1"]:
                report.violation("%s-invalid-schedule" % key_prefix,
                                 "the scheduled action list violates the read-after-write discipline (valid_schedule = %s)" % vb, rep)
            else:
                stats["schedules_validated"] += 1
            if not mb or not mb[0].startswith("accept "):
                report.violation("%s-accepts-what-model-rejects" % key_prefix,
                                 "program accepted, the model rejects it: %s" % (mb[0][:200] if mb else "?"), rep)
                continue
            a, b = canon_compiled(v[1]), canon_compiled(mb[0][7:])
            if a != b:
                diff = [k for k in a if a[k] != b.get(k)]
                report.violation("%s-compiled-differs-%s" % (key_prefix, diff[0]), "compiled program differs from the model in %s" % diff, rep)
        else:
            stats["rejected"] += 1
            if not mb or not mb[0].startswith("reject "):
                report.violation("%s-rejects-what-model-accepts" % key_prefix,
                                 "program rejected (%s), the model accepts it" % v[1][:3], rep)
                continue
            want = canon_errors(mb[0][7:])
            if v[1] != want:
                report.violation("%s-diagnostics-differ" % key_prefix,
                                 "diagnostics differ: impl %s, model %s" % (v[1][:4], want[:4]), rep)
    return verdicts, stats
