"""The spanned front end of the model (SpanBuild.front_sp: lexer, spanned parser, spanned Program::new; and
ParseDiag.parse_text_diag: the grammar's diagnostic productions), extracted, against the real front end on the
same program text: verdict, and every diagnostic with its kind, names and SPANS (hook error_lines)."""
import collections
import lib, exprcheck


def _canon_item(item):
    f = item.split("|")
    kind, names, spans = f[0], f[1] if len(f) > 1 else "", f[2] if len(f) > 2 else ""
    if kind == "WireLoop":
        names = "*"                                   # which loop is shown (and where it starts) follows the hash order
    if kind == "PartialFixedInput":
        a, _, b = names.partition(",/,")
        names = ",".join(sorted(a.split(","))) + "/" + ",".join(sorted(b.split(",")))
    return "%s|%s|%s" % (kind, names, spans)


def compare(report, texts, impl, key_prefix, features=None, limit=150, max_bytes=1500):
    """texts: {id: user text}; impl: the harness's `front` blocks.  Returns a Counter of outcomes."""
    if features is None:
        features = lib.default_features()
    fb = exprcheck.feature_bits(features)
    ids = [cid for cid in texts if len(texts[cid].encode()) <= max_bytes and
           any(l.startswith(("accept", "reject")) for l in impl.get(cid, []))][:limit]
    driver = lib.build_driver()
    m1 = lib.run_cases(driver, ["%s mfrontsp %s %s" % (cid, fb, lib.hexs(texts[cid])) for cid in ids])
    need = [cid for cid in ids if m1.get(cid, ["?"])[0] == "parsefail"]
    m2 = lib.run_cases(driver, ["%s mpdiag %s" % (cid, lib.hexs(texts[cid])) for cid in need])
    res = collections.Counter()
    for cid in ids:
        blk = impl[cid]
        v = [l for l in blk if l.startswith(("accept", "reject"))][0]
        mo = m1.get(cid, ["MISSING"])[0]
        rep = {"text": texts[cid][:3000], "impl": v[:600], "model": mo[:600]}
        if mo.startswith(("accept", "reject")):
            res["front_sp:" + mo.split(" ")[0]] += 1
            if mo.startswith("accept") != v.startswith("accept"):
                report.violation(key_prefix + "-verdict-differs-from-spanned-model", "the front end says %s, the spanned model front end %s" % (v[:40], mo[:40]), rep)
                continue
            if mo.startswith("reject"):
                a = sorted(_canon_item(x) for x in v[7:].split(" ; "))
                b = sorted(_canon_item(x) for x in mo[7:].split(" ; "))
                if a != b:
                    report.violation(key_prefix + "-diagnostic-spans-differ-from-model", "diagnostics (kind | names | spans) differ from the spanned model's: %s"
                                     % lib.first_diff(a, b)[:200], rep)
            continue
        if mo != "parsefail":
            report.broken.append({"what": "the spanned model front end gave no answer", "detail": rep})
            break
        md = m2.get(cid, ["MISSING"])[0]
        rep["model"] = md[:600]
        res["parse_diag:" + md.split(" ")[0]] += 1
        if md == "none":
            if v.startswith("accept"):
                report.violation(key_prefix + "-verdict-differs-from-spanned-model", "accepted, but the model parser rejects the text", rep)
            continue                                      # a lexical error or LR error recovery: no claim about the diagnostics
        if md.startswith("diags "):
            if v.startswith("accept") or v[7:].split(" ; ") != md[6:].split(" ; "):
                report.violation(key_prefix + "-grammar-diagnostics-differ-from-model", "the grammar's diagnostics (kind, span, order) differ from the model's: %s vs %s"
                                 % (v[:160], md[:160]), rep)
            continue
        report.broken.append({"what": "unexpected answer of the model's diagnostic parser", "detail": rep})
        break
    return res
