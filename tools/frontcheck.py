"""The spanned front end of the model (SpanBuild.front_sp: lexer, spanned parser, spanned Program::new; and
ParseDiag.parse_text_diag: the grammar's diagnostic productions), extracted, against the real front end on the
same program text: verdict, and every diagnostic with its kind, names and SPANS (hook error_lines)."""
import collections
import lib, exprcheck


KNOWN_NON_ASCII = set(chr(c) for c in (160, 0x3000, 0x2003, 0x2028, 0x85, 233, 201, 252, 220, 0x3b1, 0x391, 0x4e2d, 0xb2, 0x661))


def classifiable(text):
    """The extracted model classifies only the few non-ASCII characters of Lexer.test_uclass (Rust's Unicode tables are a
    parameter of the model): texts with other non-ASCII characters outside comments are left to the implementation-level checks."""
    import re
    t = re.sub(r"/\*.*?\*/", " ", text, flags=re.S)
    t = re.sub(r"(#|//)[^\n\r]*", " ", t)
    return all(ord(c) < 128 or c in KNOWN_NON_ASCII for c in t)


def _canon_item(item):
    f = item.split("|")
    kind, names, spans = f[0], f[1] if len(f) > 1 else "", f[2] if len(f) > 2 else ""
    if kind == "WireLoop":
        names = "*"                                   # which loop is shown (and where it starts) follows the hash order
    if kind == "PartialFixedInput":
        a, _, b = names.partition(",/,")
        names = ",".join(sorted(a.split(","))) + "/" + ",".join(sorted(b.split(",")))
    return "%s|%s|%s" % (kind, names, spans)


def compare(report, texts, impl, key_prefix, features=None, limit=150, max_bytes=1500):
    """texts: {id: user text}; impl: the harness's `front` blocks.  Returns a Counter of outcomes."""
    if features is None:
        features = lib.default_features()
    fb = exprcheck.feature_bits(features)
    ids = [cid for cid in texts if len(texts[cid].encode()) <= max_bytes and classifiable(texts[cid]) and
           any(l.startswith(("accept", "reject")) for l in impl.get(cid, []))][:limit]
    driver = lib.build_driver()
    m1 = lib.run_cases(driver, ["%s mfrontsp %s %s" % (cid, fb, lib.hexs(texts[cid])) for cid in ids])
    need = [cid for cid in ids if m1.get(cid, ["?"])[0] == "parsefail"]
    m2 = lib.run_cases(driver, ["%s mpdiag %s" % (cid, lib.hexs(texts[cid])) for cid in need])
    res = collections.Counter()
    for cid in ids:
        blk = impl[cid]
        v = [l for l in blk if l.startswith(("accept", "reject"))][0]
        mo = m1.get(cid, ["MISSING"])[0]
        rep = {"text": texts[cid][:3000], "impl": v[:600], "model": mo[:600]}
        if mo.startswith(("accept", "reject")):
            res["front_sp:" + mo.split(" ")[0]] += 1
            if mo.startswith("accept") != v.startswith("accept"):
                report.violation(key_prefix + "-verdict-differs-from-spanned-model", "the front end says %s, the spanned model front end %s" % (v[:40], mo[:40]), rep)
                continue
            if mo.startswith("reject"):
                a = sorted(_canon_item(x) for x in v[7:].split(" ; "))
                b = sorted(_canon_item(x) for x in mo[7:].split(" ; "))
                if a != b:
                    report.violation(key_prefix + "-diagnostic-spans-differ-from-model", "diagnostics (kind | names | spans) differ from the spanned model's: %s"
                                     % lib.first_diff(a, b)[:200], rep)
            continue
        if mo != "parsefail":
            report.broken.append({"what": "the spanned model front end gave no answer", "detail": rep})
            break
        md = m2.get(cid, ["MISSING"])[0]
        rep["model"] = md[:600]
        res["parse_diag:" + md.split(" ")[0]] += 1
        if md.startswith("none"):
            if v.startswith("accept"):
                report.violation(key_prefix + "-verdict-differs-from-spanned-model", "accepted, but the model parser rejects the text", rep)
                continue
            if md.startswith("none syntax "):
                # LR error recovery: no claim about the further diagnostics, but the FIRST unexpected token is the
                # first token that cannot continue a sentence (ParseLoc.first_error_span_text)
                res["parse_loc:compared"] += 1
                first_unexp = [x for x in v[7:].split(" ; ") if x.startswith("UnrecognizedToken|")]
                want = md[len("none syntax "):]
                if first_unexp and first_unexp[0].split("|")[2] != want:
                    report.violation(key_prefix + "-syntax-error-location-differs-from-model", "the first unexpected token is reported at %s, the first token that cannot continue a sentence is at %s"
                                     % (first_unexp[0].split("|")[2], want), rep)
            continue
        if md.startswith("diags "):
            if v.startswith("accept") or v[7:].split(" ; ") != md[6:].split(" ; "):
                report.violation(key_prefix + "-grammar-diagnostics-differ-from-model", "the grammar's diagnostics (kind, span, order) differ from the model's: %s vs %s"
                                 % (v[:160], md[:160]), rep)
            continue
        report.broken.append({"what": "unexpected answer of the model's diagnostic parser", "detail": rep})
        break
    return res


def _blocks(text):
    """The error blocks of a diagnostic text: a block starts at a line beginning with 'error: '."""
    out = []
    for line in text.split("\n"):
        if line.startswith("error: ") or not out:
            out.append([line])
        else:
            out[-1].append(line)
    return ["\n".join(b).rstrip("\n") for b in out if any(x for x in b)]


def _canon_block(b):
    import re
    first = b.split("\n", 1)[0]
    if first.startswith("error: Circular dependency") or " set, but not the rest of the " in first:
        return "\n".join(sorted(re.split(r"[\s']+", b)))            # which loop / in which order the inputs are listed follows the hash order
    return re.sub(r"\(Did you mean '([^']*)'\?\)", lambda m: "(Did you mean '%s'?)" % m.group(1).lower(), b)


def compare_stderr(report, texts, impl, key_prefix, features=None, limit=150, max_bytes=1500):
    """The complete standard-error text, computed by the model FROM THE PROGRAM TEXT ALONE, against what the real
    renderer wrote (`render` line of the harness's `front` answer), as a multiset of error blocks."""
    if features is None:
        features = lib.default_features()
    fb = exprcheck.feature_bits(features)
    ids = [cid for cid in texts if len(texts[cid].encode()) <= max_bytes and classifiable(texts[cid]) and
           any(l.startswith(("accept", "reject")) for l in impl.get(cid, []))][:limit]
    model = lib.run_cases(lib.build_driver(), ["%s mstderr %s %s %s" % (cid, fb, lib.hexs("input.hcl"), lib.hexs(texts[cid])) for cid in ids])
    res = collections.Counter()
    for cid in ids:
        blk = impl[cid]
        v = [l for l in blk if l.startswith(("accept", "reject"))][0]
        rend = [l for l in blk if l.startswith("render ")]
        real = bytes.fromhex(rend[0][7:].replace("-", "")).decode("utf-8", "replace") if rend else ""
        mo = model.get(cid, ["MISSING"])
        rep = {"text": texts[cid][:3000], "impl_verdict": v[:300], "impl_stderr": real[:2000], "model": [l[:200] for l in mo[:6]]}
        if mo == ["none"]:
            res["stderr:none"] += 1
            if v.startswith("accept"):
                report.violation(key_prefix + "-verdict-differs-from-full-model", "accepted, but the model front end rejects the text", rep)
            continue
        if mo == ["accepted"]:
            res["stderr:accepted"] += 1
            if not v.startswith("accept"):
                report.violation(key_prefix + "-verdict-differs-from-full-model", "rejected (%s), but the model front end accepts the text" % v[:80], rep)
            continue
        if not mo or not all(l.startswith("block ") for l in mo):
            report.broken.append({"what": "the model's standard-error text could not be computed", "detail": rep})
            break
        res["stderr:blocks"] += 1
        if v.startswith("accept"):
            report.violation(key_prefix + "-verdict-differs-from-full-model", "accepted, but the model front end writes diagnostics", rep)
            continue
        if any(l == "block none" for l in mo):
            report.violation(key_prefix + "-render-would-panic", "the model says rendering one of the diagnostics panics", rep)
            continue
        mblocks = [bytes.fromhex(l[6:].replace("-", "")).decode("utf-8", "replace").rstrip("\n") for l in mo]
        a = sorted(_canon_block(b) for b in _blocks(real))
        b = sorted(_canon_block(b) for b in mblocks)
        if a != b:
            rep["model_stderr"] = "\n".join(mblocks)[:2000]
            report.violation(key_prefix + "-stderr-differs-from-model", "the text on standard error differs from the one the model computes from the program text: %s"
                             % lib.first_diff(a, b)[:240], rep)
    return res
