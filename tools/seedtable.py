#!/usr/bin/env python3
"""Prints the table of seeded changes and which check caught them (from seeded/*/meta.json, result.json)."""
import json, os
V = os.path.dirname(os.path.dirname(os.path.abspath(__file__)))
rows = []
for d in sorted(os.listdir(os.path.join(V, "seeded"))):
    mp, rp = os.path.join(V, "seeded", d, "meta.json"), os.path.join(V, "seeded", d, "result.json")
    if not os.path.exists(mp):
        continue
    m = json.load(open(mp))
    r = json.load(open(rp)) if os.path.exists(rp) else None
    what = " ".join(m.get("summary", "").split())[:150]
    if m.get("retired"):
        out, keys, first = "retired: " + m["retired"][:160], "", ""
    elif r is None:
        out, keys, first = "not run", "", ""
    else:
        ck = list(r.get("checks", {}).items())
        out = "caught" if r.get("detected") else "MISSED"
        keys = "; ".join("%s: %s" % (p, ", ".join(c.get("keys", [])[:3])) for p, c in ck)
        hist = r.get("history", [])
        first = ""
        if r.get("detected") and any(not h.get("detected") for h in hist if "detected" in h):
            first = " (missed before the generators were strengthened)"
    rows.append("| %s | %s | %s%s | %s |" % (d, what.replace("|", "/"), out, first, keys.replace("|", "/")))
print("| seed | change | outcome (quick tier) | violation keys |")
print("|---|---|---|---|")
print("\n".join(rows))
