(* Driver for the extracted model: same case protocol as the Rust harness. *)
open Glue

let out = Buffer.create 65536
let emit s = Buffer.add_string out s; Buffer.add_char out '\n'

let cmd_dis args =
  match args with
  | [h] ->
    let (n, text) = Model.disassemble (n_of_hex h) in
    emit (Printf.sprintf "%d %s" (int_of_n n) (hex_encode (ostr text)))
  | _ -> failwith "dis: bad arguments"

let dispatch cmd args =
  match cmd with
  | "dis" -> cmd_dis args
  | _ -> emit ("unknown command " ^ cmd)

let () =
  try
    while true do
      let line = input_line stdin in
      match List.filter (fun s -> s <> "") (Stdlib.String.split_on_char ' ' line) with
      | id :: cmd :: args ->
        Buffer.clear out;
        print_string ("#BEGIN " ^ id ^ "\n");
        (try dispatch cmd args
         with e -> emit ("DRIVER-EXCEPTION " ^ Printexc.to_string e));
        print_string (Buffer.contents out);
        print_string ("#END " ^ id ^ "\n")
      | _ -> ()
    done
  with End_of_file -> ()
