(* Driver for the extracted model: same case protocol and the same canonical output
   format as the Rust harness, so blocks can be compared textually. *)
open Glue
open Model

let out = Buffer.create 65536
let emit s = Buffer.add_string out s; Buffer.add_char out '\n'

(* ---- conversions from S-expressions -------------------------------------------------- *)
let width_of_atom (s : Stdlib.String.t) : width =
  if s = "u" then Unl else Bits (n_of_dec s)

let width_str (w : width) : Stdlib.String.t =
  match w with Unl -> "u" | Bits x -> Stdlib.string_of_int (int_of_n x)

let binop_of = function
  | "Add" -> Add | "Sub" -> Sub | "Mul" -> Mul | "Div" -> Div | "Or" -> Or | "Xor" -> Xor
  | "And" -> And | "Equal" -> Equal | "NotEqual" -> NotEqual | "LessEqual" -> LessEqual
  | "GreaterEqual" -> GreaterEqual | "Less" -> Less | "Greater" -> Greater
  | "LogicalAnd" -> LogicalAnd | "LogicalOr" -> LogicalOr | "LeftShift" -> LeftShift
  | "RightShift" -> RightShift | s -> failwith ("binop " ^ s)

let unop_of = function
  | "Plus" -> Plus | "Negate" -> Negate | "Complement" -> Complement | "Not" -> Not
  | s -> failwith ("unop " ^ s)

let num_of_atom (s : Stdlib.String.t) : n =
  if Stdlib.String.length s > 2 && Stdlib.String.sub s 0 2 = "0x"
  then n_of_hex (Stdlib.String.sub s 2 (Stdlib.String.length s - 2)) else n_of_dec s

let rec expr_of (s : sexp) : expr =
  match s with
  | L [Atom "c"; Atom b; Atom w] -> EConst { bits = num_of_atom b; wd = width_of_atom w }
  | L [Atom "w"; Atom name] -> EWire (cstr name)
  | L [Atom "b"; Atom op; l; r] -> EBin (binop_of op, expr_of l, expr_of r)
  | L [Atom "u"; Atom op; e] -> EUn (unop_of op, expr_of e)
  | L (Atom "m" :: arms) -> EMux (arms_of arms)
  | L [Atom "s"; e; Atom lo; Atom hi] -> ESlice (expr_of e, n_of_dec lo, n_of_dec hi)
  | L [Atom "cat"; l; r] -> ECat (expr_of l, expr_of r)
  | L (Atom "in" :: e :: items) -> EIn (expr_of e, items_of items)
  | _ -> failwith "expr_of: bad expression"
and arms_of = function
  | [] -> ANil
  | L [Atom "arm"; c; v] :: rest -> ACons (expr_of c, expr_of v, arms_of rest)
  | _ -> failwith "arms_of"
and items_of = function
  | [] -> XNil
  | e :: rest -> XCons (expr_of e, items_of rest)

let opt_of (s : Stdlib.String.t) = if s = "-" then None else Some (cstr s)

let action_of (s : sexp) : action =
  match s with
  | L [Atom "assign"; Atom name; Atom w; e] -> AAssign (cstr name, expr_of e, width_of_atom w)
  | L [Atom "rdreg"; Atom num; Atom outp] -> AReadReg (cstr num, cstr outp)
  | L [Atom "rdmem"; Atom en; Atom addr; Atom outp; Atom nb; Atom isi] ->
    AReadMemory (opt_of en, cstr addr, cstr outp, n_of_dec nb, isi = "1")
  | L [Atom "wrreg"; Atom num; Atom inp] -> AWriteReg (cstr num, cstr inp)
  | L [Atom "wrmem"; Atom en; Atom addr; Atom inp; Atom nb] ->
    AWriteMemory (opt_of en, cstr addr, cstr inp, n_of_dec nb)
  | L [Atom "status"; Atom w] -> ASetStatus (cstr w)
  | _ -> failwith "action_of"

let wtype_of = function
  | "Constant" -> TConstant | "BuiltinInput" -> TBuiltinInput | "BuiltinOutput" -> TBuiltinOutput
  | "RegisterBankInput" -> TRegisterBankInput | "RegisterBankOutput" -> TRegisterBankOutput
  | "RegisterBankSpecial" -> TRegisterBankSpecial | "Normal" -> TNormal
  | s -> failwith ("wtype " ^ s)

let bank_of (s : sexp) : bank =
  match s with
  | L (Atom "bank" :: Atom label :: Atom stall :: Atom bubble :: rest) ->
    let sigs = List.filter_map (function
        | L [Atom "sig"; Atom i; Atom o; Atom w; Atom db; Atom dw] ->
          Some (((cstr i, cstr o), width_of_atom w), (cstr o, { bits = num_of_atom db; wd = width_of_atom dw }))
        | _ -> None) rest in
    { b_label = cstr label; b_signals = List.map fst sigs; b_defaults = List.map snd sigs;
      b_stall = cstr stall; b_bubble = cstr bubble }
  | _ -> failwith "bank_of"

let program_of (s : sexp) : program =
  match s with
  | L [Atom "prog"; L (Atom "consts" :: consts); L (Atom "banks" :: banks);
       L (Atom "actions" :: actions); L (Atom "defaulted" :: defaulted); L (Atom "types" :: types)] ->
    { p_consts = List.map (function
          | L [Atom name; Atom b; Atom w] -> (cstr name, { bits = num_of_atom b; wd = width_of_atom w })
          | _ -> failwith "const") consts;
      p_banks = List.map bank_of banks;
      p_actions = List.map action_of actions;
      p_defaulted = List.map (function Atom a -> cstr a | _ -> failwith "defaulted") defaulted;
      p_types = List.map (function
          | L [Atom name; Atom t] -> (cstr name, wtype_of t)
          | _ -> failwith "type") types }
  | _ -> failwith "program_of"

(* ---- printers (must match the harness) ------------------------------------------------ *)
let errs_str (es : err list) : Stdlib.String.t =
  Stdlib.String.concat " ; "
    (List.map (fun e -> ostr (ekind_name e.ek) ^ "|" ^ Stdlib.String.concat "," (List.map ostr e.enames)) es)

let value_str (v : wval) = hex_of_n v.bits ^ "/" ^ width_str v.wd

let values_line (vals : (Model.string * wval) list) : Stdlib.String.t =
  let items = List.map (fun (k, v) -> ostr k ^ "=" ^ value_str v) vals in
  Stdlib.String.concat "," (List.sort compare items)

let regs_line (r : n list) = Stdlib.String.concat "," (List.map hex_of_n r)

let mem_line (m : (n * n) list) =
  if m = [] then "-" else
    Stdlib.String.concat "," (List.map (fun (a, b) ->
        let h = hex_of_n b in hex_of_n a ^ "=" ^ (if Stdlib.String.length h < 2 then "0" ^ h else h)) m)

let b01 b = if b then "1" else "0"

let state_lines (o : options) (s : mstate) =
  emit ("regs " ^ regs_line s.regs);
  emit ("mem " ^ mem_line s.mem);
  emit (Printf.sprintf "flags cycle=%d done=%s halted=%s timedout=%s stat=%s"
          (int_of_n s.cycle) (b01 (done0 o s)) (b01 (halted s)) (b01 (timed_out o s))
          (match s.last_status with Some x -> Stdlib.string_of_int (int_of_n x) | None -> "-"))

let make_options (flags : Stdlib.String.t) (timeout : Stdlib.String.t) : options =
  let o = ref default_options in
  Stdlib.String.iter (fun c ->
      match c with
      | 'q' -> o := set_quiet !o
      | 'd' -> o := set_debug !o
      | 't' -> o := set_test !o
      | 'u' -> o := set_no_group !o
      | 'a' -> o := set_trace_assignments !o
      | '-' -> ()
      | _ -> failwith "bad option flag") flags;
  set_timeout !o (n_of_dec timeout)

let features_of (s : Stdlib.String.t) : features =
  (* five characters 0/1: sbo swb rmd dmd duo *)
  { f_sbo = s.[0] = '1'; f_swb = s.[1] = '1'; f_rmd = s.[2] = '1'; f_dmd = s.[3] = '1'; f_duo = s.[4] = '1' }

let mem_of_atom (s : Stdlib.String.t) : (n * n) list =
  if s = "-" then [] else
    List.fold_left (fun m item ->
        match Stdlib.String.split_on_char '=' item with
        | [a; b] -> mem_put m (n_of_hex a) (n_of_hex b)
        | _ -> failwith "mem item") [] (Stdlib.String.split_on_char ',' s)

let inject (s : mstate) (spec : Stdlib.String.t) : mstate =
  let kind = spec.[0] in
  let rest = Stdlib.String.sub spec 1 (Stdlib.String.length spec - 1) in
  match Stdlib.String.index_opt rest '=' with
  | None -> failwith "inject"
  | Some i ->
    let key = Stdlib.String.sub rest 0 i in
    let v = Stdlib.String.sub rest (i + 1) (Stdlib.String.length rest - i - 1) in
    (match kind with
     | 'r' -> { s with regs = set_nth s.regs (nat_of_int (int_of_string key)) (n_of_hex v) }
     | 'm' -> { s with mem = mem_put s.mem (n_of_hex key) (n_of_hex v) }
     | 'v' ->
       (match Stdlib.String.split_on_char '/' v with
        | [b; w] -> { s with values = upd s.values (cstr key) { bits = n_of_hex b; wd = width_of_atom w } }
        | _ -> failwith "inject value")
     | _ -> failwith "inject kind")

(* ---- commands ------------------------------------------------------------------------- *)
let cmd_dis args =
  match args with
  | [h] ->
    let (n, text) = disassemble (n_of_hex h) in
    emit (Printf.sprintf "%d %s" (int_of_n n) (hex_encode (ostr text)))
  | _ -> failwith "dis: bad arguments"

(* msim <features> <compiledhex> <mem> <cycles> <flags> <timeout> [inject...] *)
let cmd_msim args =
  match args with
  | feat :: comp :: mem0 :: cycles :: flags :: timeout :: injects ->
    let f = features_of feat in
    let p = program_of (parse_sexp (hex_decode comp)) in
    let o = make_options flags timeout in
    (match initial_state p with
     | Err es -> emit ("init err " ^ errs_str es)
     | Ok s0 ->
       let s = ref (List.fold_left inject { s0 with mem = mem_of_atom mem0 } injects) in
       state_lines o !s;
       (try
          for _ = 1 to int_of_string cycles do
            emit ("pre " ^ values_line !s.values);
            (match step f o p !s with
             | Ok (s1, text) ->
               emit "step ok";
               emit ("out " ^ hex_encode (ostr text));
               s := s1;
               emit ("post " ^ values_line !s.values);
               state_lines o !s
             | Err es -> emit ("step err " ^ errs_str es); raise Exit)
          done;
          (match dump_y86 o p !s with
           | Ok t -> emit ("dump " ^ hex_encode (ostr t))
           | Err es -> emit ("dump err " ^ errs_str es))
        with Exit -> ()))
  | _ -> failwith "msim: bad arguments"

(* mrun <features> <compiledhex> <mem> <flags> <timeout> [inject...] *)
let cmd_mrun args =
  match args with
  | feat :: comp :: mem0 :: flags :: timeout :: injects ->
    let f = features_of feat in
    let p = program_of (parse_sexp (hex_decode comp)) in
    let o = make_options flags timeout in
    (match initial_state p with
     | Err es -> emit ("init err " ^ errs_str es)
     | Ok s0 ->
       let s0 = List.fold_left inject { s0 with mem = mem_of_atom mem0 } injects in
       (* fuel = the cycle budget (C06_terminates: that always suffices), capped so that a huge
          budget is not materialised as a unary number: a run that needs more than the cap ends
          in the explicit OutOfFuel error, which the comparison reports *)
       let fuel = nat_of_int (min (int_of_string timeout) 300000 + 1) in
       (match run fuel f o p s0 with
        | Ok (s, text) ->
          emit "run ok";
          emit ("out " ^ hex_encode (ostr text));
          emit ("values " ^ values_line s.values);
          state_lines o s;
          (match dump_y86 o p s with
           | Ok t -> emit ("dump " ^ hex_encode (ostr t))
           | Err es -> emit ("dump err " ^ errs_str es))
        | Err es -> emit ("run err " ^ errs_str es)))
  | _ -> failwith "mrun: bad arguments"

(* mexpr <features> <sexprhex> [name:width:bitshex:isconst ...] *)
let cmd_mexpr args =
  match args with
  | feat :: sx :: env ->
    let f = features_of feat in
    let e = expr_of (parse_sexp (hex_decode sx)) in
    let entries = List.map (fun spec ->
        match Stdlib.String.split_on_char ':' spec with
        | [name; w; b; c] -> (cstr name, { bits = n_of_hex b; wd = width_of_atom w }, c = "1")
        | _ -> failwith "env") env in
    let vals = List.map (fun (k, v, _) -> (k, v)) entries in
    let consts = List.filter_map (fun (k, v, c) -> if c then Some (k, v) else None) entries in
    let g name = match lookup vals name with Some v -> Some v.wd | None -> None in
    (match check f g (lookup consts) e with
     | Ok w -> emit ("check ok " ^ width_str w)
     | Err es -> emit ("check err " ^ errs_str es));
    (match eval f (lookup vals) e with
     | Ok v -> emit ("eval ok " ^ value_str v)
     | Err es -> emit ("eval err " ^ errs_str es))
  | _ -> failwith "mexpr: bad arguments"

(* mem <a=v,...|-> <op>... *)
let cmd_mem args =
  match args with
  | m0 :: ops ->
    let m = ref (mem_of_atom m0) in
    List.iter (fun op ->
        let kind = op.[0] in
        let f = Stdlib.String.split_on_char ':' (Stdlib.String.sub op 1 (Stdlib.String.length op - 1)) in
        match kind, f with
        | 'r', [a; nb] ->
          let v = mem_read !m (n_of_hex a) (n_of_dec nb) in
          emit ("read " ^ value_str v)
        | 'w', [a; v; nb] -> m := mem_write !m (n_of_hex a) (n_of_hex v) (n_of_dec nb)
        | _ -> failwith "mem op") ops;
    emit ("mem " ^ mem_line !m);
    emit ("dump " ^ hex_encode (ostr (dump_memory !m)))
  | _ -> failwith "mem: bad arguments"

(* mgraph <nodes a,b,..> <succ n>a,b;...|-> <nedges> <implkind order|cycle> <implanswer> *)
let ints_of (s : Stdlib.String.t) : n list =
  if s = "-" then [] else List.map n_of_dec (Stdlib.String.split_on_char ',' s)

let show_ns (l : n list) : Stdlib.String.t =
  if l = [] then "-" else Stdlib.String.concat "," (List.map (fun x -> Stdlib.string_of_int (int_of_n x)) l)

let cmd_mgraph args =
  match args with
  | nodes :: succ :: nedges :: kind :: answer :: _ ->
    let succs = if succ = "-" then [] else
        List.map (fun item ->
            match Stdlib.String.split_on_char '>' item with
            | [a; l] -> (n_of_dec a, ints_of l)
            | _ -> failwith "succ item") (Stdlib.String.split_on_char ';' succ) in
    let g = { g_nodes = ints_of nodes; g_succ = succs; g_num_edges = n_of_dec nedges } in
    (match toposortN g with
     | Ok (Inl order) -> emit ("order " ^ show_ns order)
     | Ok (Inr c) -> emit ("cycle " ^ show_ns c)
     | Err es -> emit ("err " ^ errs_str es));
    let ans = ints_of answer in
    (match kind with
     | "order" -> emit ("implcheck " ^ b01 (is_linear_extensionN g ans))
     | "cycle" -> emit ("implcheck " ^ b01 (is_cycleN g ans))
     | _ -> emit "implcheck ?")
  | _ -> failwith "mgraph: bad arguments"

(* myo <filehex> *)
let bytes_of (s : Stdlib.String.t) : n list =
  List.init (Stdlib.String.length s) (fun i -> n_of_int (Char.code s.[i]))

let cmd_myo args =
  match args with
  | [h] ->
    (match load_from_y86 [] (bytes_of (hex_decode h)) with
     | Ok m -> emit ("ok " ^ mem_line m)
     | Err es -> emit ("err " ^ Stdlib.String.concat "," (List.map (fun e -> ostr (ekind_name e.ek)) es)))
  | _ -> failwith "myo: bad arguments"

(* ---- S-expression printers (same shapes as the hooks print) ------------------------------ *)
let rec sexp_of_expr (e : expr) : Stdlib.String.t =
  match e with
  | EConst v -> Printf.sprintf "(c 0x%s %s)" (hex_of_n v.bits) (width_str v.wd)
  | EWire n -> "(w " ^ ostr n ^ ")"
  | EBin (op, l, r) -> Printf.sprintf "(b %s %s %s)" (binop_name op) (sexp_of_expr l) (sexp_of_expr r)
  | EUn (op, e1) -> Printf.sprintf "(u %s %s)" (unop_name op) (sexp_of_expr e1)
  | EMux a -> "(m" ^ sexp_of_arms a ^ ")"
  | ESlice (e1, lo, hi) -> Printf.sprintf "(s %s %d %d)" (sexp_of_expr e1) (int_of_n lo) (int_of_n hi)
  | ECat (l, r) -> Printf.sprintf "(cat %s %s)" (sexp_of_expr l) (sexp_of_expr r)
  | EIn (e1, items) -> "(in " ^ sexp_of_expr e1 ^ sexp_of_items items ^ ")"
and sexp_of_arms = function
  | ANil -> ""
  | ACons (c, v, rest) -> Printf.sprintf " (arm %s %s)" (sexp_of_expr c) (sexp_of_expr v) ^ sexp_of_arms rest
and sexp_of_items = function
  | XNil -> ""
  | XCons (e, rest) -> " " ^ sexp_of_expr e ^ sexp_of_items rest
and binop_name = function
  | Add -> "Add" | Sub -> "Sub" | Mul -> "Mul" | Div -> "Div" | Or -> "Or" | Xor -> "Xor" | And -> "And"
  | Equal -> "Equal" | NotEqual -> "NotEqual" | LessEqual -> "LessEqual" | GreaterEqual -> "GreaterEqual"
  | Less -> "Less" | Greater -> "Greater" | LogicalAnd -> "LogicalAnd" | LogicalOr -> "LogicalOr"
  | LeftShift -> "LeftShift" | RightShift -> "RightShift"
and unop_name = function Plus -> "Plus" | Negate -> "Negate" | Complement -> "Complement" | Not -> "Not"

let opt_name = function Some s -> ostr s | None -> "-"

let sexp_of_action (a : action) : Stdlib.String.t =
  match a with
  | AAssign (n, e, w) -> Printf.sprintf "(assign %s %s %s)" (ostr n) (width_str w) (sexp_of_expr e)
  | AReadReg (n, o) -> Printf.sprintf "(rdreg %s %s)" (ostr n) (ostr o)
  | AReadMemory (en, a, o, nb, isi) ->
    Printf.sprintf "(rdmem %s %s %s %d %s)" (opt_name en) (ostr a) (ostr o) (int_of_n nb) (b01 isi)
  | AWriteReg (n, i) -> Printf.sprintf "(wrreg %s %s)" (ostr n) (ostr i)
  | AWriteMemory (en, a, i, nb) -> Printf.sprintf "(wrmem %s %s %s %d)" (opt_name en) (ostr a) (ostr i) (int_of_n nb)
  | ASetStatus w -> Printf.sprintf "(status %s)" (ostr w)

let wtype_name = function
  | TConstant -> "Constant" | TBuiltinInput -> "BuiltinInput" | TBuiltinOutput -> "BuiltinOutput"
  | TRegisterBankInput -> "RegisterBankInput" | TRegisterBankOutput -> "RegisterBankOutput"
  | TRegisterBankSpecial -> "RegisterBankSpecial" | TNormal -> "Normal"

let sexp_of_program (p : program) : Stdlib.String.t =
  let consts = List.sort compare (List.map (fun (n, v) -> Printf.sprintf "(%s 0x%s %s)" (ostr n) (hex_of_n v.bits) (width_str v.wd)) p.p_consts) in
  let bank b =
    let sigs = List.map (fun ((i, o), w) ->
        let d = match lookup b.b_defaults o with Some d -> d | None -> { bits = N0; wd = Unl } in
        Printf.sprintf "(sig %s %s %s 0x%s %s)" (ostr i) (ostr o) (width_str w) (hex_of_n d.bits) (width_str d.wd)) b.b_signals in
    Printf.sprintf "(bank %s %s %s %s (ndefaults %d))" (ostr b.b_label) (ostr b.b_stall) (ostr b.b_bubble)
      (Stdlib.String.concat " " sigs) (List.length b.b_defaults) in
  Printf.sprintf "(prog (consts %s) (banks %s) (actions %s) (defaulted %s) (types %s))"
    (Stdlib.String.concat " " consts)
    (Stdlib.String.concat " " (List.map bank p.p_banks))
    (Stdlib.String.concat " " (List.map sexp_of_action p.p_actions))
    (Stdlib.String.concat " " (List.sort compare (List.map ostr p.p_defaulted)))
    (Stdlib.String.concat " " (List.sort compare (List.map (fun (n, t) -> Printf.sprintf "(%s %s)" (ostr n) (wtype_name t)) p.p_types)))

(* ---- statements -------------------------------------------------------------------------- *)
let stmt_of (s : sexp) : stmt =
  match s with
  | L (Atom "const" :: decls) ->
    SConst (List.map (function L [Atom "def"; Atom n; e] -> (cstr n, expr_of e) | _ -> failwith "const decl") decls)
  | L (Atom "wire" :: decls) ->
    SWire (List.map (function L [Atom "decl"; Atom n; Atom w] -> (cstr n, width_of_atom w) | _ -> failwith "wire decl") decls)
  | L (Atom "assign" :: sets) ->
    SAssign (List.map (function
        | L [Atom "set"; L names; e] -> (List.map (function Atom a -> cstr a | _ -> failwith "name") names, expr_of e)
        | _ -> failwith "set") sets)
  | L (Atom "register" :: Atom name :: regs) ->
    SBank (cstr name, List.map (function
        | L [Atom "reg"; Atom n; Atom w; e] -> ((cstr n, width_of_atom w), expr_of e)
        | _ -> failwith "reg") regs)
  | _ -> failwith "stmt_of"

(* mbuild <features> <hex of "(stmt stmt ...)"> *)
let cmd_mbuild args =
  match args with
  | [feat; h] ->
    let stmts = match parse_sexp (hex_decode h) with L l -> List.map stmt_of l | _ -> failwith "stmts" in
    (match build_program (features_of feat) gen_fixed test_lower test_upper stmts with
     | Ok p ->
       emit ("accept " ^ sexp_of_program p);
       emit ("valid_schedule " ^ b01 (valid_schedule (known0 p) p.p_actions))
     | Err es ->
       emit ("reject " ^ Stdlib.String.concat " ; "
               (List.sort compare (List.map (fun e -> ostr (ekind_name e.ek) ^ "|" ^ Stdlib.String.concat "," (List.map ostr e.enames)) es))))
  | _ -> failwith "mbuild: bad arguments"

(* mvalid <compiledhex>: the valid_schedule predicate on a compiled program (the implementation's) *)
let cmd_mvalid args =
  match args with
  | [h] ->
    let p = program_of (parse_sexp (hex_decode h)) in
    emit ("valid_schedule " ^ b01 (valid_schedule (known0 p) p.p_actions))
  | _ -> failwith "mvalid: bad arguments"

(* region <prehex> <userhex> <start> <end> *)
let string_of_bytes (l : n list) : Stdlib.String.t =
  let b = Buffer.create 64 in
  List.iter (fun x -> Buffer.add_char b (Char.chr (int_of_n x))) l;
  Buffer.contents b

let cmd_mregion args =
  match args with
  | [pre; user; s; e] ->
    let fc = new_from_data (bytes_of (hex_decode pre)) (bytes_of (hex_decode user)) (bytes_of "F") in
    (match show_region fc (nat_of_int (int_of_string s)) (nat_of_int (int_of_string e)) with
     | Some t -> emit ("region " ^ hex_encode (string_of_bytes t))
     | None -> emit "PANIC")
  | _ -> failwith "region: bad arguments"

(* mcli <opts_ok> <help> <version> <check> <hcl U|R|A> <yo M|U|L> <sim C|A> <free arg hex>... *)
let cmd_mcli args =
  match args with
  | ok :: h :: v :: c :: hcl :: yo :: sim :: free ->
    let inv = { i_opts_ok = ok = "1"; i_help = h = "1"; i_version = v = "1"; i_check = c = "1";
                i_free = List.map (fun x -> cstr (hex_decode x)) free;
                i_hcl = (match hcl with "U" -> HclUnreadable | "R" -> HclRejected | _ -> HclAccepted);
                i_yo = (match yo with "M" -> YoMissing | "U" -> YoUnloadable | _ -> YoLoadable);
                i_sim = (match sim with "A" -> SimAborts | _ -> SimCompletes) } in
    let (code, w) = main_model inv in
    emit (Printf.sprintf "exit %d %s" (int_of_n code)
            (match w with
             | PrintedUsage -> "usage" | PrintedVersion -> "version" | SyntaxOK -> "syntaxok"
             | FinalState t -> "final " ^ Stdlib.string_of_int (int_of_n t)
             | Message m -> "message " ^ ostr m))
  | _ -> failwith "mcli: bad arguments"

(* margv <n> <arg hex>*n <entry>* : the decision of main over the RAW argument vector (CliArgs.main_in_world);
   entry = <name hex>:<U|R|A>:<M|U|L>:<abort threshold or -> says what the file of that name is for the front
   end, for the loader, and from which cycle budget on its simulation aborts *)
let cmd_margv args =
  match args with
  | n :: rest ->
    let n = int_of_string n in
    let rec split k l acc = if k = 0 then (List.rev acc, l) else (match l with x :: r -> split (k - 1) r (x :: acc) | [] -> failwith "margv: too few arguments") in
    let (argv, entries) = split n rest [] in
    let argv = List.map (fun x -> cstr (hex_decode x)) argv in
    let table = List.map (fun e ->
        match Stdlib.String.split_on_char ':' e with
        | [nm; hk; yk; ab] -> (hex_decode nm, (hk, yk, ab))
        | _ -> failwith "margv: bad entry") entries in
    let find nm = try Some (List.assoc (ostr nm) table) with Not_found -> None in
    let w = { w_hcl = (fun nm -> match find nm with Some ("R", _, _) -> HclRejected | Some ("A", _, _) -> HclAccepted | _ -> HclUnreadable);
              w_yo = (fun nm -> match find nm with Some (_, "L", _) -> YoLoadable | Some (_, "U", _) -> YoUnloadable | _ -> YoMissing);
              w_sim = (fun f _ budget -> match find f with
                  | Some (_, _, ab) when ab <> "-" -> if int_of_n budget >= int_of_string ab then SimAborts else SimCompletes
                  | _ -> SimCompletes) } in
    let (code, wh) = main_in_world w argv in
    emit (Printf.sprintf "exit %d %s" (int_of_n code)
            (match wh with
             | PrintedUsage -> "usage" | PrintedVersion -> "version" | SyntaxOK -> "syntaxok"
             | FinalState t -> "final " ^ Stdlib.string_of_int (int_of_n t)
             | Message m -> "message " ^ ostr m))
  | _ -> failwith "margv: bad arguments"

(* mtool <program name hex> <n> <namehex:contenthex>*n <arghex>*: the whole command composed in the model:
   exit status and standard output *)
let cmd_mtool args =
  match args with
  | prog :: n :: rest ->
    let n = int_of_string n in
    let rec split k l acc = if k = 0 then (List.rev acc, l) else (match l with x :: r -> split (k - 1) r (x :: acc) | [] -> failwith "mtool: too few arguments") in
    let (entries, argv) = split n rest [] in
    let table = List.map (fun e ->
        match Stdlib.String.split_on_char ':' e with
        | [nm; content] -> (cstr (hex_decode nm), bytes_of (hex_decode content))
        | _ -> failwith "mtool: bad entry") entries in
    let argv = List.map (fun x -> cstr (hex_decode x)) argv in
    let ((code, out), err) = tool_full (cstr (hex_decode prog)) (files_of table) argv in
    emit (Printf.sprintf "exit %d" (int_of_n code));
    emit ("stdout " ^ hex_encode (ostr out));
    (match err with
     | Some e -> emit ("stderr " ^ hex_encode (ostr e))
     | None -> emit "stderr none")
  | _ -> failwith "mtool: bad arguments"

(* mrender <preamble hex> <user text hex> <file name hex> <errsexp hex>*: the model of Error::format_for_contents
   on the errors as the real program dumped them (hook error_sexprs): the text it writes, or "none" *)
let unh (a : Stdlib.String.t) : Stdlib.String.t = hex_decode (Stdlib.String.sub a 1 (Stdlib.String.length a - 1))
let rs = function Atom a -> cstr (unh a) | _ -> failwith "rerror: string"
let ro = function Atom "none" -> None | Atom a -> Some (cstr (unh a)) | _ -> failwith "rerror: option"
let rls = function L l -> List.map rs l | _ -> failwith "rerror: string list"
let rp = function
  | Atom a ->
    (match Stdlib.String.split_on_char ':' (Stdlib.String.sub a 1 (Stdlib.String.length a - 1)) with
     | [s; e] -> (nat_of_int (int_of_string s), nat_of_int (int_of_string e))
     | _ -> failwith "rerror: span")
  | _ -> failwith "rerror: span"
let rl = function Atom a -> nat_of_int (int_of_string (Stdlib.String.sub a 1 (Stdlib.String.length a - 1))) | _ -> failwith "rerror: loc"
let rw = function Atom a -> width_of_atom a | _ -> failwith "rerror: width"
let rlp = function L l -> List.map rp l | _ -> failwith "rerror: span list"
let rlw = function L l -> List.map rw l | _ -> failwith "rerror: width list"
let rn = function Atom a -> n_of_dec a | _ -> failwith "rerror: number"

let rerror_of (x : sexp) : rerror =
  match x with
  | L [Atom "MismatchedMuxWidths"; x0; x1] -> RMismatchedMuxWidths (rlp x0, rlw x1)
  | L [Atom "MismatchedExprWidths"; x0; x1; x2; x3] -> RMismatchedExprWidths (rp x0, rw x1, rp x2, rw x3)
  | L [Atom "MismatchedWireWidths"; x0; x1; x2; x3] -> RMismatchedWireWidths (rs x0, rw x1, rp x2, rw x3)
  | L [Atom "MismatchedRegisterDefaultWidths"; x0; x1; x2; x3; x4] -> RMismatchedRegisterDefaultWidths (rs x0, rs x1, rw x2, rp x3, rw x4)
  | L [Atom "DuplicateRegister"; x0; x1] -> RDuplicateRegister (rs x0, rs x1)
  | L [Atom "RuntimeMismatchedWidths"] -> RRuntimeMismatchedWidths
  | L [Atom "DivisionByZero"] -> RDivisionByZero
  | L [Atom "UndeclaredWireAssigned"; x0; x1; x2] -> RUndeclaredWireAssigned (rs x0, rp x1, ro x2)
  | L [Atom "UndeclaredWireRead"; x0; x1; x2] -> RUndeclaredWireRead (rs x0, rp x1, ro x2)
  | L [Atom "NonConstantWireRead"; x0; x1] -> RNonConstantWireRead (rs x0, rp x1)
  | L [Atom "UnsetWire"; x0; x1] -> RUnsetWire (rs x0, rp x1)
  | L [Atom "UnsetBuiltinWire"; x0] -> RUnsetBuiltinWire (rs x0)
  | L [Atom "UnsetUndeclaredWire"; x0] -> RUnsetUndeclaredWire (rs x0)
  | L [Atom "UnsetRegisterInputWire"; x0; x1] -> RUnsetRegisterInputWire (rs x0, rp x1)
  | L [Atom "RedeclaredWire"; x0; x1; x2] -> RRedeclaredWire (rs x0, rp x1, rp x2)
  | L [Atom "DoubleAssignedWire"; x0; x1; x2] -> RDoubleAssignedWire (rs x0, rp x1, rp x2)
  | L [Atom "DoubleAssignedRegisterWire"; x0; x1; x2] -> RDoubleAssignedRegisterWire (rs x0, rp x1, rp x2)
  | L [Atom "DoubleDeclaredRegisterOutWire"; x0; x1; x2] -> RDoubleDeclaredRegisterOutWire (rs x0, rp x1, rp x2)
  | L [Atom "DoubleAssignedFixedOutWire"; x0; x1; x2] -> RDoubleAssignedFixedOutWire (rs x0, rp x1, rs x2)
  | L [Atom "ConstantAssigned"; x0; x1; x2] -> RConstantAssigned (rs x0, rp x1, rp x2)
  | L [Atom "RedeclaredBuiltinWire"; x0; x1; x2] -> RRedeclaredBuiltinWire (rs x0, rp x1, rs x2)
  | L [Atom "PartialFixedInput"; x0; x1; x2] -> RPartialFixedInput (rs x0, rls x1, rls x2)
  | L [Atom "WireLoop"; x0] -> RWireLoop (rls x0)
  | L [Atom "InvalidWireWidth"; x0] -> RInvalidWireWidth (rp x0)
  | L [Atom "InvalidRegisterBankName"; x0; x1] -> RInvalidRegisterBankName (rs x0, rp x1)
  | L [Atom "InvalidBitIndex"; x0; x1] -> RInvalidBitIndex (rp x0, rn x1)
  | L [Atom "NonBooleanWidth"; x0] -> RNonBooleanWidth (rp x0)
  | L [Atom "NoBitWidth"; x0] -> RNoBitWidth (rp x0)
  | L [Atom "MisorderedBitIndexes"; x0] -> RMisorderedBitIndexes (rp x0)
  | L [Atom "InvalidConstant"; x0] -> RInvalidConstant (rp x0)
  | L [Atom "WireTooWide"; x0] -> RWireTooWide (rp x0)
  | L [Atom "ExpectedStatementFoundExpr"; x0] -> RExpectedStatementFoundExpr (rp x0)
  | L [Atom "UnterminatedComment"; x0] -> RUnterminatedComment (rl x0)
  | L [Atom "LexicalError"; x0] -> RLexicalError (rl x0)
  | L [Atom "InternalParserErrorNear"; x0; x1] -> RInternalParserErrorNear (rp x0, rs x1)
  | L [Atom "MissingWireWidth"; x0] -> RMissingWireWidth (rp x0)
  | L [Atom "WireAssignedInDeclaration"; x0] -> RWireAssignedInDeclaration (rp x0)
  | L [Atom "MissingRegisterWidth"; x0] -> RMissingRegisterWidth (rp x0)
  | L [Atom "AddedConstWidth"; x0] -> RAddedConstWidth (rp x0)
  | L [Atom "MissingAssignmentMux"; x0] -> RMissingAssignmentMux (rp x0)
  | L [Atom "RegisterDeclaredWithWire"; x0] -> RRegisterDeclaredWithWire (rp x0)
  | L [Atom "NoMuxDefaultOption"; x0] -> RNoMuxDefaultOption (rp x0)
  | L [Atom "MultipleMuxDefaultOption"; x0] -> RMultipleMuxDefaultOption (rp x0)
  | L [Atom "UnreachableOptions"; x0] -> RUnreachableOptions (rp x0)
  | L [Atom "EmptyFile"] -> REmptyFile
  | L [Atom "UnparseableLine"; x0] -> RUnparseableLine (rs x0)
  | L [Atom "InvalidToken"; x0] -> RInvalidToken (rl x0)
  | L [Atom "UnrecognizedToken"; x0; x1] -> RUnrecognizedToken (rp x0, rls x1)
  | L [Atom "ExtraToken"; x0] -> RExtraToken (rp x0)
  | L [Atom "IoError"] -> RIoError
  | L [Atom "FmtError"] -> RFmtError
  | _ -> failwith "rerror: unknown variant"

let cmd_mrender args =
  match args with
  | pre :: user :: fname :: errs ->
    let fc = new_from_data (bytes_of (hex_decode pre)) (bytes_of (hex_decode user)) (bytes_of (hex_decode fname)) in
    let es = List.map (fun h -> rerror_of (parse_sexp (hex_decode h))) errs in
    (match render_all test_uclass fc es with
     | Some t -> emit ("render " ^ hex_encode (ostr t))
     | None -> emit "render none");
    List.iter (fun e -> emit ("spans " ^ Stdlib.String.concat "," (List.map (fun (a, b) -> Printf.sprintf "%d:%d" (int_of_nat a) (int_of_nat b)) (hook_spans e)))) es
  | _ -> failwith "mrender: bad arguments"

(* mfrontsp <features> <user text hex>: compiled preamble ++ text through the spanned front end (lexer, spanned parser,
   spanned Program::new): accept, or every diagnostic with its names and spans as the hook error_lines prints them *)
let span_list l = Stdlib.String.concat "," (List.map (fun (a, b) -> Printf.sprintf "%d:%d" (int_of_nat a) (int_of_nat b)) l)
let cmd_mfrontsp args =
  match args with
  | [feat; h] ->
    let tiers = match gen_tiers with Some t -> t | None -> [] in
    let text = ostr gen_preamble ^ hex_decode h in
    (match front_sp (features_of feat) gen_fixed test_lower test_upper test_uclass tiers (bytes_of text) with
     | None -> emit "parsefail"
     | Some (SOk _) -> emit "accept"
     | Some (SErr es) ->
       emit ("reject " ^ Stdlib.String.concat " ; "
               (List.map (fun e -> ostr (ekind_name e.se_kind) ^ "|" ^ Stdlib.String.concat "," (List.map ostr e.se_names) ^ "|" ^ span_list e.se_spans) es)))
  | _ -> failwith "mfrontsp: bad arguments"

(* mpdiag <user text hex>: compiled preamble ++ text through the parser with the grammar's diagnostic productions:
   "ok" (no diagnostic), "diags Kind||s:e ; ..." in push order, or "none" (lexical error / LR recovery only) *)
let dkind_name = function
  | KMissingWireWidth -> "MissingWireWidth" | KWireAssignedInDeclaration -> "WireAssignedInDeclaration"
  | KAddedConstWidth -> "AddedConstWidth" | KMissingAssignmentMux -> "MissingAssignmentMux"
  | KMissingRegisterWidth -> "MissingRegisterWidth" | KRegisterDeclaredWithWire -> "RegisterDeclaredWithWire"
  | KInvalidWireWidth -> "InvalidWireWidth" | KInvalidConstant -> "InvalidConstant"
  | KExpectedStatementFoundExpr -> "ExpectedStatementFoundExpr"
let cmd_mpdiag args =
  match args with
  | [h] ->
    let tiers = match gen_tiers with Some t -> t | None -> [] in
    let text = ostr gen_preamble ^ hex_decode h in
    (match parse_text_diag test_uclass tiers (bytes_of text) with
     | None ->
       (* a text only the LR error recovery handles: where the first syntax error is (ParseLoc) *)
       (match first_error_span_text test_uclass tiers (bytes_of text) with
        | Some (a, b) -> emit (Printf.sprintf "none syntax %d:%d" (int_of_nat a) (int_of_nat b))
        | None -> emit "none")
     | Some r ->
       (match all_diags r with
        | [] -> emit "ok"
        | ds -> emit ("diags " ^ Stdlib.String.concat " ; " (List.map (fun (k, sp) -> dkind_name k ^ "||" ^ span_list [sp]) ds))))
  | _ -> failwith "mpdiag: bad arguments"

(* mstderr <features> <file name hex> <user text hex>: what hclrs writes on standard error for this file, computed by the
   model from the text alone (FullDiag.front_errors, then the model renderer): one "block <hex>" per error in the
   model's order, "accepted", or "none" (a text that needs LR error recovery / an unmodelled lexical-error context) *)
let cmd_mstderr args =
  match args with
  | [feat; fname; h] ->
    let tiers = match gen_tiers with Some t -> t | None -> [] in
    let pre = str_bytes gen_preamble in
    let user = bytes_of (hex_decode h) in
    (match front_errors (fun l -> l) test_uclass tiers (features_of feat) gen_fixed test_lower test_upper (pre @ user) with
     | None -> emit "none"
     | Some [] -> emit "accepted"
     | Some es ->
       let fc = new_from_data pre user (bytes_of (hex_decode fname)) in
       List.iter (fun e ->
           match render_all test_uclass fc [e] with
           | Some t -> emit ("block " ^ hex_encode (ostr t))
           | None -> emit "block none") es)
  | _ -> failwith "mstderr: bad arguments"

(* lex <texthex> *)
let token_str (t : token) : Stdlib.String.t =
  match t with
  | TAndAnd -> "AndAnd" | TOrOr -> "OrOr" | TEqual -> "Equal" | TNotEqual -> "NotEqual"
  | TGreaterEqual -> "GreaterEqual" | TGreater -> "Greater" | TLessEqual -> "LessEqual" | TLess -> "Less"
  | TAssign -> "Assign" | TRightShift -> "RightShift" | TLeftShift -> "LeftShift" | TComma -> "Comma"
  | TSemicolon -> "Semicolon" | TPlus -> "Plus" | TMinus -> "Minus" | TAnd -> "And" | TOr -> "Or" | TXor -> "Xor"
  | TTimes -> "Times" | TDivide -> "Divide" | TNot -> "Not"
  | TLit v -> Printf.sprintf "Constant 0x%s %s" (hex_of_n v.bits) (width_str v.wd)
  | TOpenParen -> "OpenParen" | TCloseParen -> "CloseParen" | TOpenBrace -> "OpenBrace" | TCloseBrace -> "CloseBrace"
  | TOpenBracket -> "OpenBracket" | TCloseBracket -> "CloseBracket" | TColon -> "Colon" | TComplement -> "Complement"
  | TDotDot -> "DotDot" | TWire -> "Wire" | TConst -> "Const" | TRegister -> "Register" | TIn -> "In"
  | TIdentifier name -> "Identifier " ^ string_of_bytes name

let lex_error_str (e : lex_error) : Stdlib.String.t =
  match e with
  | LexLexicalError loc -> let l = int_of_nat loc in Printf.sprintf "LexicalError||%d:%d" l (l + 1)
  | LexUnterminatedComment loc -> let l = int_of_nat loc in Printf.sprintf "UnterminatedComment||%d:%d" l (l + 2)
  | LexInvalidConstant (s, e) -> Printf.sprintf "InvalidConstant||%d:%d" (int_of_nat s) (int_of_nat e)

let cmd_mlex args =
  match args with
  | [h] ->
    let (toks, err) = lex test_uclass (bytes_of (hex_decode h)) in
    List.iter (fun ((s, t), e) -> emit (Printf.sprintf "tok %d %d %s" (int_of_nat s) (int_of_nat e) (token_str t))) toks;
    (match err with Some e -> emit ("err " ^ lex_error_str e) | None -> ())
  | _ -> failwith "lex: bad arguments"

(* parse <texthex> <spans-ignored> *)
let sexp_of_stmt (s : stmt) : Stdlib.String.t =
  match s with
  | SConst decls ->
    "(const" ^ Stdlib.String.concat "" (List.map (fun (n, e) -> Printf.sprintf " (def %s %s)" (ostr n) (sexp_of_expr e)) decls) ^ ")"
  | SWire decls ->
    "(wire" ^ Stdlib.String.concat "" (List.map (fun (n, w) -> Printf.sprintf " (decl %s %s)" (ostr n) (width_str w)) decls) ^ ")"
  | SAssign assigns ->
    "(assign" ^ Stdlib.String.concat "" (List.map (fun (names, e) ->
        Printf.sprintf " (set (%s) %s)" (Stdlib.String.concat " " (List.map ostr names)) (sexp_of_expr e)) assigns) ^ ")"
  | SBank (name, regs) ->
    "(register " ^ ostr name ^ Stdlib.String.concat "" (List.map (fun ((n, w), e) ->
        Printf.sprintf " (reg %s %s %s)" (ostr n) (width_str w) (sexp_of_expr e)) regs) ^ ")"

let cmd_mparse args =
  match args with
  | h :: _ ->
    let tiers = match gen_tiers with Some t -> t | None -> [] in
    (match parse_text test_uclass tiers (bytes_of (hex_decode h)) with
     | Some stmts -> List.iter (fun s -> emit ("stmt " ^ sexp_of_stmt s)) stmts
     | None -> emit "err")
  | _ -> failwith "parse: bad arguments"

(* psp <texthex>: the spanned model parser; printed as the hook prints the real parser's statements with spans *)
let span_str ((s, e) : nat * nat) : Stdlib.String.t = Printf.sprintf " @%d:%d" (int_of_nat s) (int_of_nat e)

let rec sexp_of_sexpr (e : sexpr) : Stdlib.String.t =
  match e with
  | SEConst (sp, v) -> Printf.sprintf "(c 0x%s %s%s)" (hex_of_n v.bits) (width_str v.wd) (span_str sp)
  | SEWire (sp, n) -> "(w " ^ ostr n ^ span_str sp ^ ")"
  | SEBin (sp, op, l, r) -> Printf.sprintf "(b %s %s %s%s)" (binop_name op) (sexp_of_sexpr l) (sexp_of_sexpr r) (span_str sp)
  | SEUn (sp, op, e1) -> Printf.sprintf "(u %s %s%s)" (unop_name op) (sexp_of_sexpr e1) (span_str sp)
  | SEMux (sp, a) -> "(m" ^ sexp_of_sarms a ^ span_str sp ^ ")"
  | SESlice (sp, e1, lo, hi) -> Printf.sprintf "(s %s %d %d%s)" (sexp_of_sexpr e1) (int_of_n lo) (int_of_n hi) (span_str sp)
  | SECat (sp, l, r) -> Printf.sprintf "(cat %s %s%s)" (sexp_of_sexpr l) (sexp_of_sexpr r) (span_str sp)
  | SEIn (sp, e1, items) -> "(in " ^ sexp_of_sexpr e1 ^ sexp_of_sitems items ^ span_str sp ^ ")"
and sexp_of_sarms = function
  | SANil -> ""
  | SACons (c, v, rest) -> Printf.sprintf " (arm %s %s)" (sexp_of_sexpr c) (sexp_of_sexpr v) ^ sexp_of_sarms rest
and sexp_of_sitems = function
  | SXNil -> ""
  | SXCons (e, rest) -> " " ^ sexp_of_sexpr e ^ sexp_of_sitems rest

let sexp_of_sstmt (s : sstmt) : Stdlib.String.t =
  match s with
  | SSConst decls ->
    "(const" ^ Stdlib.String.concat "" (List.map (fun ((n, nsp), e) -> Printf.sprintf " (def %s%s %s)" (ostr n) (span_str nsp) (sexp_of_sexpr e)) decls) ^ ")"
  | SSWire decls ->
    "(wire" ^ Stdlib.String.concat "" (List.map (fun ((n, w), sp) -> Printf.sprintf " (decl %s %s%s)" (ostr n) (width_str w) (span_str sp)) decls) ^ ")"
  | SSAssign assigns ->
    "(assign" ^ Stdlib.String.concat "" (List.map (fun ((names, e), sp) ->
        Printf.sprintf " (set (%s) %s%s)" (Stdlib.String.concat " " (List.map (fun (n, nsp) -> ostr n ^ span_str nsp) names)) (sexp_of_sexpr e) (span_str sp)) assigns) ^ ")"
  | SSBank (name, nsp, regs, sp) ->
    "(register " ^ ostr name ^ span_str nsp ^ Stdlib.String.concat "" (List.map (fun (((n, w), e), rsp) ->
        Printf.sprintf " (reg %s %s %s%s)" (ostr n) (width_str w) (sexp_of_sexpr e) (span_str rsp)) regs) ^ span_str sp ^ ")"

let cmd_mpsp args =
  match args with
  | h :: _ ->
    let tiers = match gen_tiers with Some t -> t | None -> [] in
    (match parse_text_sp test_uclass tiers (bytes_of (hex_decode h)) with
     | Some stmts -> List.iter (fun s -> emit ("stmt " ^ sexp_of_sstmt s)) stmts
     | None -> emit "err")
  | _ -> failwith "psp: bad arguments"

let dispatch cmd args =
  match cmd with
  | "dis" -> cmd_dis args
  | "msim" -> cmd_msim args
  | "mrun" -> cmd_mrun args
  | "mexpr" -> cmd_mexpr args
  | "mem" -> cmd_mem args
  | "mgraph" -> cmd_mgraph args
  | "yo" -> cmd_myo args
  | "mbuild" -> cmd_mbuild args
  | "parse" -> cmd_mparse args
  | "psp" -> cmd_mpsp args
  | "lex" -> cmd_mlex args
  | "mcli" -> cmd_mcli args
  | "margv" -> cmd_margv args
  | "mtool" -> cmd_mtool args
  | "mrender" -> cmd_mrender args
  | "mfrontsp" -> cmd_mfrontsp args
  | "mpdiag" -> cmd_mpdiag args
  | "mstderr" -> cmd_mstderr args
  | "region" -> cmd_mregion args
  | "mvalid" -> cmd_mvalid args
  | _ -> emit ("unknown command " ^ cmd)

let () =
  try
    while true do
      let line = input_line stdin in
      match List.filter (fun s -> s <> "") (Stdlib.String.split_on_char ' ' line) with
      | id :: cmd :: args ->
        Buffer.clear out;
        print_string ("#BEGIN " ^ id ^ "\n");
        (try dispatch cmd args
         with e -> emit ("DRIVER-EXCEPTION " ^ Printexc.to_string e));
        print_string (Buffer.contents out);
        print_string ("#END " ^ id ^ "\n")
      | _ -> ()
    done
  with End_of_file -> ()
