(* Hand-written glue between the OCaml world (strings, ints) and the extracted Coq
   datatypes (Model.n, Model.positive, Model.string, Model.ascii). Trusted. *)
open Model

type cstring = Model.string

(* ---- N <-> hexadecimal text ---------------------------------------------------------- *)
let rec pos_of_bits (bits : bool list) : positive =
  (* bits: least significant first, last element is the leading 1 *)
  match bits with
  | [] -> XH
  | [_] -> XH
  | b :: rest -> if b then XI (pos_of_bits rest) else XO (pos_of_bits rest)

let n_of_hex (s : Stdlib.String.t) : n =
  (* most significant digit first *)
  let bits = ref [] in   (* least significant first *)
  Stdlib.String.iter (fun c ->
    let d = match c with
      | '0'..'9' -> Char.code c - 48
      | 'a'..'f' -> Char.code c - 87
      | 'A'..'F' -> Char.code c - 55
      | _ -> failwith ("bad hex digit in " ^ s) in
    (* prepend 4 bits: new digit becomes the least significant *)
    bits := ((d land 1) <> 0) :: ((d land 2) <> 0) :: ((d land 4) <> 0) :: ((d land 8) <> 0) :: !bits)
    s;
  (* !bits currently has LAST digit first = least significant first: correct order *)
  let rec strip l = match l with
    | [] -> []
    | _ -> let r = List.rev l in
           let rec drop = function false :: t -> drop t | x -> x in
           List.rev (drop r) in
  match strip !bits with
  | [] -> N0
  | l -> Npos (pos_of_bits l)

let rec pos_bits (p : positive) : bool list =
  match p with XH -> [true] | XO q -> false :: pos_bits q | XI q -> true :: pos_bits q

let hex_of_n (x : n) : Stdlib.String.t =
  match x with
  | N0 -> "0"
  | Npos p ->
    let bits = Array.of_list (pos_bits p) in
    let len = Array.length bits in
    let ndig = (len + 3) / 4 in
    let b = Buffer.create ndig in
    for i = ndig - 1 downto 0 do
      let d = ref 0 in
      for j = 3 downto 0 do
        let k = 4 * i + j in
        d := !d * 2 + (if k < len && bits.(k) then 1 else 0)
      done;
      Buffer.add_char b "0123456789abcdef".[!d]
    done;
    Buffer.contents b

let n_of_int (i : int) : n = n_of_hex (Printf.sprintf "%x" i)
let int_of_n (x : n) : int = int_of_string ("0x" ^ hex_of_n x)
let n_of_dec (s : Stdlib.String.t) : n =
  (* decimal text of arbitrary size: repeated multiply-add on the extracted N *)
  let ten = n_of_int 10 in
  let acc = ref N0 in
  Stdlib.String.iter (fun c -> acc := N.add (N.mul !acc ten) (n_of_int (Char.code c - 48))) s;
  !acc

let rec nat_of_int (i : int) : nat = if i <= 0 then O else S (nat_of_int (i - 1))
let rec int_of_nat (x : nat) : int = match x with O -> 0 | S y -> 1 + int_of_nat y

(* ---- strings --------------------------------------------------------------------------- *)
let ascii_of_char (c : char) : ascii =
  let k = Char.code c in
  let b i = (k lsr i) land 1 = 1 in
  Ascii (b 0, b 1, b 2, b 3, b 4, b 5, b 6, b 7)

let char_of_ascii (a : ascii) : char =
  match a with
  | Ascii (b0, b1, b2, b3, b4, b5, b6, b7) ->
    let v b i = if b then 1 lsl i else 0 in
    Char.chr (v b0 0 + v b1 1 + v b2 2 + v b3 3 + v b4 4 + v b5 5 + v b6 6 + v b7 7)

let cstr (s : Stdlib.String.t) : cstring =
  let r = ref EmptyString in
  for i = Stdlib.String.length s - 1 downto 0 do
    r := String (ascii_of_char s.[i], !r)
  done;
  !r

let ostr (s : cstring) : Stdlib.String.t =
  let b = Buffer.create 64 in
  let rec go = function EmptyString -> () | String (a, r) -> Buffer.add_char b (char_of_ascii a); go r in
  go s;
  Buffer.contents b

let hex_encode (s : Stdlib.String.t) : Stdlib.String.t =
  if s = "" then "-" else begin
    let b = Buffer.create (2 * Stdlib.String.length s) in
    Stdlib.String.iter (fun c -> Buffer.add_string b (Printf.sprintf "%02x" (Char.code c))) s;
    Buffer.contents b
  end

let hex_decode (s : Stdlib.String.t) : Stdlib.String.t =
  if s = "-" then "" else begin
    let n = Stdlib.String.length s / 2 in
    Stdlib.String.init n (fun i -> Char.chr (int_of_string ("0x" ^ Stdlib.String.sub s (2 * i) 2)))
  end

(* ---- S-expressions ------------------------------------------------------------------------ *)
type sexp = Atom of Stdlib.String.t | L of sexp list

let parse_sexp (s : Stdlib.String.t) : sexp =
  let n = Stdlib.String.length s in
  let pos = ref 0 in
  let rec skip () = if !pos < n && (s.[!pos] = ' ' || s.[!pos] = '\t') then (incr pos; skip ()) in
  let rec item () =
    skip ();
    if !pos >= n then failwith "sexp: unexpected end"
    else if s.[!pos] = '(' then begin
      incr pos;
      let items = ref [] in
      let rec loop () =
        skip ();
        if !pos >= n then failwith "sexp: unclosed"
        else if s.[!pos] = ')' then incr pos
        else (items := item () :: !items; loop ()) in
      loop ();
      L (List.rev !items)
    end else if s.[!pos] = '"' then begin
      let start = !pos + 1 in
      incr pos;
      while !pos < n && s.[!pos] <> '"' do incr pos done;
      let a = Stdlib.String.sub s start (!pos - start) in
      incr pos;
      Atom a
    end else begin
      let start = !pos in
      while !pos < n && s.[!pos] <> ' ' && s.[!pos] <> '(' && s.[!pos] <> ')' && s.[!pos] <> '\t' do incr pos done;
      Atom (Stdlib.String.sub s start (!pos - start))
    end in
  item ()
