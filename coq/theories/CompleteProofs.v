(* Proof of CompleteSpec.stmt_fault_free_accepted: a fault-free program is accepted by the model
   of Program::new.  No axioms.  Phase by phase, in the order of build_program. *)
From Coq Require Import Permutation Relations.
From HclV Require Import Base Expr ExprSpec ExprLemmas ExprProofs ExprRules ExprRulesProofs Machine
     Graph GraphSpec GraphProofs Build MachineSpec MachineProofs SchedSpec BuildSpec Generated
     BuildProofs Lexer Parser LexParseSpec CompleteSpec.
Open Scope string_scope.
Open Scope list_scope.
Open Scope N_scope.

(* ================================================================================== *)
(* Part 0: checker and evaluator only look at the names an expression mentions         *)
(* ================================================================================== *)
Lemma refs_mux a : refs (EMux a) = refs_arms a.
Proof. reflexivity. Qed.
Lemma refs_in e items : refs (EIn e items) = refs e ++ refs_items items.
Proof. reflexivity. Qed.
Lemma refs_bin op l r : refs (EBin op l r) = refs l ++ refs r.
Proof. reflexivity. Qed.
Lemma refs_cat l r : refs (ECat l r) = refs l ++ refs r.
Proof. reflexivity. Qed.
Lemma refs_arms_cons c v rest : refs_arms (ACons c v rest) = refs c ++ refs v ++ refs_arms rest.
Proof. reflexivity. Qed.
Lemma refs_items_cons e rest : refs_items (XCons e rest) = refs e ++ refs_items rest.
Proof. reflexivity. Qed.

Section ExprExt.
  Variable f : features.

  Lemma eval_ext_all (rho rho' : string -> option wval) :
    (forall e, (forall n, In n (refs e) -> rho n = rho' n) ->
               dynw f rho e = dynw f rho' e /\ eval f rho e = eval f rho' e) /\
    (forall a, (forall n, In n (refs_arms a) -> rho n = rho' n) ->
               (forall acc, dynw_arms f rho a acc = dynw_arms f rho' a acc) /\
               eval_arms f rho a = eval_arms f rho' a) /\
    (forall x, (forall n, In n (refs_items x) -> rho n = rho' n) ->
               forall k, eval_items f rho k x = eval_items f rho' k x).
  Proof.
    apply expr_arms_exprs_ind.
    - intros c _. split; reflexivity.
    - intros op l IHl r IHr H. rewrite refs_bin in H.
      destruct IHl as [Dl El]; [intros n Hn; apply H, in_or_app; left; exact Hn|].
      destruct IHr as [Dr Er]; [intros n Hn; apply H, in_or_app; right; exact Hn|].
      cbn [dynw eval]. rewrite Dl, Dr, El, Er. split; reflexivity.
    - intros op e IHe H. destruct IHe as [De Ee]; [exact H|].
      cbn [dynw eval]. rewrite De, Ee. split; reflexivity.
    - intros a IHa H. rewrite refs_mux in H. destruct (IHa H) as [Da Ea].
      rewrite !dynw_mux, !eval_mux, Da, Ea. split; reflexivity.
    - intros n H. cbn [dynw eval]. rewrite (H n (or_introl eq_refl)). split; reflexivity.
    - intros e IHe lo hi H. destruct IHe as [De Ee]; [exact H|].
      cbn [dynw eval]. rewrite Ee. split; reflexivity.
    - intros l IHl r IHr H. rewrite refs_cat in H.
      destruct IHl as [Dl El]; [intros n Hn; apply H, in_or_app; left; exact Hn|].
      destruct IHr as [Dr Er]; [intros n Hn; apply H, in_or_app; right; exact Hn|].
      cbn [dynw eval]. rewrite Dl, Dr, El, Er. split; reflexivity.
    - intros e IHe items IHi H. rewrite refs_in in H.
      destruct IHe as [De Ee]; [intros n Hn; apply H, in_or_app; left; exact Hn|].
      rewrite !eval_in, Ee. cbn [dynw]. split; [reflexivity|].
      destruct (eval f rho' e) as [v|]; cbn [bind]; [|reflexivity].
      apply IHi. intros n Hn. apply H, in_or_app. right. exact Hn.
    - intros _. split; reflexivity.
    - intros c IHc v IHv rest IHr H. rewrite refs_arms_cons in H.
      destruct IHc as [Dc Ec]; [intros n Hn; apply H, in_or_app; left; exact Hn|].
      destruct IHv as [Dv Ev]; [intros n Hn; apply H, in_or_app; right; apply in_or_app; left; exact Hn|].
      destruct IHr as [Dr Er]; [intros n Hn; apply H, in_or_app; right; apply in_or_app; right; exact Hn|].
      split.
      + intros acc. rewrite !dynw_arms_cons, Dv. apply Dr.
      + rewrite !eval_arms_cons, Ec, Ev, Er. reflexivity.
    - intros _ k. reflexivity.
    - intros e IHe rest IHr H k. rewrite refs_items_cons in H.
      destruct IHe as [De Ee]; [intros n Hn; apply H, in_or_app; left; exact Hn|].
      rewrite !eval_items_cons, Ee.
      destruct (eval f rho' e) as [r|]; cbn [bind]; [|reflexivity].
      rewrite IHr; [reflexivity|]. intros n Hn. apply H, in_or_app. right. exact Hn.
  Qed.

  Lemma eval_ext rho rho' e : (forall n, In n (refs e) -> rho n = rho' n) -> eval f rho e = eval f rho' e.
  Proof. intros H. apply (proj1 (eval_ext_all rho rho') e H). Qed.

  Lemma always_true_ext C C' c : (forall n, In n (refs c) -> C n = C' n) -> always_true f C c = always_true f C' c.
  Proof. intros H. unfold always_true. rewrite (eval_ext C C' c H). reflexivity. Qed.

  Lemma check_ext_all (G G' : string -> option width) (C C' : string -> option wval) :
    (forall e, (forall n, In n (refs e) -> G n = G' n /\ C n = C' n) ->
               check f G C e = check f G' C' e) /\
    (forall a, (forall n, In n (refs_arms a) -> G n = G' n /\ C n = C' n) ->
               forall st, check_arms f G C a st = check_arms f G' C' a st) /\
    (forall x, (forall n, In n (refs_items x) -> G n = G' n /\ C n = C' n) ->
               forall wl, check_items f G C wl x = check_items f G' C' wl x).
  Proof.
    apply expr_arms_exprs_ind.
    - intros c _. reflexivity.
    - intros op l IHl r IHr H. rewrite refs_bin in H.
      assert (El : check f G C l = check f G' C' l)
        by (apply IHl; intros n Hn; apply H, in_or_app; left; exact Hn).
      assert (Er : check f G C r = check f G' C' r)
        by (apply IHr; intros n Hn; apply H, in_or_app; right; exact Hn).
      cbn [check]. rewrite El, Er. reflexivity.
    - intros op e IHe H. cbn [check]. rewrite (IHe H). reflexivity.
    - intros a IHa H. rewrite refs_mux in H. rewrite !check_mux_eq, (IHa H). reflexivity.
    - intros n H. cbn [check]. rewrite (proj1 (H n (or_introl eq_refl))). reflexivity.
    - intros e IHe lo hi H. cbn [check]. rewrite (IHe H). reflexivity.
    - intros l IHl r IHr H. rewrite refs_cat in H.
      assert (El : check f G C l = check f G' C' l)
        by (apply IHl; intros n Hn; apply H, in_or_app; left; exact Hn).
      assert (Er : check f G C r = check f G' C' r)
        by (apply IHr; intros n Hn; apply H, in_or_app; right; exact Hn).
      cbn [check]. rewrite El, Er. reflexivity.
    - intros e IHe items IHi H. rewrite refs_in in H. rewrite !check_in_eq.
      rewrite IHe by (intros n Hn; apply H, in_or_app; left; exact Hn).
      destruct (check f G' C' e) as [wl|]; cbn [bind]; [|reflexivity].
      rewrite IHi by (intros n Hn; apply H, in_or_app; right; exact Hn). reflexivity.
    - intros _ st. reflexivity.
    - intros c IHc v IHv rest IHr H st. rewrite refs_arms_cons in H. rewrite !check_arms_cons_eq.
      rewrite IHc by (intros n Hn; apply H, in_or_app; left; exact Hn).
      rewrite IHv by (intros n Hn; apply H, in_or_app; right; apply in_or_app; left; exact Hn).
      rewrite (always_true_ext C C' c) by (intros n Hn; apply H, in_or_app; left; exact Hn).
      destruct (check f G' C' c) as [wc|]; cbn [bind]; [|reflexivity].
      destruct (check f G' C' v) as [wv|]; cbn [bind]; [|reflexivity].
      apply IHr. intros n Hn. apply H, in_or_app. right. apply in_or_app. right. exact Hn.
    - intros _ wl. reflexivity.
    - intros e IHe rest IHr H wl. rewrite refs_items_cons in H. rewrite !check_items_cons_eq.
      rewrite IHe by (intros n Hn; apply H, in_or_app; left; exact Hn).
      destruct (check f G' C' e) as [wi|]; cbn [bind]; [|reflexivity].
      rewrite IHr by (intros n Hn; apply H, in_or_app; right; exact Hn). reflexivity.
  Qed.

  Lemma check_ext G G' C C' e :
    (forall n, In n (refs e) -> G n = G' n /\ C n = C' n) -> check f G C e = check f G' C' e.
  Proof. intros H. apply (proj1 (check_ext_all G G' C C') e H). Qed.
End ExprExt.

(* ================================================================================== *)
(* Part 1: lists and association lists                                                 *)
(* ================================================================================== *)
Lemma fold_add_set_fresh (l : list string) : forall m,
  NoDup (m ++ l) -> fold_left (fun acc x => add_set x acc) l m = m ++ l.
Proof.
  induction l as [|x l IH]; intros m Hn; cbn [fold_left]; [rewrite app_nil_r; reflexivity|].
  assert (Hx : ~ In x m).
  { apply NoDup_remove_2 in Hn. intros H. apply Hn. apply in_or_app. left. exact H. }
  rewrite (add_set_fresh x m Hx). rewrite IH; [rewrite <- app_assoc; reflexivity|].
  rewrite <- app_assoc. exact Hn.
Qed.

Lemma fold_updp_fresh {V} (l : list (string * V)) : forall m,
  NoDup (map fst m ++ map fst l) -> fold_left updp l m = m ++ l.
Proof.
  induction l as [|[k v] l IH]; intros m Hn; cbn [fold_left]; [rewrite app_nil_r; reflexivity|].
  cbn [map fst] in Hn.
  assert (Hk : lookup m k = None).
  { apply lookup_None. apply NoDup_remove_2 in Hn. intros H. apply Hn. apply in_or_app. left. exact H. }
  unfold updp at 2. cbn [fst snd]. rewrite (upd_fresh m k v Hk).
  rewrite IH; [rewrite <- app_assoc; reflexivity|].
  rewrite map_app, <- app_assoc. exact Hn.
Qed.

Lemma flat_map_all_nil {A B} (g : A -> list B) (l : list A) :
  (forall x, In x l -> g x = []) -> flat_map g l = [].
Proof.
  induction l as [|a l IH]; intros H; cbn [flat_map]; [reflexivity|].
  rewrite (H a (or_introl eq_refl)), IH; [reflexivity|]. intros x Hx. apply H. right. exact Hx.
Qed.

Lemma NoDup_app_r {A} (l1 l2 : list A) : NoDup (l1 ++ l2) -> NoDup l2.
Proof. intros H. apply NoDup_app_inv in H. apply H. Qed.

Lemma NoDup_app_disj {A} (l1 l2 : list A) x : NoDup (l1 ++ l2) -> In x l1 -> ~ In x l2.
Proof. intros H. apply NoDup_app_inv in H. destruct H as [_ [_ H]]. apply H. Qed.

Lemma filter_length_lt {A} (p : A -> bool) (l : list A) x :
  In x l -> p x = false -> (List.length (filter p l) < List.length l)%nat.
Proof.
  assert (Hle : forall l0 : list A, (List.length (filter p l0) <= List.length l0)%nat).
  { induction l0 as [|b l0 IH0]; cbn [filter List.length]; [lia|]. destruct (p b); cbn [List.length]; lia. }
  induction l as [|a l IH]; cbn [In filter List.length]; intros Hin Hp; [contradiction|].
  specialize (Hle l).
  destruct Hin as [->|Hin].
  - rewrite Hp. lia.
  - specialize (IH Hin Hp). destruct (p a); cbn [List.length]; lia.
Qed.

Lemma has_true_In {V} (m : list (string * V)) k : has m k = true -> In k (map fst m).
Proof. apply has_In. Qed.

Lemma NoDup_split_unique {A} (x : A) : forall l1 l2 l1' l2',
  NoDup (l1 ++ x :: l2) -> l1 ++ x :: l2 = l1' ++ x :: l2' -> l1 = l1'.
Proof.
  induction l1 as [|a l1 IH]; intros l2 l1' l2' Hn He; destruct l1' as [|y l1']; cbn [app] in *.
  - reflexivity.
  - injection He as Hx Hl. exfalso. apply NoDup_cons_iff in Hn. destruct Hn as [Hn _]. apply Hn.
    rewrite Hl. apply in_or_app. right. left. reflexivity.
  - injection He as Hx Hl. exfalso. apply NoDup_cons_iff in Hn. destruct Hn as [Hn _]. apply Hn.
    subst a. apply in_or_app. right. left. reflexivity.
  - injection He as Hx Hl. subst y. f_equal. apply NoDup_cons_iff in Hn. destruct Hn as [_ Hn].
    apply (IH l2 l1' l2' Hn Hl).
Qed.

(* ================================================================================== *)
(* Part 1b: dependency graphs: nodes, cycles                                           *)
(* ================================================================================== *)
Lemma insert_sources_nodes (skip : string -> bool) (n : string) : forall rs g x,
  In x (g_nodes (fold_left (fun g1 r => if skip r then g1 else graph_insert g1 r n) rs g)) ->
  In x (g_nodes g) \/ x = n \/ (In x rs /\ skip x = false).
Proof.
  induction rs as [|r rs IH]; intros g x Hx; cbn [fold_left] in Hx; [left; exact Hx|].
  destruct (skip r) eqn:Esk.
  - destruct (IH g x Hx) as [H|[H|[H1 H2]]]; [left; exact H | right; left; exact H|].
    right. right. split; [right; exact H1 | exact H2].
  - destruct (IH _ x Hx) as [H|[H|[H1 H2]]]; [| right; left; exact H|].
    + apply graph_insert_nodes in H. destruct H as [H|[H|H]]; [left; exact H | | right; left; exact H].
      subst x. right. right. split; [left; reflexivity | exact Esk].
    + right. right. split; [right; exact H1 | exact H2].
Qed.

Lemma insert_ins_nodes (o : string) (ins : list string) (g : graph string) x :
  In x (g_nodes (fold_left (fun g1 i => graph_insert g1 i o) ins g)) ->
  In x (g_nodes g) \/ x = o \/ In x ins.
Proof.
  intros H. destruct (insert_sources_nodes (fun _ => false) o ins g x H) as [H1|[H1|[H1 _]]]; auto.
Qed.

Definition const_graph_step (g : graph string) (ne : string * expr) : graph string :=
  graph_add_node (fold_left (fun g1 r => graph_insert g1 r (fst ne)) (nodup_str (refs (snd ne))) g) (fst ne).

Lemma const_graph_fold_wf : forall consts g,
  gwf g -> NoDup (map fst consts) ->
  (forall n, In n (map fst consts) -> forall x, ~ gedge g x n) ->
  let g' := fold_left const_graph_step consts g in
  gwf g' /\
  (forall x y, gedge g' x y <-> gedge g x y \/ exists e, In (y, e) consts /\ In x (refs e)) /\
  (forall x, In x (g_nodes g) -> In x (g_nodes g')) /\
  (forall n, In n (map fst consts) -> In n (g_nodes g')) /\
  (forall x, In x (g_nodes g') ->
     In x (g_nodes g) \/ In x (map fst consts) \/ exists y e, In (y, e) consts /\ In x (refs e)).
Proof.
  induction consts as [|[n e] consts IH]; intros g Hwf Hnd Hne; cbn [fold_left].
  - split; [exact Hwf|]. split; [|split; [intros x Hx; exact Hx | split; [intros n [] | intros x Hx; left; exact Hx]]].
    intros x y. split; [intros H; left; exact H | intros [H|[e [[] _]]]; exact H].
  - cbn [map fst] in Hnd, Hne. apply NoDup_cons_iff in Hnd. destruct Hnd as [Hn Hnd].
    destruct (insert_ins_wf n (nodup_str (refs e)) g Hwf (nodup_str_NoDup (refs e)))
      as [J1 [J2 J3]].
    { intros r _. apply (Hne n (or_introl eq_refl) r). }
    cbv zeta in J1, J2, J3.
    pose proof (insert_ins_nodes n (nodup_str (refs e)) g) as J4.
    set (g1 := fold_left (fun g1 r => graph_insert g1 r n) (nodup_str (refs e)) g) in *.
    change (const_graph_step g (n, e)) with (graph_add_node g1 n).
    assert (Hwf2 : gwf (graph_add_node g1 n)) by (apply graph_add_node_wf; exact J1).
    assert (Hne2 : forall n0, In n0 (map fst consts) -> forall x, ~ gedge (graph_add_node g1 n) x n0).
    { intros n0 H0 x He. apply graph_add_node_edge in He. apply J2 in He. destruct He as [He|[He _]].
      - apply (Hne n0 (or_intror H0) x). exact He.
      - subst n0. apply Hn. exact H0. }
    destruct (IH _ Hwf2 Hnd Hne2) as [I1 [I2 [I3 [I4 I5]]]]. cbv zeta in I1, I2, I3, I4, I5.
    split; [exact I1|]. split; [|split; [|split]].
    + intros x y. rewrite I2, graph_add_node_edge, J2. cbn [In]. split.
      * intros [[H|[H1 H2]]|[e0 [H1 H2]]].
        -- left. exact H.
        -- right. exists e. subst y. split; [left; reflexivity | apply nodup_str_In; exact H2].
        -- right. exists e0. split; [right; exact H1 | exact H2].
      * intros [H|[e0 [[H1|H1] H2]]].
        -- left. left. exact H.
        -- injection H1 as <- <-. left. right. split; [reflexivity | apply nodup_str_In; exact H2].
        -- right. exists e0. split; assumption.
    + intros x Hx. apply I3. apply graph_add_node_nodes. left. apply J3. exact Hx.
    + intros n0 [H0|H0].
      * subst n0. apply I3. apply graph_add_node_nodes. right. reflexivity.
      * apply I4. exact H0.
    + intros x Hx. apply I5 in Hx. destruct Hx as [Hx|[Hx|[y [e0 [H1 H2]]]]].
      * apply graph_add_node_nodes in Hx. destruct Hx as [Hx|Hx]; [|right; left; left; symmetry; exact Hx].
        apply J4 in Hx. destruct Hx as [Hx|[Hx|Hx]]; [left; exact Hx | right; left; left; symmetry; exact Hx|].
        right. right. exists n, e. split; [left; reflexivity | apply nodup_str_In; exact Hx].
      * right. left. right. exact Hx.
      * right. right. exists y, e0. split; [right; exact H1 | exact H2].
Qed.

Lemma const_graph_facts consts :
  NoDup (map fst consts) ->
  gwf (const_graph consts) /\
  (forall x y, gedge (const_graph consts) x y <-> exists e, In (y, e) consts /\ In x (refs e)) /\
  (forall n, In n (map fst consts) -> In n (g_nodes (const_graph consts))) /\
  (forall x, In x (g_nodes (const_graph consts)) ->
     In x (map fst consts) \/ exists y e, In (y, e) consts /\ In x (refs e)).
Proof.
  intros Hnd.
  destruct (const_graph_fold_wf consts empty_graph empty_graph_wf Hnd) as [I1 [I2 [_ [I4 I5]]]].
  { intros n _ x. apply empty_graph_edge. }
  cbv zeta in *. change (fold_left const_graph_step consts empty_graph) with (const_graph consts) in *.
  split; [exact I1|]. split; [|split; [exact I4|]].
  - intros x y. rewrite I2. split; [|intros H; right; exact H].
    intros [H|H]; [exfalso; exact (empty_graph_edge x y H) | exact H].
  - intros x Hx. apply I5 in Hx. destruct Hx as [[]|Hx]. exact Hx.
Qed.

(* nodes of the assignment graph *)
Lemma assign_graph_fold_nodes (known : list string) : forall assigns g x,
  In x (g_nodes (fold_left (fun g ne =>
                   fold_left (fun g1 r => if mem_str r known then g1 else graph_insert g1 r (fst ne))
                             (nodup_str (refs (snd ne))) (graph_add_node g (fst ne)))
                 assigns g)) ->
  In x (g_nodes g) \/ In x (map fst assigns) \/
  exists y e, In (y, e) assigns /\ In x (refs e) /\ mem_str x known = false.
Proof.
  induction assigns as [|[n e] assigns IH]; intros g x Hx; cbn [fold_left] in Hx; [left; exact Hx|].
  cbn [fst snd] in Hx. apply IH in Hx. destruct Hx as [Hx|[Hx|[y [e0 [H1 H2]]]]].
  - apply (insert_sources_nodes (fun r => mem_str r known)) in Hx.
    destruct Hx as [Hx|[Hx|[Hx1 Hx2]]].
    + apply graph_add_node_nodes in Hx. destruct Hx as [Hx|Hx]; [left; exact Hx|].
      right. left. left. symmetry. exact Hx.
    + right. left. left. symmetry. exact Hx.
    + right. right. exists n, e. split; [left; reflexivity|]. split; [apply nodup_str_In; exact Hx1 | exact Hx2].
  - right. left. right. exact Hx.
  - right. right. exists y, e0. split; [right; exact H1 | exact H2].
Qed.

Lemma assign_graph_nodes assigns known x :
  In x (g_nodes (assign_graph assigns known)) ->
  In x (map fst assigns) \/ exists y e, In (y, e) assigns /\ In x (refs e) /\ mem_str x known = false.
Proof.
  intros Hx. apply (assign_graph_fold_nodes known assigns empty_graph) in Hx.
  destruct Hx as [[]|Hx]. exact Hx.
Qed.

(* a cycle of the graph is a cycle of the edge relation *)
Lemma is_edge_gedge g a b : is_edge string String.eqb g a b = true -> gedge g a b.
Proof.
  unfold is_edge, memb, edge. intros H. apply existsb_exists in H. destruct H as [x [Hx He]].
  apply String.eqb_eq in He. subst x. exact Hx.
Qed.

Lemma is_path_rt g : forall l a d,
  is_path string String.eqb g (a :: l) = true -> clos_refl_trans string (gedge g) a (last (a :: l) d).
Proof.
  induction l as [|b l IH]; intros a d H.
  - cbn [last]. apply rt_refl.
  - cbn [is_path] in H. apply andb_true_iff in H. destruct H as [H1 H2].
    change (last (a :: b :: l) d) with (last (b :: l) d).
    apply rt_trans with b; [apply rt_step; apply is_edge_gedge; exact H1 | apply IH; exact H2].
Qed.

Lemma has_cycle_clos g : has_cycle string String.eqb g -> exists x, clos_trans string (gedge g) x x.
Proof.
  intros [c Hc]. unfold is_cycle in Hc. destruct c as [|first l]; [discriminate Hc|].
  apply andb_true_iff in Hc. destruct Hc as [Hp He].
  exists first. apply clos_rt_t with (last (first :: l) first).
  - apply is_path_rt. exact Hp.
  - apply t_step. apply is_edge_gedge. exact He.
Qed.

Lemma clos_trans_mono (R R' : string -> string -> Prop) x y :
  (forall a b, R a b -> R' a b) -> clos_trans string R x y -> clos_trans string R' x y.
Proof.
  intros Hm H. induction H as [a b H|a b c _ IH1 _ IH2]; [apply t_step, Hm; exact H|].
  apply t_trans with b; assumption.
Qed.

Lemma acyclic_no_cycle (R : string -> string -> Prop) g :
  acyclic R -> (forall a b, gedge g a b -> R a b) -> ~ has_cycle string String.eqb g.
Proof.
  intros Hac Hm Hc. apply has_cycle_clos in Hc. destruct Hc as [x Hx].
  apply (Hac x). apply (clos_trans_mono (gedge g) R x x Hm Hx).
Qed.

(* ================================================================================== *)
(* Part 1c (phase d, generic): step 3 over register banks produces no diagnostics       *)
(* ================================================================================== *)
Section S3.
  Variable f : features.
  Variable is_lower is_upper : string -> bool.

  Lemma step3_register_ok s consts bn inp outp t sigs dfl rname w d v wc :
    let in_name := (inp ++ "_" ++ rname)%string in
    let out_name := (outp ++ "_" ++ rname)%string in
    ~ In in_name (s_decls s) -> ~ In out_name (s_decls s) ->
    (forall rf, In rf (refs d) -> has (s_wires s) rf && negb (has consts rf) = false) ->
    ~ In out_name (map fst dfl) -> has (s_assigns s) out_name = false ->
    ~ In out_name (t_seen t) -> ~ In in_name (t_seen t) -> in_name <> out_name ->
    check f (cenv consts) (lookup consts) d = Ok wc ->
    eval f (lookup consts) d = Ok v -> wcombine (wd v) w <> None ->
    exists t',
      step3_register f s consts bn inp outp (t, sigs, dfl) (rname, w, d) =
        (t', sigs ++ [(in_name, out_name, w)], upd dfl out_name (as_width w v)) /\
      t_errs t' = t_errs t /\ t_banks t' = t_banks t /\
      t_seen t' = add_set in_name (add_set out_name (t_seen t)).
  Proof.
    intros in_name out_name H1 H2 H3 H4 H5 H6 H7 H8 Hck H9 H10.
    unfold step3_register. cbv beta iota zeta. fold in_name. fold out_name. unfold cenv in Hck.
    apply mem_str_false in H1, H2. apply has_false in H4.
    assert (H7' : mem_str in_name (add_set out_name (t_seen t)) = false).
    { apply mem_str_false. rewrite add_set_In. intros [H|H]; [exact (H7 H) | exact (H8 H)]. }
    apply mem_str_false in H6.
    cbn [flat_map]. rewrite H1, H2, H4, H5, H6, H7'.
    rewrite (flat_map_all_nil _ (nodup_str (refs d))).
    2:{ intros rf Hrf. apply (proj1 (nodup_str_In rf (refs d))) in Hrf. rewrite (H3 rf Hrf). reflexivity. }
    cbn [app]. rewrite Hck, H9.
    destruct (wcombine (wd v) w) as [w0|]; [|contradiction H10; reflexivity].
    eexists. split; [reflexivity|]. cbn [t_errs t_banks t_seen]. rewrite app_nil_r. auto.
  Qed.

  Definition reg_sig (i o : string) (r : string * width * expr) : string * string * width :=
    ((i ++ "_" ++ fst (fst r))%string, (o ++ "_" ++ fst (fst r))%string, snd (fst r)).
  Definition reg_names (i o : string) (r : string * width * expr) : list string :=
    [(o ++ "_" ++ fst (fst r))%string; (i ++ "_" ++ fst (fst r))%string].

  Definition reg_cond (s : st1) (consts : list (string * wval)) (o : string) (r : string * width * expr) : Prop :=
    (forall rf, In rf (refs (snd r)) -> has (s_wires s) rf && negb (has consts rf) = false) /\
    has (s_assigns s) (o ++ "_" ++ fst (fst r))%string = false /\
    (exists wc, check f (cenv consts) (lookup consts) (snd r) = Ok wc) /\
    exists v, eval f (lookup consts) (snd r) = Ok v /\ wcombine (wd v) (snd (fst r)) <> None.

  Lemma step3_regs_ok s consts bn inp outp : forall regs t sigs dfl,
    NoDup (flat_map (reg_names inp outp) regs) ->
    (forall x, In x (flat_map (reg_names inp outp) regs) -> ~ In x (t_seen t) /\ ~ In x (s_decls s)) ->
    (forall x, In x (map fst dfl) -> In x (t_seen t)) ->
    (forall r, In r regs -> reg_cond s consts outp r) ->
    exists t' dfl',
      fold_left (step3_register f s consts bn inp outp) regs (t, sigs, dfl) =
        (t', sigs ++ map (reg_sig inp outp) regs, dfl') /\
      t_errs t' = t_errs t /\ t_banks t' = t_banks t /\
      (forall x, In x (t_seen t') <-> In x (t_seen t) \/ In x (flat_map (reg_names inp outp) regs)).
  Proof.
    induction regs as [|[[rname w] d] regs IH]; intros t sigs dfl Hnd Hfresh Hdfl Hregs; cbn [fold_left].
    - exists t, dfl. cbn [map flat_map]. rewrite app_nil_r. split; [reflexivity|]. split; [reflexivity|].
      split; [reflexivity|]. intros x. cbn [In]. tauto.
    - cbn [flat_map reg_names fst snd app] in Hnd, Hfresh.
      set (in_name := (inp ++ "_" ++ rname)%string) in *.
      set (out_name := (outp ++ "_" ++ rname)%string) in *.
      apply NoDup_cons_iff in Hnd. destruct Hnd as [Ho Hnd]. apply NoDup_cons_iff in Hnd. destruct Hnd as [Hi Hnd].
      destruct (Hregs (rname, w, d) (or_introl eq_refl)) as [R1 [R2 [[wc Rck] [v [R3 R4]]]]]. cbn [fst snd] in R1, R2, Rck, R3, R4.
      fold out_name in R2.
      destruct (Hfresh out_name (or_introl eq_refl)) as [Fo1 Fo2].
      destruct (Hfresh in_name (or_intror (or_introl eq_refl))) as [Fi1 Fi2].
      destruct (step3_register_ok s consts bn inp outp t sigs dfl rname w d v wc) as [t1 [E1 [E2 [E3 E4]]]];
        try assumption.
      { intros H. apply Fo1. apply Hdfl. exact H. }
      { intros H. apply Ho. left. exact H. }
      fold in_name in E1, E4. fold out_name in E1, E4. rewrite E1.
      destruct (IH t1 (sigs ++ [(in_name, out_name, w)]) (upd dfl out_name (as_width w v))) as [t' [dfl' [F1 [F2 [F3 F4]]]]].
      + exact Hnd.
      + intros x Hx. destruct (Hfresh x (or_intror (or_intror Hx))) as [Fx1 Fx2]. split; [|exact Fx2].
        rewrite E4, !add_set_In. intros [[H|H]|H].
        * exact (Fx1 H).
        * subst x. apply Ho. right. exact Hx.
        * subst x. apply Hi. exact Hx.
      + intros x Hx. rewrite map_fst_upd in Hx. apply add_set_In in Hx. rewrite E4, !add_set_In.
        destruct Hx as [Hx|Hx]; [left; left; apply Hdfl; exact Hx | left; right; exact Hx].
      + intros r Hr. apply Hregs. right. exact Hr.
      + exists t', dfl'. split.
        * rewrite F1, <- app_assoc. reflexivity.
        * split; [rewrite F2; exact E2|]. split; [rewrite F3; exact E3|].
          intros x. rewrite F4, E4, !add_set_In. cbn [flat_map reg_names fst snd app In].
          fold in_name. fold out_name. split.
          -- intros [[[H|H]|H]|H]; auto.
          -- intros [H|[H|[H|H]]]; auto.
  Qed.

  Definition bank_names (b : string * list (string * width * expr)) : list string :=
    match bank_letters (fst b) with
    | Some (i, o) => flat_map (reg_names i o) (snd b)
    | None => []
    end.

  Definition bank_matches (b : string * list (string * width * expr)) (bk : bank) : Prop :=
    exists i o, bank_letters (fst b) = Some (i, o) /\ b_signals bk = map (reg_sig i o) (snd b) /\
                b_stall bk = ("stall_" ++ o)%string /\ b_bubble bk = ("bubble_" ++ o)%string.

  Definition bank_cond (s : st1) (consts : list (string * wval)) (b : string * list (string * width * expr)) : Prop :=
    exists i o, bank_letters (fst b) = Some (i, o) /\ is_lower i = true /\ is_upper o = true /\
      ~ In ("stall_" ++ o)%string (s_decls s) /\ ~ In ("bubble_" ++ o)%string (s_decls s) /\
      forall r, In r (snd b) -> reg_cond s consts o r.

  Lemma bank_letters_inv name i o : bank_letters name = Some (i, o) -> utf8_chars name "" = [i; o].
  Proof.
    unfold bank_letters. destruct (utf8_chars name "") as [|a [|b [|c l]]]; intros H; try discriminate H.
    injection H as -> ->. reflexivity.
  Qed.

  Lemma step3_bank_ok s consts t b :
    bank_cond s consts b ->
    NoDup (bank_names b) ->
    (forall x, In x (bank_names b) -> ~ In x (t_seen t) /\ ~ In x (s_decls s)) ->
    exists bk,
      t_errs (step3_bank f is_lower is_upper s consts t b) = t_errs t /\
      t_banks (step3_bank f is_lower is_upper s consts t b) = t_banks t ++ [bk] /\ bank_matches b bk /\
      (forall x, In x (t_seen (step3_bank f is_lower is_upper s consts t b)) <->
                 In x (t_seen t) \/ In x (bank_names b)).
  Proof.
    destruct b as [name regs]. intros [i [o [Hl [Hlo [Hup [Hst [Hbu Hregs]]]]]]] Hnd Hfresh.
    unfold bank_names in Hnd, Hfresh. cbn [fst snd] in *. rewrite Hl in Hnd, Hfresh.
    unfold step3_bank. rewrite (bank_letters_inv name i o Hl). rewrite Hlo, Hup. cbn [negb orb].
    apply mem_str_false in Hst, Hbu. cbn [flat_map]. rewrite Hst, Hbu. cbn [app].
    match goal with
    | |- context [fold_left _ regs (?T1, [], [])] => set (t1 := T1)
    end.
    destruct (step3_regs_ok s consts name i o regs t1 [] []) as [t' [dfl' [F1 [F2 [F3 F4]]]]].
    - exact Hnd.
    - exact Hfresh.
    - intros x [].
    - exact Hregs.
    - rewrite F1. cbn [app]. exists (mkBank name (map (reg_sig i o) regs) dfl' ("stall_" ++ o) ("bubble_" ++ o)).
      cbn [t_errs t_banks t_seen]. split; [rewrite F2; unfold t1; cbn [t_errs]; apply app_nil_r|].
      split; [rewrite F3; reflexivity|]. split.
      + exists i, o. cbn [fst snd b_signals b_stall b_bubble]. auto.
      + intros x. unfold bank_names. cbn [fst snd]. rewrite Hl. apply F4.
  Qed.

  Lemma step3_banks_ok s consts : forall banks t,
    (forall b, In b banks -> bank_cond s consts b) ->
    NoDup (flat_map bank_names banks) ->
    (forall x, In x (flat_map bank_names banks) -> ~ In x (t_seen t) /\ ~ In x (s_decls s)) ->
    exists newbanks,
      t_errs (fold_left (step3_bank f is_lower is_upper s consts) banks t) = t_errs t /\
      t_banks (fold_left (step3_bank f is_lower is_upper s consts) banks t) = t_banks t ++ newbanks /\
      Forall2 bank_matches banks newbanks.
  Proof.
    induction banks as [|b banks IH]; intros t Hc Hnd Hfresh; cbn [fold_left].
    - exists []. rewrite app_nil_r. split; [reflexivity|]. split; [reflexivity | constructor].
    - cbn [flat_map] in Hnd, Hfresh.
      destruct (step3_bank_ok s consts t b) as [bk [B1 [B2 [B3 B4]]]].
      + apply Hc. left. reflexivity.
      + apply NoDup_app_l in Hnd. exact Hnd.
      + intros x Hx. apply Hfresh. apply in_or_app. left. exact Hx.
      + destruct (IH (step3_bank f is_lower is_upper s consts t b)) as [nb [I1 [I2 I3]]].
        * intros b0 Hb0. apply Hc. right. exact Hb0.
        * apply NoDup_app_r in Hnd. exact Hnd.
        * intros x Hx. destruct (Hfresh x (in_or_app _ _ _ (or_intror Hx))) as [F1 F2]. split; [|exact F2].
          rewrite B4. intros [H|H]; [exact (F1 H)|].
          apply (NoDup_app_disj _ _ x Hnd H Hx).
        * exists (bk :: nb). split; [rewrite I1; exact B1|]. split.
          -- rewrite I2, B2, <- app_assoc. reflexivity.
          -- constructor; assumption.
  Qed.

  (* the control signals left to their default *)
  Definition specials_of (b : string * list (string * width * expr)) : list string :=
    match bank_letters (fst b) with
    | Some (_, o) => [("stall_" ++ o)%string; ("bubble_" ++ o)%string]
    | None => []
    end.

  Definition bank_name_ok (b : string * list (string * width * expr)) : Prop :=
    exists i o, bank_letters (fst b) = Some (i, o) /\ is_lower i = true /\ is_upper o = true.

  Lemma step3_bank_defaulted s consts t b :
    bank_name_ok b ->
    forall x, In x (t_defaulted (step3_bank f is_lower is_upper s consts t b)) <->
              In x (t_defaulted t) \/ (In x (specials_of b) /\ has (s_assigns s) x = false).
  Proof.
    destruct b as [name regs]. intros [i [o [Hl [Hlo Hup]]]] x. unfold specials_of. cbn [fst] in *. rewrite Hl.
    unfold step3_bank. rewrite (bank_letters_inv name i o Hl). rewrite Hlo, Hup. cbn [negb orb].
    match goal with
    | |- context [fold_left ?F regs ?A] =>
        pose proof (step3_regs_keep f s consts name i o regs A) as Hk;
        destruct (fold_left F regs A) as [[t2 sigs] defaults]
    end.
    destruct Hk as [_ K2]. cbn [r_t fst t_defaulted] in K2. cbn [t_defaulted]. rewrite K2.
    rewrite fold_add_set_In, in_app_iff. cbn [In].
    destruct (has (s_assigns s) ("stall_" ++ o)) eqn:E1; destruct (has (s_assigns s) ("bubble_" ++ o)) eqn:E2;
      cbn [In]; split.
    - intros [H|[[]|[]]]. left. exact H.
    - intros [H|[[H|[H|[]]] Hf]]; [left; exact H | subst x; rewrite E1 in Hf; discriminate Hf
                                   | subst x; rewrite E2 in Hf; discriminate Hf].
    - intros [H|[[]|[H|[]]]]; [left; exact H|]. subst x. right. split; [right; left; reflexivity | exact E2].
    - intros [H|[[H|[H|[]]] Hf]]; [left; exact H | subst x; rewrite E1 in Hf; discriminate Hf|].
      right. right. left. exact H.
    - intros [H|[[H|[]]|[]]]; [left; exact H|]. subst x. right. split; [left; reflexivity | exact E1].
    - intros [H|[[H|[H|[]]] Hf]]; [left; exact H | right; left; left; exact H|].
      subst x. rewrite E2 in Hf. discriminate Hf.
    - intros [H|[[H|[]]|[H|[]]]]; [left; exact H | |]; subst x; right.
      + split; [left; reflexivity | exact E1].
      + split; [right; left; reflexivity | exact E2].
    - intros [H|[[H|[H|[]]] Hf]]; [left; exact H | right; left; left; exact H | right; right; left; exact H].
  Qed.

  Lemma step3_banks_defaulted s consts : forall banks t,
    (forall b, In b banks -> bank_name_ok b) ->
    forall x, In x (t_defaulted (fold_left (step3_bank f is_lower is_upper s consts) banks t)) <->
              In x (t_defaulted t) \/ (In x (flat_map specials_of banks) /\ has (s_assigns s) x = false).
  Proof.
    induction banks as [|b banks IH]; intros t Hok x; cbn [fold_left flat_map].
    - cbn [In]. tauto.
    - rewrite IH by (intros b0 Hb0; apply Hok; right; exact Hb0).
      rewrite (step3_bank_defaulted s consts t b (Hok b (or_introl eq_refl)) x), in_app_iff. tauto.
  Qed.

  Lemma bank_cond_name_ok s consts b : bank_cond s consts b -> bank_name_ok b.
  Proof. intros [i [o [H1 [H2 [H3 _]]]]]. exists i, o. auto. Qed.

End S3.

  (* ---- the banks step 3 produces, against the spec's lists ------------------------------- *)
  Lemma flat_map_map {A B C} (g : B -> list C) (h : A -> B) (l : list A) :
    flat_map g (map h l) = flat_map (fun x => g (h x)) l.
  Proof. induction l as [|a l IH]; cbn [map flat_map]; [reflexivity | rewrite IH; reflexivity]. Qed.

  Lemma flat_map_flat_map {A B C} (g : B -> list C) (h : A -> list B) (l : list A) :
    flat_map g (flat_map h l) = flat_map (fun x => flat_map g (h x)) l.
  Proof.
    induction l as [|a l IH]; cbn [flat_map]; [reflexivity|]. rewrite flat_map_app, IH. reflexivity.
  Qed.

  Lemma bank_signal_names_eq stmts : bank_signal_names stmts = flat_map bank_names (bank_decls stmts).
  Proof.
    unfold bank_signal_names, bank_regs. rewrite flat_map_flat_map. apply flat_map_ext2.
    intros [name regs]. unfold bank_names. cbn [fst snd]. destruct (bank_letters name) as [[i o]|]; [|reflexivity].
    rewrite flat_map_map. reflexivity.
  Qed.

  Lemma banks_match_outs : forall bd banks, Forall2 bank_matches bd banks ->
    all_out_names banks =
    flat_map (fun b => match bank_letters (fst b) with
                       | Some (i, o) => map (fun r => (o ++ "_" ++ fst (fst r))%string) (snd b)
                       | None => []
                       end) bd.
  Proof.
    intros bd banks H. induction H as [|b bk bd banks [i [o [Hl [Hs _]]]] _ IH]; [reflexivity|].
    unfold all_out_names in *. cbn [flat_map]. rewrite IH, Hl, Hs, map_map. reflexivity.
  Qed.

  Lemma banks_match_ins : forall bd banks, Forall2 bank_matches bd banks ->
    all_in_names banks =
    flat_map (fun b => match bank_letters (fst b) with
                       | Some (i, o) => map (fun r => (i ++ "_" ++ fst (fst r))%string) (snd b)
                       | None => []
                       end) bd.
  Proof.
    intros bd banks H. induction H as [|b bk bd banks [i [o [Hl [Hs _]]]] _ IH]; [reflexivity|].
    unfold all_in_names in *. cbn [flat_map]. rewrite IH, Hl, Hs, map_map. reflexivity.
  Qed.

  Lemma bank_outputs_eq stmts :
    bank_outputs stmts =
    flat_map (fun b => match bank_letters (fst b) with
                       | Some (i, o) => map (fun r => (o ++ "_" ++ fst (fst r))%string) (snd b)
                       | None => []
                       end) (bank_decls stmts).
  Proof.
    unfold bank_outputs, bank_regs. rewrite map_flat_map. apply flat_map_ext2.
    intros [name regs]. cbn [fst snd]. destruct (bank_letters name) as [[i o]|]; [|reflexivity].
    rewrite map_map. reflexivity.
  Qed.

  Lemma bank_inputs_eq stmts :
    bank_inputs stmts =
    flat_map (fun b => match bank_letters (fst b) with
                       | Some (i, o) => map (fun r => (i ++ "_" ++ fst (fst r))%string) (snd b)
                       | None => []
                       end) (bank_decls stmts).
  Proof.
    unfold bank_inputs, bank_regs. rewrite map_flat_map. apply flat_map_ext2.
    intros [name regs]. cbn [fst snd]. destruct (bank_letters name) as [[i o]|]; [|reflexivity].
    rewrite map_map. reflexivity.
  Qed.

  (* the widths, per bank declaration *)
  Definition decl_widths (b : string * list (string * width * expr)) : list (string * width) :=
    match bank_letters (fst b) with
    | Some (i, o) =>
        flat_map (fun r => [((o ++ "_" ++ fst (fst r))%string, snd (fst r));
                            ((i ++ "_" ++ fst (fst r))%string, snd (fst r))]) (snd b) ++
        [(("stall_" ++ o)%string, Bits 1); (("bubble_" ++ o)%string, Bits 1)]
    | None => []
    end.

  Lemma banks_match_wires : forall bd banks, Forall2 bank_matches bd banks ->
    bank_wires banks = flat_map decl_widths bd.
  Proof.
    intros bd banks H. induction H as [|b bk bd banks [i [o [Hl [Hs [Hst Hbu]]]]] _ IH]; [reflexivity|].
    unfold bank_wires in *. cbn [flat_map]. rewrite IH. f_equal.
    unfold decl_widths. rewrite Hl, Hs, Hst, Hbu, flat_map_map. reflexivity.
  Qed.

  Lemma bank_widths_In stmts x w :
    In (x, w) (bank_widths stmts) <-> In (x, w) (flat_map decl_widths (bank_decls stmts)).
  Proof.
    unfold bank_widths, bank_regs, bank_specials. rewrite flat_map_flat_map.
    induction (bank_decls stmts) as [|[name regs] bd IH]; cbn [flat_map map app]; [tauto|].
    rewrite map_app, !in_app_iff. rewrite !in_app_iff in IH. unfold decl_widths at 1. cbn [fst snd].
    destruct (bank_letters name) as [[i o]|].
    - rewrite flat_map_map, in_app_iff. cbn [map In reg_out reg_in reg_width fst snd]. tauto.
    - cbn [flat_map map In]. tauto.
  Qed.

(* ================================================================================== *)
(* Part 1d (phases f, h, generic): preprocess_fixed and the scheduler                    *)
(* ================================================================================== *)
Section PP.
  Variable f : features.
  Variable consts : list (string * wval).
  Variable assigns : list (string * expr).

  Definition all_assigned (ff : fixed_fn) : Prop := forall i, In i (fixed_in_names ff) -> has assigns i = true.

  Definition pp_cond (ff : fixed_fn) : Prop :=
    (ff_mandatory ff = true -> all_assigned ff) /\
    (ff_mandatory ff = false ->
     forall i j, In i (fixed_in_names ff) -> has assigns i = true ->
                 In j (fixed_in_names ff) -> has assigns j = false ->
       exists en ee v, ff_enable ff = Some en /\ lookup assigns en = Some ee /\
                       eval f (lookup consts) ee = Ok v /\ is_true v = false).

  Lemma all_assigned_dec ff : all_assigned ff \/ exists j, In j (fixed_in_names ff) /\ has assigns j = false.
  Proof.
    unfold all_assigned. induction (fixed_in_names ff) as [|i l IH].
    - left. intros i [].
    - destruct (has assigns i) eqn:E.
      + destruct IH as [IH|[j [Hj1 Hj2]]].
        * left. intros i0 [<-|H0]; [exact E | apply IH; exact H0].
        * right. exists j. split; [right; exact Hj1 | exact Hj2].
      + right. exists i. split; [left; reflexivity | exact E].
  Qed.

  Lemma preprocess_one_installed g by_out no_out ff :
    all_assigned ff ->
    preprocess_one f consts assigns (g, by_out, no_out, []) ff =
    match ff_out ff with
    | None => (g, by_out, no_out ++ [ff], [])
    | Some (o, _) => (fold_left (fun g1 n => graph_insert g1 n o) (fixed_in_names ff) g, upd by_out o ff, no_out, [])
    end.
  Proof.
    intros Hall. unfold preprocess_one. cbv beta iota zeta.
    rewrite (filter_all_false (fun n => negb (has assigns n)) (fixed_in_names ff)).
    2:{ intros x Hx. rewrite (Hall x Hx). reflexivity. }
    destruct (ff_out ff) as [[o w]|]; reflexivity.
  Qed.

  Lemma preprocess_one_skipped g by_out no_out ff j :
    pp_cond ff -> In j (fixed_in_names ff) -> has assigns j = false ->
    (forall o w, ff_out ff = Some (o, w) -> ~ In o (g_nodes g)) ->
    preprocess_one f consts assigns (g, by_out, no_out, []) ff = (g, by_out, no_out, []).
  Proof.
    intros [Hm Hp] Hj Hjf Hnode. unfold preprocess_one. cbv beta iota zeta.
    destruct (filter (fun n => negb (has assigns n)) (fixed_in_names ff)) as [|m ms] eqn:Em.
    { exfalso. apply (filter_nil_inv _ _ Em) in Hj. rewrite Hjf in Hj. discriminate Hj. }
    destruct (ff_mandatory ff) eqn:Eman.
    { exfalso. rewrite (Hm eq_refl j Hj) in Hjf. discriminate Hjf. }
    assert (E1 : match ff_out ff with
                 | Some (o, _) => if graph_has_node g o then map (fun n => mkErr UnsetBuiltinWire [n]) (m :: ms) else []
                 | None => []
                 end = []).
    { destruct (ff_out ff) as [[o w]|] eqn:Eo; [|reflexivity].
      unfold graph_has_node. specialize (Hnode o w eq_refl). apply mem_str_false in Hnode. rewrite Hnode. reflexivity. }
    rewrite E1. cbn [app].
    destruct ((List.length (m :: ms) =? List.length (ff_ins ff))%nat) eqn:Elen; [reflexivity|].
    assert (Hex : exists i, In i (fixed_in_names ff) /\ has assigns i = true).
    { destruct (existsb (fun n => has assigns n) (fixed_in_names ff)) eqn:Eex.
      - apply existsb_exists in Eex. exact Eex.
      - exfalso. apply Nat.eqb_neq in Elen. apply Elen. rewrite <- Em.
        rewrite filter_all_true.
        + unfold fixed_in_names. apply map_length.
        + intros x Hx. destruct (has assigns x) eqn:Ex; [|reflexivity].
          assert (Hc : existsb (fun n => has assigns n) (fixed_in_names ff) = true)
            by (apply existsb_exists; exists x; split; assumption).
          rewrite Hc in Eex. discriminate Eex. }
    destruct Hex as [i [Hi Hit]].
    destruct (Hp eq_refl i j Hi Hit Hj Hjf) as [en [ee [v [H1 [H2 [H3 H4]]]]]].
    rewrite H1, H2, H3, H4. reflexivity.
  Qed.

  Lemma preprocess_ok : forall l g by_out no_out,
    gwf g -> NoDup (fixed_out_names l) -> Forall (fun ff => NoDup (fixed_in_names ff)) l ->
    (forall o, In o (fixed_out_names l) -> forall x, ~ gedge g x o) ->
    (forall ff o w, In ff l -> ff_out ff = Some (o, w) -> In o (g_nodes g) -> all_assigned ff) ->
    (forall o, In o (fixed_out_names l) -> has assigns o = false) ->
    (forall ff, In ff l -> pp_cond ff) ->
    exists g' by_out' no_out',
      fold_left (preprocess_one f consts assigns) l (g, by_out, no_out, []) = (g', by_out', no_out', []) /\
      gwf g' /\
      (forall x y, gedge g' x y <->
         gedge g x y \/ exists ff w, In ff l /\ all_assigned ff /\ ff_out ff = Some (y, w) /\ In x (fixed_in_names ff)) /\
      (forall x, In x (g_nodes g') ->
         In x (g_nodes g) \/
         exists ff, In ff l /\ all_assigned ff /\ (In x (fixed_in_names ff) \/ exists w, ff_out ff = Some (x, w))) /\
      (forall n, has by_out n = true -> has by_out' n = true) /\
      (forall ff n w, In ff l -> all_assigned ff -> ff_out ff = Some (n, w) -> has by_out' n = true).
  Proof.
    induction l as [|ff l IH]; intros g by_out no_out Hwf Hnd Hins Hne Hinv Hout Hcond; cbn [fold_left].
    - exists g, by_out, no_out. split; [reflexivity|]. split; [exact Hwf|]. split; [|split; [|split]].
      + intros x y. split; [intros H; left; exact H | intros [H|[ff [w [[] _]]]]; exact H].
      + intros x Hx. left. exact Hx.
      + intros n Hn. exact Hn.
      + intros ff n w [].
    - inversion Hins as [|? ? Hi Hins']; subst.
      rewrite fixed_out_names_cons in Hnd, Hne, Hout.
      assert (Hnd' : NoDup (fixed_out_names l)) by (apply NoDup_app_r in Hnd; exact Hnd).
      assert (Hne' : forall o, In o (fixed_out_names l) -> forall x, ~ gedge g x o).
      { intros o Ho. apply Hne. apply in_or_app. right. exact Ho. }
      assert (Hout' : forall o, In o (fixed_out_names l) -> has assigns o = false).
      { intros o Ho. apply Hout. apply in_or_app. right. exact Ho. }
      assert (Hcond' : forall ff0, In ff0 l -> pp_cond ff0) by (intros ff0 H0; apply Hcond; right; exact H0).
      assert (Hinv' : forall ff0 o w, In ff0 l -> ff_out ff0 = Some (o, w) -> In o (g_nodes g) -> all_assigned ff0).
      { intros ff0 o w H0. apply Hinv. right. exact H0. }
      destruct (all_assigned_dec ff) as [Hall|[j [Hj Hjf]]].
      + rewrite (preprocess_one_installed g by_out no_out ff Hall).
        destruct (ff_out ff) as [[o w]|] eqn:Eo.
        * cbn [app] in Hnd, Hne, Hout.
          apply NoDup_cons_iff in Hnd. destruct Hnd as [Hon _].
          destruct (insert_ins_wf o (fixed_in_names ff) g Hwf Hi) as [W1 [W2 W3]].
          { intros i _. apply Hne. left. reflexivity. }
          cbv zeta in W1, W2, W3.
          pose proof (insert_ins_nodes o (fixed_in_names ff) g) as W4.
          set (g1 := fold_left (fun g1 n => graph_insert g1 n o) (fixed_in_names ff) g) in *.
          destruct (IH g1 (upd by_out o ff) no_out W1 Hnd' Hins') as [g' [by' [no' [F1 [F2 [F3 [F4 [F5 F6]]]]]]]].
          { intros o' Ho' x He. apply W2 in He. destruct He as [He|[He _]].
            - apply (Hne' o' Ho' x). exact He.
            - subst o'. apply Hon. exact Ho'. }
          { intros ff0 o' w' H0 Ho' Hnode. apply W4 in Hnode. destruct Hnode as [Hnode|[Hnode|Hnode]].
            - apply (Hinv' ff0 o' w' H0 Ho' Hnode).
            - exfalso. subst o'. apply Hon. apply (In_fixed_out_names l ff0 o w' H0 Ho').
            - exfalso. pose proof (Hout' o' (In_fixed_out_names l ff0 o' w' H0 Ho')) as Hx.
              rewrite (Hall o' Hnode) in Hx. discriminate Hx. }
          { exact Hout'. }
          { exact Hcond'. }
          exists g', by', no'. split; [exact F1|]. split; [exact F2|]. split; [|split; [|split]].
          -- intros x y. rewrite F3, W2. split.
             ++ intros [[H|[H1 H2]]|[ff0 [w0 [H1 H2]]]].
                ** left. exact H.
                ** right. exists ff, w. subst y. split; [left; reflexivity|]. split; [exact Hall|]. split; [exact Eo | exact H2].
                ** right. exists ff0, w0. split; [right; exact H1 | exact H2].
             ++ intros [H|[ff0 [w0 [[H1|H1] [H2 [H3 H4]]]]]].
                ** left. left. exact H.
                ** subst ff0. rewrite Eo in H3. injection H3 as <- <-. left. right. split; [reflexivity | exact H4].
                ** right. exists ff0, w0. auto.
          -- intros x Hx. apply F4 in Hx. destruct Hx as [Hx|[ff0 [H1 H2]]].
             ++ apply W4 in Hx. destruct Hx as [Hx|[Hx|Hx]]; [left; exact Hx| |].
                ** right. exists ff. split; [left; reflexivity|]. split; [exact Hall|]. right. exists w. subst x. exact Eo.
                ** right. exists ff. split; [left; reflexivity|]. split; [exact Hall|]. left. exact Hx.
             ++ right. exists ff0. split; [right; exact H1 | exact H2].
          -- intros n Hn. apply F5. apply has_In. rewrite map_fst_upd. apply add_set_In. left. apply has_In. exact Hn.
          -- intros ff0 n w0 [H0|H0] Ha Ho.
             ++ subst ff0. rewrite Eo in Ho. injection Ho as <- <-. apply F5.
                apply has_In. rewrite map_fst_upd. apply add_set_In. right. reflexivity.
             ++ apply (F6 ff0 n w0 H0 Ha Ho).
        * cbn [app] in Hnd, Hne, Hout.
          destruct (IH g by_out (no_out ++ [ff]) Hwf Hnd' Hins' Hne' Hinv' Hout' Hcond')
            as [g' [by' [no' [F1 [F2 [F3 [F4 [F5 F6]]]]]]]].
          exists g', by', no'. split; [exact F1|]. split; [exact F2|]. split; [|split; [|split]].
          -- intros x y. rewrite F3. split.
             ++ intros [H|[ff0 [w0 [H1 H2]]]]; [left; exact H | right; exists ff0, w0; split; [right; exact H1 | exact H2]].
             ++ intros [H|[ff0 [w0 [[H1|H1] [H2 [H3 H4]]]]]]; [left; exact H | | right; exists ff0, w0; auto].
                subst ff0. rewrite Eo in H3. discriminate H3.
          -- intros x Hx. apply F4 in Hx. destruct Hx as [Hx|[ff0 [H1 H2]]]; [left; exact Hx|].
             right. exists ff0. split; [right; exact H1 | exact H2].
          -- exact F5.
          -- intros ff0 n w0 [H0|H0] Ha Ho; [subst ff0; rewrite Eo in Ho; discriminate Ho|].
             apply (F6 ff0 n w0 H0 Ha Ho).
      + rewrite (preprocess_one_skipped g by_out no_out ff j (Hcond ff (or_introl eq_refl)) Hj Hjf).
        2:{ intros o w Ho Hnode. pose proof (Hinv ff o w (or_introl eq_refl) Ho Hnode j Hj) as Hc.
            rewrite Hc in Hjf. discriminate Hjf. }
        destruct (IH g by_out no_out Hwf Hnd' Hins' Hne' Hinv' Hout' Hcond')
          as [g' [by' [no' [F1 [F2 [F3 [F4 [F5 F6]]]]]]]].
        exists g', by', no'. split; [exact F1|]. split; [exact F2|]. split; [|split; [|split]].
        * intros x y. rewrite F3. split.
          -- intros [H|[ff0 [w0 [H1 H2]]]]; [left; exact H | right; exists ff0, w0; split; [right; exact H1 | exact H2]].
          -- intros [H|[ff0 [w0 [[H1|H1] [H2 [H3 H4]]]]]]; [left; exact H | | right; exists ff0, w0; auto].
             subst ff0. rewrite (H2 j Hj) in Hjf. discriminate Hjf.
        * intros x Hx. apply F4 in Hx. destruct Hx as [Hx|[ff0 [H1 H2]]]; [left; exact Hx|].
          right. exists ff0. split; [right; exact H1 | exact H2].
        * exact F5.
        * intros ff0 n w0 [H0|H0] Ha Ho; [subst ff0; rewrite (Ha j Hj) in Hjf; discriminate Hjf|].
          apply (F6 ff0 n w0 H0 Ha Ho).
  Qed.

  Lemma schedule_complete widths by_out decls : forall order acts,
    (forall n, In n order ->
       (exists e w we, lookup assigns n = Some e /\ lookup widths n = Some w /\
                       check f (lookup widths) (lookup consts) e = Ok we /\ wcombine w we <> None) \/
       (lookup assigns n = None /\ has by_out n = true)) ->
    exists acts', schedule f widths consts assigns by_out decls order acts [] [] = (acts', [], []).
  Proof.
    induction order as [|n order IH]; intros acts H; cbn [schedule].
    - exists acts. reflexivity.
    - destruct (H n (or_introl eq_refl)) as [[e [w [we [H1 [H2 [H3 H4]]]]]]|[H1 H2]].
      + rewrite H1, H2, H3. destruct (wcombine w we); [|contradiction H4; reflexivity].
        cbn [app]. apply IH. intros m Hm. apply H. right. exact Hm.
      + rewrite H1. unfold has in H2. destruct (lookup by_out n) as [ff|]; [|discriminate H2].
        apply IH. intros m Hm. apply H. right. exact Hm.
  Qed.
End PP.

(* ================================================================================== *)
(* Part 2 (phase a): step 1 produces no diagnostics                                    *)
(* ================================================================================== *)
Section Complete.
  Variable f : features.
  Variable fixed : list fixed_fn.
  Variable is_lower : string -> bool.
  Variable is_upper : string -> bool.

  Notation build := (build_program f fixed is_lower is_upper).
  Notation S1 stmts := (fold_left (step1 fixed) stmts (init1 fixed)).
  Notation T3 s consts := (fold_left (step3_bank f is_lower is_upper s consts) (s_banks s)
                                     (mkSt3 [] [] (s_types s) [] [] [])).
  Notation addf := (fun (l : list string) (x : string) => add_set x l).

  (* the spec's lists are the ones BuildProofs computes with *)
  Lemma wire_decls_eq stmts : wire_decls stmts = flat_map wpairs stmts.
  Proof. reflexivity. Qed.
  Lemma assign_exprs_eq stmts : assign_exprs stmts = flat_map apairs stmts.
  Proof. reflexivity. Qed.
  Lemma bank_decls_eq stmts : bank_decls stmts = flat_map bpairs stmts.
  Proof. reflexivity. Qed.

  Lemma assign_exprs_names stmts : map fst (assign_exprs stmts) = assigned_names stmts.
  Proof. rewrite assign_exprs_eq. apply apairs_names. Qed.

  Lemma wire_decls_names stmts : map fst (wire_decls stmts) = wire_names stmts.
  Proof. rewrite wire_decls_eq. apply wpairs_names. Qed.

  Lemma errs_const_ok d : forall s,
    s_errs s = [] -> NoDup (s_decls s ++ map fst d) ->
    (forall n, In n (map fst d) -> ~ In n (fixed_names fixed)) ->
    s_errs (fold_left (step1_const fixed) d s) = [].
  Proof.
    induction d as [|[n e] d IH]; intros s He Hnd Hfx; cbn [fold_left]; [exact He|].
    cbn [map fst] in Hnd, Hfx.
    assert (Hn : ~ In n (s_decls s)).
    { apply NoDup_remove_2 in Hnd. intros H. apply Hnd. apply in_or_app. left. exact H. }
    apply IH.
    - cbn [step1_const s_errs]. rewrite He. cbn [app]. unfold check_double_declare.
      apply mem_str_false in Hn. rewrite Hn.
      assert (Hf : ~ In n (fixed_names fixed)) by (apply Hfx; left; reflexivity).
      apply mem_str_false in Hf. rewrite Hf. reflexivity.
    - cbn [step1_const s_decls]. rewrite (add_set_fresh n _ Hn), <- app_assoc. exact Hnd.
    - intros m Hm. apply Hfx. right. exact Hm.
  Qed.

  Lemma errs_wire_ok d : forall s,
    s_errs s = [] -> NoDup (s_decls s ++ map fst d) ->
    (forall n, In n (map fst d) -> ~ In n (fixed_names fixed)) ->
    s_errs (fold_left (step1_wire fixed) d s) = [].
  Proof.
    induction d as [|[n e] d IH]; intros s He Hnd Hfx; cbn [fold_left]; [exact He|].
    cbn [map fst] in Hnd, Hfx.
    assert (Hn : ~ In n (s_decls s)).
    { apply NoDup_remove_2 in Hnd. intros H. apply Hnd. apply in_or_app. left. exact H. }
    apply IH.
    - cbn [step1_wire s_errs]. rewrite He. cbn [app]. unfold check_double_declare.
      apply mem_str_false in Hn. rewrite Hn.
      assert (Hf : ~ In n (fixed_names fixed)) by (apply Hfx; left; reflexivity).
      apply mem_str_false in Hf. rewrite Hf. reflexivity.
    - cbn [step1_wire s_decls]. rewrite (add_set_fresh n _ Hn), <- app_assoc. exact Hnd.
    - intros m Hm. apply Hfx. right. exact Hm.
  Qed.

  Lemma errs_names_ok e names : forall s,
    s_errs s = [] -> NoDup (s_assigned s ++ names) ->
    (forall n, In n names -> ~ In n (fixed_out_names fixed)) ->
    s_errs (fold_left (step1_assign_name fixed e) names s) = [] /\
    s_assigned (fold_left (step1_assign_name fixed e) names s) = s_assigned s ++ names /\
    s_decls (fold_left (step1_assign_name fixed e) names s) = s_decls s.
  Proof.
    induction names as [|n names IH]; intros s He Hnd Hfx; cbn [fold_left].
    - rewrite app_nil_r. auto.
    - assert (Hn : ~ In n (s_assigned s)).
      { apply NoDup_remove_2 in Hnd. intros H. apply Hnd. apply in_or_app. left. exact H. }
      destruct (IH (step1_assign_name fixed e s n)) as [I1 [I2 I3]].
      + cbn [step1_assign_name s_errs]. rewrite He. cbn [app].
        apply mem_str_false in Hn. rewrite Hn.
        assert (Hf : ~ In n (fixed_out_names fixed)) by (apply Hfx; left; reflexivity).
        apply mem_str_false in Hf. rewrite Hf. reflexivity.
      + cbn [step1_assign_name s_assigned]. rewrite (add_set_fresh n _ Hn), <- app_assoc. exact Hnd.
      + intros m Hm. apply Hfx. right. exact Hm.
      + split; [exact I1|]. split; [|exact I3].
        rewrite I2. cbn [step1_assign_name s_assigned]. rewrite (add_set_fresh n _ Hn), <- app_assoc. reflexivity.
  Qed.

  Lemma errs_assigns_ok a : forall s,
    s_errs s = [] -> NoDup (s_assigned s ++ flat_map fst a) ->
    (forall n, In n (flat_map fst a) -> ~ In n (fixed_out_names fixed)) ->
    s_errs (fold_left (fun s1 a0 => fold_left (step1_assign_name fixed (snd a0)) (fst a0) s1) a s) = [].
  Proof.
    induction a as [|[names e] a IH]; intros s He Hnd Hfx; cbn [fold_left]; [exact He|].
    cbn [flat_map fst snd] in *.
    destruct (errs_names_ok e names s He) as [I1 [I2 _]].
    - rewrite app_assoc in Hnd. apply NoDup_app_l in Hnd. exact Hnd.
    - intros n Hn. apply Hfx. apply in_or_app. left. exact Hn.
    - apply IH; [exact I1| |].
      + rewrite I2, <- app_assoc. exact Hnd.
      + intros n Hn. apply Hfx. apply in_or_app. right. exact Hn.
  Qed.

  Lemma step1_errs_ok : forall stmts s,
    s_errs s = [] ->
    NoDup (s_decls s ++ decl_names stmts) ->
    (forall n, In n (decl_names stmts) -> ~ In n (fixed_names fixed)) ->
    NoDup (s_assigned s ++ assigned_names stmts) ->
    (forall n, In n (assigned_names stmts) -> ~ In n (fixed_out_names fixed)) ->
    s_errs (fold_left (step1 fixed) stmts s) = [].
  Proof.
    induction stmts as [|x stmts IH]; intros s He Hd Hdf Ha Haf; cbn [fold_left]; [exact He|].
    unfold decl_names in Hd, Hdf. unfold assigned_names in Ha, Haf. cbn [flat_map] in Hd, Hdf, Ha, Haf.
    fold (decl_names stmts) in Hd, Hdf. fold (assigned_names stmts) in Ha, Haf.
    change (match x with SAssign a => flat_map fst a | _ => [] end) with (akey x) in Ha, Haf.
    apply IH.
    - destruct x as [d|d|a|bn regs]; cbn [step1 dkey akey] in *.
      + apply errs_const_ok; [exact He| |].
        * rewrite app_assoc in Hd. apply NoDup_app_l in Hd. exact Hd.
        * intros n Hn. apply Hdf. apply in_or_app. left. exact Hn.
      + apply errs_wire_ok; [exact He| |].
        * rewrite app_assoc in Hd. apply NoDup_app_l in Hd. exact Hd.
        * intros n Hn. apply Hdf. apply in_or_app. left. exact Hn.
      + apply errs_assigns_ok; [exact He| |].
        * rewrite app_assoc in Ha. apply NoDup_app_l in Ha. exact Ha.
        * intros n Hn. apply Haf. apply in_or_app. left. exact Hn.
      + exact He.
    - rewrite s_decls_step1. rewrite fold_add_set_fresh.
      + rewrite <- app_assoc. exact Hd.
      + rewrite app_assoc in Hd. apply NoDup_app_l in Hd. exact Hd.
    - intros n Hn. apply Hdf. apply in_or_app. right. exact Hn.
    - rewrite s_assigned_step1. rewrite fold_add_set_fresh.
      + rewrite <- app_assoc. exact Ha.
      + rewrite app_assoc in Ha. apply NoDup_app_l in Ha. exact Ha.
    - intros n Hn. apply Haf. apply in_or_app. right. exact Hn.
  Qed.

  Lemma decl_names_NoDup stmts : NoDup (const_names stmts ++ wire_names stmts) -> NoDup (decl_names stmts).
  Proof. intros H. apply (Permutation_NoDup (Permutation_sym (decl_names_perm stmts))). exact H. Qed.

  Section Phases.
    Variable stmts : list stmt.
    Variable cv : string -> option wval.
    Variable G : string -> option width.
    Hypothesis FF : fault_free_with f fixed is_lower is_upper cv G stmts.
    Hypothesis TD : table_distinct fixed.

    Notation sS := (S1 stmts).

    Lemma ph_a_errs : s_errs sS = [].
    Proof.
      apply step1_errs_ok.
      - reflexivity.
      - cbn [init1 s_decls app]. apply decl_names_NoDup. apply (ff_declared_once _ _ _ _ _ _ _ FF).
      - intros n Hn. apply (ff_not_builtin _ _ _ _ _ _ _ FF). apply in_or_app. apply In_decl_names. exact Hn.
      - cbn [init1 s_assigned app]. apply (ff_assigned_once _ _ _ _ _ _ _ FF).
      - intros n Hn. apply (ff_no_driver _ _ _ _ _ _ _ FF). exact Hn.
    Qed.

    (* the bookkeeping of step 1 is the statement list itself *)
    Lemma ph_a_decls : s_decls sS = decl_names stmts.
    Proof.
      rewrite S1_decls. rewrite fold_add_set_fresh; [reflexivity|]. cbn [app].
      apply decl_names_NoDup. apply (ff_declared_once _ _ _ _ _ _ _ FF).
    Qed.

    Lemma ph_a_decls_In n : In n (s_decls sS) <-> In n (const_names stmts ++ wire_names stmts).
    Proof. rewrite in_app_iff. exact (S1_decls_In fixed is_lower is_upper stmts n). Qed.

    Lemma ph_a_assigned : s_assigned sS = assigned_names stmts.
    Proof.
      rewrite S1_assigned. rewrite fold_add_set_fresh; [reflexivity|]. cbn [app].
      apply (ff_assigned_once _ _ _ _ _ _ _ FF).
    Qed.

    Lemma consts_NoDup : NoDup (const_names stmts).
    Proof. apply (NoDup_app_l _ _ (ff_declared_once _ _ _ _ _ _ _ FF)). Qed.

    Lemma ph_a_consts : s_consts sS = const_exprs stmts.
    Proof.
      rewrite S1_consts. rewrite fold_updp_fresh; [reflexivity|]. cbn [map app].
      rewrite const_exprs_names. apply consts_NoDup.
    Qed.

    Lemma ph_a_assigns : s_assigns sS = assign_exprs stmts.
    Proof.
      rewrite S1_assigns. rewrite fold_updp_fresh; [reflexivity|]. cbn [map app].
      rewrite apairs_names. apply (ff_assigned_once _ _ _ _ _ _ _ FF).
    Qed.

    Lemma ph_a_banks : s_banks sS = bank_decls stmts.
    Proof. rewrite S1_banks, fold_snoc. reflexivity. Qed.

    Lemma ph_a_needed_In n : In n (s_needed sS) <-> In n (wire_names stmts).
    Proof. exact (S1_needed_In fixed is_lower is_upper stmts n). Qed.

    Lemma const_lookup n e : lookup (const_exprs stmts) n = Some e <-> In (n, e) (const_exprs stmts).
    Proof.
      split; [apply lookup_In|]. apply In_lookup. rewrite const_exprs_names. apply consts_NoDup.
    Qed.

    Lemma assign_lookup n e : lookup (assign_exprs stmts) n = Some e <-> In (n, e) (assign_exprs stmts).
    Proof.
      split; [apply lookup_In|]. apply In_lookup. rewrite assign_exprs_names.
      apply (ff_assigned_once _ _ _ _ _ _ _ FF).
    Qed.

    Lemma assign_has n : has (assign_exprs stmts) n = true <-> In n (assigned_names stmts).
    Proof. rewrite has_In, assign_exprs_names. reflexivity. Qed.

    Lemma const_has n : has (const_exprs stmts) n = true <-> In n (const_names stmts).
    Proof. rewrite has_In, const_exprs_names. reflexivity. Qed.

    (* ---- phase b ------------------------------------------------------------------------ *)
    Lemma ph_b_assigned : const_assigned_errors sS = [].
    Proof.
      unfold const_assigned_errors. apply flat_map_all_nil. intros n Hn.
      rewrite ph_a_assigned in Hn. rewrite ph_a_consts.
      destruct (has (const_exprs stmts) n) eqn:E; [|reflexivity].
      apply const_has in E. destruct (ff_no_driver _ _ _ _ _ _ _ FF n Hn) as [_ [H _]]. contradiction.
    Qed.

    Lemma ph_b_refs : const_ref_errors sS = [].
    Proof.
      unfold const_ref_errors. apply flat_map_all_nil. intros [n e] Hne. cbn [snd].
      apply flat_map_all_nil. intros r Hr. apply (proj1 (nodup_str_In r (refs e))) in Hr.
      rewrite ph_a_consts in Hne |- *.
      assert (Hc : has (const_exprs stmts) r = true).
      { apply const_has. apply (ff_consts_closed _ _ _ _ _ _ _ FF n e r Hne Hr). }
      rewrite Hc. cbn [negb andb]. rewrite andb_false_r. reflexivity.
    Qed.

    (* ---- phase c: the constants resolve, to the values cv ------------------------------- *)
    Lemma eval_consts_ok (cs : list (string * expr)) :
      (forall n e, lookup cs n = Some e ->
         exists v, cv n = Some v /\ eval f cv e = Ok v /\ exists w, check f (cwidth cv) cv e = Ok w) ->
      forall rest done vals,
        (forall k, In k done -> lookup vals k = cv k) ->
        (forall k, ~ In k done -> lookup vals k = None) ->
        (forall n, In n rest -> exists e, lookup cs n = Some e) ->
        (forall l1 n l2 e, rest = l1 ++ n :: l2 -> lookup cs n = Some e ->
           forall r, In r (refs e) -> In r (done ++ l1)) ->
        exists vals', eval_consts f cs rest vals [] = (vals', []) /\
          (forall k, In k (done ++ rest) -> lookup vals' k = cv k) /\
          (forall k, ~ In k (done ++ rest) -> lookup vals' k = None).
    Proof.
      intros Hcs. induction rest as [|n rest IH]; intros done vals Hd Hnd Hall Hsorted.
      - exists vals. rewrite app_nil_r. split; [reflexivity|]. split; assumption.
      - destruct (Hall n (or_introl eq_refl)) as [e He].
        destruct (Hcs n e He) as [v [Hcv [Hev [w Hck]]]].
        assert (Hrefs : forall r, In r (refs e) -> lookup vals r = cv r).
        { intros r Hr. apply Hd. pose proof (Hsorted [] n rest e eq_refl He r Hr) as H.
          rewrite app_nil_r in H. exact H. }
        cbn [eval_consts]. rewrite He.
        rewrite (check_ext f _ (cwidth cv) (lookup vals) cv e).
        2:{ intros r Hr. unfold cwidth. rewrite (Hrefs r Hr). split; reflexivity. }
        rewrite Hck. rewrite (eval_ext f (lookup vals) cv e Hrefs), Hev.
        destruct (IH (done ++ [n]) (upd vals n v)) as [vals' [E1 [E2 E3]]].
        + intros k Hk. rewrite lookup_upd. destruct (String.eqb k n) eqn:Ekn.
          * apply String.eqb_eq in Ekn. subst k. symmetry. exact Hcv.
          * apply Hd. apply in_app_iff in Hk. destruct Hk as [Hk|[Hk|[]]]; [exact Hk|].
            subst k. rewrite String.eqb_refl in Ekn. discriminate Ekn.
        + intros k Hk. rewrite lookup_upd. destruct (String.eqb k n) eqn:Ekn.
          * apply String.eqb_eq in Ekn. subst k. exfalso. apply Hk. apply in_or_app. right. left. reflexivity.
          * apply Hnd. intros H. apply Hk. apply in_or_app. left. exact H.
        + intros m Hm. apply Hall. right. exact Hm.
        + intros l1 m l2 e0 Hrest He0 r Hr. rewrite <- app_assoc. cbn [app].
          apply (Hsorted (n :: l1) m l2 e0); [rewrite Hrest; reflexivity | exact He0 | exact Hr].
        + exists vals'. split; [exact E1|]. rewrite <- app_assoc in E2, E3. cbn [app] in E2, E3.
          split; assumption.
    Qed.

    Lemma cv_None n : ~ In n (const_names stmts) -> cv n = None.
    Proof.
      intros H. destruct (cv n) as [v|] eqn:E; [|reflexivity]. exfalso. apply H.
      apply (ff_cv_domain _ _ _ _ _ _ _ FF). rewrite E. discriminate.
    Qed.

    Lemma const_entry n e : In (n, e) (const_exprs stmts) ->
      exists v, cv n = Some v /\ eval f cv e = Ok v /\ exists w, check f (cwidth cv) cv e = Ok w.
    Proof.
      intros Hne. destruct (ff_consts_eval _ _ _ _ _ _ _ FF n e Hne) as [v [H1 H2]].
      destruct (ff_consts_width _ _ _ _ _ _ _ FF n e Hne) as [w Hw].
      exists v. split; [exact H1|]. split; [exact H2|]. exists w. apply check_iff. exact Hw.
    Qed.

    Lemma ph_c : exists consts,
      resolve_constants f (const_exprs stmts) = Ok consts /\ forall n, lookup consts n = cv n.
    Proof.
      set (cs := const_exprs stmts).
      assert (Hnd : NoDup (map fst cs)) by (unfold cs; rewrite const_exprs_names; apply consts_NoDup).
      destruct (const_graph_facts cs Hnd) as [W [E [N1 N2]]].
      assert (Hac : ~ has_cycle string String.eqb (const_graph cs)).
      { apply (acyclic_no_cycle (const_reads stmts)); [apply (ff_consts_acyclic _ _ _ _ _ _ _ FF)|].
        intros a b Hab. apply E in Hab. exact Hab. }
      destruct (toposort_exact string String.eqb String.eqb_eq (const_graph cs) W) as [_ Hto].
      destruct (Hto Hac) as [order [Hts [L1 [L2 L3]]]].
      assert (Hnode : forall n, In n (g_nodes (const_graph cs)) -> In n (const_names stmts)).
      { intros n Hn. apply N2 in Hn. destruct Hn as [Hn|[y [e [H1 H2]]]].
        - unfold cs in Hn. rewrite const_exprs_names in Hn. exact Hn.
        - apply (ff_consts_closed _ _ _ _ _ _ _ FF y e n H1 H2). }
      destruct (eval_consts_ok cs) with (rest := order) (done := @nil string) (vals := @nil (string * wval))
        as [vals [E1 [E2 E3]]].
      - intros n e Hl. apply const_entry. apply lookup_In. exact Hl.
      - intros k [].
      - intros k _. reflexivity.
      - intros n Hn. apply L2 in Hn. apply Hnode in Hn.
        rewrite <- const_exprs_names in Hn. apply has_In in Hn. apply has_lookup in Hn. exact Hn.
      - intros l1 n l2 e Hord Hl r Hr. cbn [app].
        assert (Hedge : gedge (const_graph cs) r n).
        { apply E. exists e. split; [apply lookup_In; exact Hl | exact Hr]. }
        destruct (L3 r n Hedge) as [a [b [c Habc]]].
        assert (Hl1 : l1 = a ++ r :: b).
        { apply (NoDup_split_unique n l1 l2 (a ++ r :: b) c).
          - rewrite <- Hord. exact L1.
          - rewrite <- Hord, Habc, <- app_assoc. reflexivity. }
        rewrite Hl1. apply in_or_app. right. left. reflexivity.
      - exists vals. split.
        + unfold resolve_constants. fold cs. rewrite Hts. cbn [bind]. rewrite E1. reflexivity.
        + intros n. cbn [app] in E2, E3. destruct (in_dec string_dec n order) as [Hin|Hin].
          * apply E2. exact Hin.
          * rewrite (E3 n Hin). symmetry. apply cv_None. intros Hc. apply Hin. apply L2. apply N1.
            unfold cs. rewrite const_exprs_names. exact Hc.
    Qed.

    (* ---- phases d..h, for the constants phase c produced --------------------------------- *)
    Section AfterConsts.
      Variable consts : list (string * wval).
      Hypothesis Hcv : forall n, lookup consts n = cv n.

      Notation tT := (T3 sS consts).

      Lemma consts_has n : has consts n = true <-> In n (const_names stmts).
      Proof.
        unfold has. rewrite Hcv. split.
        - intros H. apply (ff_cv_domain _ _ _ _ _ _ _ FF). destruct (cv n); [discriminate | discriminate H].
        - intros H. apply (ff_cv_domain _ _ _ _ _ _ _ FF) in H. destruct (cv n); [reflexivity | contradiction H; reflexivity].
      Qed.

      Lemma consts_keys n : In n (map fst consts) <-> In n (const_names stmts).
      Proof. rewrite <- has_In. apply consts_has. Qed.

      Lemma In_bank_regs b i o r : In b (bank_decls stmts) -> bank_letters (fst b) = Some (i, o) -> In r (snd b) ->
        In ((i ++ "_" ++ fst (fst r))%string, (o ++ "_" ++ fst (fst r))%string, snd (fst r), snd r) (bank_regs stmts).
      Proof.
        intros Hb Hl Hr. unfold bank_regs. apply in_flat_map. exists b. split; [exact Hb|].
        rewrite Hl. apply in_map_iff. exists r. split; [reflexivity | exact Hr].
      Qed.

      Lemma wires_has_false n :
        has (s_wires sS) n = false <-> ~ In n (wire_names stmts) /\ ~ In n (fixed_names fixed).
      Proof.
        rewrite has_false, S1_wires, fold_upd_keys_In. cbn [init1 s_wires].
        change (fold_left (fun m nw => upd m (fst nw) (snd nw)) (fixed_wires fixed) [])
          with (fold_left updp (fixed_wires fixed) (@nil (string * width))).
        rewrite fold_upd_keys_In, wpairs_names. cbn [map In]. unfold fixed_names. tauto.
      Qed.

      Lemma ph_d : exists banks,
        t_errs tT = [] /\ t_banks tT = banks /\ Forall2 bank_matches (bank_decls stmts) banks.
      Proof.
        rewrite ph_a_banks.
        destruct (step3_banks_ok f is_lower is_upper sS consts (bank_decls stmts)
                    (mkSt3 [] [] (s_types sS) [] [] [])) as [nb [B1 [B2 B3]]].
        - intros b Hb. destruct (ff_bank_name _ _ _ _ _ _ _ FF b Hb) as [i [o [Hl [Hlo Hup]]]].
          exists i, o. split; [exact Hl|]. split; [exact Hlo|]. split; [exact Hup|].
          assert (Hsp : forall x, In x [("stall_" ++ o)%string; ("bubble_" ++ o)%string] -> ~ In x (s_decls sS)).
          { intros x Hx Hd. apply ph_a_decls_In in Hd. revert Hd.
            apply (ff_bank_signals_undeclared _ _ _ _ _ _ _ FF). apply in_or_app. right.
            unfold bank_specials. apply in_flat_map. exists b. split; [exact Hb|]. rewrite Hl. exact Hx. }
          split; [apply Hsp; left; reflexivity|]. split; [apply Hsp; right; left; reflexivity|].
          intros r Hr. pose proof (In_bank_regs b i o r Hb Hl Hr) as Hx.
          split; [|split; [|split]].
          + intros rf Hrf.
            pose proof (ff_init_closed _ _ _ _ _ _ _ FF _ rf Hx Hrf) as Hc.
            apply consts_has in Hc. rewrite Hc. apply andb_false_r.
          + rewrite ph_a_assigns. apply has_false. rewrite assign_exprs_names. intros Ha.
            destruct (ff_no_driver _ _ _ _ _ _ _ FF _ Ha) as [_ [_ Hno]]. apply Hno.
            unfold bank_outputs. apply in_map_iff. eexists. split; [|exact Hx]. reflexivity.
          + destruct (ff_init_width _ _ _ _ _ _ _ FF _ Hx) as [wc Hwc]. cbn [reg_init snd] in Hwc.
            exists wc. rewrite (check_ext f (cenv consts) (cwidth cv) (lookup consts) cv); [apply check_iff; exact Hwc|].
            intros n _. unfold cenv, cwidth. rewrite Hcv. split; reflexivity.
          + destruct (ff_init_eval _ _ _ _ _ _ _ FF _ Hx) as [v [H1 H2]]. cbn [reg_init reg_width fst snd] in H1, H2.
            exists v. split; [|exact H2]. rewrite (eval_ext f (lookup consts) cv); [exact H1|].
            intros n _. apply Hcv.
        - rewrite <- bank_signal_names_eq. apply (ff_bank_signals_distinct _ _ _ _ _ _ _ FF).
        - intros x Hx. cbn [t_seen]. split; [intros []|]. intros Hd. apply ph_a_decls_In in Hd. revert Hd.
          apply (ff_bank_signals_undeclared _ _ _ _ _ _ _ FF). apply in_or_app. left.
          rewrite bank_signal_names_eq. exact Hx.
        - exists nb. cbn [t_errs t_banks app] in B1, B2. split; [exact B1|]. split; [exact B2 | exact B3].
      Qed.

      Lemma ph_d_dfl x : In x (t_defaulted tT) <-> defaulted stmts x.
      Proof.
        rewrite ph_a_banks.
        rewrite (step3_banks_defaulted f is_lower is_upper sS consts (bank_decls stmts)).
        2:{ intros b Hb. apply (ff_bank_name _ _ _ _ _ _ _ FF b Hb). }
        cbn [t_defaulted In]. unfold defaulted.
        change (flat_map specials_of (bank_decls stmts)) with (bank_specials stmts).
        rewrite ph_a_assigns, has_false, assign_exprs_names. tauto.
      Qed.

      Section AfterBanks.
        Variable banks : list bank.
        Hypothesis Hte : t_errs tT = [].
        Hypothesis Hbanks : t_banks tT = banks.
        Hypothesis Hmatch : Forall2 bank_matches (bank_decls stmts) banks.

        Lemma banks_outs : all_out_names banks = bank_outputs stmts.
        Proof. rewrite bank_outputs_eq. apply banks_match_outs. exact Hmatch. Qed.

        Lemma banks_ins : all_in_names banks = bank_inputs stmts.
        Proof. rewrite bank_inputs_eq. apply banks_match_ins. exact Hmatch. Qed.

        (* ---- phase e --------------------------------------------------------------------- *)
        Lemma ph_e : unset_errors sS tT (fold_left addf (all_in_names (t_banks tT)) (s_needed sS)) = [].
        Proof.
          unfold unset_errors. apply flat_map_all_nil. intros n Hn.
          apply fold_add_set_In in Hn.
          assert (Ha : has (s_assigns sS) n = true).
          { rewrite ph_a_assigns. apply assign_has. apply (ff_all_driven _ _ _ _ _ _ _ FF).
            apply in_or_app. destruct Hn as [Hn|Hn].
            - left. apply ph_a_needed_In. exact Hn.
            - right. rewrite Hbanks, banks_ins in Hn. exact Hn. }
          rewrite Ha. reflexivity.
        Qed.

        (* ---- the width environment -------------------------------------------------------- *)
        Lemma consts_NoDup_keys : NoDup (map fst consts) -> forall n v, In (n, v) consts <-> cv n = Some v.
        Proof.
          intros Hnd n v. rewrite <- Hcv. split; [apply In_lookup; exact Hnd | apply lookup_In].
        Qed.

        Hypothesis Hcnd : NoDup (map fst consts).

        Lemma all_widths_In n w :
          In (n, w) (all_widths fixed stmts banks consts) <-> In (n, w) (declared_widths fixed cv stmts).
        Proof.
          unfold all_widths, declared_widths. rewrite !in_app_iff.
          rewrite (banks_match_wires _ _ Hmatch). rewrite <- (bank_widths_In stmts n w). rewrite <- wire_decls_eq.
          assert (Hc : In (n, w) (cwidths consts) <-> In (n, w) (const_widths cv stmts)).
          { rewrite In_cwidths. unfold const_widths. rewrite in_flat_map. split.
            - intros [v [H1 H2]]. apply (consts_NoDup_keys Hcnd) in H1. exists n. split.
              + apply (ff_cv_domain _ _ _ _ _ _ _ FF). rewrite H1. discriminate.
              + rewrite H1. subst w. left. reflexivity.
            - intros [m [H1 H2]]. destruct (cv m) as [v|] eqn:E; [|contradiction].
              destruct H2 as [H2|[]]. injection H2 as -> <-. exists v. split; [|reflexivity].
              apply (consts_NoDup_keys Hcnd). exact E. }
          rewrite Hc. reflexivity.
        Qed.

        Lemma widths_lookup n : lookup (widths_of sS tT consts) n = G n.
        Proof.
          rewrite widths_of_eq, Hbanks.
          destruct (G n) as [w|] eqn:EG.
          - apply fold_upd_lookup_agree.
            + intros w' Hw'. apply all_widths_In in Hw'. apply (ff_widths _ _ _ _ _ _ _ FF) in Hw'.
              rewrite EG in Hw'. injection Hw' as <-. reflexivity.
            + right. apply all_widths_In. apply (ff_widths _ _ _ _ _ _ _ FF). exact EG.
          - destruct (lookup (fold_left updp (all_widths fixed stmts banks consts) []) n) as [w|] eqn:E; [|reflexivity].
            apply fold_upd_lookup_some in E. destruct E as [E|E]; [discriminate E|].
            apply all_widths_In in E. apply (ff_widths _ _ _ _ _ _ _ FF) in E. rewrite EG in E. discriminate E.
        Qed.

        (* ---- phases f, g, h: assignments_to_actions ----------------------------------------- *)
        Lemma known_false x :
          mem_str x (bank_outputs stmts ++ t_defaulted tT ++ map fst consts) = false <->
          ~ In x (bank_outputs stmts) /\ ~ defaulted stmts x /\ ~ In x (const_names stmts).
        Proof.
          rewrite mem_str_false, !in_app_iff, consts_keys, ph_d_dfl. tauto.
        Qed.

        Lemma all_assigned_iff c : all_assigned (assign_exprs stmts) c <-> inputs_assigned stmts c.
        Proof.
          unfold all_assigned, inputs_assigned. split; intros H i Hi; apply assign_has; apply H; exact Hi.
        Qed.

        Lemma out_unique c c' o w w' : In c fixed -> In c' fixed -> ff_out c = Some (o, w) -> ff_out c' = Some (o, w') -> c = c'.
        Proof.
          intros Hc Hc' Ho Ho'. destruct TD as [_ Hnd]. unfold fixed_out_names in Hnd.
          apply (flat_map_NoDup_unique _ fixed c c' o Hnd Hc Hc').
          - rewrite Ho. left. reflexivity.
          - rewrite Ho'. left. reflexivity.
        Qed.

        Lemma assigned_entry n : In n (assigned_names stmts) ->
          exists e w we, lookup (assign_exprs stmts) n = Some e /\ lookup (widths_of sS tT consts) n = Some w /\
                         check f (lookup (widths_of sS tT consts)) (lookup consts) e = Ok we /\ wcombine w we <> None.
        Proof.
          intros Hn. assert (Hh : has (assign_exprs stmts) n = true) by (apply assign_has; exact Hn).
          apply has_lookup in Hh. destruct Hh as [e He]. pose proof (proj1 (assign_lookup n e) He) as Hin.
          pose proof (ff_assigned_declared _ _ _ _ _ _ _ FF n Hn) as HG.
          destruct (G n) as [w|] eqn:EG; [|contradiction HG; reflexivity].
          destruct (ff_assign_widths _ _ _ _ _ _ _ FF n e w Hin EG) as [we [Hw Hc]].
          exists e, w, we. split; [exact He|]. split; [rewrite widths_lookup; exact EG|]. split; [|exact Hc].
          rewrite (check_ext f _ G _ cv e); [apply check_iff; exact Hw|].
          intros x _. split; [apply widths_lookup | apply Hcv].
        Qed.

        Lemma ph_fgh : exists acts,
          assignments_to_actions f fixed (widths_of sS tT consts) consts (s_assigns sS)
            (all_out_names (t_banks tT) ++ t_defaulted tT ++ map fst consts) (s_decls sS) = Ok acts.
        Proof.
          rewrite ph_a_assigns, Hbanks, banks_outs.
          set (A := assign_exprs stmts). set (known := bank_outputs stmts ++ t_defaulted tT ++ map fst consts).
          assert (HA1 : NoDup (map fst A)).
          { unfold A. rewrite assign_exprs_names. apply (ff_assigned_once _ _ _ _ _ _ _ FF). }
          destruct (assign_graph_facts A known HA1) as [G1 [G2 G3]].
          assert (Hnotout : forall o, In o (fixed_out_names fixed) -> ~ In o (assigned_names stmts)).
          { intros o Ho Ha. destruct (ff_no_driver _ _ _ _ _ _ _ FF o Ha) as [H _]. exact (H Ho). }
          destruct (preprocess_ok f consts A fixed (assign_graph A known) [] [] G1)
            as [g' [by' [no' [F1 [F2 [F3 [F4 [F5 F6]]]]]]]].
          - apply TD.
          - apply Forall_forall. intros c Hc. apply (proj1 TD c Hc).
          - intros o Ho x Hxo. apply G2 in Hxo. destruct Hxo as [e [Hoe _]].
            apply (Hnotout o Ho). unfold A in Hoe. rewrite <- assign_exprs_names.
            apply (in_map fst) in Hoe. exact Hoe.
          - intros c o w Hc Ho Hnode. apply all_assigned_iff.
            assert (Hofx : In o (fixed_out_names fixed)) by (apply (In_fixed_out_names fixed c o w Hc Ho)).
            apply assign_graph_nodes in Hnode. destruct Hnode as [Hnode|[y [e [H1 [H2 H3]]]]].
            + exfalso. apply (Hnotout o Hofx). unfold A in Hnode. rewrite assign_exprs_names in Hnode. exact Hnode.
            + apply known_false in H3. destruct H3 as [K1 [K3 K2]].
              destruct (ff_reads_driven _ _ _ _ _ _ _ FF y e o H1 H2) as [H|[H|[H|[H|[c' [w' [Hc' [Ho' Hia]]]]]]]].
              * contradiction.
              * contradiction.
              * exfalso. apply K3. split; [exact H | apply Hnotout; exact Hofx].
              * exfalso. exact (Hnotout o Hofx H).
              * rewrite (out_unique c c' o w w' Hc Hc' Ho Ho'). exact Hia.
          - intros o Ho. apply has_false. unfold A. rewrite assign_exprs_names. apply Hnotout. exact Ho.
          - intros c Hc. split.
            + intros Hm. apply all_assigned_iff. apply (ff_mandatory_driven _ _ _ _ _ _ _ FF c Hc Hm).
            + intros Hm i j Hi Hit Hj Hjf.
              destruct (ff_partial_disabled _ _ _ _ _ _ _ FF c i j Hc Hm Hi) as [en [e [v [E1 [E2 [E3 E4]]]]]].
              * apply assign_has. exact Hit.
              * exact Hj.
              * intros Hja. apply assign_has in Hja. unfold A in Hjf. rewrite Hja in Hjf. discriminate Hjf.
              * exists en, e, v. split; [exact E1|]. split; [apply assign_lookup; exact E2|]. split; [|exact E4].
                rewrite (eval_ext f (lookup consts) cv); [exact E3|]. intros n _. apply Hcv.
          - assert (Hac : ~ has_cycle string String.eqb g').
            { apply (acyclic_no_cycle (wire_reads fixed stmts)); [apply (ff_acyclic _ _ _ _ _ _ _ FF)|].
              intros a b Hab. apply F3 in Hab. destruct Hab as [Hab|[c [w [Hc [Hall [Ho Hi]]]]]].
              - apply G2 in Hab. destruct Hab as [e [H1 [H2 H3]]]. apply known_false in H3.
                left. exists e. split; [exact H1|]. split; [exact H2|]. split; [apply H3|]. split; apply H3.
              - right. exists c, w. split; [exact Hc|]. split; [apply all_assigned_iff; exact Hall|].
                split; assumption. }
            destruct (toposort_exact string String.eqb String.eqb_eq g' F2) as [_ Hto].
            destruct (Hto Hac) as [order [Hts [L1 [L2 L3]]]].
            assert (Hout_entry : forall c w n, In c fixed -> all_assigned A c -> ff_out c = Some (n, w) ->
                                   lookup A n = None /\ has by' n = true).
            { intros c w n Hc Hall Ho. split; [|apply (F6 c n w Hc Hall Ho)].
              apply lookup_None. unfold A. rewrite assign_exprs_names.
              apply Hnotout. apply (In_fixed_out_names fixed c n w Hc Ho). }
            destruct (schedule_complete f consts A (widths_of sS tT consts) by' (s_decls sS) order [])
              as [acts' Hs].
            { intros n Hn. apply L2 in Hn. apply F4 in Hn. destruct Hn as [Hn|[c [Hc [Hall [Hn|[w Hn]]]]]].
              - apply assign_graph_nodes in Hn. destruct Hn as [Hn|[y [e [H1 [H2 H3]]]]].
                + left. apply assigned_entry. unfold A in Hn. rewrite assign_exprs_names in Hn. exact Hn.
                + apply known_false in H3. destruct H3 as [K1 [K3 K2]].
                  destruct (ff_reads_driven _ _ _ _ _ _ _ FF y e n H1 H2) as [H|[H|[H|[H|[c [w [Hc [Ho Hia]]]]]]]].
                  * contradiction.
                  * contradiction.
                  * destruct (in_dec string_dec n (assigned_names stmts)) as [Ha|Ha].
                    -- left. apply assigned_entry. exact Ha.
                    -- exfalso. apply K3. split; assumption.
                  * left. apply assigned_entry. exact H.
                  * right. apply (Hout_entry c w n Hc); [apply all_assigned_iff; exact Hia | exact Ho].
              - left. apply assigned_entry. apply assign_has. apply Hall. exact Hn.
              - right. apply (Hout_entry c w n Hc Hall Hn). }
            exists (acts' ++ map ff_action no'). unfold assignments_to_actions.
            fold known. rewrite F1. rewrite Hts. cbn [bind]. rewrite Hs. reflexivity.
        Qed.
      End AfterBanks.
    End AfterConsts.

    Theorem fault_free_with_accepted : exists p, build stmts = Ok p.
    Proof.
      destruct ph_c as [consts [Hrc Hcv]].
      destruct (ph_d consts Hcv) as [banks [Hte [Hbanks Hmatch]]].
      assert (Hcnd : NoDup (map fst consts)).
      { rewrite <- ph_a_consts in Hrc. apply (resolve_constants_keys f _ _ Hrc). }
      destruct (ph_fgh consts Hcv banks Hbanks Hmatch Hcnd) as [acts Hacts].
      unfold build_program.
      rewrite ph_a_errs, ph_b_assigned, ph_b_refs. cbn [app].
      rewrite ph_a_consts, Hrc. cbn [bind].
      rewrite Hte, (ph_e consts banks Hbanks Hmatch). cbn [app].
      fold (widths_of sS (T3 sS consts) consts). rewrite Hacts. cbn [bind].
      eexists. reflexivity.
    Qed.
  End Phases.

  Theorem fault_free_accepted_holds : stmt_fault_free_accepted f fixed is_lower is_upper.
  Proof.
    intros TD stmts [cv [G FF]]. apply (fault_free_with_accepted stmts cv G FF TD).
  Qed.
End Complete.

(* ---- the table of the compiled implementation ------------------------------------------------- *)
Lemma fixed_sched_ok_distinct fixed : fixed_sched_ok fixed = true -> table_distinct fixed.
Proof.
  intros H. destruct (fixed_sched_ok_inv fixed H) as [H1 [H2 _]]. split; [|exact H2].
  intros c Hc. rewrite Forall_forall in H1. apply H1. exact Hc.
Qed.

Lemma gen_table_distinct : table_distinct gen_fixed.
Proof. apply fixed_sched_ok_distinct. vm_compute. reflexivity. Qed.

Theorem fault_free_accepted_gen_holds : stmt_fault_free_accepted_gen.
Proof.
  intros f is_lower is_upper stmts H.
  apply (fault_free_accepted_holds f gen_fixed is_lower is_upper gen_table_distinct stmts H).
Qed.

(* ================================================================================== *)
(* Part 3: the converse - an accepted program is fault free                            *)
(* ================================================================================== *)
Section EvalErr.
  Variables (f : features) (rho : string -> option wval).

  Lemma apply_err op l r es : apply f op l r = Err es -> es <> [].
  Proof.
    unfold apply. intros H.
    destruct (match kind op with
              | EqualWidth => match wcombine (wd l) (wd r) with Some w => Ok w | None => err1 RuntimeMismatchedWidths [] end
              | EqualWidthWeak => if f_swb f then match wcombine (wd l) (wd r) with Some w => Ok w | None => err1 RuntimeMismatchedWidths [] end
                                  else Ok (wmax (wd l) (wd r))
              | _ => Ok (Bits 1)
              end) as [fw|es0] eqn:E; cbn [bind] in H.
    - destruct (is_div op && (bits r =? 0)); [|discriminate H]. unfold err1 in H. injection H as <-. discriminate.
    - injection H as <-. destruct (kind op); try discriminate E.
      + destruct (wcombine (wd l) (wd r)); [discriminate E|]. unfold err1 in E. injection E as <-. discriminate.
      + destruct (f_swb f); [|discriminate E].
        destruct (wcombine (wd l) (wd r)); [discriminate E|]. unfold err1 in E. injection E as <-. discriminate.
  Qed.

  Lemma eval_err_all :
    (forall e es, eval f rho e = Err es -> es <> []) /\
    (forall a es, eval_arms f rho a = Err es -> es <> []) /\
    (forall x k es, eval_items f rho k x = Err es -> es <> []).
  Proof.
    apply expr_arms_exprs_ind.
    - intros v es H. discriminate H.
    - intros op l IHl r IHr es H. cbn [eval] in H.
      destruct (eval f rho l) as [lv|el] eqn:El; cbn [bind] in H; [|injection H as <-; apply (IHl _ eq_refl)].
      destruct (eval f rho r) as [rv|er] eqn:Er; cbn [bind] in H; [|injection H as <-; apply (IHr _ eq_refl)].
      apply apply_err in H. exact H.
    - intros op e IHe es H. cbn [eval] in H.
      destruct (eval f rho e) as [v|e1] eqn:E; cbn [bind] in H; [discriminate H | injection H as <-; apply (IHe _ eq_refl)].
    - intros a IHa es H. rewrite eval_mux in H.
      destruct (eval_arms f rho a) as [v|e1] eqn:E; cbn [bind] in H; [discriminate H | injection H as <-; apply (IHa _ eq_refl)].
    - intros n es H. cbn [eval] in H. destruct (rho n); [discriminate H|]. unfold err1 in H. injection H as <-. discriminate.
    - intros e IHe lo hi es H. cbn [eval] in H.
      destruct (eval f rho e) as [v|e1] eqn:E; cbn [bind] in H; [discriminate H | injection H as <-; apply (IHe _ eq_refl)].
    - intros l IHl r IHr es H. cbn [eval] in H.
      destruct (eval f rho l) as [lv|el] eqn:El; cbn [bind] in H; [|injection H as <-; apply (IHl _ eq_refl)].
      destruct (eval f rho r) as [rv|er] eqn:Er; cbn [bind] in H; [|injection H as <-; apply (IHr _ eq_refl)].
      destruct (wd rv); [|unfold err1 in H; injection H as <-; discriminate].
      destruct (wd lv); [discriminate H | unfold err1 in H; injection H as <-; discriminate].
    - intros e IHe items IHi es H. rewrite eval_in in H.
      destruct (eval f rho e) as [v|e1] eqn:E; cbn [bind] in H; [|injection H as <-; apply (IHe _ eq_refl)].
      apply (IHi _ _ H).
    - intros es H. discriminate H.
    - intros c IHc v IHv rest IHr es H. rewrite eval_arms_cons in H.
      destruct (eval f rho c) as [cv|e1] eqn:E; cbn [bind] in H; [|injection H as <-; apply (IHc _ eq_refl)].
      destruct (is_true cv); [apply (IHv _ H) | apply (IHr _ H)].
    - intros k es H. discriminate H.
    - intros e IHe rest IHr k es H. rewrite eval_items_cons in H.
      destruct (eval f rho e) as [r|e1] eqn:E; cbn [bind] in H; [|injection H as <-; apply (IHe _ eq_refl)].
      destruct (k =? bits r); [discriminate H | apply (IHr _ _ H)].
  Qed.

  Lemma eval_err e es : eval f rho e = Err es -> es <> [].
  Proof. apply (proj1 eval_err_all). Qed.
End EvalErr.

Section CheckRefs.
  Variables (f : features) (G : string -> option width) (C : string -> option wval).

  Lemma check_refs_all :
    (forall e w, check f G C e = Ok w -> forall r, In r (refs e) -> G r <> None) /\
    (forall a st st', check_arms f G C a st = Ok st' -> forall r, In r (refs_arms a) -> G r <> None) /\
    (forall x wl es, check_items f G C wl x = Ok es -> forall r, In r (refs_items x) -> G r <> None).
  Proof.
    apply expr_arms_exprs_ind.
    - intros v w _ r [].
    - intros op l IHl r0 IHr w H r Hr. rewrite refs_bin in Hr.
      assert (Hl : exists wl, check f G C l = Ok wl /\ exists wr, check f G C r0 = Ok wr).
      { cbn [check] in H. destruct (kind op).
        - destruct (f_sbo f).
          + destruct (check f G C l) as [wl|]; cbn [bind] in H; [|discriminate H]. exists wl. split; [reflexivity|].
            destruct (negb (possibly_boolean wl)); [discriminate H|].
            destruct (check f G C r0) as [wr|]; cbn [bind] in H; [|discriminate H]. exists wr. reflexivity.
          + destruct (check f G C l) as [wl|]; cbn [bind] in H; [|discriminate H]. exists wl. split; [reflexivity|].
            destruct (check f G C r0) as [wr|]; cbn [bind] in H; [|discriminate H]. exists wr. reflexivity.
        - destruct (check f G C l) as [wl|]; cbn [bind] in H; [|discriminate H]. exists wl. split; [reflexivity|].
          destruct (check f G C r0) as [wr|]; cbn [bind] in H; [|discriminate H]. exists wr. reflexivity.
        - destruct (check f G C l) as [wl|]; cbn [bind] in H; [|discriminate H]. exists wl. split; [reflexivity|].
          destruct (check f G C r0) as [wr|]; cbn [bind] in H; [|discriminate H]. exists wr. reflexivity.
        - destruct (f_swb f);
            (destruct (check f G C l) as [wl|]; cbn [bind] in H; [|discriminate H]; exists wl; split; [reflexivity|];
             destruct (check f G C r0) as [wr|]; cbn [bind] in H; [|discriminate H]; exists wr; reflexivity). }
      destruct Hl as [wl [H1 [wr H2]]]. apply in_app_iff in Hr. destruct Hr as [Hr|Hr].
      + apply (IHl wl H1 r Hr).
      + apply (IHr wr H2 r Hr).
    - intros op e IHe w H r Hr. cbn [refs] in Hr. cbn [check] in H.
      destruct op; try (apply (IHe w H r Hr)).
      destruct (check f G C e) as [w1|] eqn:E; cbn [bind] in H; [|discriminate H]. apply (IHe w1 eq_refl r Hr).
    - intros a IHa w H r Hr. rewrite refs_mux in Hr. rewrite check_mux_eq in H.
      destruct (check_arms f G C a (mkMS (Some Unl) false false false)) as [st|] eqn:E; cbn [bind] in H; [|discriminate H].
      apply (IHa _ _ E r Hr).
    - intros n w H r [<-|[]]. cbn [check] in H. destruct (G n); [discriminate | discriminate H].
    - intros e IHe lo hi w H r Hr. cbn [refs] in Hr. cbn [check] in H.
      destruct (hi <? lo); [discriminate H|].
      destruct (check f G C e) as [w1|] eqn:E; cbn [bind] in H; [|discriminate H]. apply (IHe w1 eq_refl r Hr).
    - intros l IHl r0 IHr w H r Hr. rewrite refs_cat in Hr. cbn [check] in H.
      destruct (check f G C l) as [wl|] eqn:El; cbn [bind] in H; [|discriminate H].
      destruct wl as [lw|]; [|discriminate H].
      destruct (check f G C r0) as [wr|] eqn:Er; cbn [bind] in H; [|discriminate H].
      apply in_app_iff in Hr. destruct Hr as [Hr|Hr]; [apply (IHl _ eq_refl r Hr) | apply (IHr _ eq_refl r Hr)].
    - intros e IHe items IHi w H r Hr. rewrite refs_in in Hr. rewrite check_in_eq in H.
      destruct (check f G C e) as [wl|] eqn:El; cbn [bind] in H; [|discriminate H].
      destruct (check_items f G C wl items) as [errs|] eqn:Ei; cbn [bind] in H; [|discriminate H].
      apply in_app_iff in Hr. destruct Hr as [Hr|Hr]; [apply (IHe _ eq_refl r Hr) | apply (IHi _ _ Ei r Hr)].
    - intros st st' _ r [].
    - intros c IHc v IHv rest IHr st st' H r Hr. rewrite refs_arms_cons in Hr. rewrite check_arms_cons_eq in H.
      destruct (check f G C c) as [wc|] eqn:Ec; cbn [bind] in H; [|discriminate H].
      destruct (check f G C v) as [wv|] eqn:Ev; cbn [bind] in H; [|discriminate H].
      apply in_app_iff in Hr. destruct Hr as [Hr|Hr]; [apply (IHc _ eq_refl r Hr)|].
      apply in_app_iff in Hr. destruct Hr as [Hr|Hr]; [apply (IHv _ eq_refl r Hr) | apply (IHr _ _ H r Hr)].
    - intros wl es _ r [].
    - intros e IHe rest IHr wl es H r Hr. rewrite refs_items_cons in Hr. rewrite check_items_cons_eq in H.
      destruct (check f G C e) as [wi|] eqn:Ee; cbn [bind] in H; [|discriminate H].
      destruct (check_items f G C wl rest) as [more|] eqn:Er; cbn [bind] in H; [|discriminate H].
      apply in_app_iff in Hr. destruct Hr as [Hr|Hr]; [apply (IHe _ eq_refl r Hr) | apply (IHr _ _ Er r Hr)].
  Qed.

  Lemma check_refs e w r : check f G C e = Ok w -> In r (refs e) -> G r <> None.
  Proof. intros H. apply (proj1 check_refs_all e w H). Qed.
End CheckRefs.

(* ---- a cycle of the edge relation is a cycle of the graph --------------------------------- *)
Lemma gedge_is_edge g a b : gedge g a b -> is_edge string String.eqb g a b = true.
Proof.
  unfold is_edge, memb, edge. intros H. apply existsb_exists. exists b. split; [exact H | apply String.eqb_refl].
Qed.

Lemma last_default {A} : forall (l : list A) (b d d' : A), last (b :: l) d = last (b :: l) d'.
Proof.
  induction l as [|c l IH]; intros b d d'; [reflexivity|].
  change (last (b :: c :: l) d) with (last (c :: l) d). change (last (b :: c :: l) d') with (last (c :: l) d').
  apply IH.
Qed.

Lemma is_path_snoc g : forall l a y,
  is_path string String.eqb g (a :: l) = true -> is_edge string String.eqb g (last (a :: l) a) y = true ->
  is_path string String.eqb g (a :: l ++ [y]) = true /\ last (a :: l ++ [y]) a = y.
Proof.
  induction l as [|b l IH]; intros a y Hp He.
  - cbn [app is_path last] in *. rewrite He. split; reflexivity.
  - cbn [is_path] in Hp. apply andb_true_iff in Hp. destruct Hp as [H1 H2].
    change (last (a :: b :: l) a) with (last (b :: l) a) in He.
    assert (He' : is_edge string String.eqb g (last (b :: l) b) y = true).
    { rewrite (last_default l b b a). exact He. }
    destruct (IH b y H2 He') as [I1 I2]. split.
    + change ((a :: (b :: l) ++ [y])) with (a :: b :: (l ++ [y])). cbn [is_path]. rewrite H1. exact I1.
    + change (last (a :: (b :: l) ++ [y]) a) with (last (b :: l ++ [y]) a).
      rewrite (last_default (l ++ [y]) b a b). exact I2.
Qed.

Lemma clos_has_cycle (R : string -> string -> Prop) g x :
  (forall a b, R a b -> gedge g a b) -> clos_trans string R x x -> has_cycle string String.eqb g.
Proof.
  intros Hm Hc.
  assert (Hgen : forall z, clos_trans_n1 string R x z ->
            exists l, is_path string String.eqb g (x :: l) = true /\
                      is_edge string String.eqb g (last (x :: l) x) z = true).
  { intros z Hz. induction Hz as [z Hxz|y z Hyz _ IH].
    - exists []. split; [reflexivity|]. cbn [last]. apply gedge_is_edge, Hm. exact Hxz.
    - destruct IH as [l [Hp He]]. destruct (is_path_snoc g l x y Hp He) as [P1 P2].
      exists (l ++ [y]). split; [exact P1|]. rewrite P2. apply gedge_is_edge, Hm. exact Hyz. }
  apply clos_trans_tn1 in Hc. destruct (Hgen x Hc) as [l [Hp He]].
  exists (x :: l). unfold is_cycle. rewrite Hp, He. reflexivity.
Qed.

Lemma no_cycle_acyclic (R : string -> string -> Prop) g :
  (forall a b, R a b -> gedge g a b) -> ~ has_cycle string String.eqb g -> acyclic R.
Proof. intros Hm Hn x Hx. apply Hn. apply (clos_has_cycle R g x Hm Hx). Qed.

(* ---- step 3, inverted ------------------------------------------------------------------ *)
Section S3Inv.
  Variable f : features.
  Variable is_lower is_upper : string -> bool.

  Lemma step3_register_noerr s consts bn inp outp t sigs dfl rname w d :
    let in_name := (inp ++ "_" ++ rname)%string in
    let out_name := (outp ++ "_" ++ rname)%string in
    t_errs (fst (fst (step3_register f s consts bn inp outp (t, sigs, dfl) (rname, w, d)))) = [] ->
    t_errs t = [] /\
    ~ In in_name (s_decls s) /\ ~ In out_name (s_decls s) /\
    (forall rf, In rf (refs d) -> has (s_wires s) rf && negb (has consts rf) = false) /\
    ~ In out_name (map fst dfl) /\ has (s_assigns s) out_name = false /\
    ~ In out_name (t_seen t) /\ ~ In in_name (t_seen t) /\ in_name <> out_name /\
    (exists wc, check f (cenv consts) (lookup consts) d = Ok wc) /\
    exists v, eval f (lookup consts) d = Ok v /\ wcombine (wd v) w <> None.
  Proof.
    intros in_name out_name. unfold step3_register. cbv beta iota zeta. fold in_name. fold out_name.
    match goal with
    | |- context [match ?pre with [] => _ | _ :: _ => _ end] => destruct pre as [|e0 pre0] eqn:Epre
    end.
    - apply app_eq_nil in Epre. destruct Epre as [E1 Epre].
      apply app_eq_nil in Epre. destruct Epre as [E2 Epre].
      apply app_eq_nil in Epre. destruct Epre as [E3 Epre].
      apply app_eq_nil in Epre. destruct Epre as [E4 Epre].
      apply app_eq_nil in Epre. destruct Epre as [E5 E6].
      cbn [flat_map] in E1. apply app_eq_nil in E1. destruct E1 as [E1a E1b].
      apply app_eq_nil in E1b. destruct E1b as [E1b _].
      destruct (mem_str in_name (s_decls s)) eqn:D1; [discriminate E1a|].
      destruct (mem_str out_name (s_decls s)) eqn:D2; [discriminate E1b|].
      destruct (has dfl out_name) eqn:D3; [discriminate E3|].
      destruct (has (s_assigns s) out_name) eqn:D4; [discriminate E4|].
      destruct (mem_str out_name (t_seen t)) eqn:D5; [discriminate E5|].
      destruct (mem_str in_name (add_set out_name (t_seen t))) eqn:D6; [discriminate E6|].
      apply mem_str_false in D1, D2, D5, D6. rewrite add_set_In in D6. apply has_false in D3.
      assert (Hnc : forall rf, In rf (refs d) -> has (s_wires s) rf && negb (has consts rf) = false).
      { intros rf Hrf. assert (Hrf' : In rf (nodup_str (refs d))) by (apply nodup_str_In; exact Hrf).
        apply (flat_map_nil_inv _ _ E2) in Hrf'. cbv beta in Hrf'.
        destruct (has (s_wires s) rf && negb (has consts rf)); [|reflexivity].
        exfalso. revert Hrf'. apply errs_for_nonempty. apply count_str_pos. exact Hrf. }
      fold (cenv consts).
      destruct (check f (cenv consts) (lookup consts) d) as [wc|esc] eqn:Eck.
      2:{ cbn [fst t_errs]. intros He. apply app_eq_nil in He. destruct He as [_ He]. exfalso. subst esc.
          apply (check_err f _ _ d [] Eck). reflexivity. }
      destruct (eval f (lookup consts) d) as [v|es] eqn:Eev; cbn [fst t_errs]; intros He;
        apply app_eq_nil in He; destruct He as [He He2].
      + split; [exact He|]. split; [exact D1|]. split; [exact D2|]. split; [exact Hnc|]. split; [exact D3|].
        split; [reflexivity|]. split; [exact D5|]. split; [intros H; apply D6; left; exact H|].
        split; [intros H; apply D6; right; exact H|]. split; [exists wc; reflexivity|].
        exists v. split; [reflexivity|].
        destruct (wcombine (wd v) w); [discriminate | discriminate He2].
      + exfalso. subst es. apply (eval_err f (lookup consts) d [] Eev). reflexivity.
    - cbn [fst t_errs]. intros He. apply app_eq_nil in He. destruct He as [_ He]. discriminate He.
  Qed.

  Lemma step3_regs_noerr s consts bn inp outp : forall regs t sigs dfl,
    (forall x, In x (map fst dfl) -> In x (t_seen t)) ->
    t_errs (fst (fst (fold_left (step3_register f s consts bn inp outp) regs (t, sigs, dfl)))) = [] ->
    t_errs t = [] /\
    NoDup (flat_map (reg_names inp outp) regs) /\
    (forall x, In x (flat_map (reg_names inp outp) regs) -> ~ In x (t_seen t) /\ ~ In x (s_decls s)) /\
    (forall r, In r regs -> reg_cond f s consts outp r).
  Proof.
    induction regs as [|[[rname w] d] regs IH]; intros t sigs dfl Hdfl He; cbn [fold_left] in He.
    - cbn [fst] in He. split; [exact He|]. split; [constructor|]. split; [intros x [] | intros r []].
    - assert (He1 : t_errs (fst (fst (step3_register f s consts bn inp outp (t, sigs, dfl) (rname, w, d)))) = []).
      { apply (fold_errs_grow (fun a => t_errs (fst (fst a))) (step3_register f s consts bn inp outp)) with (l := regs);
          [|exact He]. intros a r. apply (step3_register_errs f s consts bn inp outp a r). }
      destruct (step3_register_noerr s consts bn inp outp t sigs dfl rname w d He1)
        as [H0 [H1 [H2 [H3 [H4 [H5 [H6 [H7 [H8 [[wc Hck] [v [H9 H10]]]]]]]]]]]].
      destruct (step3_register_ok f s consts bn inp outp t sigs dfl rname w d v wc H1 H2 H3 H4 H5 H6 H7 H8 Hck H9 H10)
        as [t1 [E1 [E2 [E3 E4]]]].
      rewrite E1 in He.
      set (in_name := (inp ++ "_" ++ rname)%string) in *.
      set (out_name := (outp ++ "_" ++ rname)%string) in *.
      destruct (IH t1 (sigs ++ [(in_name, out_name, w)]) (upd dfl out_name (as_width w v))) as [I0 [I1 [I2 I3]]];
        [|exact He|].
      { intros x Hx. rewrite map_fst_upd in Hx. apply add_set_In in Hx. rewrite E4, !add_set_In.
        destruct Hx as [Hx|Hx]; [left; left; apply Hdfl; exact Hx | left; right; exact Hx]. }
      split; [exact H0|]. cbn [flat_map reg_names fst snd app]. fold in_name. fold out_name.
      split; [|split].
      + constructor.
        * intros [H|H]; [apply H8; exact H|]. destruct (I2 out_name H) as [Hs _]. apply Hs.
          rewrite E4, !add_set_In. left. right. reflexivity.
        * constructor; [|exact I1]. intros H. destruct (I2 in_name H) as [Hs _]. apply Hs.
          rewrite E4, !add_set_In. right. reflexivity.
      + intros x [Hx|[Hx|Hx]].
        * subst x. split; assumption.
        * subst x. split; assumption.
        * destruct (I2 x Hx) as [Hs Hd]. split; [|exact Hd]. intros Hseen. apply Hs.
          rewrite E4, !add_set_In. left. left. exact Hseen.
      + intros r [<-|Hr].
        * unfold reg_cond. cbn [fst snd]. split; [exact H3|]. split; [exact H5|].
          split; [exists wc; exact Hck|]. exists v. split; assumption.
        * apply I3. exact Hr.
  Qed.

  Lemma step3_bank_noerr s consts t b :
    t_errs (step3_bank f is_lower is_upper s consts t b) = [] ->
    t_errs t = [] /\ bank_cond f is_lower is_upper s consts b /\ NoDup (bank_names b) /\
    (forall x, In x (bank_names b) -> ~ In x (t_seen t) /\ ~ In x (s_decls s)).
  Proof.
    destruct b as [name regs]. unfold step3_bank. cbv beta iota.
    destruct (utf8_chars name "") as [|inp [|outp [|x l]]] eqn:Eu;
      try (cbn [t_errs]; intros He; apply app_eq_nil in He; destruct He as [_ He]; discriminate He).
    assert (Hl : bank_letters name = Some (inp, outp)) by (unfold bank_letters; rewrite Eu; reflexivity).
    destruct (negb (is_lower inp) || negb (is_upper outp)) eqn:Ecase;
      [cbn [t_errs]; intros He; apply app_eq_nil in He; destruct He as [_ He]; discriminate He|].
    apply orb_false_iff in Ecase. destruct Ecase as [Elo Eup]. apply negb_false_iff in Elo, Eup.
    match goal with
    | |- context [fold_left ?F regs ?A] =>
        set (a0 := A); destruct (fold_left F regs a0) as [[t2 sigs] defaults] eqn:Ef
    end.
    cbn [t_errs]. intros He.
    assert (He2 : t_errs (fst (fst (fold_left (step3_register f s consts name inp outp) regs a0))) = []).
    { rewrite Ef. exact He. }
    subst a0.
    match type of He2 with
    | context [fold_left _ regs (?T1, [], [])] =>
        destruct (step3_regs_noerr s consts name inp outp regs T1 [] []) as [H0 [H1 [H2 H3]]];
          [intros x0 [] | exact He2 |]
    end.
    cbn [t_errs t_seen] in H0, H2.
    apply app_eq_nil in H0. destruct H0 as [H0 Hsp].
    cbn [flat_map] in Hsp. apply app_eq_nil in Hsp. destruct Hsp as [Hsp1 Hsp2].
    apply app_eq_nil in Hsp2. destruct Hsp2 as [Hsp2 _].
    destruct (mem_str ("stall_" ++ outp)%string (s_decls s)) eqn:Dst; [discriminate Hsp1|].
    destruct (mem_str ("bubble_" ++ outp)%string (s_decls s)) eqn:Dbu; [discriminate Hsp2|].
    apply mem_str_false in Dst, Dbu.
    split; [exact H0|]. unfold bank_cond, bank_names. cbn [fst snd]. rewrite Hl. split; [|split; [exact H1 | exact H2]].
    exists inp, outp. split; [reflexivity|]. repeat (split; [assumption|]). exact H3.
  Qed.

  Lemma step3_banks_noerr s consts : forall banks t,
    t_errs (fold_left (step3_bank f is_lower is_upper s consts) banks t) = [] ->
    t_errs t = [] /\
    (forall b, In b banks -> bank_cond f is_lower is_upper s consts b) /\
    NoDup (flat_map bank_names banks) /\
    (forall x, In x (flat_map bank_names banks) -> ~ In x (t_seen t) /\ ~ In x (s_decls s)).
  Proof.
    induction banks as [|b banks IH]; intros t He; cbn [fold_left] in He.
    - split; [exact He|]. split; [intros b []|]. split; [constructor | intros x []].
    - destruct (IH _ He) as [I0 [I1 [I2 I3]]].
      destruct (step3_bank_noerr s consts t b I0) as [H0 [H1 [H2 H3]]].
      destruct (step3_bank_ok f is_lower is_upper s consts t b H1 H2 H3) as [bk [_ [_ [_ B4]]]].
      split; [exact H0|]. split; [|split].
      + intros b0 [<-|Hb0]; [exact H1 | apply I1; exact Hb0].
      + cbn [flat_map]. apply NoDup_app_intro2; [exact H2 | exact I2|].
        intros x Hx Hx'. destruct (I3 x Hx') as [Hs _]. apply Hs. apply B4. right. exact Hx.
      + cbn [flat_map]. intros x Hx. apply in_app_iff in Hx. destruct Hx as [Hx|Hx]; [apply H3; exact Hx|].
        destruct (I3 x Hx) as [Hs Hd]. split; [|exact Hd]. intros Hseen. apply Hs. apply B4. left. exact Hseen.
  Qed.
End S3Inv.

(* ---- constants, inverted ------------------------------------------------------------------ *)
Section ConstsInv.
  Variable f : features.

  Lemma eval_consts_errs_mono cs : forall order vals errs vals' errs',
    eval_consts f cs order vals errs = (vals', errs') -> exists more, errs' = errs ++ more.
  Proof.
    induction order as [|n r IH]; intros vals errs vals' errs' H; cbn [eval_consts] in H.
    - injection H as <- <-. exists []. rewrite app_nil_r. reflexivity.
    - destruct (lookup cs n) as [e|].
      + match type of H with
        | context [check ?a ?b ?c ?d] => destruct (check a b c d) as [wc|esc]
        end.
        * destruct (eval f (lookup vals) e) as [v|es].
          -- apply IH in H. exact H.
          -- apply IH in H. destruct H as [more ->]. exists (es ++ more). rewrite app_assoc. reflexivity.
        * apply IH in H. destruct H as [more ->]. exists (esc ++ more). rewrite app_assoc. reflexivity.
      + injection H as <- <-. exists [mkErr Panicked [n]]. reflexivity.
  Qed.

  (* what an error-free run of eval_consts did, constant by constant *)
  Lemma eval_consts_inv cs : forall order vals vals',
    NoDup order -> (forall n, In n order -> lookup vals n = None) ->
    eval_consts f cs order vals [] = (vals', []) ->
    (forall k v, lookup vals k = Some v -> lookup vals' k = Some v) /\
    (forall k, lookup vals' k <> None -> lookup vals k <> None \/ In k order) /\
    (forall n, In n order ->
       exists e v w valsn, lookup cs n = Some e /\ lookup vals' n = Some v /\
         (forall k u, lookup valsn k = Some u -> lookup vals' k = Some u) /\
         check f (cenv valsn) (lookup valsn) e = Ok w /\ eval f (lookup valsn) e = Ok v).
  Proof.
    induction order as [|n r IH]; intros vals vals' Hnd Hfresh H; cbn [eval_consts] in H.
    - injection H as <-. split; [intros k v Hk; exact Hk|]. split; [intros k Hk; left; exact Hk | intros n []].
    - apply NoDup_cons_iff in Hnd. destruct Hnd as [Hn Hnd].
      destruct (lookup cs n) as [e|] eqn:El.
      2:{ injection H as _ H. discriminate H. }
      fold (cenv vals) in H.
      destruct (check f (cenv vals) (lookup vals) e) as [wc|esc] eqn:Ec.
      2:{ exfalso. destruct (eval_consts_errs_mono _ _ _ _ _ _ H) as [more Hm]. cbn [app] in Hm.
          symmetry in Hm. apply app_eq_nil in Hm. destruct Hm as [Hm _]. subst esc.
          apply (check_err _ _ _ _ _ Ec). reflexivity. }
      destruct (eval f (lookup vals) e) as [v|es] eqn:Ee.
      2:{ exfalso. destruct (eval_consts_errs_mono _ _ _ _ _ _ H) as [more Hm]. cbn [app] in Hm.
          symmetry in Hm. apply app_eq_nil in Hm. destruct Hm as [Hm _]. subst es.
          apply (eval_err _ _ _ _ Ee). reflexivity. }
      destruct (IH (upd vals n v) vals' Hnd) with (2 := H) as [I1 [I2 I3]].
      { intros m Hm. rewrite lookup_upd_ne; [apply Hfresh; right; exact Hm|]. intros ->. exact (Hn Hm). }
      assert (Hext : forall k u, lookup vals k = Some u -> lookup vals' k = Some u).
      { intros k u Hk. apply I1. rewrite lookup_upd_ne; [exact Hk|].
        intros ->. rewrite (Hfresh n (or_introl eq_refl)) in Hk. discriminate Hk. }
      split; [exact Hext|]. split.
      + intros k Hk. destruct (I2 k Hk) as [H1|H1]; [|right; right; exact H1].
        rewrite lookup_upd in H1. destruct (String.eqb k n) eqn:Ekn; [|left; exact H1].
        apply String.eqb_eq in Ekn. right. left. symmetry. exact Ekn.
      + intros m [<-|Hm]; [|apply I3; exact Hm].
        exists e, v, wc, vals. split; [exact El|]. split; [apply I1; apply lookup_upd_same|].
        split; [exact Hext|]. split; assumption.
  Qed.

  Lemma resolve_constants_inv cs consts :
    NoDup (map fst cs) ->
    resolve_constants f cs = Ok consts ->
    ~ has_cycle string String.eqb (const_graph cs) /\
    (forall n, In n (map fst cs) -> lookup consts n <> None) /\
    (forall n e, In (n, e) cs ->
       exists v w, lookup consts n = Some v /\ eval f (lookup consts) e = Ok v /\
                   check f (cenv consts) (lookup consts) e = Ok w).
  Proof.
    intros Hnd H. unfold resolve_constants in H.
    destruct (const_graph_facts cs Hnd) as [W [E [N1 N2]]].
    destruct (toposort string String.eqb (const_graph cs)) as [[order|cyc]|es1] eqn:Et; cbn [bind] in H;
      [|unfold err1 in H; discriminate H | discriminate H].
    destruct (order_valid string String.eqb String.eqb_eq (const_graph cs) order W Et) as [L1 [L2 L3]].
    destruct (eval_consts f cs order [] []) as [vals errs] eqn:Ee.
    destruct errs as [|e0 errs]; [|discriminate H]. injection H as <-.
    destruct (eval_consts_inv cs order [] vals L1 (fun n _ => eq_refl) Ee) as [_ [_ I3]].
    split; [apply (order_implies_acyclic string String.eqb String.eqb_eq (const_graph cs) order W Et)|].
    assert (Hall : forall n e, In (n, e) cs ->
              exists v w, lookup vals n = Some v /\ eval f (lookup vals) e = Ok v /\
                          check f (cenv vals) (lookup vals) e = Ok w).
    { intros n e Hne. assert (Hn : In n order).
      { apply L2. apply N1. apply (in_map fst) in Hne. exact Hne. }
      destruct (I3 n Hn) as [e' [v [w [valsn [H1 [H2 [H3 [H4 H5]]]]]]]].
      rewrite (In_lookup cs n e Hnd Hne) in H1. injection H1 as <-.
      assert (Hag : forall r, In r (refs e) -> lookup valsn r = lookup vals r).
      { intros r Hr. pose proof (check_refs f _ _ e w r H4 Hr) as Hdef. unfold cenv in Hdef.
        destruct (lookup valsn r) as [u|] eqn:Eu; [|contradiction Hdef; reflexivity].
        symmetry. apply H3. exact Eu. }
      exists v, w. split; [exact H2|]. split.
      - rewrite <- (eval_ext f (lookup valsn) (lookup vals) e Hag). exact H5.
      - rewrite <- (check_ext f (cenv valsn) (cenv vals) (lookup valsn) (lookup vals) e); [exact H4|].
        intros r Hr. unfold cenv. rewrite (Hag r Hr). split; reflexivity. }
    split; [|exact Hall].
    intros n Hn. apply in_map_iff in Hn. destruct Hn as [[n0 e] [<- Hne]]. cbn [fst].
    destruct (Hall n0 e Hne) as [v [_ [Hv _]]]. rewrite Hv. discriminate.
  Qed.
End ConstsInv.

(* ---- preprocess_fixed, inverted ------------------------------------------------------------ *)
Section PPInv.
  Variable f : features.
  Variable consts : list (string * wval).
  Variable assigns : list (string * expr).

  Definition pp_skipped (g : graph string) (ff : fixed_fn) : Prop :=
    ff_mandatory ff = false /\
    (forall o w, ff_out ff = Some (o, w) -> ~ In o (g_nodes g)) /\
    (forall i j, In i (fixed_in_names ff) -> has assigns i = true ->
                 In j (fixed_in_names ff) -> has assigns j = false ->
       exists en ee v, ff_enable ff = Some en /\ lookup assigns en = Some ee /\
                       eval f (lookup consts) ee = Ok v /\ is_true v = false).

  Lemma preprocess_one_noerr g by_out no_out ff :
    snd (preprocess_one f consts assigns (g, by_out, no_out, []) ff) = [] ->
    all_assigned assigns ff \/ pp_skipped g ff.
  Proof.
    unfold preprocess_one. cbv beta iota zeta.
    destruct (filter (fun n => negb (has assigns n)) (fixed_in_names ff)) as [|m ms] eqn:Em.
    - intros _. left. intros i Hi. apply (filter_nil_inv _ _ Em) in Hi. apply negb_false_iff in Hi. exact Hi.
    - destruct (ff_mandatory ff) eqn:Eman.
      + destruct (ff_out ff) as [[o w]|]; cbn [snd map app]; intros He; discriminate He.
      + cbn [snd app]. intros He. apply app_eq_nil in He. destruct He as [He1 He2].
        right. split; [exact Eman|]. split.
        * intros o w Ho Hnode. rewrite Ho in He1. unfold graph_has_node in He1.
          apply mem_str_In in Hnode. rewrite Hnode in He1. discriminate He1.
        * intros i j Hi Hit Hj Hjf.
          assert (Hlen : (List.length (m :: ms) =? List.length (ff_ins ff))%nat = false).
          { apply Nat.eqb_neq. rewrite <- Em.
            pose proof (filter_length_lt (fun n => negb (has assigns n)) (fixed_in_names ff) i Hi) as Hlt.
            cbv beta in Hlt. rewrite Hit in Hlt. specialize (Hlt eq_refl).
            unfold fixed_in_names in Hlt at 2. rewrite map_length in Hlt. lia. }
          rewrite Hlen in He2.
          destruct (ff_enable ff) as [en|] eqn:E1; [|discriminate He2].
          destruct (lookup assigns en) as [ee|] eqn:E2; [|discriminate He2].
          destruct (eval f (lookup consts) ee) as [v|] eqn:E3; [|discriminate He2].
          destruct (is_true v) eqn:Ev; [discriminate He2|].
          exists en, ee, v. split; [reflexivity|]. split; [exact E2|]. split; [exact E3 | exact Ev].
  Qed.

  Lemma insert_fold_nodes_mono o : forall ins g x,
    In x (g_nodes g) -> In x (g_nodes (fold_left (fun g1 n => graph_insert g1 n o) ins g)).
  Proof.
    induction ins as [|i ins IH]; intros g x Hx; cbn [fold_left]; [exact Hx|].
    apply IH. apply graph_insert_nodes. left. exact Hx.
  Qed.

  Lemma preprocess_noerr : forall l g by_out no_out g' by' no',
    fold_left (preprocess_one f consts assigns) l (g, by_out, no_out, []) = (g', by', no', []) ->
    forall ff, In ff l -> all_assigned assigns ff \/
      (ff_mandatory ff = false /\
       (forall o w, ff_out ff = Some (o, w) -> ~ In o (g_nodes g)) /\
       (forall i j, In i (fixed_in_names ff) -> has assigns i = true ->
                    In j (fixed_in_names ff) -> has assigns j = false ->
          exists en ee v, ff_enable ff = Some en /\ lookup assigns en = Some ee /\
                          eval f (lookup consts) ee = Ok v /\ is_true v = false)).
  Proof.
    induction l as [|ff0 l IH]; intros g by_out no_out g' by' no' H ff Hff; cbn [fold_left] in H; [contradiction|].
    assert (He1 : snd (preprocess_one f consts assigns (g, by_out, no_out, []) ff0) = []).
    { apply (fold_errs_grow snd (preprocess_one f consts assigns) (preprocess_one_errs f consts assigns) l).
      rewrite H. reflexivity. }
    destruct Hff as [<-|Hff]; [apply (preprocess_one_noerr g by_out no_out ff0 He1)|].
    destruct (preprocess_one_cases f consts assigns g by_out no_out [] ff0 He1)
      as [_ [Hc|[Hall [[Ho Hc]|[o [w [Ho Hc]]]]]]]; rewrite Hc in H.
    - apply (IH _ _ _ _ _ _ H ff Hff).
    - apply (IH _ _ _ _ _ _ H ff Hff).
    - destruct (IH _ _ _ _ _ _ H ff Hff) as [Ha|[S1 [S2 S3]]]; [left; exact Ha|].
      right. split; [exact S1|]. split; [|exact S3].
      intros o' w' Ho' Hn. apply (S2 o' w' Ho'). apply insert_fold_nodes_mono. exact Hn.
  Qed.
End PPInv.

(* ---- the converse, assembled ---------------------------------------------------------------- *)
Lemma gedge_source_node g x y : gwf g -> gedge g x y -> In x (g_nodes g).
Proof.
  intros [_ [_ [W3 _]]] H. apply gedge_iff in H. destruct H as [l [Hl _]]. apply lookup_In in Hl.
  destruct (W3 x l Hl) as [H _]. exact H.
Qed.

Lemma all_widths_decl fixed stmts banks consts :
  Forall2 bank_matches (bank_decls stmts) banks ->
  NoDup (map fst consts) ->
  (forall n, In n (map fst consts) <-> In n (const_names stmts)) ->
  forall n w, In (n, w) (all_widths fixed stmts banks consts) <->
              In (n, w) (declared_widths fixed (lookup consts) stmts).
Proof.
  intros Hmatch Hnd Hkeys n w. unfold all_widths, declared_widths. rewrite !in_app_iff.
  rewrite (banks_match_wires _ _ Hmatch). rewrite <- (bank_widths_In stmts n w).
  assert (Hc : In (n, w) (cwidths consts) <-> In (n, w) (const_widths (lookup consts) stmts)).
  { rewrite In_cwidths. unfold const_widths. rewrite in_flat_map. split.
    - intros [v [H1 H2]]. exists n. split.
      + apply Hkeys. apply (in_map fst) in H1. exact H1.
      + rewrite (In_lookup consts n v Hnd H1). subst w. left. reflexivity.
    - intros [m [H1 H2]]. destruct (lookup consts m) as [v|] eqn:E; [|contradiction].
      destruct H2 as [H2|[]]. injection H2 as -> <-. exists v. split; [|reflexivity].
      apply lookup_In. exact E. }
  rewrite Hc. reflexivity.
Qed.

Section Converse.
  Variable f : features.
  Variable fixed : list fixed_fn.
  Variable is_lower is_upper : string -> bool.
  Hypothesis Hsok : fixed_sched_ok fixed = true.
  Hypothesis Htok : fixed_typed_ok fixed = true.

  Notation build := (build_program f fixed is_lower is_upper).
  Notation S1 stmts := (fold_left (step1 fixed) stmts (init1 fixed)).
  Notation T3 s consts := (fold_left (step3_bank f is_lower is_upper s consts) (s_banks s)
                                     (mkSt3 [] [] (s_types s) [] [] [])).

  Lemma S1_consts_exact2 stmts : NoDup (const_names stmts) -> s_consts (S1 stmts) = const_exprs stmts.
  Proof.
    intros H. rewrite S1_consts. rewrite fold_updp_fresh; [reflexivity|]. cbn [map app].
    rewrite const_exprs_names. exact H.
  Qed.

  Lemma S1_assigns_exact2 stmts : NoDup (assigned_names stmts) -> s_assigns (S1 stmts) = assign_exprs stmts.
  Proof.
    intros H. rewrite S1_assigns. rewrite fold_updp_fresh; [reflexivity|]. cbn [map app].
    rewrite apairs_names. exact H.
  Qed.

  Lemma s_wires_has_false stmts n :
    has (s_wires (S1 stmts)) n = false <-> ~ In n (wire_names stmts) /\ ~ In n (fixed_names fixed).
  Proof.
    rewrite has_false, S1_wires, fold_upd_keys_In. cbn [init1 s_wires].
    change (fold_left (fun m nw => upd m (fst nw) (snd nw)) (fixed_wires fixed) [])
      with (fold_left updp (fixed_wires fixed) (@nil (string * width))).
    rewrite fold_upd_keys_In, wpairs_names. cbn [map In]. unfold fixed_names. tauto.
  Qed.

  Theorem accepted_fault_free stmts p : build stmts = Ok p -> fault_free f fixed is_lower is_upper stmts.
  Proof.
    intros Hb.
    destruct (build_ok_inv f fixed is_lower is_upper stmts p Hb)
      as [He [Hca [Hcr [consts [Hrc [Hte [Hun [acts [Hacts Hp]]]]]]]]].
    destruct (accept_declared_once_ok f fixed is_lower is_upper stmts p Hb) as [D1 D2].
    destruct (accept_assigned_once_ok f fixed is_lower is_upper stmts p Hb) as [A1 A2].
    destruct (accept_wires_driven_ok f fixed is_lower is_upper stmts p Hb) as [N1 N2].
    pose proof (accept_consts_closed_ok f fixed is_lower is_upper stmts p Hb) as C1.
    destruct (fixed_sched_ok_inv fixed Hsok) as [Tins [Touts Tplain]].
    set (sS := S1 stmts) in *.
    assert (Hcn : NoDup (const_names stmts)) by (apply NoDup_app_l in D1; exact D1).
    assert (Hwn : NoDup (wire_names stmts)) by (apply NoDup_app_r in D1; exact D1).
    assert (Ecs : s_consts sS = const_exprs stmts) by (apply S1_consts_exact2; exact Hcn).
    assert (EA : s_assigns sS = assign_exprs stmts) by (apply S1_assigns_exact2; exact A1).
    assert (EB : s_banks sS = bank_decls stmts) by (unfold sS; rewrite S1_banks, fold_snoc; reflexivity).
    assert (Hdecl : forall n, In n (s_decls sS) <-> In n (const_names stmts ++ wire_names stmts)).
    { intros n. rewrite in_app_iff. apply (S1_decls_In fixed is_lower is_upper stmts n). }
    (* -- step 3 -- *)
    set (tT := T3 sS consts) in *.
    destruct (step3_banks_noerr f is_lower is_upper sS consts (s_banks sS) (mkSt3 [] [] (s_types sS) [] [] []) Hte)
      as [_ [B1 [B2 B3]]].
    destruct (step3_banks_ok f is_lower is_upper sS consts (s_banks sS) (mkSt3 [] [] (s_types sS) [] [] []) B1 B2 B3)
      as [banks [_ [Hbk Hmatch]]].
    cbn [t_banks app] in Hbk. fold tT in Hbk. rewrite EB in B1, B2, B3, Hmatch.
    assert (Hp_banks : p_banks p = banks) by (rewrite Hp; cbn [p_banks]; exact Hbk).
    assert (Houts : all_out_names banks = bank_outputs stmts).
    { rewrite bank_outputs_eq. apply banks_match_outs. exact Hmatch. }
    assert (Hins : all_in_names banks = bank_inputs stmts).
    { rewrite bank_inputs_eq. apply banks_match_ins. exact Hmatch. }
    (* -- constants -- *)
    assert (Hcsnd : NoDup (map fst (const_exprs stmts))) by (rewrite const_exprs_names; exact Hcn).
    pose proof Hrc as Hrc'. rewrite Ecs in Hrc'.
    destruct (resolve_constants_inv f (const_exprs stmts) consts Hcsnd Hrc') as [R1 [R2 R3]].
    destruct (resolve_constants_keys f _ _ Hrc') as [Hcnd Hck].
    assert (Hkeys : forall n, In n (map fst consts) <-> In n (const_names stmts)).
    { intros n. split.
      - intros H. apply Hck in H. apply has_In in H. rewrite const_exprs_names in H. exact H.
      - intros H. rewrite <- const_exprs_names in H. apply R2 in H. apply has_In. unfold has.
        destruct (lookup consts n); [reflexivity | contradiction H; reflexivity]. }
    set (cv := lookup consts).
    set (WW := widths_of sS tT consts) in *.
    set (GG := lookup WW).
    (* -- widths -- *)
    assert (HWdecl : forall n w, In (n, w) (all_widths fixed stmts (t_banks tT) consts) <->
                                 In (n, w) (declared_widths fixed cv stmts)).
    { rewrite Hbk. apply (all_widths_decl fixed stmts banks consts Hmatch Hcnd Hkeys). }
    assert (HG : forall n w, GG n = Some w <-> In (n, w) (declared_widths fixed cv stmts)).
    { intros n w. rewrite <- HWdecl. unfold GG, WW, sS. split.
      - intros H. rewrite widths_of_eq in H. apply fold_upd_lookup_some in H.
        destruct H as [H|H]; [discriminate H | exact H].
      - intros H. unfold all_widths in H. rewrite !in_app_iff in H. destruct H as [H|[H|[H|H]]].
        + apply (G_fixed f fixed is_lower is_upper stmts consts Hsok Htok He Hrc Hte n w H).
        + apply (W_lookup f fixed is_lower is_upper stmts consts n w).
          { unfold all_widths. apply in_or_app. right. apply in_or_app. left. exact H. }
          intros w' Hw'. unfold all_widths in Hw'. rewrite !in_app_iff in Hw'.
          assert (Hnd : In n (s_decls (S1 stmts))) by (apply (cls_wire_decl fixed is_lower is_upper stmts n w H)).
          destruct Hw' as [Hw'|[Hw'|[Hw'|Hw']]].
          * exfalso. apply (cls_decl_notfixed fixed is_lower is_upper stmts He n Hnd).
            apply (in_map fst) in Hw'. exact Hw'.
          * apply (NoDup_fst_fun (flat_map wpairs stmts) n w w'); [rewrite wpairs_names; exact Hwn | exact H | exact Hw'].
          * exfalso. apply (cls_bank_notdecl f fixed is_lower is_upper stmts consts Hte n w' Hw' Hnd).
          * exfalso. apply (cls_wire_notconst f fixed is_lower is_upper stmts consts He Hrc n w H).
            apply (in_map fst) in Hw'. unfold cwidths in Hw'. rewrite map_map in Hw'. cbn [fst] in Hw'. exact Hw'.
        + apply (G_bank f fixed is_lower is_upper stmts consts Hsok Hrc Hte n w H).
        + apply In_cwidths in H. destruct H as [v [H ->]].
          apply (G_const f fixed is_lower is_upper stmts consts He Hrc Hte n v H). }
    (* -- assignments_to_actions -- *)
    set (A := assign_exprs stmts).
    set (known := all_out_names (t_banks tT) ++ t_defaulted tT ++ map fst consts) in *.
    rewrite EA in Hacts. fold A in Hacts.
    destruct (a2a_inv f fixed _ _ _ _ _ _ Hacts) as [g [by_out [no_out [order [sacts [Hf [Ht [Hs Hacts']]]]]]]].
    assert (HA1 : NoDup (map fst A)) by (unfold A; rewrite assign_exprs_names; exact A1).
    assert (HAin : forall n, In n (map fst A) <-> In n (assigned_names stmts)).
    { intros n. unfold A. rewrite assign_exprs_names. reflexivity. }
    assert (HAhas : forall n, has A n = true <-> In n (assigned_names stmts)).
    { intros n. rewrite has_In. apply HAin. }
    destruct (assign_graph_facts A known HA1) as [G1 [G2 G3]].
    assert (Hdfl : forall x, In x (t_defaulted tT) <-> defaulted stmts x).
    { intros x. unfold tT. rewrite EB.
      rewrite (step3_banks_defaulted f is_lower is_upper sS consts (bank_decls stmts)).
      2:{ intros b Hb'. apply (bank_cond_name_ok f is_lower is_upper sS consts b). apply B1. exact Hb'. }
      cbn [t_defaulted In]. unfold defaulted.
      change (flat_map specials_of (bank_decls stmts)) with (bank_specials stmts).
      rewrite EA, has_false. fold A. rewrite HAin. tauto. }
    assert (Hknown : forall x, mem_str x known = false <->
              ~ In x (bank_outputs stmts) /\ ~ defaulted stmts x /\ ~ In x (const_names stmts)).
    { intros x. unfold known. rewrite Hbk, Houts, mem_str_false, !in_app_iff, Hkeys, Hdfl. tauto. }
    assert (Hnotout : forall o, In o (fixed_out_names fixed) -> ~ In o (assigned_names stmts)).
    { intros o Ho Ha. destruct (A2 o Ha) as [H _]. exact (H Ho). }
    assert (Hnoe : forall o, In o (fixed_out_names fixed) -> forall x, ~ gedge (assign_graph A known) x o).
    { intros o Ho x Hxo. apply G2 in Hxo. destruct Hxo as [e [Hoe _]].
      apply (Hnotout o Ho). apply HAin. apply (in_map fst) in Hoe. exact Hoe. }
    pose proof (preprocess_noerr f consts A fixed _ _ _ _ _ _ Hf) as Hper.
    destruct (preprocess_ok f consts A fixed (assign_graph A known) [] [] G1 Touts Tins Hnoe)
      as [g' [by' [no' [F1 [F2 [F3 [F4 [F5 F6]]]]]]]].
    { intros c o w Hc Ho Hnode. destruct (Hper c Hc) as [Hall|[_ [Hno _]]]; [exact Hall|].
      exfalso. exact (Hno o w Ho Hnode). }
    { intros o Ho. apply has_false. rewrite HAin. apply Hnotout. exact Ho. }
    { intros c Hc. destruct (Hper c Hc) as [Hall|[Hm [_ Hpart]]]; split.
      - intros _. exact Hall.
      - intros _ i j _ _ Hj Hjf. rewrite (Hall j Hj) in Hjf. discriminate Hjf.
      - intros Hm'. rewrite Hm in Hm'. discriminate Hm'.
      - intros _. exact Hpart. }
    rewrite Hf in F1. injection F1 as <- <- <-.
    destruct (order_valid string String.eqb String.eqb_eq g order F2 Ht) as [L1 [L2 L3]].
    pose proof (order_implies_acyclic string String.eqb String.eqb_eq g order F2 Ht) as Hacyc.
    destruct (schedule_ok f _ _ _ _ _ _ _ _ _ _ Hs) as [_ [_ [new [_ HF]]]].
    destruct (preprocess_shape f _ _ _ _ _ _ _ _ _ Hf) as [Hby _].
    destruct (preprocess_graph f _ _ _ _ _ _ _ _ _ G1 Touts Tins Hnoe Hf) as [_ [_ [P3 _]]].
    assert (Hassigned_emitted : forall n, In n (assigned_names stmts) ->
              exists e w we, lookup A n = Some e /\ GG n = Some w /\
                             check f GG cv e = Ok we /\ wcombine w we <> None).
    { intros n Hn. assert (Hnode : In n order).
      { apply L2. apply P3. apply G3. apply HAin. exact Hn. }
      destruct (Forall2_In_l _ _ _ _ HF Hnode) as [a [_ Hem]].
      destruct Hem as [[e [w [we [H1 [H2 [H3 [H4 _]]]]]]]|[H1 _]].
      - exists e, w, we. auto.
      - exfalso. apply HAhas in Hn. unfold has in Hn. rewrite H1 in Hn. discriminate Hn. }
    assert (Hall_iff : forall c, all_assigned A c <-> inputs_assigned stmts c).
    { intros c. unfold all_assigned, inputs_assigned. split; intros H i Hi; apply HAhas; apply H; exact Hi. }
    exists cv, GG. constructor.
    - (* declared once *) exact D1.
    - (* not builtin *) intros n Hn. rewrite fixed_names_all. apply D2. exact Hn.
    - (* bank name *) intros b Hb'. destruct (B1 b Hb') as [i [o [Hl [Hlo [Hup _]]]]]. exists i, o. auto.
    - (* signals distinct *) rewrite bank_signal_names_eq. exact B2.
    - (* signals undeclared *)
      intros n Hn Hd. apply Hdecl in Hd. apply in_app_iff in Hn. destruct Hn as [Hn|Hn].
      + rewrite bank_signal_names_eq in Hn. destruct (B3 n Hn) as [_ H]. exact (H Hd).
      + unfold bank_specials in Hn. apply in_flat_map in Hn. destruct Hn as [b [Hb' Hn]].
        destruct (B1 b Hb') as [i [o [Hl [_ [_ [Hst [Hbu _]]]]]]]. rewrite Hl in Hn.
        destruct Hn as [<-|[<-|[]]]; [exact (Hst Hd) | exact (Hbu Hd)].
    - (* widths *) exact HG.
    - (* consts closed *) exact C1.
    - (* consts acyclic *)
      apply (no_cycle_acyclic (const_reads stmts) (const_graph (const_exprs stmts))); [|exact R1].
      intros a b Hab. apply (proj1 (proj2 (const_graph_facts (const_exprs stmts) Hcsnd))). exact Hab.
    - (* cv domain *)
      intros n. split.
      + intros H. apply Hkeys. apply has_In. unfold has. unfold cv in H.
        destruct (lookup consts n); [reflexivity | contradiction H; reflexivity].
      + intros H. rewrite <- const_exprs_names in H. apply (R2 n H).
    - (* consts eval *) intros n e Hne. destruct (R3 n e Hne) as [v [w [H1 [H2 _]]]]. exists v. split; assumption.
    - (* consts width *)
      intros n e Hne. destruct (R3 n e Hne) as [v [w [_ [_ H3]]]]. exists w. apply check_iff. exact H3.
    - (* init closed *)
      intros x r Hx Hr. unfold bank_regs in Hx. apply in_flat_map in Hx. destruct Hx as [b [Hb' Hx]].
      destruct (B1 b Hb') as [i [o [Hl [_ [_ [_ [_ Hregs]]]]]]]. rewrite Hl in Hx.
      apply in_map_iff in Hx. destruct Hx as [r0 [<- Hr0]]. cbn [reg_init snd] in Hr.
      destruct (Hregs r0 Hr0) as [_ [_ [[wc Hckr] _]]].
      pose proof (check_refs f _ _ _ wc r Hckr Hr) as Hdef. unfold cenv in Hdef.
      apply Hkeys. apply has_In. unfold has. destruct (lookup consts r); [reflexivity | contradiction Hdef; reflexivity].
    - (* init width *)
      intros x Hx. unfold bank_regs in Hx. apply in_flat_map in Hx. destruct Hx as [b [Hb' Hx]].
      destruct (B1 b Hb') as [i [o [Hl [_ [_ [_ [_ Hregs]]]]]]]. rewrite Hl in Hx.
      apply in_map_iff in Hx. destruct Hx as [r0 [<- Hr0]]. cbn [reg_init snd].
      destruct (Hregs r0 Hr0) as [_ [_ [[wc Hckr] _]]]. exists wc. apply check_iff. exact Hckr.
    - (* init eval *)
      intros x Hx. unfold bank_regs in Hx. apply in_flat_map in Hx. destruct Hx as [b [Hb' Hx]].
      destruct (B1 b Hb') as [i [o [Hl [_ [_ [_ [_ Hregs]]]]]]]. rewrite Hl in Hx.
      apply in_map_iff in Hx. destruct Hx as [r0 [<- Hr0]]. cbn [reg_init reg_width fst snd].
      destruct (Hregs r0 Hr0) as [_ [_ [_ Hev]]]. exact Hev.
    - (* assigned once *) exact A1.
    - (* no driver *)
      intros n Hn. destruct (A2 n Hn) as [H1 [H2 H3]]. split; [exact H1|]. split; [exact H2|].
      rewrite <- Houts. rewrite Hp_banks in H3. exact H3.
    - (* assigned declared *)
      intros n Hn. destruct (Hassigned_emitted n Hn) as [e [w [we [_ [H2 _]]]]]. rewrite H2. discriminate.
    - (* all driven *)
      intros n Hn. apply in_app_iff in Hn. destruct Hn as [Hn|Hn]; [apply N1; exact Hn|].
      apply N2. rewrite Hp_banks. rewrite <- Hins in Hn. exact Hn.
    - (* mandatory *)
      intros c Hc Hm. apply Hall_iff. destruct (Hper c Hc) as [Hall|[Hm' _]]; [exact Hall|].
      rewrite Hm in Hm'. discriminate Hm'.
    - (* partial *)
      intros c i j Hc Hm Hi Hia Hj Hja.
      destruct (Hper c Hc) as [Hall|[_ [_ Hpart]]].
      + exfalso. apply Hja. apply HAhas. apply Hall. exact Hj.
      + destruct (Hpart i j Hi (proj2 (HAhas i) Hia) Hj) as [en [ee [v [E1 [E2 [E3 E4]]]]]].
        { destruct (has A j) eqn:E; [|reflexivity]. exfalso. apply Hja. apply HAhas. exact E. }
        exists en, ee, v. split; [exact E1|]. split; [apply lookup_In; exact E2|]. split; assumption.
    - (* reads driven *)
      intros y e x Hye Hx. destruct (mem_str x known) eqn:Ek.
      + apply mem_str_In in Ek. unfold known in Ek. rewrite Hbk, Houts in Ek. apply in_app_iff in Ek.
        destruct Ek as [Ek|Ek]; [right; left; exact Ek|]. apply in_app_iff in Ek.
        destruct Ek as [Ek|Ek]; [right; right; left; apply Hdfl in Ek; apply Ek | left; apply Hkeys; exact Ek].
      + assert (Hedge : gedge (assign_graph A known) x y).
        { apply G2. exists e. split; [exact Hye|]. split; [exact Hx | exact Ek]. }
        assert (Hnode : In x order).
        { apply L2. apply P3. apply (gedge_source_node _ x y G1 Hedge). }
        destruct (Forall2_In_l _ _ _ _ HF Hnode) as [a [_ Hem]].
        destruct Hem as [[e0 [w [we [H1 _]]]]|[_ [c [H1 _]]]].
        * right. right. right. left. apply HAhas. apply has_lookup. exists e0. exact H1.
        * right. right. right. right. destruct (Hby x c H1) as [Hx0|[Hc [[w Ho] Hall]]]; [discriminate Hx0|].
          exists c, w. split; [exact Hc|]. split; [exact Ho|]. apply Hall_iff. exact Hall.
    - (* assign widths *)
      intros n e w Hne HGn.
      assert (Hn : In n (assigned_names stmts)) by (apply HAin; apply (in_map fst) in Hne; exact Hne).
      destruct (Hassigned_emitted n Hn) as [e0 [w0 [we [H1 [H2 [H3 H4]]]]]].
      rewrite (In_lookup A n e HA1 Hne) in H1. injection H1 as <-.
      rewrite HGn in H2. injection H2 as <-.
      exists we. split; [apply check_iff; exact H3 | exact H4].
    - (* acyclic *)
      apply (no_cycle_acyclic (wire_reads fixed stmts) g); [|exact Hacyc].
      intros a b [[e [H1 [H2 [H3 [H4 H5]]]]]|[c [w [Hc [Hia [Ho Hi]]]]]]; apply F3.
      + left. apply G2. exists e. split; [exact H1|]. split; [exact H2|]. apply Hknown. split; [exact H4|]. split; assumption.
      + right. exists c, w. split; [exact Hc|]. split; [apply Hall_iff; exact Hia|]. split; assumption.
  Qed.
End Converse.

Theorem accepted_fault_free_gen_holds : stmt_accepted_fault_free_gen.
Proof.
  intros f is_lower is_upper stmts p Hb.
  pose proof gen_fixed_ok2 as H. unfold fixed_table_ok2 in H. apply andb_true_iff in H. destruct H as [H1 H2].
  apply (accepted_fault_free f gen_fixed is_lower is_upper H1 H2 stmts p Hb).
Qed.

Theorem accepted_iff_fault_free_gen_holds : stmt_accepted_iff_fault_free_gen.
Proof.
  intros f is_lower is_upper stmts. split.
  - intros [p Hb]. apply (accepted_fault_free_gen_holds f is_lower is_upper stmts p Hb).
  - apply fault_free_accepted_gen_holds.
Qed.

(* ================================================================================== *)
(* Part 4: examples (computed on the tables of the compiled implementation)            *)
(* ================================================================================== *)
(* HCL text -> statements, by the model's own lexer and parser *)
Definition hcl (s : string) : list stmt :=
  match parse_text test_uclass doc_tiers (bytes_of_string s) with Some l => l | None => [] end.

Notation gbuild := (build_program gen_features gen_fixed ascii_lower ascii_upper).
Notation gfault_free := (fault_free gen_features gen_fixed ascii_lower ascii_upper).

(* the kinds of the diagnostics of a rejected program ([] if accepted) *)
Definition diags (s : string) : list ekind :=
  match gbuild (hcl s) with Ok _ => [] | Err es => map ek es end.

Lemma accepted_by_computation stmts : is_ok (gbuild stmts) = true -> gfault_free stmts.
Proof.
  destruct (gbuild stmts) as [p|es] eqn:E; [intros _ | intros H; discriminate H].
  apply (accepted_fault_free_gen_holds _ _ _ stmts p E).
Qed.

Lemma rejected_not_fault_free stmts : is_ok (gbuild stmts) = false -> ~ gfault_free stmts.
Proof.
  intros H Hff. destruct (fault_free_accepted_gen_holds _ _ _ stmts Hff) as [p Hp].
  rewrite Hp in H. discriminate H.
Qed.

(* ---- non-vacuity: non-trivial fault-free programs ----------------------------------------- *)
(* a two-stage counter: two register banks, a constant, instruction memory, a data memory read
   (the write port is switched off by the constant 0, its data input left unassigned), a register
   file read and write *)
Definition ex_pipeline : string :=
"const INC = 8;
register pP { pc : 64 = 0; }
register fD { count : 64 = 0; }
wire next : 64, opcode : 4;
pc = P_pc;
opcode = i10bytes[4..8];
next = P_pc + INC;
p_pc = next;
f_count = D_count + 1;
reg_srcA = opcode;
reg_dstE = opcode; reg_inputE = reg_outputA + D_count;
mem_addr = D_count; mem_readbit = 1; mem_writebit = 0;
wire m : 64; m = mem_output;
Stat = [ opcode == 0 : 2; 1 : 1 ];".

Example ex_pipeline_parses : List.length (hcl ex_pipeline) = 18%nat.
Proof. vm_compute. reflexivity. Qed.

Example ex_pipeline_fault_free : gfault_free (hcl ex_pipeline).
Proof. apply accepted_by_computation. vm_compute. reflexivity. Qed.

Example ex_pipeline_accepted : exists p, gbuild (hcl ex_pipeline) = Ok p.
Proof. apply fault_free_accepted_gen_holds. exact ex_pipeline_fault_free. Qed.

(* the implementation's own preamble (50 constants, one defined from another) and a fetch stage *)
Definition ex_preamble : string :=
  gen_preamble ++
  "register pP { pc : 64 = 0; } pc = P_pc; p_pc = P_pc + 1;
   Stat = [ i10bytes[4..8] == HALT : STAT_HLT; true : STAT_AOK ];".

Example ex_preamble_fault_free :
  (List.length (const_names (hcl ex_preamble)) = 50)%nat /\ gfault_free (hcl ex_preamble).
Proof. split; [vm_compute; reflexivity | apply accepted_by_computation; vm_compute; reflexivity]. Qed.

(* ---- tightness: one rejected program per clause of fault_free_with ------------------------------ *)
(* [ff_widths] and [ff_cv_domain] only pin down the witnesses G and cv, they name no fault *)
Example tight_declared_once : diags "wire x : 8; wire x : 8; x = 1; pc = 0; Stat = 1;" = [RedeclaredWire].
Proof. vm_compute. reflexivity. Qed.
Example tight_not_builtin : diags "wire pc : 64; pc = 0; Stat = 1;" = [RedeclaredBuiltinWire].
Proof. vm_compute. reflexivity. Qed.
Example tight_bank_name : diags "register PP { a : 8 = 0; } pc = 0; Stat = 1;" = [InvalidRegisterBankName].
Proof. vm_compute. reflexivity. Qed.
Example tight_bank_signals_distinct :
  diags "register xY { a : 8 = 0; a : 8 = 0; } x_a = Y_a; pc = 0; Stat = 1;"
    = [DuplicateRegister; DoubleDeclaredRegisterOutWire; DoubleDeclaredRegisterOutWire] /\
  diags "register xY { a : 8 = 0; } register xY { a : 8 = 0; } x_a = Y_a; pc = 0; Stat = 1;"
    = [DoubleDeclaredRegisterOutWire; DoubleDeclaredRegisterOutWire].
Proof. vm_compute. split; reflexivity. Qed.
Example tight_bank_signals_undeclared :
  diags "wire x_a : 8; register xY { a : 8 = 0; } x_a = Y_a; pc = 0; Stat = 1;" = [RedeclaredWire] /\
  diags "wire stall_Y : 1; stall_Y = 0; register xY { a : 8 = 0; } x_a = Y_a; pc = 0; Stat = 1;" = [RedeclaredWire].
Proof. vm_compute. split; reflexivity. Qed.
Example tight_consts_closed :
  diags "wire x : 8; x = 1; const A = x; pc = 0; Stat = 1;" = [NonConstantWireRead] /\
  diags "const A = nosuch; pc = 0; Stat = 1;" = [UndeclaredWireRead].
Proof. vm_compute. split; reflexivity. Qed.
Example tight_consts_acyclic : diags "const A = B; const B = A; pc = 0; Stat = 1;" = [WireLoop].
Proof. vm_compute. reflexivity. Qed.
Example tight_consts_eval : diags "const A = 1 / 0; pc = 0; Stat = 1;" = [DivisionByZero].
Proof. vm_compute. reflexivity. Qed.
Example tight_consts_width : diags "const A = 0b11 & 0b111; pc = 0; Stat = 1;" = [MismatchedExprWidths].
Proof. vm_compute. reflexivity. Qed.
Example tight_init_closed :
  diags "wire w : 8; w = 1; register xY { a : 8 = w; } x_a = Y_a; pc = 0; Stat = 1;" = [NonConstantWireRead] /\
  diags "register xY { a : 8 = nosuch; } x_a = Y_a; pc = 0; Stat = 1;" = [UndeclaredWireRead].
Proof. vm_compute. split; reflexivity. Qed.
Example tight_init_width :
  diags "register xY { a : 8 = 0b11 & 0b111; } x_a = Y_a; pc = 0; Stat = 1;" = [MismatchedExprWidths] /\
  diags "register xY { a : 5 = (0b11)[0..5]; } x_a = Y_a; pc = 0; Stat = 1;" = [InvalidBitIndex].
Proof. vm_compute. split; reflexivity. Qed.
Example tight_init_eval :
  diags "register xY { a : 8 = 1 / 0; } x_a = Y_a; pc = 0; Stat = 1;" = [DivisionByZero] /\
  diags "register xY { a : 8 = 0b11; } x_a = Y_a; pc = 0; Stat = 1;" = [MismatchedRegisterDefaultWidths].
Proof. vm_compute. split; reflexivity. Qed.
Example tight_assigned_once : diags "pc = 0; pc = 1; Stat = 1;" = [DoubleAssignedWire].
Proof. vm_compute. reflexivity. Qed.
Example tight_no_driver :
  diags "i10bytes = 0; pc = 0; Stat = 1;" = [DoubleAssignedFixedOutWire] /\
  diags "const A = 1; A = 2; pc = 0; Stat = 1;" = [ConstantAssigned] /\
  diags "register xY { a : 8 = 0; } x_a = 0; Y_a = 1; pc = 0; Stat = 1;" = [DoubleAssignedRegisterWire].
Proof. vm_compute. repeat split; reflexivity. Qed.
Example tight_assigned_declared : diags "y = 1; pc = 0; Stat = 1;" = [UndeclaredWireAssigned].
Proof. vm_compute. reflexivity. Qed.
Example tight_all_driven :
  diags "wire x : 8; pc = 0; Stat = 1;" = [UnsetWire] /\
  diags "register xY { a : 8 = 0; } pc = 0; Stat = 1;" = [UnsetRegisterInputWire].
Proof. vm_compute. split; reflexivity. Qed.
Example tight_mandatory_driven : diags "pc = 0;" = [UnsetBuiltinWire].
Proof. vm_compute. reflexivity. Qed.
Example tight_partial_disabled :
  diags "reg_dstE = 0; pc = 0; Stat = 1;" = [PartialFixedInput] /\
  diags "mem_addr = 0; mem_writebit = 1; mem_readbit = 0; pc = 0; Stat = 1;" = [PartialFixedInput] /\
  (* the exemption: the enable input is the constant 0 *)
  diags "mem_addr = 0; mem_writebit = 0; mem_readbit = 0; pc = 0; Stat = 1;" = [].
Proof. vm_compute. repeat split; reflexivity. Qed.
Example tight_reads_driven :
  diags "wire x : 64; x = reg_outputA; pc = 0; Stat = 1;" = [UnsetBuiltinWire] /\
  diags "wire x : 64; x = mem_addr; pc = 0; Stat = 1;" = [UnsetUndeclaredWire].
Proof. vm_compute. split; reflexivity. Qed.
Example tight_assign_widths :
  diags "wire x : 8; x = 0b11; pc = 0; Stat = 1;" = [MismatchedWireWidths] /\
  diags "wire x : 8; x = nosuch; pc = 0; Stat = 1;" = [UndeclaredWireRead; UnsetUndeclaredWire].
Proof. vm_compute. split; reflexivity. Qed.
Example tight_acyclic :
  diags "wire x : 8, y : 8; x = y; y = x; pc = 0; Stat = 1;" = [WireLoop] /\
  diags "reg_srcA = reg_outputA[0..4]; pc = 0; Stat = 1;" = [WireLoop] /\
  (* assigned control signals take part in cycles like any wire *)
  diags "register xY { a : 8 = 0; } x_a = Y_a; stall_Y = bubble_Y; bubble_Y = stall_Y; pc = 0; Stat = 1;" = [WireLoop].
Proof. vm_compute. repeat split; reflexivity. Qed.

(* none of the rejected programs above is fault free, e.g. *)
Example tight_not_fault_free : ~ gfault_free (hcl "wire x : 8, y : 8; x = y; y = x; pc = 0; Stat = 1;").
Proof. apply rejected_not_fault_free. vm_compute. reflexivity. Qed.

(* ---- the two repaired defects (F19, F20): their replay programs ---------------------------------- *)
(* F19: register initial values are now width-checked against the constants, like constants: the
   three replay programs - an undeclared name in an arm never evaluated, a slice beyond its operand,
   case arms of different widths - are rejected *)
Example f19_replays_rejected :
  diags "register xY { a : 64 = [ 1 : 0; 1 : nosuch ]; } x_a = Y_a; pc = Y_a; Stat = 1;" = [UndeclaredWireRead] /\
  diags "register xY { a : 5 = (0b11)[0..5]; } x_a = Y_a; pc = 0; Stat = 1;" = [InvalidBitIndex] /\
  diags "register xY { a : 1 = [ 1 : 0b1; 1 : 0b11 ]; } x_a = Y_a; pc = 0; Stat = 1;" = [MultipleMuxDefaultOption].
Proof. vm_compute. repeat split; reflexivity. Qed.

(* F20: a bank's stall_X / bubble_X that the program leaves unassigned may be read *)
Definition ex_f20 : string :=
  "register xY { a : 8 = 0; } x_a = Y_a; wire z : 1; z = stall_Y; pc = 0; Stat = 1;".
Example f20_replay_accepted : diags ex_f20 = [] /\ gfault_free (hcl ex_f20).
Proof. split; [vm_compute; reflexivity | apply accepted_by_computation; vm_compute; reflexivity]. Qed.
(* ... but only a signal of a declared bank *)
Example f20_other_bank_rejected :
  diags "register xY { a : 8 = 0; } x_a = Y_a; wire z : 1; z = stall_Z; pc = 0; Stat = 1;"
    = [UndeclaredWireRead; UnsetUndeclaredWire].
Proof. vm_compute. reflexivity. Qed.

(* the "closed" clauses follow from the width clauses (a name without a width has no judgement);
   they are kept because the property names the fault separately *)
Lemma has_width_refs f cv e w r :
  has_width f (cwidth cv) cv e w -> In r (refs e) -> cv r <> None.
Proof.
  intros H Hr. apply check_iff in H. pose proof (check_refs f _ _ e w r H Hr) as Hd.
  unfold cwidth in Hd. destruct (cv r); [discriminate | contradiction Hd; reflexivity].
Qed.

(* ---- why the converse needs a hypothesis on the table ------------------------------------------ *)
(* a table with a built-in input shaped like a register-bank signal: the program is accepted (the
   bank's width silently replaces the table's) but x_a has two declared widths, so no G exists *)
Definition odd_fixed : list fixed_fn := [mkFixed "odd" [("x_a", 4)] None None false (ASetStatus "x_a")].
Definition odd_prog : list stmt := hcl "register xY { a : 8 = 0; } x_a = Y_a;".

Example odd_table_accepted_not_fault_free :
  is_ok (build_program gen_features odd_fixed ascii_lower ascii_upper odd_prog) = true /\
  table_distinct odd_fixed /\
  ~ fault_free gen_features odd_fixed ascii_lower ascii_upper odd_prog.
Proof.
  split; [vm_compute; reflexivity|]. split.
  - split; [intros c [<-|[]]; vm_compute; constructor; [intros [] | constructor] | vm_compute; constructor].
  - intros [cv [G FF]].
    assert (H4 : G "x_a" = Some (Bits 4)).
    { apply (ff_widths _ _ _ _ _ _ _ FF). unfold declared_widths. apply in_or_app. left. vm_compute. left. reflexivity. }
    assert (H8 : G "x_a" = Some (Bits 8)).
    { apply (ff_widths _ _ _ _ _ _ _ FF). unfold declared_widths. apply in_or_app. right. apply in_or_app. right.
      apply in_or_app. left. vm_compute. right. left. reflexivity. }
    rewrite H4 in H8. discriminate H8.
Qed.

(* ---- why the theorem needs [table_distinct] ---------------------------------------------------- *)
(* a component listing the same input twice: the fault-free program "a = 0b0;" is rejected, because
   Graph::insert counts the edge a -> o twice and the sorter then believes an edge was left over *)
Definition dup_fixed : list fixed_fn :=
  [mkFixed "dup" [("a", 1); ("a", 1)] (Some ("o", 1)) None false (AReadReg "a" "o")].
Definition dup_prog : list stmt := [SAssign [(["a"], EConst (mkV 0 (Bits 1)))]].

Lemma rank_acyclic (R : string -> string -> Prop) (rank : string -> nat) :
  (forall a b, R a b -> (rank a < rank b)%nat) -> acyclic R.
Proof.
  intros Hr. assert (H : forall x y, clos_trans string R x y -> (rank x < rank y)%nat).
  { intros x y Hxy. induction Hxy as [a b Hab|a b c _ IH1 _ IH2]; [apply Hr; exact Hab | lia]. }
  intros x Hx. apply H in Hx. lia.
Qed.

Example table_distinct_needed :
  fault_free gen_features dup_fixed ascii_lower ascii_upper dup_prog /\
  is_ok (build_program gen_features dup_fixed ascii_lower ascii_upper dup_prog) = false.
Proof.
  split; [|vm_compute; reflexivity].
  exists (fun _ => None), (lookup [("a", Bits 1); ("o", Bits 1)]).
  constructor; cbn [const_names wire_names dup_prog flat_map map app bank_decls bank_regs bank_signal_names
                     bank_specials const_exprs assigned_names fst snd bank_inputs bank_outputs].
  - constructor.
  - intros n [].
  - intros b [].
  - constructor.
  - intros n [].
  - intros n w. split.
    + intros H. apply lookup_In in H. vm_compute. vm_compute in H. tauto.
    + vm_compute. intros [H|[H|[H|[]]]]; injection H as <- <-; reflexivity.
  - intros n e r [].
  - apply (rank_acyclic _ (fun _ => O)). intros a b [e [[] _]].
  - intros n. split; [intros H; contradiction H; reflexivity | intros []].
  - intros n e [].
  - intros n e [].
  - intros x r [].
  - intros x [].
  - intros x [].
  - constructor; [intros [] | constructor].
  - intros n [<-|[]]. split; [vm_compute; intros [H|[]]; discriminate H|]. split; intros [].
  - intros n [<-|[]]. vm_compute. discriminate.
  - intros n [].
  - intros c [<-|[]] H. discriminate H.
  - intros c i j [<-|[]] _ Hi Hia Hj Hja. exfalso. apply Hja.
    vm_compute in Hj. destruct Hj as [<-|[<-|[]]]; left; reflexivity.
  - intros y e x Hye Hx. vm_compute in Hye. destruct Hye as [Hye|[]]. injection Hye as <- <-. destruct Hx.
  - intros n e w Hne HG. vm_compute in Hne. destruct Hne as [Hne|[]]. injection Hne as <- <-.
    vm_compute in HG. injection HG as <-. exists (Bits 1). split; [apply (HW_const _ _ _ (mkV 0 (Bits 1)))|].
    vm_compute. discriminate.
  - apply (rank_acyclic _ (fun n => if String.eqb n "o" then 1%nat else 0%nat)).
    intros a b [[e [H1 [H2 _]]]|[c [w [[<-|[]] [_ [Ho Hi]]]]]].
    + vm_compute in H1. destruct H1 as [H1|[]]. injection H1 as <- <-. destruct H2.
    + vm_compute in Ho. injection Ho as <- <-. vm_compute in Hi. destruct Hi as [<-|[<-|[]]]; vm_compute; lia.
Qed.

Print Assumptions fault_free_accepted_holds.
Print Assumptions fault_free_accepted_gen_holds.
Print Assumptions accepted_fault_free.
Print Assumptions accepted_fault_free_gen_holds.
Print Assumptions accepted_iff_fault_free_gen_holds.
Print Assumptions ex_pipeline_fault_free.
Print Assumptions odd_table_accepted_not_fault_free.
Print Assumptions table_distinct_needed.
Print Assumptions f20_replay_accepted.
