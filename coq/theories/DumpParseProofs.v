(* C16: proofs of the statements of DumpParseSpec: the reader of DumpParse.v applied to the text
   printed by the model returns the state that was dumped. *)
From HclV Require Import Base Expr Disasm DisasmProofs Machine MemSpec DumpSpec DumpProofs
  TableSpec TableProofs DumpParse DumpParseSpec.
From Coq Require Import Sorted Permutation.
From Coq Require Import ZifyN ZifyBool ZifyNat.
Local Ltac Zify.zify_post_hook ::= Z.div_mod_to_equations.
Open Scope string_scope.
Open Scope N_scope.

(* ================================================================================== *)
(* 0. text helpers                                                                    *)
(* ================================================================================== *)

Lemma strip_prefix_app (p s : string) : strip_prefix p (p ++ s) = Some s.
Proof.
  induction p as [|a p IH]; cbn [String.append strip_prefix]; [reflexivity|].
  rewrite Ascii.eqb_refl. exact IH.
Qed.

Lemma strip_suffix_eq (suf s : string) :
  strip_suffix suf s =
  if String.eqb s suf then Some ""
  else match s with
       | EmptyString => None
       | String c r => option_map (String c) (strip_suffix suf r)
       end.
Proof. destruct s; reflexivity. Qed.

Lemma strip_suffix_app (suf a : string) : strip_suffix suf (a ++ suf) = Some a.
Proof.
  induction a as [|c a IH]; cbn [String.append]; rewrite strip_suffix_eq.
  - rewrite String.eqb_refl. reflexivity.
  - destruct (String.eqb (String c (a ++ suf)) suf) eqn:E.
    + apply String.eqb_eq in E. apply (f_equal String.length) in E.
      cbn [String.length] in E. rewrite sapp_length in E. lia.
    + rewrite IH. reflexivity.
Qed.

Lemma sall_app (p : ascii -> bool) (a b : string) : sall p (a ++ b) = sall p a && sall p b.
Proof.
  induction a as [|c a IH]; cbn [String.append sall]; [reflexivity|].
  rewrite IH, andb_assoc. reflexivity.
Qed.

Lemma sall_repeat (p : ascii -> bool) (c : ascii) (n : nat) :
  p c = true -> sall p (repeat_char c n) = true.
Proof.
  intros H. induction n as [|n IH]; cbn [repeat_char sall]; [reflexivity|].
  rewrite H, IH. reflexivity.
Qed.

Lemma sall_hex_fuel (p : ascii -> bool) : (forall d, d < 16 -> p (hexdigit d) = true) ->
  forall fuel n, sall p (hex_fuel fuel n "") = true.
Proof.
  intros Hp. induction fuel as [|f IH]; intros n; [reflexivity|].
  rewrite hex_fuel_step. assert (Hd : n mod 16 < 16) by lia.
  destruct (n <? 16).
  - cbn [sall]. rewrite (Hp _ Hd). reflexivity.
  - rewrite sall_app, IH. cbn [sall]. rewrite (Hp _ Hd). reflexivity.
Qed.

Lemma sall_hex (p : ascii -> bool) (n : N) :
  (forall d, d < 16 -> p (hexdigit d) = true) -> sall p (hex n) = true.
Proof. intros Hp. unfold hex. apply sall_hex_fuel. exact Hp. Qed.

Lemma sall_pad_left (p : ascii -> bool) (c : ascii) (w : N) (s : string) :
  p c = true -> sall p s = true -> sall p (pad_left c w s) = true.
Proof.
  intros Hc Hs. unfold pad_left. rewrite sall_app, (sall_repeat p c _ Hc), Hs. reflexivity.
Qed.

Lemma sall_impl (p q : ascii -> bool) (s : string) :
  (forall c, p c = true -> q c = true) -> sall p s = true -> sall q s = true.
Proof.
  intros Hpq. induction s as [|c s IH]; cbn [sall]; [reflexivity|].
  intros H. apply andb_true_iff in H. destruct H as [H1 H2].
  rewrite (Hpq c H1), (IH H2). reflexivity.
Qed.

Lemma is_hexdigit_hexdigit (d : N) : d < 16 -> is_hexdigit (hexdigit d) = true.
Proof. intros H. unfold is_hexdigit. rewrite (hexval_hexdigit d H). reflexivity. Qed.

(* [stops p s]: s is empty or its first character does not satisfy p *)
Definition stops (p : ascii -> bool) (s : string) : bool :=
  match s with EmptyString => true | String c _ => negb (p c) end.

Lemma span_app (p : ascii -> bool) (a rest : string) :
  sall p a = true -> stops p rest = true -> span p (a ++ rest) = (a, rest).
Proof.
  intros Ha Hr. induction a as [|c a IH]; cbn [String.append].
  - destruct rest as [|c r]; [reflexivity|]. cbn [span]. cbn [stops] in Hr.
    apply negb_true_iff in Hr. rewrite Hr. reflexivity.
  - cbn [sall] in Ha. apply andb_true_iff in Ha. destruct Ha as [Hc Ha].
    cbn [span]. rewrite Hc, (IH Ha). reflexivity.
Qed.

Lemma fields_app (p : ascii -> bool) (a rest : string) :
  sall (fun c => negb (p c)) a = true ->
  fields p (a ++ rest) = (a ++ fst (fields p rest), snd (fields p rest)).
Proof.
  intros Ha. induction a as [|c a IH]; cbn [String.append].
  - destruct (fields p rest); reflexivity.
  - cbn [sall] in Ha. apply andb_true_iff in Ha. destruct Ha as [Hc Ha].
    apply negb_true_iff in Hc. cbn [fields]. rewrite (IH Ha), Hc. reflexivity.
Qed.

Lemma fields_sep (p : ascii -> bool) (c : ascii) (rest : string) : p c = true ->
  fields p (String c rest) = ("", fst (fields p rest) :: snd (fields p rest)).
Proof. intros H. cbn [fields]. destruct (fields p rest). rewrite H. reflexivity. Qed.

Lemma split_on_app (p : ascii -> bool) (a : string) (c : ascii) (rest : string) :
  sall (fun c => negb (p c)) a = true -> p c = true ->
  split_on p (a ++ String c rest) = a :: split_on p rest.
Proof.
  intros Ha Hc. unfold split_on. rewrite (fields_app p a _ Ha), (fields_sep p c rest Hc).
  cbn [fst snd]. rewrite sapp_nil_r. destruct (fields p rest); reflexivity.
Qed.

Lemma split_on_none (p : ascii -> bool) (a : string) :
  sall (fun c => negb (p c)) a = true -> split_on p a = [a].
Proof.
  intros Ha. unfold split_on. rewrite <- (sapp_nil_r a) at 1. rewrite (fields_app p a "" Ha).
  cbn [fields fst snd]. rewrite sapp_nil_r. reflexivity.
Qed.

Lemma fields_none (p : ascii -> bool) (a : string) :
  sall (fun c => negb (p c)) a = true -> fields p a = (a, []).
Proof.
  intros Ha. rewrite <- (sapp_nil_r a) at 1. rewrite (fields_app p a "" Ha).
  cbn [fields fst snd]. rewrite sapp_nil_r. reflexivity.
Qed.

Lemma nonl_sall (s : string) : nonl s = sall (fun c => negb (is_newline c)) s.
Proof.
  induction s as [|c s IH]; [reflexivity|]. rewrite nonl_cons, IH. reflexivity.
Qed.

Lemma lines_cons (a rest : string) : nonl a = true ->
  lines (a ++ nl ++ rest) = option_map (cons a) (lines rest).
Proof.
  intros H. rewrite nonl_sall in H. unfold lines.
  change (nl ++ rest) with (String (ascii_of_N 10) rest).
  rewrite (split_on_app is_newline a (ascii_of_N 10) rest H eq_refl).
  unfold split_on. destruct (fields is_newline rest) as [f fs]. reflexivity.
Qed.

(* ================================================================================== *)
(* 1. the memory section                                                              *)
(* ================================================================================== *)

(* ---- what a row denotes ---- *)
Definition cell (m : memory) (a : N) : list (N * N) :=
  match mem_get m a with Some v => [(a, v)] | None => [] end.
Definition row_cells (m : memory) (row : N) (i n : nat) : list (N * N) :=
  flat_map (fun j => cell m (row + N.of_nat j)) (seq i n).

Lemma col_gap_sep (i : N) : i < 16 -> col_gap i = mem_cell_sep i.
Proof.
  intros H. destruct (lt16_cases i H) as
    [->|[->|[->|[->|[->|[->|[->|[->|[->|[->|[->|[->|[->|[->|[->| ->]]]]]]]]]]]]]]]; reflexivity.
Qed.

Lemma hexval_not_space (c : ascii) (d : N) : hexval c = Some d -> is_space c = false.
Proof.
  unfold hexval, is_space, is_char. intros H.
  destruct (N_of_ascii c =? 32) eqn:E; [|reflexivity].
  apply N.eqb_eq in E. rewrite E in H. vm_compute in H. discriminate H.
Qed.

Lemma is_space_sp : is_space " "%char = true.
Proof. reflexivity. Qed.

Lemma hex2_chars (v : N) : v < 256 ->
  exists a b, hex2 v = String a (String b "") /\ unhex (String a (String b "")) = Some v /\
              is_space a = false.
Proof.
  intros H. destruct (hex2_roundtrip v H) as [Hu Hl].
  destruct (hex2 v) as [|a [|b [|c s]]]; cbn [String.length] in Hl; try discriminate Hl.
  exists a, b. split; [reflexivity|]. split; [exact Hu|].
  unfold unhex in Hu. cbn [unhex_acc] in Hu.
  destruct (hexval a) as [d|] eqn:Ea; [|discriminate Hu].
  exact (hexval_not_space a d Ea).
Qed.

Lemma parse_cells_ok (m : memory) (row : N) :
  Forall (fun kv => snd kv < 256) m ->
  forall n i, (i + n = 16)%nat ->
    parse_cells n row (N.of_nat i)
      (concat_strings (map (fun j => render_cell m row (N.of_nat j)) (seq i n)) ++ "    |") =
    Some (row_cells m row i n).
Proof.
  intros Hb. induction n as [|n IH]; intros i Hi.
  - reflexivity.
  - cbn [seq map concat_strings]. unfold render_cell at 1. rewrite !sapp_assoc.
    assert (Hgap : col_gap (N.of_nat i) = mem_cell_sep (N.of_nat i)) by (apply col_gap_sep; lia).
    assert (Hrec := IH (S i) ltac:(lia)).
    replace (N.of_nat (S i)) with (N.of_nat i + 1) in Hrec by lia.
    assert (Hrc : row_cells m row i (S n) = (cell m (row + N.of_nat i) ++ row_cells m row (S i) n)%list)
      by reflexivity.
    rewrite Hrc. unfold cell.
    destruct (mem_get m (row + N.of_nat i)) as [v|] eqn:E.
    + assert (Hv : v < 256).
      { apply mem_get_In in E. rewrite Forall_forall in Hb. exact (Hb _ E). }
      destruct (hex2_chars v Hv) as [a [b [Hh [Hu Hsp]]]]. rewrite Hh.
      cbn [String.append]. cbn [parse_cells]. rewrite is_space_sp, Hgap, strip_prefix_app, Hrec.
      rewrite Hsp. cbn [andb]. rewrite Hu. reflexivity.
    + cbn [String.append]. cbn [parse_cells]. rewrite is_space_sp, Hgap, strip_prefix_app, Hrec.
      reflexivity.
Qed.

Lemma stops_label_end (s : string) : stops is_hexdigit ("_:  " ++ s) = true.
Proof. reflexivity. Qed.

Lemma parse_row_ok (m : memory) (row : N) :
  Forall (fun kv => snd kv < 256) m -> row mod 16 = 0 ->
  parse_row (row_line m row) = Some (row_cells m row 0 16).
Proof.
  intros Hb Hrow. unfold parse_row, row_line. rewrite strip_prefix_app.
  rewrite span_app.
  - rewrite unhex_pad_hex, strip_prefix_app.
    replace (16 * (row / 16)) with row by lia.
    exact (parse_cells_ok m row Hb 16 0 eq_refl).
  - apply sall_pad_left; [reflexivity|]. apply sall_hex. exact is_hexdigit_hexdigit.
  - apply stops_label_end.
Qed.

Lemma parse_rows_ok (m : memory) (rows : list N) :
  Forall (fun kv => snd kv < 256) m -> Forall (fun row => row mod 16 = 0) rows ->
  parse_rows (map (row_line m) rows) = Some (flat_map (fun row => row_cells m row 0 16) rows).
Proof.
  intros Hb Hr. induction rows as [|row rows IH]; [reflexivity|].
  cbn [map parse_rows flat_map]. rewrite (parse_row_ok m row Hb (Forall_inv Hr)).
  rewrite (IH (Forall_inv_tail Hr)). reflexivity.
Qed.

(* ---- the lines of the section ---- *)
Lemma lines_rows (m : memory) (rows : list N) : wf_mem m ->
  lines (concat_strings (map (render_row m) rows)) = Some (map (row_line m) rows).
Proof.
  intros Hwf. induction rows as [|row rows IH]; [reflexivity|].
  cbn [map concat_strings]. rewrite render_row_line.
  rewrite (lines_cons _ _ (nonl_row_line m row Hwf)), IH. reflexivity.
Qed.

Lemma lines_memory (m : memory) (rows : list N) : wf_mem m ->
  lines (mem_header ++ concat_strings (map (render_row m) rows)) =
  Some (memory_header_line :: map (row_line m) rows).
Proof.
  intros Hwf. change mem_header with (memory_header_line ++ nl). rewrite sapp_assoc.
  rewrite (lines_cons memory_header_line _ eq_refl), (lines_rows m rows Hwf). reflexivity.
Qed.

(* ---- the cells of the rows of a sorted memory are the memory ---- *)
Fixpoint take_lt (b : N) (m : memory) : memory :=
  match m with
  | [] => []
  | (k, v) :: r => if k <? b then (k, v) :: take_lt b r else []
  end.
Fixpoint drop_lt (b : N) (m : memory) : memory :=
  match m with
  | [] => []
  | (k, v) :: r => if k <? b then drop_lt b r else m
  end.

Lemma take_drop (b : N) (m : memory) : (take_lt b m ++ drop_lt b m)%list = m.
Proof.
  induction m as [|[k v] r IH]; [reflexivity|]. cbn [take_lt drop_lt].
  destruct (k <? b); [|reflexivity]. cbn [List.app]. rewrite IH. reflexivity.
Qed.

Fixpoint cells_from (m : memory) (a : N) (n : nat) : list (N * N) :=
  match n with
  | O => []
  | S n' => (cell m a ++ cells_from m (a + 1) n')%list
  end.

Lemma row_cells_from (m : memory) (row : N) : forall n i,
  row_cells m row i n = cells_from m (row + N.of_nat i) n.
Proof.
  induction n as [|n IH]; intros i; [reflexivity|].
  change (row_cells m row i (S n)) with (cell m (row + N.of_nat i) ++ row_cells m row (S i) n)%list.
  cbn [cells_from]. rewrite IH. f_equal. f_equal. lia.
Qed.

Lemma cells_from_ext (m m' : memory) : forall n a,
  (forall x, a <= x -> mem_get m x = mem_get m' x) -> cells_from m a n = cells_from m' a n.
Proof.
  induction n as [|n IH]; intros a H; [reflexivity|]. cbn [cells_from]. unfold cell.
  rewrite (H a) by lia. rewrite (IH (a + 1)); [reflexivity|]. intros x Hx. apply H. lia.
Qed.

Lemma mem_get_tail (k v : N) (r : memory) (x : N) : k < x -> mem_get ((k, v) :: r) x = mem_get r x.
Proof.
  intros H. cbn [mem_get]. assert (x =? k = false) as -> by lia.
  assert (x <? k = false) as -> by lia. reflexivity.
Qed.

Lemma sorted_tail_gt (k v : N) (r : memory) : StronglySorted key_lt ((k, v) :: r) ->
  StronglySorted key_lt r /\ Forall (fun kv => k < fst kv) r.
Proof.
  intros H. apply StronglySorted_inv in H. destruct H as [H1 H2]. split; [exact H1|].
  eapply Forall_impl; [|exact H2]. intros kv Hkv. exact Hkv.
Qed.

Lemma cells_from_sorted : forall n a m,
  StronglySorted key_lt m -> Forall (fun kv => a <= fst kv) m ->
  cells_from m a n = take_lt (a + N.of_nat n) m.
Proof.
  induction n as [|n IH]; intros a m Hs Hge.
  - cbn [cells_from]. destruct m as [|[k v] r]; [reflexivity|]. cbn [take_lt].
    apply Forall_inv in Hge. cbn [fst] in Hge. assert (k <? a + N.of_nat 0 = false) as -> by lia.
    reflexivity.
  - cbn [cells_from]. destruct m as [|[k v] r].
    + rewrite (IH (a + 1) [] Hs (Forall_nil _)). reflexivity.
    + destruct (sorted_tail_gt k v r Hs) as [Hsr Hgt].
      pose proof (Forall_inv Hge) as Hk. cbn [fst] in Hk.
      destruct (N.eq_dec a k) as [->|Hne].
      * unfold cell. cbn [mem_get]. rewrite N.eqb_refl. cbn [List.app take_lt].
        assert (k <? k + N.of_nat (S n) = true) as -> by lia. f_equal.
        rewrite (cells_from_ext _ r n (k + 1)) by (intros x Hx; apply mem_get_tail; lia).
        rewrite (IH (k + 1) r Hsr).
        -- f_equal. lia.
        -- eapply Forall_impl; [|exact Hgt]. intros kv H. cbn beta in H. lia.
      * unfold cell. cbn [mem_get]. assert (a =? k = false) as -> by lia.
        assert (a <? k = true) as -> by lia. cbn [List.app].
        rewrite (IH (a + 1) ((k, v) :: r) Hs).
        -- f_equal. lia.
        -- constructor; [cbn [fst]; lia|]. eapply Forall_impl; [|exact Hgt].
           intros kv H. cbn beta in H. lia.
Qed.

(* the row of k, then the rows after it *)
Lemma row_step (m : memory) (k v : N) (r : memory) :
  StronglySorted key_lt ((k, v) :: r) ->
  (forall x, row_of k <= x -> mem_get m x = mem_get ((k, v) :: r) x) ->
  (cells_from m (row_of k) 16 ++ drop_lt (row_of k + 16) r)%list = (k, v) :: r.
Proof.
  intros Hs Hag. destruct (sorted_tail_gt k v r Hs) as [Hsr Hgt].
  rewrite (cells_from_ext m ((k, v) :: r) 16 (row_of k) Hag).
  rewrite (cells_from_sorted 16 (row_of k) _ Hs).
  - cbn [take_lt]. assert (k <? row_of k + N.of_nat 16 = true) as -> by (unfold row_of; lia).
    cbn [List.app]. f_equal. change (N.of_nat 16) with 16. apply take_drop.
  - constructor; [cbn [fst]; unfold row_of; lia|]. eapply Forall_impl; [|exact Hgt].
    intros kv H. cbn beta in H. unfold row_of. lia.
Qed.

Lemma rows_flat (m : memory) : forall cells p lb,
  StronglySorted key_lt cells -> p mod 16 = 0 -> lb <= p + 16 ->
  Forall (fun kv => lb <= fst kv /\ p <= fst kv) cells ->
  (forall x, lb <= x -> mem_get m x = mem_get cells x) ->
  flat_map (fun row => cells_from m row 16) (rows_of cells (Some p)) = drop_lt (p + 16) cells.
Proof.
  induction cells as [|[k v] r IH]; intros p lb Hs Hp Hlb Hge Hag; [reflexivity|].
  destruct (sorted_tail_gt k v r Hs) as [Hsr Hgt].
  pose proof (Forall_inv Hge) as [Hk1 Hk2]. cbn [fst] in Hk1, Hk2.
  assert (Hnext : forall q, q mod 16 = 0 -> k + 1 <= q + 16 -> q <= k ->
            flat_map (fun row => cells_from m row 16) (rows_of r (Some q)) = drop_lt (q + 16) r).
  { intros q Hq1 Hq2 Hq3. apply (IH q (k + 1)); try assumption.
    - eapply Forall_impl; [|exact Hgt]. intros kv H. cbn beta in H. lia.
    - intros x Hx. rewrite Hag by lia. apply mem_get_tail. lia. }
  cbn [rows_of]. destruct (p =? row_of k) eqn:E.
  - apply N.eqb_eq in E. cbn [drop_lt].
    assert (k <? p + 16 = true) as -> by (unfold row_of in E; lia).
    apply Hnext; [exact Hp | unfold row_of in E; lia | exact Hk2].
  - apply N.eqb_neq in E.
    assert (Hrow : p + 16 <= row_of k) by (unfold row_of in *; lia).
    cbn [flat_map drop_lt]. assert (k <? p + 16 = false) as -> by (unfold row_of in *; lia).
    rewrite Hnext; [| unfold row_of; lia | unfold row_of; lia | unfold row_of; lia].
    apply row_step; [exact Hs|]. intros x Hx. apply Hag. lia.
Qed.

Lemma rows_flat_top (m : memory) : StronglySorted key_lt m ->
  flat_map (fun row => row_cells m row 0 16) (rows_of m None) = m.
Proof.
  intros Hs.
  rewrite (flat_map_ext _ (fun row => cells_from m row 16)).
  2:{ intros row. rewrite row_cells_from. f_equal. change (N.of_nat 0) with 0. lia. }
  destruct m as [|[k v] r]; [reflexivity|].
  destruct (sorted_tail_gt k v r Hs) as [Hsr Hgt].
  cbn [rows_of flat_map].
  rewrite (rows_flat ((k, v) :: r) r (row_of k) (k + 1)); try assumption.
  - apply row_step; [exact Hs|]. intros x _. reflexivity.
  - unfold row_of. lia.
  - unfold row_of. lia.
  - eapply Forall_impl; [|exact Hgt]. intros kv H. cbn beta in H. unfold row_of. lia.
  - intros x Hx. apply mem_get_tail. lia.
Qed.

(* ---- a memory state passes the reader's final check ---- *)
Lemma ascending_sorted (m : memory) : StronglySorted key_lt m -> ascending m = true.
Proof.
  induction m as [|[k v] r IH]; intros Hs; [reflexivity|].
  destruct (sorted_tail_gt k v r Hs) as [Hsr Hgt]. cbn [ascending].
  destruct r as [|[k2 v2] r2]; [reflexivity|].
  apply Forall_inv in Hgt. cbn [fst] in Hgt. rewrite (IH Hsr).
  assert (k <? k2 = true) as -> by lia. reflexivity.
Qed.

Lemma memory_ok_wf (m : memory) : wf_mem m -> memory_ok m = true.
Proof.
  intros [Hs Hb]. unfold memory_ok. rewrite (ascending_sorted m Hs). cbn [andb].
  apply forallb_forall. intros kv Hin. rewrite Forall_forall in Hb.
  destruct (Hb kv Hin) as [H _]. lia.
Qed.

Theorem memory_readback_holds : stmt_memory_readback.
Proof.
  intros m Hwf. rewrite (dump_memory_rows_ok m Hwf). unfold parse_memory_section.
  rewrite (lines_memory m _ Hwf). rewrite String.eqb_refl.
  destruct Hwf as [Hs Hb].
  rewrite parse_rows_ok.
  - rewrite (rows_flat_top m Hs), (memory_ok_wf m (conj Hs Hb)). reflexivity.
  - eapply Forall_impl; [|exact Hb]. intros kv [_ H]. exact H.
  - apply Forall_forall. intros row Hin. exact (rows_aligned m None row Hin).
Qed.

Theorem memory_dump_injective_holds : stmt_memory_dump_injective.
Proof.
  intros m1 m2 H1 H2 E.
  pose proof (memory_readback_holds m1 H1) as R1. pose proof (memory_readback_holds m2 H2) as R2.
  rewrite E in R1. rewrite R1 in R2. injection R2 as R2. exact R2.
Qed.

(* ---- whatever the reader returns is a memory state ---- *)
Lemma hexval_range (c : ascii) (d : N) : hexval c = Some d ->
  d < 16 /\ (48 <= N_of_ascii c <= 57 \/ 97 <= N_of_ascii c <= 102).
Proof.
  unfold hexval. intros H.
  destruct ((48 <=? N_of_ascii c) && (N_of_ascii c <=? 57)) eqn:E1.
  - injection H as <-. lia.
  - destruct ((97 <=? N_of_ascii c) && (N_of_ascii c <=? 102)) eqn:E2; [|discriminate H].
    injection H as <-. lia.
Qed.

Lemma unhex2_byte (c1 c2 : ascii) (v : N) : unhex (String c1 (String c2 "")) = Some v -> v < 256.
Proof.
  unfold unhex. cbn [unhex_acc]. intros H.
  destruct (hexval c1) as [d1|] eqn:E1; [|discriminate H].
  destruct (hexval c2) as [d2|] eqn:E2; [|discriminate H].
  injection H as <-. destruct (hexval_range c1 d1 E1) as [H1 _].
  destruct (hexval_range c2 d2 E2) as [H2 _]. lia.
Qed.

Lemma parse_cells_bytes : forall n row i s l,
  parse_cells n row i s = Some l -> Forall (fun kv => snd kv < 256) l.
Proof.
  induction n as [|n IH]; intros row i s l H; cbn [parse_cells] in H.
  - destruct (String.eqb s "    |"); [|discriminate H]. injection H as <-. constructor.
  - destruct s as [|c0 [|c1 [|c2 r]]]; try discriminate H.
    destruct (is_space c0); [|discriminate H].
    destruct (strip_prefix (col_gap i) r) as [r'|]; [|discriminate H].
    destruct (parse_cells n row (i + 1) r') as [rest|] eqn:Er; [|discriminate H].
    pose proof (IH _ _ _ _ Er) as Hrest.
    destruct (is_space c1 && is_space c2).
    + injection H as <-. exact Hrest.
    + destruct (unhex (String c1 (String c2 ""))) as [v|] eqn:Ev; [|discriminate H].
      injection H as <-. constructor; [|exact Hrest]. cbn [snd]. exact (unhex2_byte c1 c2 v Ev).
Qed.

Lemma parse_row_bytes (line : string) (l : list (N * N)) :
  parse_row line = Some l -> Forall (fun kv => snd kv < 256) l.
Proof.
  unfold parse_row. intros H.
  destruct (strip_prefix "|  0x" line) as [r1|]; [|discriminate H].
  destruct (span is_hexdigit r1) as [label r2].
  destruct (unhex label) as [hi|]; [|discriminate H].
  destruct (strip_prefix "_:  " r2) as [r3|]; [|discriminate H].
  exact (parse_cells_bytes _ _ _ _ _ H).
Qed.

Lemma parse_rows_bytes : forall ls m, parse_rows ls = Some m -> Forall (fun kv => snd kv < 256) m.
Proof.
  induction ls as [|l ls IH]; intros m H; cbn [parse_rows] in H.
  - injection H as <-. constructor.
  - destruct (parse_row l) as [a|] eqn:Ea; [|discriminate H].
    destruct (parse_rows ls) as [b|] eqn:Eb; [|discriminate H].
    injection H as <-. apply Forall_app. split; [exact (parse_row_bytes l a Ea) | exact (IH b eq_refl)].
Qed.

Lemma ascending_strongly (m : memory) : ascending m = true -> StronglySorted key_lt m.
Proof.
  induction m as [|[k v] r IH]; intros H; [constructor|].
  cbn [ascending] in H. destruct r as [|[k2 v2] r2].
  - constructor; constructor.
  - apply andb_true_iff in H. destruct H as [H1 H2]. specialize (IH H2).
    constructor; [exact IH|].
    destruct (sorted_tail_gt k2 v2 r2 IH) as [_ Hgt].
    constructor; [unfold key_lt; cbn [fst]; lia|].
    eapply Forall_impl; [|exact Hgt]. intros kv Hkv. unfold key_lt. cbn [fst]. cbn beta in Hkv. lia.
Qed.

Theorem memory_read_is_state_holds : stmt_memory_read_is_state.
Proof.
  intros s m H. unfold parse_memory_section in H.
  destruct (lines s) as [[|h rows]|]; try discriminate H.
  destruct (String.eqb h memory_header_line); [|discriminate H].
  destruct (parse_rows rows) as [m'|] eqn:Er; [|discriminate H].
  destruct (memory_ok m') eqn:Eok; [|discriminate H]. injection H as <-.
  unfold memory_ok in Eok. apply andb_true_iff in Eok. destruct Eok as [Ha Hb].
  split; [exact (ascending_strongly m' Ha)|].
  pose proof (parse_rows_bytes rows m' Er) as Hbytes.
  rewrite forallb_forall in Hb. rewrite Forall_forall in *.
  intros kv Hin. split; [specialize (Hb kv Hin); lia | exact (Hbytes kv Hin)].
Qed.

(* non-vacuity: sparse bytes, an unaligned first address, two bytes in one row, rows far apart,
   an address needing more than 7+1 digits, the last byte of the address space *)
Definition ex_memory : memory :=
  [(3, 0xAA); (4, 0); (0x1f, 0x10); (0x12345678, 1); (0x123456789abcdef0, 0xff); (2 ^ 64 - 1, 7)].
Example ex_memory_wf : wf_mem ex_memory.
Proof.
  split.
  - repeat (constructor; [|repeat (constructor; [unfold key_lt; cbn [fst]; lia|]); constructor]).
    constructor.
  - repeat (constructor; [cbn [fst snd]; rewrite two64_val; split; reflexivity|]). constructor.
Qed.
Example ex_memory_readback : parse_memory_section (dump_memory ex_memory) = Some ex_memory.
Proof. vm_compute. reflexivity. Qed.
Example ex_memory_readback_thm : parse_memory_section (dump_memory ex_memory) = Some ex_memory.
Proof. exact (memory_readback_holds ex_memory ex_memory_wf). Qed.
Example ex_memory_text :
  dump_memory ex_memory =
  mem_header ++
  "|  0x0000000_:            aa  00                                        |" ++ nl ++
  "|  0x0000001_:                                                    10    |" ++ nl ++
  "|  0x1234567_:                              01                          |" ++ nl ++
  "|  0x123456789abcdef_:   ff                                                     |" ++ nl ++
  "|  0xfffffffffffffff_:                                                    07    |" ++ nl.
Proof. vm_compute. reflexivity. Qed.
(* the reader rejects text that is not a memory section, or not a state *)
Example ex_memory_reject_undelimited :
  parse_memory_section (mem_header ++ "|  0x0000000_:   01" ++ nl) = None.
Proof. vm_compute. reflexivity. Qed.
Example ex_memory_reject_descending :
  parse_memory_section (mem_header ++
  "|  0x0000001_:                                                    10    |" ++ nl ++
  "|  0x0000000_:            aa  00                                        |" ++ nl) = None.
Proof. vm_compute. reflexivity. Qed.
Example ex_memory_empty : parse_memory_section (dump_memory []) = Some [].
Proof. vm_compute. reflexivity. Qed.

(* ================================================================================== *)
(* 2. the program registers                                                           *)
(* ================================================================================== *)

Lemma hexval_not_char (n : N) (c : ascii) (d : N) : hexval c = Some d ->
  n < 48 \/ (57 < n /\ n < 97) \/ 102 < n -> is_char n c = false.
Proof.
  intros H Hn. destruct (hexval_range c d H) as [_ Hr]. unfold is_char. lia.
Qed.

Lemma hexdigit_not_char (n : N) (c : ascii) :
  n < 48 \/ (57 < n /\ n < 97) \/ 102 < n -> is_hexdigit c = true -> negb (is_char n c) = true.
Proof.
  intros Hn H. unfold is_hexdigit in H. destruct (hexval c) as [d|] eqn:E; [|discriminate H].
  rewrite (hexval_not_char n c d E Hn). reflexivity.
Qed.

Lemma sall_hexdigit_hex (n : N) : sall is_hexdigit (hex n) = true.
Proof. apply sall_hex. exact is_hexdigit_hexdigit. Qed.

(* a non-empty text of hexadecimal digits does not start with a blank *)
Lemma stops_space_hex (n : N) (rest : string) : stops is_space (hex n ++ rest) = true.
Proof.
  pose proof (sall_hexdigit_hex n) as H. pose proof (hex_nonempty n) as Hne.
  destruct (hex n) as [|c s]; [congruence|]. cbn [String.append stops].
  cbn [sall] in H. apply andb_true_iff in H. destruct H as [H _].
  apply (hexdigit_not_char 32 c); [lia | exact H].
Qed.

Lemma parse_reg_field_ok (label : string) (v : N) (rest : string) :
  stops is_hexdigit rest = true ->
  parse_reg_field label (reg_field label v ++ rest) = Some (v, rest).
Proof.
  intros Hr. unfold parse_reg_field, reg_field. rewrite sapp_assoc, strip_prefix_app.
  unfold skip_spaces, pad_left. rewrite sapp_assoc.
  rewrite (span_app is_space _ _ (sall_repeat is_space " "%char _ eq_refl) (stops_space_hex v rest)).
  cbn [snd]. rewrite (span_app is_hexdigit _ _ (sall_hexdigit_hex v) Hr).
  rewrite hex_roundtrip_ok. reflexivity.
Qed.

Definition reg_line (a b c : string) (va vb vc : N) : string :=
  "| " ++ reg_field a va ++ "   " ++ reg_field b vb ++ "   " ++ reg_field c vc ++ " |".

Lemma parse_reg_line_ok (a b c : string) (va vb vc : N) :
  parse_reg_line (a, b, c) (reg_line a b c va vb vc) = Some [va; vb; vc].
Proof.
  unfold parse_reg_line, reg_line. rewrite strip_prefix_app.
  rewrite parse_reg_field_ok by reflexivity. rewrite strip_prefix_app.
  rewrite parse_reg_field_ok by reflexivity. rewrite strip_prefix_app.
  rewrite parse_reg_field_ok by reflexivity. reflexivity.
Qed.

Lemma nonl_reg_field (a : string) (v : N) : nonl a = true -> nonl (reg_field a v) = true.
Proof.
  intros H. unfold reg_field. rewrite nonl_app, H.
  rewrite nonl_pad_left; [reflexivity | reflexivity | apply nonl_hex].
Qed.

Lemma nonl_reg_line (a b c : string) (va vb vc : N) :
  nonl a = true -> nonl b = true -> nonl c = true -> nonl (reg_line a b c va vb vc) = true.
Proof.
  intros Ha Hb Hc. unfold reg_line.
  rewrite !nonl_app, !nonl_reg_field by assumption. reflexivity.
Qed.

Lemma dump_registers_lines (r : list N) :
  let g i := nth i r 0 in
  dump_program_registers r =
  reg_line "RAX: " "RCX: " "RDX: " (g 0%nat) (g 1%nat) (g 2%nat) ++ nl ++
  reg_line "RBX: " "RSP: " "RBP: " (g 3%nat) (g 4%nat) (g 5%nat) ++ nl ++
  reg_line "RSI: " "RDI: " "R8:  " (g 6%nat) (g 7%nat) (g 8%nat) ++ nl ++
  reg_line "R9:  " "R10: " "R11: " (g 9%nat) (g 10%nat) (g 11%nat) ++ nl ++
  reg_line "R12: " "R13: " "R14: " (g 12%nat) (g 13%nat) (g 14%nat) ++ nl ++ "".
Proof.
  intros g. unfold dump_program_registers, reg_line. fold g.
  rewrite !sapp_assoc. rewrite sapp_nil_r. reflexivity.
Qed.

Theorem registers_readback_holds : stmt_registers_readback.
Proof.
  intros r. rewrite dump_registers_lines. cbv zeta. unfold parse_registers_section.
  rewrite !lines_cons by (apply nonl_reg_line; reflexivity).
  change (lines "") with (Some (@nil string)). cbn [option_map].
  unfold register_names. cbn [parse_reg_lines]. rewrite !parse_reg_line_ok. reflexivity.
Qed.

Lemma firstn15_nth (r : list N) : List.length r = 16%nat ->
  map (fun i => nth i r 0) (seq 0 15) = firstn 15 r.
Proof.
  intros H. do 16 (destruct r as [|? r]; [discriminate H|]). reflexivity.
Qed.

Theorem registers_readback_16_holds : stmt_registers_readback_16.
Proof. intros r H. rewrite registers_readback_holds. f_equal. apply firstn15_nth. exact H. Qed.

(* non-vacuity: small, large and zero values; the sixteenth register is not shown *)
Example ex_registers_readback :
  parse_registers_section
    (dump_program_registers [1; 2; 3; 4; 0x100; 6; 7; 8; 9; 10; 0xabcdef; 12; 13; 2 ^ 64 - 1; 0; 99]) =
  Some [1; 2; 3; 4; 0x100; 6; 7; 8; 9; 10; 0xabcdef; 12; 13; 2 ^ 64 - 1; 0].
Proof. vm_compute. reflexivity. Qed.
Example ex_registers_readback_thm :
  parse_registers_section
    (dump_program_registers [1; 2; 3; 4; 0x100; 6; 7; 8; 9; 10; 0xabcdef; 12; 13; 2 ^ 64 - 1; 0; 99]) =
  Some (firstn 15 [1; 2; 3; 4; 0x100; 6; 7; 8; 9; 10; 0xabcdef; 12; 13; 2 ^ 64 - 1; 0; 99]).
Proof. apply registers_readback_16_holds. reflexivity. Qed.
Example ex_registers_reject : parse_registers_section (mem_header) = None.
Proof. vm_compute. reflexivity. Qed.

(* ================================================================================== *)
(* 3. one register bank                                                               *)
(* ================================================================================== *)

(* ---- taking the delimiters off the lines ---- *)
Lemma strip_delims_ok (a : string) : strip_delims ("| " ++ a ++ " |") = Some a.
Proof. unfold strip_delims. rewrite strip_prefix_app. apply strip_suffix_app. Qed.

Lemma unwrap_last (a : string) : nonl a = true -> unwrap ("| " ++ a ++ " |" ++ nl) = Some a.
Proof.
  intros H. unfold unwrap.
  replace ("| " ++ a ++ " |" ++ nl) with (("| " ++ a ++ " |") ++ nl ++ "")
    by (rewrite !sapp_assoc, sapp_nil_r; reflexivity).
  rewrite lines_cons by (rewrite !nonl_app, H; reflexivity).
  change (lines "") with (Some (@nil string)). cbn [option_map map_opt].
  rewrite strip_delims_ok. cbn [option_map concat_strings]. rewrite sapp_nil_r. reflexivity.
Qed.

Lemma unwrap_wrap (a rest : string) : nonl a = true ->
  unwrap ("| " ++ a ++ " |" ++ nl ++ rest) =
  match unwrap rest with Some t => Some (a ++ t) | None => None end.
Proof.
  intros H. unfold unwrap.
  replace ("| " ++ a ++ " |" ++ nl ++ rest) with (("| " ++ a ++ " |") ++ nl ++ rest)
    by (rewrite !sapp_assoc; reflexivity).
  rewrite lines_cons by (rewrite !nonl_app, H; reflexivity).
  destruct (lines rest) as [ls|]; [|reflexivity]. cbn [option_map map_opt].
  rewrite strip_delims_ok. destruct (map_opt strip_delims ls) as [bs|]; reflexivity.
Qed.

(* [K s t]: s continues (and ends) a text whose current line is open; what it contributes
   between the delimiters is t *)
Definition K (s t : string) : Prop :=
  forall x, nonl x = true -> unwrap ("| " ++ x ++ s) = Some (x ++ t).

Lemma K_end : K (" |" ++ nl) "".
Proof. intros x Hx. rewrite sapp_nil_r. apply unwrap_last. exact Hx. Qed.

Lemma K_app (a s t : string) : nonl a = true -> K s t -> K (a ++ s) (a ++ t).
Proof.
  intros Ha Hk x Hx. rewrite <- !(sapp_assoc x a). apply Hk. rewrite nonl_app, Hx, Ha. reflexivity.
Qed.

Lemma K_app_end (a : string) : nonl a = true -> K (a ++ " |" ++ nl) a.
Proof.
  intros Ha x Hx. pose proof (K_app a _ "" Ha K_end x Hx) as H.
  rewrite (sapp_nil_r a) in H. exact H.
Qed.

Lemma K_wrap (s t : string) : K s t -> K (" |" ++ nl ++ "| " ++ s) t.
Proof.
  intros Hk x Hx. rewrite (unwrap_wrap x _ Hx).
  pose proof (Hk "" eq_refl) as H0. change (unwrap ("| " ++ s) = Some t) in H0.
  rewrite H0. reflexivity.
Qed.

Lemma K_pre (wrap : bool) (n : N) (s t : string) : K s t ->
  K ((if wrap then spaces n ++ " |" ++ nl ++ "| " else "") ++ s)
    ((if wrap then spaces n else "") ++ t).
Proof.
  intros Hk. destruct wrap; [|exact Hk].
  rewrite sapp_assoc. apply K_app; [apply nonl_spaces|].
  change ((" |" ++ nl ++ "| ") ++ s) with (" |" ++ nl ++ "| " ++ s). apply K_wrap. exact Hk.
Qed.

(* ---- the registers of the bank between the delimiters ---- *)
Definition item_word (vals : list (string * wval)) (sg : string * string * width) : string :=
  let '(i, o, w) := sg in
  after_underscore i ++ "=" ++ pad_left "0"%char ((bits_or_128 w + 3) / 4) (hex (wire_bits vals o)).

Fixpoint flat_signals (vals : list (string * wval)) (sigs : list (string * string * width))
         (loc : N) : string :=
  match sigs with
  | [] => ""
  | (i, o, w) :: r =>
      let name := after_underscore i in
      let hex_width := (bits_or_128 w + 3) / 4 in
      let wrap := 71 <=? loc + 2 + hex_width + slen name in
      let loc1 := if wrap then 2 else loc in
      (if wrap then spaces (71 - loc) else "") ++ " " ++ item_word vals (i, o, w) ++
      flat_signals vals r (loc1 + 2 + hex_width + slen name)
  end.

Lemma get_value_bits (vals : list (string * wval)) (o : string) (v : wval) :
  get_value vals o = Ok v -> wire_bits vals o = bits v.
Proof.
  unfold get_value, wire_bits. destruct (lookup vals o) as [x|]; [|discriminate].
  intros H. apply Ok_inj in H. rewrite H. reflexivity.
Qed.

Lemma signals_K (vals : list (string * wval)) : forall sigs loc body,
  (forall i o w, In (i, o, w) sigs -> nonl (after_underscore i) = true) ->
  dump_bank_signals vals sigs loc = Ok body ->
  forall s t, K s t -> K (fst body ++ s) (flat_signals vals sigs loc ++ t).
Proof.
  induction sigs as [|[[i o] w] r IH]; intros loc body Hn Hd s t Hk.
  - cbn [dump_bank_signals] in Hd. apply Ok_inj in Hd. rewrite <- Hd. exact Hk.
  - cbn [dump_bank_signals] in Hd.
    destruct (get_value vals o) as [v|e] eqn:Ev; cbn [bind] in Hd; [|discriminate].
    destruct (dump_bank_signals vals r _) as [rest|e] eqn:Er; cbn [bind] in Hd; [|discriminate].
    apply Ok_inj in Hd. rewrite <- Hd. rewrite fst_pair.
    assert (Hi : nonl (after_underscore i) = true) by (apply (Hn i o w); left; reflexivity).
    assert (Hrest : K (fst rest ++ s) (flat_signals vals r
              ((if 71 <=? loc + 2 + (bits_or_128 w + 3) / 4 + slen (after_underscore i) then 2 else loc)
               + 2 + (bits_or_128 w + 3) / 4 + slen (after_underscore i)) ++ t)).
    { eapply (IH _ rest); [| exact Er | exact Hk].
      intros i' o' w' Hin. apply (Hn i' o' w'). right. exact Hin. }
    cbn [flat_signals]. cbv zeta. unfold item_word. rewrite (get_value_bits vals o v Ev).
    rewrite !sapp_assoc.
    match goal with
    | |- K ((if ?b then _ else _) ++ ?x) ((if ?b then _ else _) ++ ?y) => apply (K_pre b (71 - loc) x y)
    end.
    apply K_app; [reflexivity|].
    apply K_app; [exact Hi|].
    apply K_app; [reflexivity|].
    apply K_app; [apply nonl_pad_left; [reflexivity | apply nonl_hex]|].
    exact Hrest.
Qed.

(* ---- words ---- *)
Definition starts_blank (s : string) : bool :=
  match s with EmptyString => true | String c _ => is_space c end.
Definition nospace (s : string) : bool := sall (fun c => negb (is_space c)) s.

Lemma words_nil : words "" = [].
Proof. reflexivity. Qed.

Lemma words_space (c : ascii) (s : string) : is_space c = true -> words (String c s) = words s.
Proof.
  intros H. unfold words. change (String c s) with ("" ++ String c s).
  rewrite (split_on_app is_space "" c s eq_refl H). reflexivity.
Qed.

Lemma words_spaces (n : N) (s : string) : words (spaces n ++ s) = words s.
Proof.
  unfold spaces. induction (N.to_nat n) as [|k IH]; [reflexivity|].
  cbn [repeat_char String.append]. rewrite words_space by reflexivity. exact IH.
Qed.

Lemma words_word (w s : string) : w <> "" -> nospace w = true -> starts_blank s = true ->
  words (w ++ s) = w :: words s.
Proof.
  intros Hne Hw Hs. assert (Hk : negb (String.eqb w "") = true).
  { destruct w; [congruence | reflexivity]. }
  destruct s as [|c s'].
  - rewrite sapp_nil_r. unfold words. rewrite (split_on_none is_space w Hw).
    cbn [filter]. rewrite Hk. reflexivity.
  - cbn [starts_blank] in Hs. unfold words at 1. rewrite (split_on_app is_space w c s' Hw Hs).
    cbn [filter]. rewrite Hk. rewrite (words_space c s' Hs). reflexivity.
Qed.

Lemma words_only_spaces (n : N) : words (spaces n) = [].
Proof. rewrite <- (sapp_nil_r (spaces n)). rewrite words_spaces. reflexivity. Qed.

Lemma starts_blank_spaces (n : N) : starts_blank (spaces n) = true.
Proof. unfold spaces. destruct (N.to_nat n); reflexivity. Qed.

Lemma words_closing (n : N) : words (" }" ++ spaces n) = ["}"].
Proof.
  change (" }" ++ spaces n) with (String " "%char ("}" ++ spaces n)).
  rewrite words_space by reflexivity.
  rewrite words_word; [| discriminate | reflexivity | apply starts_blank_spaces].
  rewrite words_only_spaces. reflexivity.
Qed.

Lemma starts_blank_pre (wrap : bool) (n : N) (s : string) :
  starts_blank ((if wrap then spaces n else "") ++ " " ++ s) = true.
Proof.
  destruct wrap; [|reflexivity]. unfold spaces. destruct (N.to_nat n); reflexivity.
Qed.

Lemma starts_blank_flat (vals : list (string * wval)) (sigs : list (string * string * width))
      (loc : N) (t : string) :
  starts_blank t = true -> starts_blank (flat_signals vals sigs loc ++ t) = true.
Proof.
  intros Ht. destruct sigs as [|[[i o] w] r]; [exact Ht|].
  cbn [flat_signals]. cbv zeta. rewrite !sapp_assoc. apply starts_blank_pre.
Qed.

(* the characters of a zero-padded hexadecimal field *)
Lemma sall_hexfield (p : ascii -> bool) (w n : N) :
  (forall c, is_hexdigit c = true -> p c = true) ->
  sall p (pad_left "0"%char w (hex n)) = true.
Proof.
  intros Hp. apply sall_pad_left; [apply Hp; reflexivity|].
  apply (sall_impl is_hexdigit p _ Hp). apply sall_hexdigit_hex.
Qed.

Lemma item_word_nospace (vals : list (string * wval)) (i o : string) (w : width) :
  nospace (after_underscore i) = true -> nospace (item_word vals (i, o, w)) = true.
Proof.
  intros H. unfold item_word, nospace in *. rewrite !sall_app, H. cbn [sall andb].
  change (negb (is_space "="%char)) with true. cbn [andb].
  apply sall_hexfield. intros c Hc. apply (hexdigit_not_char 32 c); [lia | exact Hc].
Qed.

Lemma item_word_nonempty (vals : list (string * wval)) (sg : string * string * width) :
  item_word vals sg <> "".
Proof.
  destruct sg as [[i o] w]. unfold item_word. destruct (after_underscore i); discriminate.
Qed.

Lemma words_flat (vals : list (string * wval)) : forall sigs loc t,
  (forall i o w, In (i, o, w) sigs -> nospace (after_underscore i) = true) ->
  starts_blank t = true ->
  words (flat_signals vals sigs loc ++ t) = (map (item_word vals) sigs ++ words t)%list.
Proof.
  induction sigs as [|[[i o] w] r IH]; intros loc t Hn Ht; [reflexivity|].
  cbn [flat_signals]. cbv zeta. rewrite !sapp_assoc.
  assert (Hpre : forall (b : bool) n s, words ((if b then spaces n else "") ++ s) = words s).
  { intros b n s. destruct b; [apply words_spaces | reflexivity]. }
  rewrite Hpre. change (" " ++ ?x) with (String " "%char x).
  rewrite words_space by reflexivity.
  rewrite words_word.
  - cbn [map List.app]. f_equal. apply IH; [|exact Ht].
    intros i' o' w' Hin. apply (Hn i' o' w'). right. exact Hin.
  - apply item_word_nonempty.
  - apply item_word_nospace. apply (Hn i o w). left. reflexivity.
  - apply starts_blank_flat. exact Ht.
Qed.

(* ---- items ---- *)
Lemma parse_item_ok (vals : list (string * wval)) (i o : string) (w : width) :
  sall (fun c => negb (is_equals c)) (after_underscore i) = true ->
  parse_item (item_word vals (i, o, w)) = Some (after_underscore i, wire_bits vals o).
Proof.
  intros H. unfold parse_item, item_word.
  change ("=" ++ ?x) with (String "="%char x).
  rewrite (fields_app is_equals _ _ H), (fields_sep is_equals "="%char _ eq_refl).
  cbn [fst snd]. rewrite sapp_nil_r.
  set (val := pad_left "0"%char ((bits_or_128 w + 3) / 4) (hex (wire_bits vals o))).
  assert (Hv : sall (fun c => negb (is_equals c)) val = true).
  { apply sall_hexfield. intros c Hc. apply (hexdigit_not_char 61 c); [lia | exact Hc]. }
  rewrite (fields_none is_equals val Hv). cbn [fst snd]. unfold val. rewrite unhex_pad_hex. reflexivity.
Qed.

Lemma item_word_not_brace (vals : list (string * wval)) (sg : string * string * width) :
  String.eqb (item_word vals sg) "}" = false.
Proof.
  destruct sg as [[i o] w]. apply String.eqb_neq. intros E. unfold item_word in E.
  pose proof (hex_nonempty (wire_bits vals o)) as Hh.
  assert (Hp : pad_left "0"%char ((bits_or_128 w + 3) / 4) (hex (wire_bits vals o)) <> "")
    by (apply pad_left_nonempty; exact Hh).
  destruct (after_underscore i) as [|c [|c2 s]]; cbn [String.append] in E.
  - injection E as E1 E2. discriminate E1.
  - injection E as E1 E2. discriminate E2.
  - injection E as E1 E2. discriminate E2.
Qed.

Lemma parse_items_ok (vals : list (string * wval)) : forall sigs,
  (forall i o w, In (i, o, w) sigs -> sall (fun c => negb (is_equals c)) (after_underscore i) = true) ->
  parse_items (map (item_word vals) sigs ++ ["}"])%list =
  Some (map (fun s => (after_underscore (fst (fst s)), wire_bits vals (snd (fst s)))) sigs).
Proof.
  induction sigs as [|[[i o] w] r IH]; intros Hn; [reflexivity|].
  cbn [map List.app parse_items].
  assert (Hne : exists x y, (map (item_word vals) r ++ ["}"])%list = x :: y).
  { destruct r as [|s r']; cbn [map List.app]; eauto. }
  destruct Hne as [x [y Hxy]]. rewrite Hxy. rewrite <- Hxy.
  rewrite (parse_item_ok vals i o w) by (apply (Hn i o w); left; reflexivity).
  rewrite IH by (intros i' o' w' Hin; apply (Hn i' o' w'); right; exact Hin).
  reflexivity.
Qed.

(* ---- the side conditions, one character class at a time ---- *)
Lemma plain_name_parts (s : string) : plain_name s = true ->
  nospace s = true /\ sall (fun c => negb (is_equals c)) s = true /\ nonl s = true.
Proof.
  unfold plain_name, no_char, nospace. intros H. rewrite nonl_sall.
  repeat split; (eapply sall_impl; [|exact H]); intros c Hc; cbn beta in Hc;
    destruct (is_space c), (is_equals c), (is_newline c); try reflexivity; discriminate Hc.
Qed.

Lemma plain_label_parts (s : string) : plain_label s = true ->
  sall (fun c => negb (is_lparen c)) s = true /\ nonl s = true.
Proof.
  unfold plain_label, no_char. intros H. rewrite nonl_sall.
  split; (eapply sall_impl; [|exact H]); intros c Hc; cbn beta in Hc;
    destruct (is_lparen c), (is_newline c); try reflexivity; discriminate Hc.
Qed.

Theorem bank_readback_holds : stmt_bank_readback.
Proof.
  intros vals b text Hlab Hnames Hd.
  destruct (plain_label_parts _ Hlab) as [Hl1 Hl2].
  unfold dump_bank in Hd.
  destruct (get_value vals (b_stall b)) as [st|e] eqn:Est; cbn [bind] in Hd; [|discriminate].
  destruct (get_value vals (b_bubble b)) as [bu|e] eqn:Ebu; cbn [bind] in Hd; [|discriminate].
  destruct (dump_bank_signals vals (b_signals b) 18) as [body|e] eqn:Eb; cbn [bind] in Hd; [|discriminate].
  apply Ok_inj in Hd. rewrite <- Hd. clear Hd text.
  set (status := if is_true bu then "B" else if is_true st then "S" else "N").
  assert (Hstate : bank_state vals b = status).
  { unfold bank_state, status, is_true.
    rewrite (get_value_bits _ _ _ Est), (get_value_bits _ _ _ Ebu). reflexivity. }
  set (wrap := 71 <=? snd body + 2).
  set (tailtext := " }" ++ spaces (71 - ((if wrap then 2 else snd body) + 2))).
  (* 1: between the delimiters *)
  assert (Hun : unwrap (("| register " ++ b_label b ++ "(" ++ status ++ ") {") ++ fst body ++
                        (if wrap then spaces (71 - snd body) ++ " |" ++ nl ++ "| " else "") ++
                        " }" ++ spaces (71 - ((if wrap then 2 else snd body) + 2)) ++ " |" ++ nl) =
                Some (("register " ++ b_label b ++ "(" ++ status ++ ") {") ++
                      flat_signals vals (b_signals b) 18 ++
                      (if wrap then spaces (71 - snd body) else "") ++ tailtext)).
  { change ("| register " ++ b_label b ++ "(" ++ status ++ ") {")
      with ("| " ++ ("register " ++ b_label b ++ "(" ++ status ++ ") {")).
    rewrite (sapp_assoc "| ").
    assert (Hk : K (fst body ++
                    (if wrap then spaces (71 - snd body) ++ " |" ++ nl ++ "| " else "") ++
                    " }" ++ spaces (71 - ((if wrap then 2 else snd body) + 2)) ++ " |" ++ nl)
                   (flat_signals vals (b_signals b) 18 ++
                    (if wrap then spaces (71 - snd body) else "") ++ tailtext)).
    { apply (signals_K vals (b_signals b) 18 body); [| exact Eb |].
      - intros i o w Hin. exact (proj2 (proj2 (plain_name_parts _ (Hnames i o w Hin)))).
      - apply K_pre. unfold tailtext.
        apply K_app; [reflexivity|]. apply K_app_end. apply nonl_spaces. }
    apply Hk. rewrite !nonl_app, Hl2.
    unfold status. destruct (is_true bu), (is_true st); reflexivity. }
  unfold parse_bank. rewrite Hun. clear Hun. unfold parse_bank_body.
  rewrite (sapp_assoc "register "), strip_prefix_app.
  rewrite !sapp_assoc.
  rewrite (span_app (fun c => negb (is_lparen c)) (b_label b)); [| exact Hl1 | reflexivity].
  (* 2: the words *)
  assert (Hwords : words (flat_signals vals (b_signals b) 18 ++
                          (if wrap then spaces (71 - snd body) else "") ++ tailtext) =
                   (map (item_word vals) (b_signals b) ++ ["}"])%list).
  { rewrite words_flat.
    - f_equal. destruct wrap; [rewrite words_spaces|]; unfold tailtext; apply words_closing.
    - intros i o w Hin. exact (proj1 (plain_name_parts _ (Hnames i o w Hin))).
    - destruct wrap; unfold tailtext, spaces; [destruct (N.to_nat _)|]; reflexivity. }
  assert (Hitems : parse_items (map (item_word vals) (b_signals b) ++ ["}"])%list =
                   Some (bank_registers vals b)).
  { apply parse_items_ok. intros i o w Hin.
    exact (proj1 (proj2 (plain_name_parts _ (Hnames i o w Hin)))). }
  rewrite Hstate.
  unfold status. destruct (is_true bu), (is_true st);
    cbn [String.append]; cbn [strip_prefix]; rewrite !Ascii.eqb_refl;
    (change (is_state_letter "B"%char) with true || change (is_state_letter "S"%char) with true
     || change (is_state_letter "N"%char) with true);
    cbv iota; rewrite Hwords, Hitems; reflexivity.
Qed.

(* non-vacuity: a stalled bank whose registers wrap over three lines (widths 64, 3 and 128 bits,
   a name long enough to force a wrap) *)
Definition ex_bank : bank :=
  mkBank "fD" [("f_pc", "D_pc", Bits 64); ("f_valCCCCCCCCCCCC", "D_valC", Bits 64);
               ("f_valDDDDDD", "D_valD", Bits 64); ("f_x", "D_x", Bits 3);
               ("f_yyyyyyyyyyyyyyyyyyyyyyy", "D_y", Bits 128)] [] "stall_D" "bubble_D".
Definition ex_vals : list (string * wval) :=
  [("D_pc", mkV 0x1234 (Bits 64)); ("D_valC", mkV 7 (Bits 64)); ("D_valD", mkV 70 (Bits 64));
   ("D_x", mkV 5 (Bits 3)); ("D_y", mkV 255 (Bits 128)); ("stall_D", mkV 1 (Bits 1));
   ("bubble_D", mkV 0 (Bits 1))].
Definition ex_bank_text : string :=
  "| register fD(S) { pc=0000000000001234                                  |" ++ nl ++
  "|  valCCCCCCCCCCCC=0000000000000007 valDDDDDD=0000000000000046 x=5      |" ++ nl ++
  "|  yyyyyyyyyyyyyyyyyyyyyyy=000000000000000000000000000000ff }           |" ++ nl.
Example ex_bank_dump : dump_bank ex_vals ex_bank = Ok ex_bank_text.
Proof. vm_compute. reflexivity. Qed.
Example ex_bank_readback :
  parse_bank ex_bank_text =
  Some ("fD", "S", [("pc", 0x1234); ("valCCCCCCCCCCCC", 7); ("valDDDDDD", 70); ("x", 5);
                    ("yyyyyyyyyyyyyyyyyyyyyyy", 255)]).
Proof. vm_compute. reflexivity. Qed.
Example ex_bank_readback_thm :
  parse_bank ex_bank_text = Some (b_label ex_bank, bank_state ex_vals ex_bank, bank_registers ex_vals ex_bank).
Proof.
  apply (bank_readback_holds ex_vals ex_bank ex_bank_text); [reflexivity | | exact ex_bank_dump].
  intros i o w Hin. cbn [ex_bank b_signals In] in Hin.
  repeat (destruct Hin as [Hin|Hin]; [injection Hin as <- <- <-; reflexivity|]). contradiction.
Qed.
(* a bubbled bank without registers, and a normal one *)
Example ex_bank_empty :
  match dump_bank [("stall_W", mkV 1 (Bits 1)); ("bubble_W", mkV 1 (Bits 1))]
                  (mkBank "mW" [] [] "stall_W" "bubble_W") with
  | Ok t => parse_bank t
  | Err _ => None
  end = Some ("mW", "B", []).
Proof. vm_compute. reflexivity. Qed.

(* the side condition on the names is needed: a register whose name contains a blank and '='
   prints exactly like two registers.  (Names produced by the lexer are identifiers, so this
   cannot arise from HCL text.) *)
Definition ex_bank_odd : bank := mkBank "xY" [("x_x=0 y", "Y_a", Bits 4)] [] "stall_Y" "bubble_Y".
Definition ex_bank_two : bank :=
  mkBank "xY" [("x_x", "Y_x", Bits 4); ("x_y", "Y_a", Bits 4)] [] "stall_Y" "bubble_Y".
Definition ex_vals_odd : list (string * wval) :=
  [("Y_a", mkV 5 (Bits 4)); ("Y_x", mkV 0 (Bits 4)); ("stall_Y", mkV 0 (Bits 1)); ("bubble_Y", mkV 0 (Bits 1))].
Example ex_bank_same_text : dump_bank ex_vals_odd ex_bank_odd = dump_bank ex_vals_odd ex_bank_two.
Proof. vm_compute. reflexivity. Qed.

Lemma bank_readback_unconditional_refuted : ~ stmt_bank_readback_unconditional.
Proof.
  intros H.
  destruct (dump_bank ex_vals_odd ex_bank_odd) as [t|e] eqn:E; [|vm_compute in E; discriminate E].
  pose proof (H ex_vals_odd ex_bank_odd t E) as H1.
  rewrite ex_bank_same_text in E. pose proof (H ex_vals_odd ex_bank_two t E) as H2.
  rewrite H1 in H2. vm_compute in H2. discriminate H2.
Qed.

Print Assumptions memory_readback_holds.
Print Assumptions memory_dump_injective_holds.
Print Assumptions memory_read_is_state_holds.
Print Assumptions registers_readback_holds.
Print Assumptions registers_readback_16_holds.
Print Assumptions bank_readback_holds.
Print Assumptions bank_readback_unconditional_refuted.

(* ================================================================================== *)
(* 4. the whole state dump                                                            *)
(* ================================================================================== *)
Definition unlines (ls : list string) : string := concat_strings (map (fun l => l ++ nl) ls).

Lemma concat_strings_app (a b : list string) :
  concat_strings (a ++ b) = concat_strings a ++ concat_strings b.
Proof.
  induction a as [|x a IH]; [reflexivity|]. cbn [List.app concat_strings].
  rewrite IH, sapp_assoc. reflexivity.
Qed.

Lemma unlines_app (a b : list string) : unlines (a ++ b) = unlines a ++ unlines b.
Proof. unfold unlines. rewrite map_app. apply concat_strings_app. Qed.

Lemma unlines_cons (l : string) (ls : list string) : unlines (l :: ls) = l ++ nl ++ unlines ls.
Proof. unfold unlines. cbn [map concat_strings]. rewrite sapp_assoc. reflexivity. Qed.

Lemma unlines_one (l : string) : unlines [l] = l ++ nl.
Proof. rewrite unlines_cons. change (unlines []) with "". rewrite sapp_nil_r. reflexivity. Qed.

Definition all_nonl (ls : list string) : Prop := Forall (fun l => nonl l = true) ls.

Lemma lines_unlines (ls : list string) : all_nonl ls -> lines (unlines ls) = Some ls.
Proof.
  intros H. induction ls as [|l ls IH]; [reflexivity|].
  rewrite unlines_cons, (lines_cons l _ (Forall_inv H)), (IH (Forall_inv_tail H)). reflexivity.
Qed.

Lemma strip_prefix_inv (p : string) : forall s r, strip_prefix p s = Some r -> s = p ++ r.
Proof.
  induction p as [|a p IH]; intros s r H; cbn [strip_prefix] in H.
  - injection H as <-. reflexivity.
  - destruct s as [|b s]; [discriminate H|]. destruct (Ascii.eqb a b) eqn:E; [|discriminate H].
    apply Ascii.eqb_eq in E. subst b. cbn [String.append]. f_equal. apply IH. exact H.
Qed.

Lemma starts_with_app (p s : string) : starts_with p (p ++ s) = true.
Proof. unfold starts_with. rewrite strip_prefix_app. reflexivity. Qed.

Lemma starts_with_neq (p h l : string) :
  starts_with p l = true -> starts_with p h = false -> String.eqb h l = false.
Proof.
  intros H1 H2. destruct (String.eqb h l) eqn:E; [|reflexivity].
  apply String.eqb_eq in E. subst. congruence.
Qed.

(* ---- the lines of a bank ---- *)
Definition cont_line (l : string) : Prop := nonl l = true /\ starts_with "|  " l = true.

(* [L s]: s continues (and ends) a text whose current line is open: the text is that line,
   completed, followed by lines that start with '|' and two blanks *)
Definition L (s : string) : Prop :=
  forall x, nonl x = true ->
    exists y ls, "| " ++ x ++ s = unlines (("| " ++ x ++ y) :: ls) /\ nonl y = true /\
                 Forall cont_line ls.

Lemma L_end : L (" |" ++ nl).
Proof.
  intros x Hx. exists " |", []. split; [|split; [reflexivity | constructor]].
  rewrite unlines_one, !sapp_assoc. reflexivity.
Qed.

Lemma L_app (a s : string) : nonl a = true -> L s -> L (a ++ s).
Proof.
  intros Ha Hl x Hx.
  destruct (Hl (x ++ a)) as [y [ls [E [Hy Hls]]]]; [rewrite nonl_app, Hx, Ha; reflexivity|].
  exists (a ++ y), ls. split; [|split; [rewrite nonl_app, Ha, Hy; reflexivity | exact Hls]].
  rewrite <- !(sapp_assoc x a). exact E.
Qed.

Lemma L_wrap (s : string) : L s -> L (" |" ++ nl ++ "| " ++ " " ++ s).
Proof.
  intros Hl x Hx. destruct (Hl " " eq_refl) as [y [ls [E [Hy Hls]]]].
  exists " |", (("| " ++ " " ++ y) :: ls). split; [|split; [reflexivity|]].
  - rewrite unlines_cons, <- E, !sapp_assoc. reflexivity.
  - constructor; [|exact Hls]. split; [|reflexivity].
    rewrite !nonl_app, Hy. reflexivity.
Qed.

Lemma L_pre (wrap : bool) (n : N) (s : string) : L s ->
  L ((if wrap then spaces n ++ " |" ++ nl ++ "| " else "") ++ " " ++ s).
Proof.
  intros Hl. destruct wrap.
  - rewrite sapp_assoc. apply L_app; [apply nonl_spaces|].
    change ((" |" ++ nl ++ "| ") ++ " " ++ s) with (" |" ++ nl ++ "| " ++ " " ++ s).
    apply L_wrap. exact Hl.
  - apply (L_app " " s eq_refl Hl).
Qed.

Lemma signals_L (vals : list (string * wval)) : forall sigs loc body,
  (forall i o w, In (i, o, w) sigs -> nonl (after_underscore i) = true) ->
  dump_bank_signals vals sigs loc = Ok body ->
  forall s, L s -> L (fst body ++ s).
Proof.
  induction sigs as [|[[i o] w] r IH]; intros loc body Hn Hd s Hl.
  - cbn [dump_bank_signals] in Hd. apply Ok_inj in Hd. rewrite <- Hd. exact Hl.
  - cbn [dump_bank_signals] in Hd.
    destruct (get_value vals o) as [v|e] eqn:Ev; cbn [bind] in Hd; [|discriminate].
    destruct (dump_bank_signals vals r _) as [rest|e] eqn:Er; cbn [bind] in Hd; [|discriminate].
    apply Ok_inj in Hd. rewrite <- Hd. rewrite fst_pair.
    assert (Hi : nonl (after_underscore i) = true) by (apply (Hn i o w); left; reflexivity).
    assert (Hrest : L (fst rest ++ s)).
    { eapply (IH _ rest); [| exact Er | exact Hl].
      intros i' o' w' Hin. apply (Hn i' o' w'). right. exact Hin. }
    rewrite !sapp_assoc.
    match goal with
    | |- L ((if ?b then _ else _) ++ " " ++ ?x) => apply (L_pre b (71 - loc) x)
    end.
    apply L_app; [exact Hi|].
    apply L_app; [reflexivity|].
    apply L_app; [apply nonl_pad_left; [reflexivity | apply nonl_hex]|].
    exact Hrest.
Qed.

(* a bank as a group of lines *)
Definition good_group (g : list string) : Prop :=
  exists first conts, g = first :: conts /\ nonl first = true /\
    starts_with "| register " first = true /\ Forall cont_line conts.

Lemma bank_lines (vals : list (string * wval)) (b : bank) (text : string) :
  nonl (b_label b) = true ->
  (forall i o w, In (i, o, w) (b_signals b) -> nonl (after_underscore i) = true) ->
  dump_bank vals b = Ok text ->
  exists g, text = unlines g /\ good_group g.
Proof.
  intros Hlab Hnames Hd. unfold dump_bank in Hd.
  destruct (get_value vals (b_stall b)) as [st|e]; cbn [bind] in Hd; [|discriminate].
  destruct (get_value vals (b_bubble b)) as [bu|e]; cbn [bind] in Hd; [|discriminate].
  destruct (dump_bank_signals vals (b_signals b) 18) as [body|e] eqn:Eb; cbn [bind] in Hd; [|discriminate].
  apply Ok_inj in Hd. rewrite <- Hd. clear Hd text.
  set (status := if is_true bu then "B" else if is_true st then "S" else "N").
  assert (Hst : nonl status = true) by (unfold status; destruct (is_true bu), (is_true st); reflexivity).
  assert (Hl : L (fst body ++
                  (if 71 <=? snd body + 2 then spaces (71 - snd body) ++ " |" ++ nl ++ "| " else "") ++
                  " " ++ "}" ++ spaces (71 - ((if 71 <=? snd body + 2 then 2 else snd body) + 2)) ++ " |" ++ nl)).
  { apply (signals_L vals (b_signals b) 18 body Hnames Eb). apply L_pre.
    apply L_app; [reflexivity|]. apply L_app; [apply nonl_spaces | apply L_end]. }
  destruct (Hl ("register " ++ b_label b ++ "(" ++ status ++ ") {")) as [y [ls [E [Hy Hls]]]].
  { rewrite !nonl_app, Hlab, Hst. reflexivity. }
  exists (("| " ++ ("register " ++ b_label b ++ "(" ++ status ++ ") {") ++ y) :: ls).
  split.
  - rewrite <- E. rewrite !sapp_assoc. reflexivity.
  - exists ("| " ++ ("register " ++ b_label b ++ "(" ++ status ++ ") {") ++ y), ls.
    split; [reflexivity|]. split; [|split; [|exact Hls]].
    + rewrite !nonl_app, Hlab, Hst, Hy. reflexivity.
    + rewrite !sapp_assoc.
      change ("| " ++ "register " ++ ?z) with ("| register " ++ z). apply starts_with_app.
Qed.

Lemma good_group_nonl (g : list string) : good_group g -> all_nonl g.
Proof.
  intros [first [conts [-> [Hf [_ Hc]]]]]. constructor; [exact Hf|].
  eapply Forall_impl; [|exact Hc]. intros l [H _]. exact H.
Qed.

Lemma bank_group (vals : list (string * wval)) (b : bank) (text : string) :
  plain_bank b -> dump_bank vals b = Ok text ->
  exists g, text = unlines g /\ good_group g /\ parse_bank_lines g = Some (bank_info vals b).
Proof.
  intros [Hlab Hnames] Hd.
  destruct (bank_lines vals b text) as [g [Et Hg]]; [| | exact Hd |].
  - exact (proj2 (plain_label_parts _ Hlab)).
  - intros i o w Hin. exact (proj2 (proj2 (plain_name_parts _ (Hnames i o w Hin)))).
  - exists g. split; [exact Et|]. split; [exact Hg|].
    pose proof (bank_readback_holds vals b text Hlab Hnames Hd) as Hp.
    unfold parse_bank, unwrap in Hp. rewrite Et in Hp.
    rewrite (lines_unlines g (good_group_nonl g Hg)) in Hp. exact Hp.
Qed.

(* ---- all the banks ---- *)
Lemma bank_list_groups (vals : list (string * wval)) : forall bs t,
  (forall b, In b bs -> plain_bank b) ->
  dump_bank_list vals bs = Ok t ->
  exists gs, t = unlines (List.concat gs) /\ Forall good_group gs /\
             map_opt parse_bank_lines gs = Some (map (bank_info vals) bs).
Proof.
  induction bs as [|b r IH]; intros t Hplain Hd; cbn [dump_bank_list] in Hd.
  - apply Ok_inj in Hd. subst t. exists []. repeat split. constructor.
  - destruct (dump_bank vals b) as [t1|e] eqn:E1; cbn [bind] in Hd; [|discriminate].
    destruct (dump_bank_list vals r) as [t2|e] eqn:E2; cbn [bind] in Hd; [|discriminate].
    apply Ok_inj in Hd. subst t.
    destruct (IH t2 (fun b' Hin => Hplain b' (or_intror Hin)) eq_refl) as [gs [Et [Hg Hp]]].
    destruct (bank_group vals b t1 (Hplain b (or_introl eq_refl)) E1) as [g [Eg [Hgg Hpg]]].
    exists (g :: gs). split; [|split].
    + cbn [List.concat]. rewrite unlines_app, Eg, Et. reflexivity.
    + constructor; assumption.
    + cbn [map_opt map]. rewrite Hpg, Hp. reflexivity.
Qed.

Lemma custom_groups (vals : list (string * wval)) (p : program) (order : list bank) (t : string) :
  (forall b, In b (p_banks p) -> plain_bank b) ->
  canonical_bank_order (p_banks p) order ->
  dump_custom_registers vals (p_banks p) = Ok t ->
  exists gs, t = unlines (List.concat gs) /\ Forall good_group gs /\
             map_opt parse_bank_lines gs = Some (map (bank_info vals) order).
Proof.
  intros Hplain Hc Hd. rewrite (bank_dump_lists_every_bank_holds vals (p_banks p) order Hc) in Hd.
  apply (bank_list_groups vals order t); [|exact Hd].
  intros b Hin. apply Hplain.
  exact (Permutation_in b (canonical_bank_order_perm_holds (p_banks p) order Hc) Hin).
Qed.

(* ---- regrouping the bank lines ---- *)
Lemma cont_not_bank (l : string) : cont_line l -> starts_with "| register " l = false.
Proof.
  intros [_ H]. unfold starts_with in H. destruct (strip_prefix "|  " l) as [r|] eqn:E; [|discriminate H].
  apply strip_prefix_inv in E. subst l. reflexivity.
Qed.

Lemma group_conts (conts rest : list string) : Forall cont_line conts ->
  group_banks (conts ++ rest) = ((conts ++ fst (group_banks rest))%list, snd (group_banks rest)).
Proof.
  intros H. induction conts as [|c conts IH]; cbn [List.app].
  - destruct (group_banks rest); reflexivity.
  - cbn [group_banks]. rewrite (IH (Forall_inv_tail H)), (cont_not_bank c (Forall_inv H)). reflexivity.
Qed.

Lemma group_banks_groups (gs : list (list string)) : Forall good_group gs ->
  group_banks (List.concat gs) = ([], gs).
Proof.
  intros H. induction gs as [|g gs IH]; [reflexivity|].
  destruct (Forall_inv H) as [first [conts [-> [_ [Hf Hc]]]]].
  cbn [List.concat List.app group_banks]. rewrite (group_conts conts _ Hc), (IH (Forall_inv_tail H)).
  cbn [fst snd]. rewrite Hf, app_nil_r. reflexivity.
Qed.

Lemma break_at_app {A : Type} (f : A -> bool) (a : list A) (x : A) (r : list A) :
  Forall (fun y => f y = false) a -> f x = true -> break_at f (a ++ x :: r) = (a, x :: r).
Proof.
  intros Ha Hx. induction a as [|y a IH]; cbn [List.app break_at].
  - rewrite Hx. reflexivity.
  - rewrite (Forall_inv Ha), (IH (Forall_inv_tail Ha)). reflexivity.
Qed.

Lemma group_lines_not_header (gs : list (list string)) : Forall good_group gs ->
  Forall (fun l => String.eqb memory_header_line l = false) (List.concat gs).
Proof.
  intros H. induction gs as [|g gs IH]; [constructor|].
  cbn [List.concat]. apply Forall_app. split; [|exact (IH (Forall_inv_tail H))].
  destruct (Forall_inv H) as [first [conts [-> [_ [Hf Hc]]]]]. constructor.
  - apply (starts_with_neq "| register " _ _ Hf). reflexivity.
  - eapply Forall_impl; [|exact Hc]. intros l [_ Hl].
    apply (starts_with_neq "|  " _ _ Hl). reflexivity.
Qed.

Lemma group_lines_nonl (gs : list (list string)) : Forall good_group gs -> all_nonl (List.concat gs).
Proof.
  intros H. induction gs as [|g gs IH]; [constructor|]. cbn [List.concat]. apply Forall_app.
  split; [exact (good_group_nonl g (Forall_inv H)) | exact (IH (Forall_inv_tail H))].
Qed.

(* ---- the memory section as lines ---- *)
Lemma rows_unlines (m : memory) (rows : list N) :
  concat_strings (map (render_row m) rows) = unlines (map (row_line m) rows).
Proof.
  induction rows as [|row rows IH]; [reflexivity|].
  cbn [map concat_strings]. rewrite unlines_cons, render_row_line, IH. reflexivity.
Qed.

Lemma memory_unlines (m : memory) : wf_mem m ->
  dump_memory m = unlines (memory_header_line :: map (row_line m) (rows_of m None)).
Proof.
  intros Hwf. rewrite (dump_memory_rows_ok m Hwf), unlines_cons, rows_unlines.
  change mem_header with (memory_header_line ++ nl). rewrite sapp_assoc. reflexivity.
Qed.

Lemma parse_rows_memory (m : memory) : wf_mem m ->
  parse_rows (map (row_line m) (rows_of m None)) = Some m.
Proof.
  intros [Hs Hb]. rewrite parse_rows_ok.
  - rewrite (rows_flat_top m Hs). reflexivity.
  - eapply Forall_impl; [|exact Hb]. intros kv [_ H]. exact H.
  - apply Forall_forall. intros row Hin. exact (rows_aligned m None row Hin).
Qed.

(* ---- decimal numbers and the other pieces contain no newline ---- *)
Lemma dec_fuel_acc (fuel : nat) : forall n acc, dec_fuel fuel n acc = dec_fuel fuel n "" ++ acc.
Proof.
  induction fuel as [|f IH]; intros n acc; cbn [dec_fuel]; [reflexivity|].
  destruct (n <? 10); [reflexivity|].
  rewrite (IH (n / 10) (String _ acc)), (IH (n / 10) (String _ "")), sapp_assoc. reflexivity.
Qed.

Lemma notnl_decdigit (d : N) : d < 10 -> notnl (ascii_of_N (48 + d)) = true.
Proof.
  intros H.
  assert (C : d = 0 \/ d = 1 \/ d = 2 \/ d = 3 \/ d = 4 \/ d = 5 \/ d = 6 \/ d = 7 \/ d = 8 \/ d = 9) by lia.
  destruct C as [->|[->|[->|[->|[->|[->|[->|[->|[->| ->]]]]]]]]]; reflexivity.
Qed.

Lemma nonl_dec_fuel (fuel : nat) : forall n, nonl (dec_fuel fuel n "") = true.
Proof.
  induction fuel as [|f IH]; intros n; [reflexivity|]. cbn [dec_fuel].
  assert (Hd : n mod 10 < 10) by lia.
  destruct (n <? 10).
  - rewrite nonl_cons, (notnl_decdigit _ Hd). reflexivity.
  - rewrite dec_fuel_acc, nonl_app, IH, nonl_cons, (notnl_decdigit _ Hd). reflexivity.
Qed.

Lemma nonl_dec (n : N) : nonl (dec n) = true.
Proof. apply nonl_dec_fuel. Qed.

Lemma nonl_name_status (s : mstate) : nonl (name_status y86_statuses s) = true.
Proof.
  unfold name_status, y86_statuses. generalize (N.to_nat (status_or_default s 255)). intros k.
  do 6 (destruct k as [|k]; [reflexivity|]). destruct k; reflexivity.
Qed.

(* ---- the shape of the whole text ---- *)
Lemma dump_y86_shape (o : options) (p : program) (s : mstate) (text : string) :
  dump_y86 o p s = Ok text ->
  exists header footer banks tl,
    text = (header ++ nl) ++ dump_program_registers (regs s) ++ banks ++ dump_memory (mem s) ++
           (footer ++ nl) ++ unlines tl /\
    nonl header = true /\ starts_with "+" header = true /\
    nonl footer = true /\ starts_with "+" footer = true /\ all_nonl tl /\
    (if o_show_banks o then dump_custom_registers (values s) (p_banks p) else Ok "") = Ok banks.
Proof.
  unfold dump_y86. cbv zeta. intros H.
  destruct (if o_show_banks o then dump_custom_registers (values s) (p_banks p) else Ok "")
    as [banks|e]; cbn [bind] in H; [|discriminate]. apply Ok_inj in H.
  match type of H with
  | (?h ++ nl ++ _ ++ _ ++ _ ++ ?f ++ nl ++ _) = _ => exists h, f
  end.
  exists banks.
  exists (if done o s && negb (timed_out o s)
          then ("Cycles run: " ++ dec (cycle s)) ::
               (if negb (halted s) && negb (timed_out o s)
                then ["Error code: " ++ name_status y86_statuses s] else [])
          else []).
  split; [|split; [|split; [|split; [|split; [|split]]]]].
  - rewrite <- H.
    match goal with
    | |- _ = (?h ++ nl) ++ _ ++ _ ++ _ ++ (?f ++ nl) ++ _ =>
        rewrite (sapp_assoc h nl), (sapp_assoc f nl)
    end.
    do 7 apply f_equal.
    destruct (done o s && negb (timed_out o s)); [|reflexivity].
    rewrite unlines_cons, sapp_assoc. do 3 apply f_equal.
    destruct (negb (halted s) && negb (timed_out o s)); [|reflexivity].
    rewrite unlines_one, sapp_assoc. reflexivity.
  - destruct (halted s); [reflexivity|]. destruct (timed_out o s).
    + rewrite !nonl_app, nonl_pad_left; [reflexivity | reflexivity | apply nonl_dec].
    + destruct (done o s); [reflexivity|].
      rewrite !nonl_app, !nonl_pad_left; try reflexivity; apply nonl_dec.
  - destruct (halted s); [reflexivity|]. destruct (timed_out o s); [reflexivity|].
    destruct (done o s); reflexivity.
  - destruct (halted s); [reflexivity|]. destruct (done o s && negb (timed_out o s)); reflexivity.
  - destruct (halted s); [reflexivity|]. destruct (done o s && negb (timed_out o s)); reflexivity.
  - destruct (done o s && negb (timed_out o s)); [|constructor].
    constructor; [rewrite nonl_app, nonl_dec; reflexivity|].
    destruct (negb (halted s) && negb (timed_out o s)); [|constructor].
    constructor; [|constructor]. rewrite nonl_app, nonl_name_status. reflexivity.
  - reflexivity.
Qed.

Lemma registers_unlines (r : list N) :
  let g i := nth i r 0 in
  dump_program_registers r =
  unlines [reg_line "RAX: " "RCX: " "RDX: " (g 0%nat) (g 1%nat) (g 2%nat);
           reg_line "RBX: " "RSP: " "RBP: " (g 3%nat) (g 4%nat) (g 5%nat);
           reg_line "RSI: " "RDI: " "R8:  " (g 6%nat) (g 7%nat) (g 8%nat);
           reg_line "R9:  " "R10: " "R11: " (g 9%nat) (g 10%nat) (g 11%nat);
           reg_line "R12: " "R13: " "R14: " (g 12%nat) (g 13%nat) (g 14%nat)].
Proof.
  intros g. rewrite dump_registers_lines. cbv zeta. fold g.
  rewrite !unlines_cons. reflexivity.
Qed.

Theorem dump_readback_holds : stmt_dump_readback.
Proof.
  intros o p s text order Hwf Hplain Hc Hd.
  destruct (dump_y86_shape o p s text Hd)
    as [header [footer [banks [tl [Et [Hh1 [Hh2 [Hf1 [Hf2 [Htl Hb]]]]]]]]]].
  (* the banks *)
  assert (Hgs : exists gs, banks = unlines (List.concat gs) /\ Forall good_group gs /\
                  map_opt parse_bank_lines gs =
                  Some (if o_show_banks o then map (bank_info (values s)) order else [])).
  { destruct (o_show_banks o).
    - exact (custom_groups (values s) p order banks Hplain Hc Hb).
    - apply Ok_inj in Hb. subst banks. exists []. repeat split. constructor. }
  destruct Hgs as [gs [Eb [Hgg Hpb]]].
  set (rows := map (row_line (mem s)) (rows_of (mem s) None)).
  (* the lines of the text *)
  pose proof (registers_unlines (regs s)) as Er. cbv zeta in Er.
  rewrite Er, Eb, (memory_unlines (mem s) Hwf), <- !unlines_one, <- !unlines_app in Et.
  fold rows in Et.
  unfold parse_dump. rewrite Et. rewrite lines_unlines.
  2:{ repeat (apply Forall_app; split); try assumption.
      - constructor; [exact Hh1 | constructor].
      - repeat (constructor; [apply nonl_reg_line; reflexivity|]). constructor.
      - exact (group_lines_nonl gs Hgg).
      - constructor; [reflexivity|]. apply Forall_forall. intros l Hin. unfold rows in Hin.
        apply in_map_iff in Hin. destruct Hin as [row [<- _]]. apply nonl_row_line. exact Hwf.
      - constructor; [exact Hf1 | constructor]. }
  cbn [List.app]. rewrite Hh2.
  cbn [parse_reg_lines register_names]. rewrite !parse_reg_line_ok. cbn [List.app].
  rewrite (break_at_app (String.eqb memory_header_line) (List.concat gs) memory_header_line _
             (group_lines_not_header gs Hgg) (String.eqb_refl _)).
  rewrite (break_at_app (starts_with "+") rows footer tl).
  - rewrite (group_banks_groups gs Hgg), Hpb. unfold rows.
    rewrite (parse_rows_memory (mem s) Hwf), (memory_ok_wf (mem s) Hwf). reflexivity.
  - apply Forall_forall. intros l Hin. unfold rows in Hin.
    apply in_map_iff in Hin. destruct Hin as [row [<- _]]. reflexivity.
  - exact Hf2.
Qed.
Print Assumptions dump_readback_holds.

Theorem dump_readback_perm_holds : stmt_dump_readback_perm.
Proof.
  intros o p s text Hwf Hplain Hshow Hd.
  destruct (canonical_bank_order_unique_holds (p_banks p)) as [order [Hc _]].
  exists (map (bank_info (values s)) order). split.
  - rewrite (dump_readback_holds o p s text order Hwf Hplain Hc Hd), Hshow. reflexivity.
  - apply Permutation_map. exact (canonical_bank_order_perm_holds (p_banks p) order Hc).
Qed.
Print Assumptions dump_readback_perm_holds.

(* non-vacuity: three banks (one wrapped over three lines, one bubbled, one without registers;
   declared in another order than shown), sparse memory up to the last address *)
Definition plain_bankb (b : bank) : bool :=
  plain_label (b_label b) &&
  forallb (fun sg => plain_name (after_underscore (fst (fst sg)))) (b_signals b).
Lemma plain_bankb_ok (b : bank) : plain_bankb b = true -> plain_bank b.
Proof.
  unfold plain_bankb. intros H. apply andb_true_iff in H. destruct H as [H1 H2].
  split; [exact H1|]. intros i o w Hin. rewrite forallb_forall in H2. exact (H2 _ Hin).
Qed.

Definition ex_bank_W : bank := mkBank "mW" [("m_a", "W_a", Bits 8)] [] "stall_W" "bubble_W".
Definition ex_bank_Z : bank := mkBank "qZ" [] [] "stall_Z" "bubble_Z".
Definition ex_program : program := mkProgram [] [] [ex_bank_Z; ex_bank_W; ex_bank] [] [].
Definition ex_values (stat : N) : list (string * wval) :=
  (ex_vals ++ [("W_a", mkV 3 (Bits 8)); ("stall_W", mkV 0 (Bits 1)); ("bubble_W", mkV 1 (Bits 1));
               ("stall_Z", mkV 0 (Bits 1)); ("bubble_Z", mkV 0 (Bits 1)); ("Stat", mkV stat (Bits 3))])%list.
Definition ex_state (stat : N) : mstate :=
  mkState (ex_values stat) ex_memory [1; 2; 3; 4; 5; 6; 7; 8; 9; 10; 11; 12; 13; 14; 2 ^ 64 - 1; 0] None 7.

Definition ex_expected (stat : N) (with_banks : bool) :=
  Some ([1; 2; 3; 4; 5; 6; 7; 8; 9; 10; 11; 12; 13; 14; 2 ^ 64 - 1],
        (if with_banks then
           [("fD", "S", [("pc", 0x1234); ("valCCCCCCCCCCCC", 7); ("valDDDDDD", 70); ("x", 5);
                         ("yyyyyyyyyyyyyyyyyyyyyyy", 255)]);
            ("mW", "B", [("a", 3)]); ("qZ", "N", [])]
         else []),
        ex_memory).

(* running ("between cycles"), banks shown *)
Example ex_dump_running :
  match dump_y86 default_options ex_program (ex_state 1) with Ok t => parse_dump t | Err _ => None end =
  ex_expected 1 true.
Proof. vm_compute. reflexivity. Qed.
(* banks switched off *)
Example ex_dump_no_banks :
  match dump_y86 (set_test default_options) ex_program (ex_state 1) with Ok t => parse_dump t | Err _ => None end =
  ex_expected 1 false.
Proof. vm_compute. reflexivity. Qed.
(* halted: other heading and footer, "Cycles run" trailer *)
Example ex_dump_halted :
  match dump_y86 default_options ex_program (ex_state 2) with Ok t => parse_dump t | Err _ => None end =
  ex_expected 2 true.
Proof. vm_compute. reflexivity. Qed.
(* error state: "Cycles run" and "Error code" trailer *)
Example ex_dump_error :
  match dump_y86 default_options ex_program (ex_state 4) with Ok t => parse_dump t | Err _ => None end =
  ex_expected 4 true.
Proof. vm_compute. reflexivity. Qed.
(* timed out *)
Example ex_dump_timeout :
  match dump_y86 (set_timeout default_options 7) ex_program (ex_state 1) with Ok t => parse_dump t | Err _ => None end =
  ex_expected 1 true.
Proof. vm_compute. reflexivity. Qed.
Example ex_dump_error_text :
  exists t, dump_y86 default_options ex_program (ex_state 4) = Ok t /\
            ends_with_s ("Cycles run: 7" ++ nl ++ "Error code: 4 (Invalid Instruction)" ++ nl) t = true.
Proof. eexists. split; [vm_compute; reflexivity | vm_compute; reflexivity]. Qed.
(* two banks with the same letter D: both are read back, in declaration order *)
Definition ex_bank_D2 : bank := mkBank "gD" [("g_k", "D_k", Bits 4)] [] "stall_D" "bubble_D".
Definition ex_program2 : program := mkProgram [] [] [ex_bank_Z; ex_bank; ex_bank_W; ex_bank_D2] [] [].
Definition ex_state2 : mstate :=
  mkState (("D_k", mkV 9 (Bits 4)) :: ex_values 1) ex_memory
          [1; 2; 3; 4; 5; 6; 7; 8; 9; 10; 11; 12; 13; 14; 2 ^ 64 - 1; 0] None 7.
Example ex_dump_same_letter :
  match dump_y86 default_options ex_program2 ex_state2 with Ok t => parse_dump t | Err _ => None end =
  Some ([1; 2; 3; 4; 5; 6; 7; 8; 9; 10; 11; 12; 13; 14; 2 ^ 64 - 1],
        [("fD", "S", [("pc", 0x1234); ("valCCCCCCCCCCCC", 7); ("valDDDDDD", 70); ("x", 5);
                      ("yyyyyyyyyyyyyyyyyyyyyyy", 255)]);
         ("gD", "S", [("k", 9)]); ("mW", "B", [("a", 3)]); ("qZ", "N", [])],
        ex_memory).
Proof. vm_compute. reflexivity. Qed.

(* the theorems apply to these instances *)
Lemma ex_program2_plain : forall b, In b (p_banks ex_program2) -> plain_bank b.
Proof.
  intros b Hin. apply plain_bankb_ok. cbn [ex_program2 p_banks In] in Hin.
  destruct Hin as [<-|[<-|[<-|[<-|[]]]]]; reflexivity.
Qed.
Example ex_dump_readback_thm : forall t order,
  canonical_bank_order (p_banks ex_program2) order ->
  dump_y86 default_options ex_program2 ex_state2 = Ok t ->
  parse_dump t = Some (map (fun i => nth i (regs ex_state2) 0) (seq 0 15),
                       map (bank_info (values ex_state2)) order, mem ex_state2).
Proof.
  intros t order Hc H.
  exact (dump_readback_holds default_options ex_program2 ex_state2 t order
           ex_memory_wf ex_program2_plain Hc H).
Qed.
Example ex_dump_readback_perm_thm : forall t,
  dump_y86 default_options ex_program2 ex_state2 = Ok t ->
  exists infos,
    parse_dump t = Some (map (fun i => nth i (regs ex_state2) 0) (seq 0 15), infos, mem ex_state2) /\
    Permutation infos (map (bank_info (values ex_state2)) (p_banks ex_program2)).
Proof.
  intros t H.
  exact (dump_readback_perm_holds default_options ex_program2 ex_state2 t
           ex_memory_wf ex_program2_plain eq_refl H).
Qed.
Example ex_dump2_ok : is_ok (dump_y86 default_options ex_program2 ex_state2) = true.
Proof. vm_compute. reflexivity. Qed.
