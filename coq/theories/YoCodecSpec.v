(* C15 (+C16): the yas-listing loader as a codec.
   - a spec-level WRITER of listings (print_yo) and "loading what was printed gives exactly that
     memory", in every admissible spelling (upper/lower-case digits, LF / CR LF);
   - the result of loading ANY accepted file as an abstract byte map (last covering line wins);
   - exactly which memories are the image of some listing (three-digit address field);
   - a listing, loaded, dumped and read back gives the listed bytes at the listed addresses.
   Statements only; the proofs are in YoCodecProofs.v. *)
From HclV Require Import Base Expr Machine DumpParse.
From HclV Require Import Yo YoSpec MemSpec.
Open Scope N_scope.
Open Scope list_scope.

(* ================================================================================== *)
(* 1. The writer                                                                      *)
(* ================================================================================== *)

(* the character for the hex digit d < 16: '0'..'9', then 'a'..'f' or 'A'..'F' *)
Definition hexdigit_lower (d : N) : N := if d <? 10 then 48 + d else 87 + d.
Definition hexdigit_upper (d : N) : N := if d <? 10 then 48 + d else 55 + d.

(* the three-digit address field and the two digits of one byte *)
Definition addr_field (dig : N -> N) (a : N) : list N :=
  [dig ((a / 256) mod 16); dig ((a / 16) mod 16); dig (a mod 16)].
Definition byte_digits (dig : N -> N) (v : N) : list N := [dig (v / 16); dig (v mod 16)].
Definition bytes_field (dig : N -> N) (bs : list N) : list N := flat_map (byte_digits dig) bs.

(* a chunk = (address, bytes at consecutive addresses from there); one chunk is one line
      0xAAA: <2k digits, blanks up to column 27> | <blank>                                   *)
Definition print_line (dig : N -> N) (c : N * list N) : list N :=
  let bd := bytes_field dig (snd c) in
  data_line (addr_field dig (fst c)) bd (repeat 32 (20 - List.length bd)) [32].

Definition print_chunks (dig : N -> N) (eol : list N) (cs : list (N * list N)) : list N :=
  flat_map (fun c => print_line dig c ++ eol) cs.

(* the longest prefix of m, at most n cells, lying at the consecutive addresses a, a+1, ... *)
Fixpoint take_run (n : nat) (a : N) (m : memory) : list N * memory :=
  match n, m with
  | S k, (a', v) :: r =>
      if a' =? a then let (bs, rest) := take_run k (a + 1) r in (v :: bs, rest) else ([], m)
  | _, _ => ([], m)
  end.

(* cut the cells of a memory into chunks: a new chunk at every gap and after every 10 bytes *)
Fixpoint chunks_fuel (fuel : nat) (m : memory) : list (N * list N) :=
  match fuel, m with
  | S f, (a, v) :: r => let (bs, rest) := take_run 9 (a + 1) r in (a, v :: bs) :: chunks_fuel f rest
  | _, _ => []
  end.
Definition chunks (m : memory) : list (N * list N) := chunks_fuel (List.length m) m.

Definition print_yo_with (dig : N -> N) (eol : list N) (m : memory) : list N :=
  print_chunks dig eol (chunks m).

(* THE writer: lower-case digits, LF *)
Definition print_yo (m : memory) : list N := print_yo_with hexdigit_lower [10] m.

(* what the chunks of a memory are, independently of how they are computed: *)
(* the (address, byte) cells of a chunk *)
Fixpoint cells (a : N) (bs : list N) : memory :=
  match bs with [] => [] | b :: r => (a, b) :: cells (a + 1) r end.
Definition chunk_cells (cs : list (N * list N)) : memory :=
  flat_map (fun c => cells (fst c) (snd c)) cs.
(* a chunk ends only at a gap or when it is full *)
Fixpoint maximal_chunks (cs : list (N * list N)) : Prop :=
  match cs with
  | c1 :: r =>
      match r with
      | c2 :: _ => (fst c2 = fst c1 + N.of_nat (List.length (snd c1)) ->
                    List.length (snd c1) = 10%nat)
      | [] => True
      end /\ maximal_chunks r
  | [] => True
  end.

(* the chunks cover exactly the cells of the memory, in order; each has 1 to 10 bytes; a new
   chunk begins only at a gap or after 10 bytes *)
Definition stmt_chunks_exact : Prop :=
  forall m,
    chunk_cells (chunks m) = m /\
    Forall (fun c => (1 <= List.length (snd c) <= 10)%nat) (chunks m) /\
    maximal_chunks (chunks m).

(* memories a three-digit address field can express directly *)
Definition below_4096 (m : memory) : Prop := forall a v, In (a, v) m -> a < 4096.

(* loading what was printed gives exactly that memory - those bytes, those addresses, nothing else *)
Definition stmt_load_print : Prop :=
  forall m, wf_mem m -> below_4096 m -> m <> [] -> load_from_y86 [] (print_yo m) = Ok m.

(* the same in the other spellings: upper-case digits, CR LF line ends *)
Definition stmt_load_print_styles : Prop :=
  forall dig eol m,
    (dig = hexdigit_lower \/ dig = hexdigit_upper) -> (eol = [10] \/ eol = [13; 10]) ->
    wf_mem m -> below_4096 m -> m <> [] ->
    load_from_y86 [] (print_yo_with dig eol m) = Ok m.

(* ... and the last line need not be terminated *)
Definition stmt_load_print_unterminated : Prop :=
  forall dig m,
    (dig = hexdigit_lower \/ dig = hexdigit_upper) ->
    wf_mem m -> below_4096 m -> m <> [] ->
    load_from_y86 [] (removelast (print_yo_with dig [10] m)) = Ok m.

(* The general form: ANY admissible spelling of the same lines.  A line spells the chunk (a, bs)
   when it is a well-formed data line (YoSpec.data_line_ok: any mix of upper and lower case, any
   filler after the first blank, anything after the '|') whose address field reads a and whose
   digit pairs read bs. *)
Definition spells (l : list N) (c : N * list N) : Prop :=
  exists ad bd filler rest,
    l = data_line ad bd filler rest /\ data_line_ok ad bd filler rest /\
    hex_value ad 0 = fst c /\ pair_values bd = snd c.

(* lines that contribute nothing: comment-only lines and lines without '|' *)
Definition ignorable (l : list N) : Prop :=
  starts_with comment_prefix l = true \/ has_pipe l = false.

(* a file is a spelling of the chunk list cs when its lines are, in order, spellings of the
   chunks, with any number of ignorable lines in between *)
Inductive spelling : list (list N) -> list (N * list N) -> Prop :=
| sp_nil : spelling [] []
| sp_ignored l ls cs : ignorable l -> spelling ls cs -> spelling (l :: ls) cs
| sp_data l ls c cs : spells l c -> spelling ls cs -> spelling (l :: ls) (c :: cs).

(* any file whose lines (however they are terminated: split_lines handles LF, CR LF and a missing
   final line end) spell the chunks of m loads exactly m.  (That the addresses are below 0x1000
   and the values are bytes is implied: otherwise no line spells the chunk.) *)
Definition stmt_load_any_spelling : Prop :=
  forall m data,
    wf_mem m -> split_lines data [] <> [] ->
    spelling (split_lines data []) (chunks m) ->
    load_from_y86 [] data = Ok m.

(* the printed lines are such spellings *)
Definition stmt_print_line_spells : Prop :=
  forall dig c,
    (dig = hexdigit_lower \/ dig = hexdigit_upper) ->
    fst c < 4096 -> (List.length (snd c) <= 10)%nat -> Forall (fun b => b < 256) (snd c) ->
    spells (print_line dig c) c.

(* ================================================================================== *)
(* 2. Loading any accepted file, as an abstract byte map                              *)
(* ================================================================================== *)

(* A line read by columns: "0x" at column 0, ": " at column 5, " |" at column 27; then the address
   is columns 2-4 and the bytes are the digit pairs of columns 7-26 up to the first non-digit. *)
Fixpoint hex_prefix (l : list N) : list N :=
  match l with b :: r => if is_hex b then b :: hex_prefix r else [] | [] => [] end.

Definition decode_line (l : list N) : option (N * list N) :=
  if list_eqb (firstn 2 l) [48; 120] && list_eqb (firstn 2 (skipn 5 l)) [58; 32] &&
     list_eqb (firstn 2 (skipn 27 l)) [32; 124]
  then Some (hex_value (firstn 3 (skipn 2 l)) 0, pair_values (hex_prefix (firstn 20 (skipn 7 l))))
  else None.

(* decode_line is the reading of the line vocabulary of YoSpec: a well-formed data line decodes to
   its address and bytes, an ignorable line to nothing *)
Definition stmt_decode_data_line : Prop :=
  forall ad bd filler rest,
    data_line_ok ad bd filler rest ->
    decode_line (data_line ad bd filler rest) = Some (hex_value ad 0, pair_values bd).
Definition stmt_decode_ignorable : Prop :=
  forall l, ignorable l -> decode_line l = None.

(* what an ACCEPTED line does is what it decodes to; its address is below 0x1000, it has at most
   10 bytes, each below 256 *)
Definition stmt_accepted_line_decodes : Prop :=
  forall m l m',
    load_line m l = Some m' ->
    match decode_line l with
    | Some (a, bs) =>
        a < 4096 /\ (List.length bs <= 10)%nat /\ Forall (fun b => b < 256) bs /\
        m' = put_bytes m a bs
    | None => m' = m
    end.

(* the byte a line gives to address x, if it covers x *)
Definition line_byte (l : list N) (x : N) : option N :=
  match decode_line l with
  | Some (a, bs) =>
      if (a <=? x) && (x <? a + N.of_nat (List.length bs))
      then Some (nth (N.to_nat (x - a)) bs 0) else None
  | None => None
  end.

(* the byte the LAST line covering x gives it *)
Fixpoint last_byte (lines : list (list N)) (x : N) : option N :=
  match lines with
  | [] => None
  | l :: r => match last_byte r x with Some v => Some v | None => line_byte l x end
  end.

(* whenever a file is accepted, the resulting memory is this function of the file's bytes: each
   address holds the byte given by the last data line covering it (later lines win on overlap),
   otherwise what was there before - with an empty memory to start from: nothing.  The result is
   a memory state (ascending addresses, byte values) and no address exceeds 0xfff + 9. *)
Definition stmt_load_is_a_function_of_bytes : Prop :=
  forall m0 data m,
    wf_mem m0 ->
    load_from_y86 m0 data = Ok m ->
    wf_mem m /\
    (forall x, mem_get m x =
               match last_byte (split_lines data []) x with
               | Some v => Some v
               | None => mem_get m0 x
               end) /\
    (forall a v, In (a, v) m -> In (a, v) m0 \/ a <= 4095 + 9).

(* the case hclrs uses: a fresh memory *)
Definition stmt_load_fresh : Prop :=
  forall data m,
    load_from_y86 [] data = Ok m ->
    wf_mem m /\
    (forall x, mem_get m x = last_byte (split_lines data []) x) /\
    (forall a v, In (a, v) m -> a <= 4095 + 9).

(* the list view and the map view of a memory state agree *)
Definition stmt_mem_get_In : Prop :=
  forall m a v, wf_mem m -> (In (a, v) m <-> mem_get m a = Some v).

(* ================================================================================== *)
(* 3. Which memories can a listing express?                                           *)
(* ================================================================================== *)

(* The address field has exactly three digits, so a line starts at 0xfff at the latest and reaches
   0xfff + 9 at most; a byte at 0x1000 or above can only come from a line that starts below 0x1000
   and runs over.  Such a line also sets every address from 0xfff up to that byte. *)
Definition expressible (m : memory) : Prop :=
  wf_mem m /\
  forall a v, In (a, v) m -> 4096 <= a ->
    a <= 4095 + 9 /\ forall x, 4095 <= x <= a -> exists w, In (x, w) m.

(* exactly these memories are images of listings (the empty memory: of a listing of comments) *)
Definition stmt_listing_images : Prop :=
  forall m, (exists data, load_from_y86 [] data = Ok m) <-> expressible m.

(* a writer for all of them: the cells below 0xfff in chunks as before, then one line at 0xfff
   carrying everything from there on *)
Definition part_below (b : N) (m : memory) : memory := filter (fun kv => fst kv <? b) m.
Definition part_from (b : N) (m : memory) : memory := filter (fun kv => negb (fst kv <? b)) m.
Definition chunks_over (m : memory) : list (N * list N) :=
  chunks (part_below 4095 m) ++
  match part_from 4095 m with [] => [] | l => [(4095, map snd l)] end.
Definition print_yo_over (m : memory) : list N := print_chunks hexdigit_lower [10] (chunks_over m).

Definition stmt_load_print_over : Prop :=
  forall m, expressible m -> m <> [] -> load_from_y86 [] (print_yo_over m) = Ok m.

(* a line with a FOUR-digit address field ("0x1000: ...", as yas prints for code at 0x1000 and
   above) is not a data line for this loader: it is refused, and with it the file *)
Definition stmt_four_digit_address_refused : Prop :=
  forall m ad bd filler rest,
    List.length ad = 4%nat ->
    load_line m (data_line ad bd filler rest) = None.

(* ================================================================================== *)
(* 4. With the state dump (C16)                                                       *)
(* ================================================================================== *)

(* a listing, loaded, dumped and read back gives exactly the listed bytes at the listed
   addresses *)
Definition stmt_load_dump_roundtrip : Prop :=
  forall m, wf_mem m -> below_4096 m -> m <> [] ->
    exists m', load_from_y86 [] (print_yo m) = Ok m' /\
               parse_memory_section (dump_memory m') = Some m.

(* for any accepted file: what is read back from the dump is the byte map of the file *)
Definition stmt_file_dump_roundtrip : Prop :=
  forall data m,
    load_from_y86 [] data = Ok m ->
    exists m', parse_memory_section (dump_memory m) = Some m' /\
               forall x, mem_get m' x = last_byte (split_lines data []) x.
