(* C10 at program level: circular dependencies between the wires (and between the constants) of
   a program, stated over the statement list handed to Program::new - not over the graph the
   builder constructs internally (that level is GraphSpec.v).

   Reading direction used throughout: "b reads a directly" = the value of b is computed from the
   value of a within one cycle.  A chain  c0, c1, ..., ck  is a circular dependency when every
   c(i+1) reads c(i) directly and c0 reads ck: exactly what the diagnostic prints
   ("'c(i+1)' depends on 'c(i)'", the last line closing on c0; src/errors.rs). *)
From Coq Require Import Relations.
From HclV Require Import Base Expr Machine Graph Build MachineSpec BuildSpec.
Open Scope string_scope.
Open Scope list_scope.
Open Scope N_scope.

(* ---- chains and cycles of a relation ------------------------------------------------------ *)
Section Chains.
  Context {A : Type}.
  Variable flows : A -> A -> Prop.            (* flows a b: b reads a directly *)

  (* every element reads the previous one *)
  Fixpoint chain (l : list A) : Prop :=
    match l with
    | a :: ((b :: _) as r) => flows a b /\ chain r
    | _ => True
    end.

  (* a non-empty chain whose first element reads the last one *)
  Definition cycle_of (c : list A) : Prop :=
    match c with
    | [] => False
    | first :: _ => chain c /\ flows (last c first) first
    end.

  (* the two ways of saying "circular": a closed chain exists / something depends on itself *)
  Definition stmt_cycle_iff_self_dependence : Prop :=
    (exists c, cycle_of c) <-> (exists w, clos_trans A flows w w).
End Chains.

(* ---- the vocabulary of a program ---------------------------------------------------------- *)
(* "b = e" occurs in the program (b among the targets of an assignment) *)
Definition assigned_to (stmts : list stmt) (b : string) (e : expr) : Prop :=
  exists assigns targets, In (SAssign assigns) stmts /\ In (targets, e) assigns /\ In b targets.

(* "const b = e" occurs in the program *)
Definition constant_def (stmts : list stmt) (b : string) (e : expr) : Prop :=
  exists decls, In (SConst decls) stmts /\ In (b, e) decls.

(* o is the output signal of a register of a bank "register iO { r : w = d; ... }": O_r, where the
   bank name consists of exactly the two characters i and O *)
Definition bank_output (stmts : list stmt) (o : string) : Prop :=
  exists name regs inp outp rname w dflt,
    In (SBank name regs) stmts /\ utf8_chars name "" = [inp; outp] /\
    In (rname, w, dflt) regs /\ o = (outp ++ "_" ++ rname)%string.

(* n is a control signal left to its default: stall_O or bubble_O of a declared bank
   "register iO {...}" that the program does not assign (it is 0 throughout) *)
Definition defaulted_control (stmts : list stmt) (n : string) : Prop :=
  exists name regs inp outp,
    In (SBank name regs) stmts /\ utf8_chars name "" = [inp; outp] /\
    (n = ("stall_" ++ outp)%string \/ n = ("bubble_" ++ outp)%string) /\
    ~ In n (assigned_names stmts).

(* a built-in component is in use when the program assigns every one of its inputs *)
Definition component_in_use (stmts : list stmt) (ff : fixed_fn) : Prop :=
  forall i, In i (map fst (ff_ins ff)) -> In i (assigned_names stmts).

(* what the sorter needs of the component table: the inputs of a component are pairwise distinct
   and no two components drive the same output *)
Definition fixed_table_distinct (fixed : list fixed_fn) : Prop :=
  Forall (fun ff => NoDup (map fst (ff_ins ff))) fixed /\ NoDup (fixed_output_names fixed).

(* the diagnostics of an expression (static check or evaluation) *)
Definition expr_diag (k : ekind) : bool :=
  match k with
  | MismatchedExprWidths | NonBooleanWidth | NoMuxDefaultOption | MultipleMuxDefaultOption
  | UnreachableOptions | MismatchedMuxWidths | UndeclaredWireRead | MisorderedBitIndexes
  | InvalidBitIndex | WireTooWide | NoBitWidth | RuntimeMismatchedWidths | DivisionByZero => true
  | _ => false
  end.

(* the diagnostics of the declaration pass (which precedes the sorting of the constants) *)
Definition decl_diag (k : ekind) : bool :=
  match k with
  | RedeclaredWire | RedeclaredBuiltinWire | DoubleAssignedWire | DoubleAssignedFixedOutWire
  | ConstantAssigned | NonConstantWireRead | UndeclaredWireRead => true
  | _ => false
  end.

(* the diagnostics of the passes between the sorting of the constants and the sorting of the
   wires: evaluation of the constants, register banks, missing assignments, built-in components *)
Definition mid_diag (k : ekind) : bool :=
  expr_diag k ||
  match k with
  | InvalidRegisterBankName | RedeclaredWire | NonConstantWireRead | DuplicateRegister
  | DoubleAssignedRegisterWire | DoubleDeclaredRegisterOutWire | MismatchedRegisterDefaultWidths
  | UnsetWire | UnsetRegisterInputWire | UnsetBuiltinWire | PartialFixedInput => true
  | _ => false
  end.

Section LoopSpec.
  Variable f : features.
  Variable fixed : list fixed_fn.
  Variable is_lower : string -> bool.
  Variable is_upper : string -> bool.

  Notation build := (build_program f fixed is_lower is_upper).

  (* ---- 1. the one-step relations ---------------------------------------------------------- *)
  (* b reads a directly:
     - "b = e" is in the program, e mentions a, and a is neither the output of a register bank,
       nor a control signal (stall_O / bubble_O) the program leaves unassigned, nor a constant; or
     - a built-in component that is in use has output b and a among its inputs (for the compiled
       table: reg_srcA -> reg_outputA, reg_srcB -> reg_outputB, mem_addr/mem_readbit ->
       mem_output, pc -> i10bytes).
     Components without output (Stat, memory write port, register-file write ports) contribute
     nothing; a register bank contributes nothing (its input does not feed its output). *)
  Inductive reads_directly (stmts : list stmt) (b a : string) : Prop :=
  | rd_assign e :
      assigned_to stmts b e -> In a (refs e) ->
      ~ bank_output stmts a -> ~ defaulted_control stmts a -> ~ In a (const_names stmts) ->
      reads_directly stmts b a
  | rd_builtin ff w :
      In ff fixed -> component_in_use stmts ff ->
      ff_out ff = Some (b, w) -> In a (map fst (ff_ins ff)) ->
      reads_directly stmts b a.

  (* constant b reads constant-expression name a directly *)
  Definition const_reads_directly (stmts : list stmt) (b a : string) : Prop :=
    exists e, constant_def stmts b e /\ In a (refs e).

  (* the same relations in data-flow direction, as chains are listed *)
  Definition wire_flows (stmts : list stmt) (a b : string) : Prop := reads_directly stmts b a.
  Definition const_flows (stmts : list stmt) (a b : string) : Prop := const_reads_directly stmts b a.

  (* b depends on a: through a chain of one or more direct reads *)
  Definition depends_on (stmts : list stmt) (b a : string) : Prop :=
    clos_trans string (fun x y => reads_directly stmts x y) b a.
  Definition const_depends_on (stmts : list stmt) (b a : string) : Prop :=
    clos_trans string (fun x y => const_reads_directly stmts x y) b a.

  Definition wire_cycle (stmts : list stmt) (c : list string) : Prop := cycle_of (wire_flows stmts) c.
  Definition const_cycle (stmts : list stmt) (c : list string) : Prop := cycle_of (const_flows stmts) c.

  (* self-dependence and closed chains are the same thing, for both relations *)
  Definition stmt_self_dependence_iff_cycle : Prop :=
    forall stmts,
      ((exists w, depends_on stmts w w) <-> (exists c, wire_cycle stmts c)) /\
      ((exists k, const_depends_on stmts k k) <-> (exists c, const_cycle stmts c)).

  (* ---- 2. the chain printed in the diagnostic is an actual cycle of the program ------------ *)
  (* a WireLoop diagnostic is the only diagnostic of the rejection; its chain is non-empty, every
     named wire reads the previous one directly and the first reads the last - in the relation of
     the wires or (a loop among constant definitions) in the relation of the constants.
     This holds for every component table. *)
  Definition stmt_loop_report_is_real : Prop :=
    forall stmts es c,
      build stmts = Err es -> In (mkErr WireLoop c) es ->
      es = [mkErr WireLoop c] /\ c <> [] /\ (wire_cycle stmts c \/ const_cycle stmts c).

  (* no other diagnostic kind ever accompanies or imitates it: every rejection is either exactly
     one WireLoop or contains none *)
  Definition stmt_loop_report_alone : Prop :=
    forall stmts es, build stmts = Err es ->
      (exists c, es = [mkErr WireLoop c]) \/ Forall (fun d => ek d <> WireLoop) es.

  (* ---- 3. an accepted program has no circular dependency ---------------------------------- *)
  Definition stmt_accepted_is_acyclic : Prop :=
    fixed_table_distinct fixed ->
    forall stmts p, build stmts = Ok p ->
      (forall w, ~ depends_on stmts w w) /\ (forall k, ~ const_depends_on stmts k k) /\
      (forall c, ~ wire_cycle stmts c) /\ (forall c, ~ const_cycle stmts c).

  (* for an accepted program the register-bank outputs read off the statements are those of the
     program that was built (the vocabulary above agrees with BuildSpec's) *)
  Definition stmt_bank_outputs_agree : Prop :=
    forall stmts p, build stmts = Ok p ->
      forall o, bank_output stmts o <-> In o (all_outs (p_banks p)).

  (* ---- 4. a program with a circular dependency is rejected --------------------------------- *)
  (* ... and the rejection is the circular-dependency diagnostic unless a pass that runs before
     the sorter has something to report.  Constants are sorted right after the declaration pass,
     wires after the constants, the register banks, the missing-assignment checks and the
     built-in components have been processed. *)
  Definition stmt_const_cyclic_is_rejected_with_loop : Prop :=
    forall stmts, (exists c, const_cycle stmts c) ->
      exists es, build stmts = Err es /\
        ((exists c, es = [mkErr WireLoop c] /\ const_cycle stmts c) \/
         (es <> [] /\ Forall (fun d => decl_diag (ek d) = true) es)).

  Definition stmt_cyclic_is_rejected_with_loop : Prop :=
    fixed_table_distinct fixed ->
    forall stmts, (exists c, wire_cycle stmts c) ->
      exists es, build stmts = Err es /\
        ((exists c, es = [mkErr WireLoop c] /\ (wire_cycle stmts c \/ const_cycle stmts c)) \/
         (es <> [] /\ Forall (fun d => decl_diag (ek d) = true) es) \/
         (es <> [] /\ Forall (fun d => mid_diag (ek d) = true) es)).

  (* ---- 4'. exactly when the rejection is a WireLoop ---------------------------------------- *)
  (* The passes of Program::new that precede the two sorts, named through the model's own
     functions (Build.v): the declaration pass is clean / the builder gets as far as sorting the
     wires (constants resolved, register banks and missing-assignment checks clean, built-in
     components processed without diagnostic). *)
  Definition decls_of (stmts : list stmt) : st1 := fold_left (step1 fixed) stmts (init1 fixed).

  Definition decl_pass_clean (stmts : list stmt) : Prop :=
    let s := decls_of stmts in
    s_errs s ++ const_assigned_errors s ++ const_ref_errors s = [].

  Definition reaches_wire_sort (stmts : list stmt) : Prop :=
    let s := decls_of stmts in
    decl_pass_clean stmts /\
    exists consts, resolve_constants f (s_consts s) = Ok consts /\
      let t := fold_left (step3_bank f is_lower is_upper s consts) (s_banks s)
                         (mkSt3 [] [] (s_types s) [] [] []) in
      t_errs t ++ unset_errors s t (fold_left (fun l x => add_set x l) (all_in_names (t_banks t))
                                              (s_needed s)) = [] /\
      snd (fold_left (preprocess_one f consts (s_assigns s)) fixed
                     (assign_graph (s_assigns s)
                                   (all_out_names (t_banks t) ++ t_defaulted t ++ map fst consts),
                      [], [], [])) = [].

  (* the rejection is a WireLoop exactly when the builder reaches a sorter that meets a cycle *)
  Definition stmt_wire_loop_exact : Prop :=
    fixed_table_distinct fixed ->
    forall stmts,
      (exists c, build stmts = Err [mkErr WireLoop c]) <->
      (decl_pass_clean stmts /\
       ((exists c, const_cycle stmts c) \/
        (reaches_wire_sort stmts /\ exists c, wire_cycle stmts c))).

  (* in particular, once the builder gets as far as sorting, "rejected for circular dependency"
     and "something depends on itself" are the same - for the constants (whatever the table) ... *)
  Definition stmt_const_loop_iff_self_dependence : Prop :=
    forall stmts, decl_pass_clean stmts ->
      ((exists c, build stmts = Err [mkErr WireLoop c] /\ const_cycle stmts c) <->
       (exists k, const_depends_on stmts k k)).

  (* ... and for the wires *)
  Definition stmt_wire_loop_iff_self_dependence : Prop :=
    fixed_table_distinct fixed ->
    forall stmts, reaches_wire_sort stmts ->
      ((exists c, build stmts = Err [mkErr WireLoop c] /\ wire_cycle stmts c) <->
       (exists w, depends_on stmts w w)).
End LoopSpec.
