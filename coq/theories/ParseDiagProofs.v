(* Proofs of the statements of ParseDiagSpec.v. *)
From Coq Require Import Lia.
From HclV Require Import Base Expr Build Lexer Parser LexParseSpec LexParseProofs
                         Yo Region RegionSpec RegionProofs TriviaSpec TriviaProofs LexLocSpec LexLocProofs
                         Generated SpanParser SpanParserLemmas SpanParserSpec SpanParserProofs
                         ParseDiag ParseDiagSpec.
Open Scope list_scope.
Open Scope N_scope.

(* ====================================================================================== *)
(* 0. small facts                                                                         *)
(* ====================================================================================== *)
Lemma small_width t w : small_constant t = Some w <-> width_constant t = WOk w.
Proof.
  unfold small_constant, width_constant. destruct t; try (split; discriminate).
  destruct (bits v <=? 128); split; intros H; try discriminate H; injection H as <-; reflexivity.
Qed.

Lemma width_of_small t w : width_of t w <-> small_constant (tk t) = Some w.
Proof.
  unfold width_of, small_constant. split.
  - intros (v & -> & Hle & ->). apply N.leb_le in Hle. rewrite Hle. reflexivity.
  - destruct (tk t); try discriminate. destruct (bits v <=? 128) eqn:E; [|discriminate].
    intros H. injection H as <-. exists v. split; [reflexivity|]. split; [apply N.leb_le; exact E|reflexivity].
Qed.

Lemma width_of_wc t w : width_of t w <-> width_constant (tk t) = WOk w.
Proof. rewrite width_of_small. apply small_width. Qed.

Lemma too_wide_wc t : too_wide t <-> width_constant (tk t) = WFatal.
Proof.
  unfold too_wide, width_constant. split.
  - intros (v & -> & Hlt). apply N.leb_gt in Hlt. rewrite Hlt. reflexivity.
  - destruct (tk t); try discriminate. destruct (bits v <=? 128) eqn:E; [discriminate|].
    intros _. exists v. split; [reflexivity|apply N.leb_gt; exact E].
Qed.

Lemma too_wide_oversize t : too_wide t <-> oversize (tk t) = true.
Proof.
  unfold too_wide, oversize. split.
  - intros (v & -> & Hlt). apply N.leb_gt in Hlt. rewrite Hlt. reflexivity.
  - destruct (tk t); try discriminate. destruct (bits v <=? 128) eqn:E; [discriminate|].
    intros _. exists v. split; [reflexivity|apply N.leb_gt; exact E].
Qed.

Lemma oversize_not_small t : oversize t = true -> small_constant t = None.
Proof. unfold oversize, small_constant. destruct t; try discriminate. destruct (bits v <=? 128); [discriminate|reflexivity]. Qed.

Lemma is_name_tk t nm : is_name t nm -> starts_name (tk t) = true.
Proof. intros (name & -> & _). reflexivity. Qed.

Lemma tk_eqb t k : tk t = k -> token_eqb k k = true -> token_eqb (tk t) k = true.
Proof. intros -> H. exact H. Qed.

Lemma next_is_cons k t r : next_is k (t :: r) = token_eqb (tk t) k.
Proof. reflexivity. Qed.

Lemma next_is_compat k rest rest' : compat rest rest' -> next_is k rest = false -> next_is k rest' = false.
Proof.
  intros Hc H. destruct rest' as [|t' r']; [reflexivity|]. destruct rest as [|t r]; [discriminate Hc|].
  cbn in Hc. injection Hc as Hc. cbn [next_is] in *. rewrite <- Hc. exact H.
Qed.

Lemma next_is_compat_true k rest rest' : compat rest rest' -> rest' <> [] -> next_is k rest = next_is k rest'.
Proof.
  intros Hc Hne. destruct rest' as [|t' r']; [congruence|]. destruct rest as [|t r]; [discriminate Hc|].
  cbn in Hc. injection Hc as Hc. cbn [next_is]. rewrite Hc. reflexivity.
Qed.

Lemma compat_tl_app (rest rest' : list tok) c w : compat (c :: w ++ rest) (c :: w ++ rest').
Proof. reflexivity. Qed.

(* reading at a given fuel *)
Definition Rf (tiers : list tier) (f : nat) (we rest : list tok) (e : sexpr) : Prop :=
  we <> [] /\ parse_expr_sp tiers f (we ++ rest) = Some (e, extent we, rest).
Definition ROf (tiers : list tier) (f : nat) (wo rest : list tok) (a : sarms) : Prop :=
  parse_mux_options_sp tiers f (wo ++ rest) = Some (a, rest).
Definition RSf (tiers : list tier) (f : nat) (w rest : list tok) (e : sexpr) : Prop :=
  w <> [] /\ parse_simple_sp tiers f (w ++ rest) = Some (e, extent w, rest).

Lemma Rf_reads tiers f we rest e : Rf tiers f we rest e -> reads_expr tiers we rest e.
Proof. intros [Hne H]. split; [exact Hne|exists f; exact H]. Qed.
Lemma ROf_reads tiers f wo rest a : ROf tiers f wo rest a -> reads_options tiers wo rest a.
Proof. intros H. exists f. exact H. Qed.
Lemma RSf_reads tiers f w rest e : RSf tiers f w rest e -> reads_simple tiers w rest e.
Proof. intros [Hne H]. split; [exact Hne|exists f; exact H]. Qed.

Lemma Rf_swap tiers f we rest e f' rest' : Rf tiers f we rest e -> (f <= f')%nat -> compat rest rest' ->
  Rf tiers f' we rest' e.
Proof.
  intros [Hne H] Hf Hc. split; [exact Hne|].
  exact (Stab1_swap (parse_expr_sp tiers) f we (e, extent we) rest (parse_expr_sp_stable tiers f) H f' rest' Hf Hc).
Qed.
Lemma ROf_swap tiers f wo rest a f' rest' : ROf tiers f wo rest a -> (f <= f')%nat -> compat rest rest' ->
  ROf tiers f' wo rest' a.
Proof.
  unfold ROf. intros H Hf Hc.
  destruct (proj1 (proj2 (proj2 (proj2 (proj2 (stable_all tiers f))))) _ _ _ H) as (w' & Heq & St).
  apply app_inv_tail in Heq. subst w'. apply St; assumption.
Qed.
Lemma RSf_swap tiers f w rest e f' rest' : RSf tiers f w rest e -> (f <= f')%nat -> compat rest rest' ->
  RSf tiers f' w rest' e.
Proof.
  intros [Hne H] Hf Hc. split; [exact Hne|].
  exact (Stab1_swap (parse_simple_sp tiers) f w (e, extent w) rest
                    (proj1 (proj2 (proj2 (proj2 (stable_all tiers f))))) H f' rest' Hf Hc).
Qed.

(* the expression parser of the diagnostic parser *)
Lemma fatal_of_ok {A} r (a : A) ds : fatal_of r = POk a ds -> False.
Proof. destruct r; discriminate. Qed.

Lemma expr_d_ok tiers f toks r ds :
  expr_d tiers f toks = POk r ds <-> parse_expr_sp tiers f toks = Some r /\ ds = [].
Proof.
  unfold expr_d. destruct (parse_expr_sp tiers f toks) as [r0|].
  - split; [intros H; injection H as <- <-; split; reflexivity|intros [H ->]; injection H as <-; reflexivity].
  - split; [intros H; destruct (fatal_of_ok _ _ _ H)|intros [H _]; discriminate H].
Qed.

(* what the expression parser consumed *)
Lemma expr_consumed tiers f toks e ext rest : parse_expr_sp tiers f toks = Some (e, ext, rest) ->
  exists we, toks = we ++ rest /\ Rf tiers f we rest e /\ ext = extent we.
Proof.
  intros H. destruct (expr_located tiers f toks e ext rest H) as (w & Hw & Hne & Hext & _).
  exists w. split; [exact Hw|]. split; [|exact Hext]. split; [exact Hne|]. rewrite <- Hw, <- Hext. exact H.
Qed.

Lemma expr_d_consumed tiers f toks e ext rest ds : expr_d tiers f toks = POk (e, ext, rest) ds ->
  exists we, toks = we ++ rest /\ Rf tiers f we rest e /\ ext = extent we /\ ds = [].
Proof.
  intros H. apply expr_d_ok in H. destruct H as [H ->].
  destruct (expr_consumed tiers f toks e ext rest H) as (we & H1 & H2 & H3). exists we.
  split; [exact H1|]. split; [exact H2|]. split; [exact H3|reflexivity].
Qed.

Lemma expr_d_of_Rf tiers f we rest e : Rf tiers f we rest e ->
  expr_d tiers f (we ++ rest) = POk (e, extent we, rest) [].
Proof. intros [_ H]. apply expr_d_ok. split; [exact H|reflexivity]. Qed.

Lemma last_end_cons2 (t1 t2 : tok) we : we <> [] -> last_end (t1 :: t2 :: we) = last_end we.
Proof. intros H. rewrite last_end_cons by discriminate. apply last_end_cons. exact H. Qed.

(* ====================================================================================== *)
(* 1. one declaration: the function is the shape (at the fuel of the function)            *)
(* ====================================================================================== *)
Ltac inj3 H := injection H as <- <- <-.
Ltac name_of Hn name Ht1 := assert (Hn : is_name _ (string_of_name name)) by (exists name; split; [exact Ht1|reflexivity]).

Lemma wire_decl_d_sound tiers f eof toks d rest ds :
  wire_decl_d tiers f eof toks = POk (d, rest) ds ->
  exists it, toks = it ++ rest /\ wire_decl_shape (Rf tiers f) rest it d ds.
Proof.
  unfold wire_decl_d. intros H.
  destruct toks as [|t1 rest1]; [discriminate H|].
  destruct (tk t1) eqn:Ht1; try discriminate H.
  assert (Hn : is_name t1 (string_of_name name)) by (exists name; split; [exact Ht1|reflexivity]).
  destruct rest1 as [|t2 rest2].
  { inj3 H. exists [t1]. split; [reflexivity|]. apply WS_missing; [exact Hn|reflexivity|reflexivity]. }
  destruct (token_eqb (tk t2) TColon) eqn:Ec.
  - apply token_eqb_true in Ec. destruct rest2 as [|t3 rest3]; [discriminate H|].
    destruct (width_constant (tk t3)) as [w| |] eqn:Ew;
      [|destruct (follows_wire_width eof rest3); discriminate H|discriminate H].
    apply width_of_wc in Ew.
    destruct rest3 as [|t4 rest4].
    { inj3 H. exists [t1; t2; t3]. split; [reflexivity|]. apply WS_plain; first [assumption|reflexivity]. }
    destruct (token_eqb (tk t4) TAssign) eqn:Ea.
    + apply token_eqb_true in Ea.
      destruct (expr_d tiers f rest4) as [[[e exte] rest5] dse|dse|] eqn:E; try discriminate H.
      destruct (expr_d_consumed _ _ _ _ _ _ _ E) as (we & Hw & HR & _ & _).
      cbv zeta in H. inj3 H. exists (t1 :: t2 :: t3 :: t4 :: we). split; [rewrite Hw; reflexivity|].
      apply (WS_width_assigned _ _ _ _ _ _ we e); assumption.
    + inj3 H. exists [t1; t2; t3]. split; [reflexivity|]. apply WS_plain; first [assumption|exact Ea].
  - destruct (token_eqb (tk t2) TAssign) eqn:Ea.
    + apply token_eqb_true in Ea.
      destruct (expr_d tiers f rest2) as [[[e exte] rest3] dse|dse|] eqn:E; try discriminate H.
      destruct (expr_d_consumed _ _ _ _ _ _ _ E) as (we & Hw & HR & _ & _).
      cbv zeta in H. inj3 H. exists (t1 :: t2 :: we). split; [rewrite Hw; reflexivity|].
      apply (WS_assigned _ _ _ _ we e); assumption.
    + inj3 H. exists [t1]. split; [reflexivity|]. apply WS_missing; [exact Hn|exact Ec|exact Ea].
Qed.

Lemma wire_decl_d_complete tiers f eof rest it d ds :
  wire_decl_shape (Rf tiers f) rest it d ds -> wire_decl_d tiers f eof (it ++ rest) = POk (d, rest) ds.
Proof.
  intros H.
  destruct H as [t1 t2 t3 nm w (name & Ht1 & ->) Ht2 Hw Hna
                |t1 nm (name & Ht1 & ->) Hnc Hna
                |t1 t2 we e nm (name & Ht1 & ->) Ht2 HR
                |t1 t2 t3 t4 we e nm w (name & Ht1 & ->) Ht2 Hw Ht4 HR];
    unfold wire_decl_d; cbn [app]; rewrite Ht1.
  - rewrite Ht2. cbn [token_eqb]. apply width_of_wc in Hw. rewrite Hw.
    destruct rest as [|t4 rest4]; [reflexivity|]. cbn [next_is] in Hna. rewrite Hna. reflexivity.
  - destruct rest as [|t2 rest2]; [reflexivity|]. cbn [next_is] in Hnc, Hna. rewrite Hnc, Hna. reflexivity.
  - rewrite Ht2. cbn [token_eqb]. rewrite (expr_d_of_Rf _ _ _ _ _ HR). reflexivity.
  - rewrite Ht2. cbn [token_eqb]. apply width_of_wc in Hw. rewrite Hw. rewrite Ht4. cbn [token_eqb].
    rewrite (expr_d_of_Rf _ _ _ _ _ HR). reflexivity.
Qed.

Lemma const_decl_d_sound tiers f toks d rest ds :
  const_decl_d tiers f toks = POk (d, rest) ds ->
  exists it, toks = it ++ rest /\ const_decl_shape (Rf tiers f) rest it d ds.
Proof.
  unfold const_decl_d. intros H.
  destruct toks as [|t1 [|t2 rest2]]; try discriminate H.
  destruct (tk t1) eqn:Ht1; try discriminate H.
  assert (Hn : is_name t1 (string_of_name name)) by (exists name; split; [exact Ht1|reflexivity]).
  destruct (token_eqb (tk t2) TAssign) eqn:Ea.
  - apply token_eqb_true in Ea.
    destruct (expr_d tiers f rest2) as [[[e exte] rest3] dse|dse|] eqn:E; try discriminate H.
    destruct (expr_d_consumed _ _ _ _ _ _ _ E) as (we & Hw & HR & _ & _).
    inj3 H. exists (t1 :: t2 :: we). split; [rewrite Hw; reflexivity|].
    apply (CS_plain _ _ _ _ we e); assumption.
  - destruct (token_eqb (tk t2) TColon) eqn:Ec; [|discriminate H]. apply token_eqb_true in Ec.
    destruct rest2 as [|t3 [|t4 rest4]]; try discriminate H.
    destruct (width_constant (tk t3)) as [w| |] eqn:Ew;
      [|destruct (token_eqb (tk t4) TAssign); discriminate H|discriminate H].
    apply width_of_wc in Ew.
    destruct (token_eqb (tk t4) TAssign) eqn:Ea4; [|discriminate H]. apply token_eqb_true in Ea4.
    destruct (expr_d tiers f rest4) as [[[e exte] rest5] dse|dse|] eqn:E; try discriminate H.
    destruct (expr_d_consumed _ _ _ _ _ _ _ E) as (we & Hw & HR & _ & _).
    inj3 H. exists (t1 :: t2 :: t3 :: t4 :: we). split; [rewrite Hw; reflexivity|].
    apply (CS_width _ _ _ _ _ _ we e _ w); assumption.
Qed.

Lemma const_decl_d_complete tiers f rest it d ds :
  const_decl_shape (Rf tiers f) rest it d ds -> const_decl_d tiers f (it ++ rest) = POk (d, rest) ds.
Proof.
  intros H.
  destruct H as [t1 t2 we e nm (name & Ht1 & ->) Ht2 HR
                |t1 t2 t3 t4 we e nm w (name & Ht1 & ->) Ht2 Hw Ht4 HR];
    unfold const_decl_d; cbn [app]; rewrite Ht1, Ht2; cbn [token_eqb].
  - rewrite (expr_d_of_Rf _ _ _ _ _ HR). reflexivity.
  - apply width_of_wc in Hw. rewrite Hw, Ht4. cbn [token_eqb]. rewrite (expr_d_of_Rf _ _ _ _ _ HR). reflexivity.
Qed.

(* ---- (ID "=")+ ---- *)
Lemma targets_stop f l : no_target l -> parse_targets_sp f l = ([], l).
Proof.
  intros H. destruct f as [|f]; [reflexivity|]. cbn [parse_targets_sp].
  destruct l as [|t1 [|t2 r]]; try reflexivity. cbn [no_target] in H.
  destruct (tk t1); try reflexivity. cbn [starts_name andb] in H. rewrite H. reflexivity.
Qed.

Lemma targets_sound : forall f toks names toks1,
  (List.length toks <= f)%nat -> parse_targets_sp f toks = (names, toks1) ->
  (names = [] /\ toks1 = toks /\ no_target toks) \/
  (exists wn, toks = wn ++ toks1 /\ targets_shape wn names /\ no_target toks1).
Proof.
  induction f as [|f IH]; intros toks names toks1 Hlen H.
  { destruct toks; [|cbn in Hlen; lia]. cbn in H. injection H as <- <-. left. repeat split. }
  cbn [parse_targets_sp] in H.
  assert (Hstop : no_target toks -> (@nil (string * srcspan), toks) = (names, toks1) ->
            (names = [] /\ toks1 = toks /\ no_target toks) \/
            (exists wn, toks = wn ++ toks1 /\ targets_shape wn names /\ no_target toks1)).
  { intros Hs Hinj. injection Hinj as <- <-. left. repeat split. exact Hs. }
  destruct toks as [|t1 [|t2 toks']]; try (apply Hstop; [exact I|exact H]).
  destruct (tk t1) eqn:Ht1; try (apply Hstop; [cbn; rewrite Ht1; reflexivity|exact H]).
  destruct (token_eqb (tk t2) TAssign) eqn:Ea; [|apply Hstop; [cbn; rewrite Ht1, Ea; reflexivity|exact H]].
  clear Hstop. apply token_eqb_true in Ea.
  assert (Hn : is_name t1 (string_of_name name)) by (exists name; split; [exact Ht1|reflexivity]).
  destruct (parse_targets_sp f toks') as [more rest] eqn:E1.
  injection H as <- <-. right.
  destruct (IH toks' more rest ltac:(cbn in Hlen; lia) E1) as [(-> & -> & Hs)|(wn & Hw & Hsh & Hs)].
  - exists [t1; t2]. split; [reflexivity|]. split; [apply TS_one; assumption|exact Hs].
  - exists (t1 :: t2 :: wn). split; [rewrite Hw; reflexivity|]. split; [apply TS_more; assumption|exact Hs].
Qed.

Lemma targets_complete wn names : targets_shape wn names ->
  forall f toks1, no_target toks1 -> (List.length (wn ++ toks1) <= f)%nat ->
    parse_targets_sp f (wn ++ toks1) = (names, toks1).
Proof.
  induction 1 as [t1 t2 nm (name & Ht1 & ->) Ht2|t1 t2 nm w names (name & Ht1 & ->) Ht2 Hsh IH];
    intros f toks1 Hs Hlen; cbn [app] in *; (destruct f as [|f]; [cbn in Hlen; lia|]);
    cbn [parse_targets_sp]; rewrite Ht1, Ht2; cbn [token_eqb].
  - rewrite (targets_stop f toks1 Hs). reflexivity.
  - rewrite (IH f toks1 Hs ltac:(cbn in Hlen; lia)). reflexivity.
Qed.

Lemma targets_shape_first wn n0 ns : targets_shape wn (n0 :: ns) ->
  fst (snd n0) = first_start wn /\ exists t1 t2 w, wn = t1 :: t2 :: w /\ starts_name (tk t1) = true /\ tk t2 = TAssign.
Proof.
  intros H. inversion H as [t1 t2 nm Hn Ht2|t1 t2 nm w names Hn Ht2 Hsh]; subst;
    (split; [reflexivity|]); [exists t1, t2, []|exists t1, t2, w];
    (split; [reflexivity|]); (split; [exact (is_name_tk _ _ Hn)|exact Ht2]).
Qed.

Lemma targets_shape_nonempty wn names : targets_shape wn names -> names <> [] /\ wn <> [].
Proof. intros H. destruct H; split; discriminate. Qed.

Lemma assignment_d_sound tiers f toks a rest ds :
  assignment_d tiers f toks = POk (a, rest) ds ->
  exists it, toks = it ++ rest /\ assign_shape (Rf tiers f) (ROf tiers f) rest it a ds.
Proof.
  unfold assignment_d. intros H.
  destruct toks as [|t1 [|t2 rest2]]; try discriminate H.
  destruct (tk t1) eqn:Ht1; try discriminate H.
  assert (Hn : is_name t1 (string_of_name name)) by (exists name; split; [exact Ht1|reflexivity]).
  destruct (token_eqb (tk t2) TOpenBracket) eqn:Eb.
  - apply token_eqb_true in Eb.
    destruct (parse_mux_options_sp tiers f rest2) as [[[|c v more] [|t3 rest3]]|] eqn:E; try discriminate H.
    2:{ destruct (fatal_of_ok _ _ _ H). }
    destruct (token_eqb (tk t3) TCloseBracket) eqn:Ecb; [|discriminate H]. apply token_eqb_true in Ecb.
    inj3 H.
    destruct (proj1 (proj2 (proj2 (proj2 (proj2 (stable_all tiers f))))) _ _ _ E) as (wo & Hwo & _).
    exists (t1 :: t2 :: wo ++ [t3]). split; [rewrite Hwo; napp; reflexivity|].
    apply AS_mux; try assumption. unfold ROf. rewrite <- Hwo. exact E.
  - destruct (parse_targets_sp (List.length (t1 :: t2 :: rest2)) (t1 :: t2 :: rest2)) as [names toks1] eqn:Et.
    destruct names as [|n0 names]; [discriminate H|].
    destruct (targets_sound _ _ _ _ (Nat.le_refl _) Et) as [(Hnil & _)|(wn & Hwn & Hsh & Hs)]; [discriminate Hnil|].
    destruct (expr_d tiers f toks1) as [[[e exte] rest3] dse|dse|] eqn:E; try discriminate H.
    destruct (expr_d_consumed _ _ _ _ _ _ _ E) as (we & Hw & HR & Hext & _).
    inj3 H. exists (wn ++ we). split; [rewrite Hwn, Hw; napp; reflexivity|].
    destruct (targets_shape_first _ _ _ Hsh) as [Hfirst _]. rewrite Hfirst, Hext. cbn [snd extent].
    apply AS_plain; [exact Hsh|rewrite <- Hw; exact Hs|exact HR].
Qed.

Lemma assignment_d_complete tiers f rest it a ds :
  assign_shape (Rf tiers f) (ROf tiers f) rest it a ds -> assignment_d tiers f (it ++ rest) = POk (a, rest) ds.
Proof.
  intros H.
  destruct H as [wn names we e Hsh Hs HR|t1 t2 wo t3 nm c v more (name & Ht1 & ->) Ht2 HRO Ht3].
  - destruct names as [|n0 names]; [destruct (proj1 (targets_shape_nonempty _ _ Hsh) eq_refl)|].
    rewrite <- app_assoc.
    pose proof (targets_complete _ _ Hsh _ (we ++ rest) Hs (Nat.le_refl _)) as Ht.
    destruct (targets_shape_first _ _ _ Hsh) as [Hfirst (t1 & t2 & w & Hwn & Hid & Ht2)].
    rewrite Hwn in Ht |- *. unfold assignment_d. cbn [app] in Ht |- *. destruct (tk t1) eqn:Ht1; try discriminate Hid.
    rewrite Ht2. cbn [token_eqb]. rewrite Ht.
    rewrite (expr_d_of_Rf _ _ _ _ _ HR). rewrite Hfirst, Hwn. reflexivity.
  - unfold assignment_d. cbn [app]. rewrite Ht1, Ht2. cbn [token_eqb].
    rewrite <- app_assoc. cbn [app]. unfold ROf in HRO. rewrite HRO, Ht3. reflexivity.
Qed.

(* ---- RegisterDecl ---- *)
Lemma reg_value_d_sound tiers f toks mk r rest ds :
  reg_value_d tiers f toks mk = POk (r, rest) ds ->
  exists we e, toks = we ++ rest /\ Rf tiers f we rest e /\ (r, ds) = mk e (extent we).
Proof.
  unfold reg_value_d. intros H.
  destruct (expr_d tiers f toks) as [[[e exte] rest3] dse|dse|] eqn:E; try discriminate H.
  destruct (expr_d_consumed _ _ _ _ _ _ _ E) as (we & Hw & HR & Hext & _).
  exists we, e. rewrite Hext in H. destruct (mk e (extent we)) as [r0 ds0]. inj3 H.
  split; [exact Hw|]. split; [exact HR|reflexivity].
Qed.

Lemma reg_value_d_complete tiers f we rest e mk : Rf tiers f we rest e ->
  reg_value_d tiers f (we ++ rest) mk = let '(r, ds) := mk e (extent we) in POk (r, rest) ds.
Proof. intros HR. unfold reg_value_d. rewrite (expr_d_of_Rf _ _ _ _ _ HR). reflexivity. Qed.

Lemma reg_width_d_sound {A} toks (k : N -> list tok -> pres A) a ds :
  reg_width_d toks k = POk a ds ->
  exists t3 t4 rest4 w, toks = t3 :: t4 :: rest4 /\ width_of t3 w /\ tk t4 = TAssign /\ k w rest4 = POk a ds.
Proof.
  unfold reg_width_d. intros H. destruct toks as [|t3 [|t4 rest4]]; try discriminate H.
  destruct (width_constant (tk t3)) as [w| |] eqn:Ew;
    [|destruct (token_eqb (tk t4) TAssign); discriminate H|discriminate H].
  destruct (token_eqb (tk t4) TAssign) eqn:Ea; [|discriminate H].
  exists t3, t4, rest4, w. split; [reflexivity|]. split; [apply width_of_wc; exact Ew|].
  split; [exact (token_eqb_true _ _ Ea)|exact H].
Qed.

Lemma reg_decl_d_sound tiers f toks r rest ds :
  reg_decl_d tiers f toks = POk (r, rest) ds ->
  exists it, toks = it ++ rest /\ reg_decl_shape (Rf tiers f) rest it r ds.
Proof.
  unfold reg_decl_d. intros H.
  destruct toks as [|t1 [|t2 rest2]]; try discriminate H.
  destruct (tk t1) eqn:Ht1; try discriminate H.
  - (* "wire" *)
    destruct (tk t2) eqn:Ht2; try discriminate H.
    assert (Hn : is_name t2 (string_of_name name)) by (exists name; split; [exact Ht2|reflexivity]).
    destruct rest2 as [|t3 rest3]; [discriminate H|].
    destruct (token_eqb (tk t3) TAssign) eqn:Ea.
    + apply token_eqb_true in Ea.
      destruct (reg_value_d_sound _ _ _ _ _ _ _ H) as (we & e & Hw & HR & Hmk).
      injection Hmk as -> ->. exists (t1 :: t2 :: t3 :: we). split; [rewrite Hw; reflexivity|].
      cbn [snd extent]. apply (RS_wire _ _ _ _ _ we e (string_of_name name)); assumption.
    + destruct (token_eqb (tk t3) TColon) eqn:Ec; [|discriminate H]. apply token_eqb_true in Ec.
      destruct (reg_width_d_sound _ _ _ _ H) as (t4 & t5 & rest5 & w & -> & Hwd & Ht5 & H').
      destruct (reg_value_d_sound _ _ _ _ _ _ _ H') as (we & e & Hw & HR & Hmk).
      injection Hmk as -> ->. exists (t1 :: t2 :: t3 :: t4 :: t5 :: we). split; [rewrite Hw; reflexivity|].
      cbn [snd extent]. apply (RS_wire_width _ _ _ _ _ _ _ we e (string_of_name name) w); assumption.
  - assert (Hn : is_name t1 (string_of_name name)) by (exists name; split; [exact Ht1|reflexivity]).
    destruct (token_eqb (tk t2) TAssign) eqn:Ea.
    + apply token_eqb_true in Ea.
      destruct (reg_value_d_sound _ _ _ _ _ _ _ H) as (we & e & Hw & HR & Hmk).
      cbv zeta in Hmk. injection Hmk as -> ->. exists (t1 :: t2 :: we). split; [rewrite Hw; reflexivity|].
      cbn [snd extent]. apply (RS_nowidth _ _ _ _ we e (string_of_name name)); assumption.
    + destruct (token_eqb (tk t2) TColon) eqn:Ec; [|discriminate H]. apply token_eqb_true in Ec.
      destruct (reg_width_d_sound _ _ _ _ H) as (t3 & t4 & rest4 & w & -> & Hwd & Ht4 & H').
      destruct (reg_value_d_sound _ _ _ _ _ _ _ H') as (we & e & Hw & HR & Hmk).
      injection Hmk as -> ->. exists (t1 :: t2 :: t3 :: t4 :: we). split; [rewrite Hw; reflexivity|].
      cbn [snd extent]. apply (RS_plain _ _ _ _ _ _ we e); assumption.
Qed.

Lemma reg_decl_d_complete tiers f rest it r ds :
  reg_decl_shape (Rf tiers f) rest it r ds -> reg_decl_d tiers f (it ++ rest) = POk (r, rest) ds.
Proof.
  intros H.
  destruct H as [t1 t2 t3 t4 we e nm w (name & Ht1 & ->) Ht2 Hw Ht4 HR
                |t1 t2 we e nm (name & Ht1 & ->) Ht2 HR
                |t1 t2 t3 we e nm Ht1 (name & Ht2 & ->) Ht3 HR
                |t1 t2 t3 t4 t5 we e nm w Ht1 (name & Ht2 & ->) Ht3 Hw Ht5 HR];
    unfold reg_decl_d; cbn [app]; rewrite Ht1, Ht2; cbn [token_eqb].
  - unfold reg_width_d. apply width_of_wc in Hw. rewrite Hw, Ht4. cbn [token_eqb].
    rewrite (reg_value_d_complete _ _ _ _ _ _ HR). reflexivity.
  - rewrite (reg_value_d_complete _ _ _ _ _ _ HR). reflexivity.
  - rewrite Ht3. cbn [token_eqb]. rewrite (reg_value_d_complete _ _ _ _ _ _ HR). reflexivity.
  - rewrite Ht3. cbn [token_eqb]. unfold reg_width_d. apply width_of_wc in Hw. rewrite Hw, Ht5. cbn [token_eqb].
    rewrite (reg_value_d_complete _ _ _ _ _ _ HR). reflexivity.
Qed.

(* ====================================================================================== *)
(* 2. shapes: change of the reading relation and of the following tokens                  *)
(* ====================================================================================== *)
Lemma no_target_compat we rest rest' : we <> [] -> compat rest rest' -> no_target (we ++ rest) -> no_target (we ++ rest').
Proof.
  intros Hne Hc Hs. destruct we as [|e1 [|e2 we]]; [congruence| |exact Hs].
  cbn [app] in Hs |- *. destruct rest' as [|t2' r']; [exact I|].
  destruct rest as [|t2 r]; [discriminate Hc|]. cbn in Hc. injection Hc as Hc.
  cbn in Hs |- *. rewrite <- Hc. exact Hs.
Qed.

Section Transfer.
  Variables R R' : list tok -> list tok -> sexpr -> Prop.
  Variables RO RO' : list tok -> list tok -> sarms -> Prop.
  Variables rest rest' : list tok.
  Hypothesis Hnext : forall k, next_is k rest = false -> next_is k rest' = false.
  Hypothesis HR : forall we e, R we rest e -> R' we rest' e /\ (no_target (we ++ rest) -> no_target (we ++ rest')).
  Hypothesis HRO : forall wo t3 a, RO wo (t3 :: rest) a -> RO' wo (t3 :: rest') a.

  Lemma wire_decl_shape_transfer it d ds : wire_decl_shape R rest it d ds -> wire_decl_shape R' rest' it d ds.
  Proof.
    intros H.
    destruct H as [t1 t2 t3 nm w Hn Ht2 Hw Hna|t1 nm Hn Hnc Hna|t1 t2 we e nm Hn Ht2 Hrd|t1 t2 t3 t4 we e nm w Hn Ht2 Hw Ht4 Hrd].
    - apply WS_plain; [exact Hn|exact Ht2|exact Hw|exact (Hnext _ Hna)].
    - apply WS_missing; [exact Hn|exact (Hnext _ Hnc)|exact (Hnext _ Hna)].
    - apply (WS_assigned _ _ _ _ we e); [exact Hn|exact Ht2|exact (proj1 (HR _ _ Hrd))].
    - apply (WS_width_assigned _ _ _ _ _ _ we e); [exact Hn|exact Ht2|exact Hw|exact Ht4|exact (proj1 (HR _ _ Hrd))].
  Qed.

  Lemma const_decl_shape_transfer it d ds : const_decl_shape R rest it d ds -> const_decl_shape R' rest' it d ds.
  Proof.
    intros H. destruct H as [t1 t2 we e nm Hn Ht2 Hrd|t1 t2 t3 t4 we e nm w Hn Ht2 Hw Ht4 Hrd].
    - apply (CS_plain _ _ _ _ we e); [exact Hn|exact Ht2|exact (proj1 (HR _ _ Hrd))].
    - apply (CS_width _ _ _ _ _ _ we e _ w); [exact Hn|exact Ht2|exact Hw|exact Ht4|exact (proj1 (HR _ _ Hrd))].
  Qed.

  Lemma assign_shape_transfer it a ds : assign_shape R RO rest it a ds -> assign_shape R' RO' rest' it a ds.
  Proof.
    intros H. destruct H as [wn names we e Hsh Hs Hrd|t1 t2 wo t3 nm c v more Hn Ht2 Hro Ht3].
    - apply AS_plain; [exact Hsh|exact (proj2 (HR _ _ Hrd) Hs)|exact (proj1 (HR _ _ Hrd))].
    - apply AS_mux; [exact Hn|exact Ht2|exact (HRO _ _ _ Hro)|exact Ht3].
  Qed.

  Lemma reg_decl_shape_transfer it r ds : reg_decl_shape R rest it r ds -> reg_decl_shape R' rest' it r ds.
  Proof.
    intros H.
    destruct H as [t1 t2 t3 t4 we e nm w Hn Ht2 Hw Ht4 Hrd|t1 t2 we e nm Hn Ht2 Hrd|t1 t2 t3 we e nm Ht1 Hn Ht3 Hrd
                  |t1 t2 t3 t4 t5 we e nm w Ht1 Hn Ht3 Hw Ht5 Hrd].
    - apply (RS_plain _ _ _ _ _ _ we e); [exact Hn|exact Ht2|exact Hw|exact Ht4|exact (proj1 (HR _ _ Hrd))].
    - apply (RS_nowidth _ _ _ _ we e nm); [exact Hn|exact Ht2|exact (proj1 (HR _ _ Hrd))].
    - apply (RS_wire _ _ _ _ _ we e nm); [exact Ht1|exact Hn|exact Ht3|exact (proj1 (HR _ _ Hrd))].
    - apply (RS_wire_width _ _ _ _ _ _ _ we e nm w); [exact Ht1|exact Hn|exact Ht3|exact Hw|exact Ht5|exact (proj1 (HR _ _ Hrd))].
  Qed.
End Transfer.

(* from the fuel of the function to "some fuel" *)
Lemma Rf_to_reads tiers f rest : forall we e, Rf tiers f we rest e ->
  reads_expr tiers we rest e /\ (no_target (we ++ rest) -> no_target (we ++ rest)).
Proof. intros we e H. split; [exact (Rf_reads _ _ _ _ _ H)|trivial]. Qed.

(* to more fuel and other following tokens of the same kind *)
Lemma Rf_to_Rf tiers f f' rest rest' : (f <= f')%nat -> compat rest rest' -> forall we e, Rf tiers f we rest e ->
  Rf tiers f' we rest' e /\ (no_target (we ++ rest) -> no_target (we ++ rest')).
Proof.
  intros Hf Hc we e H. split; [exact (Rf_swap _ _ _ _ _ _ _ H Hf Hc)|].
  exact (no_target_compat we rest rest' (proj1 H) Hc).
Qed.

(* every shape item is not empty and begins with the token its list expects *)
Lemma wire_decl_shape_head R rest it d ds : wire_decl_shape R rest it d ds ->
  exists t1 r, it = t1 :: r /\ starts_name (tk t1) = true.
Proof. intros H. destruct H; eexists; eexists; (split; [reflexivity|]); eapply is_name_tk; eassumption. Qed.
Lemma const_decl_shape_head R rest it d ds : const_decl_shape R rest it d ds ->
  exists t1 r, it = t1 :: r /\ starts_name (tk t1) = true.
Proof. intros H. destruct H; eexists; eexists; (split; [reflexivity|]); eapply is_name_tk; eassumption. Qed.
Lemma assign_shape_head R RO rest it a ds : assign_shape R RO rest it a ds ->
  exists t1 r, it = t1 :: r /\ starts_name (tk t1) = true.
Proof.
  intros H. destruct H as [wn names we e Hsh Hs Hrd|t1 t2 wo t3 nm c v more Hn Ht2 Hro Ht3].
  - destruct names as [|n0 ns]; [destruct (proj1 (targets_shape_nonempty _ _ Hsh) eq_refl)|].
    destruct (targets_shape_first _ _ _ Hsh) as [_ (t1 & t2 & w & -> & Hid & _)].
    exists t1, ((t2 :: w) ++ we). split; [reflexivity|exact Hid].
  - eexists; eexists; (split; [reflexivity|]); eapply is_name_tk; eassumption.
Qed.
Lemma reg_decl_shape_head R rest it r ds : reg_decl_shape R rest it r ds ->
  exists t1 r0, it = t1 :: r0 /\ starts_reg_decl (tk t1) = true.
Proof.
  intros H.
  destruct H as [t1 t2 t3 t4 we e nm w Hn Ht2 Hw Ht4 Hrd|t1 t2 we e nm Hn Ht2 Hrd|t1 t2 t3 we e nm Ht1 Hn Ht3 Hrd
                |t1 t2 t3 t4 t5 we e nm w Ht1 Hn Ht3 Hw Ht5 Hrd]; eexists; eexists; (split; [reflexivity|]).
  - destruct Hn as (name & -> & _). reflexivity.
  - destruct Hn as (name & -> & _). reflexivity.
  - rewrite Ht1. reflexivity.
  - rewrite Ht1. reflexivity.
Qed.

(* ---- one declaration: what was consumed decides ---- *)
Definition IStab {A : Type} (item : nat -> list tok -> pres (A * list tok)) : Prop :=
  forall f toks d rest ds, item f toks = POk (d, rest) ds ->
    exists it, toks = it ++ rest /\ it <> [] /\
      forall f' rest', (f <= f')%nat -> compat rest rest' -> item f' (it ++ rest') = POk (d, rest') ds.

Lemma wire_decl_d_stable tiers eof : IStab (fun f => wire_decl_d tiers f eof).
Proof.
  intros f toks d rest ds H. destruct (wire_decl_d_sound _ _ _ _ _ _ _ H) as (it & Hit & Hsh).
  exists it. split; [exact Hit|]. split; [destruct (wire_decl_shape_head _ _ _ _ _ Hsh) as (t1 & r & -> & _); discriminate|].
  intros f' rest' Hf Hc. apply wire_decl_d_complete.
  apply (wire_decl_shape_transfer (Rf tiers f) (Rf tiers f') rest rest'); [|exact (Rf_to_Rf tiers f f' rest rest' Hf Hc)|exact Hsh].
  intros k. apply next_is_compat. exact Hc.
Qed.

Lemma const_decl_d_stable tiers : IStab (const_decl_d tiers).
Proof.
  intros f toks d rest ds H. destruct (const_decl_d_sound _ _ _ _ _ _ H) as (it & Hit & Hsh).
  exists it. split; [exact Hit|]. split; [destruct (const_decl_shape_head _ _ _ _ _ Hsh) as (t1 & r & -> & _); discriminate|].
  intros f' rest' Hf Hc. apply const_decl_d_complete.
  apply (const_decl_shape_transfer (Rf tiers f) (Rf tiers f') rest rest'); [exact (Rf_to_Rf tiers f f' rest rest' Hf Hc)|exact Hsh].
Qed.

Lemma assignment_d_stable tiers : IStab (assignment_d tiers).
Proof.
  intros f toks d rest ds H. destruct (assignment_d_sound _ _ _ _ _ _ H) as (it & Hit & Hsh).
  exists it. split; [exact Hit|]. split; [destruct (assign_shape_head _ _ _ _ _ _ Hsh) as (t1 & r & -> & _); discriminate|].
  intros f' rest' Hf Hc. apply assignment_d_complete.
  apply (assign_shape_transfer (Rf tiers f) (Rf tiers f') (ROf tiers f) (ROf tiers f') rest rest');
    [exact (Rf_to_Rf tiers f f' rest rest' Hf Hc)| |exact Hsh].
  intros wo t3 a HRO. exact (ROf_swap _ _ _ _ _ _ _ HRO Hf (compat_cons t3 rest rest')).
Qed.

Lemma reg_decl_d_stable tiers : IStab (reg_decl_d tiers).
Proof.
  intros f toks d rest ds H. destruct (reg_decl_d_sound _ _ _ _ _ _ H) as (it & Hit & Hsh).
  exists it. split; [exact Hit|]. split; [destruct (reg_decl_shape_head _ _ _ _ _ Hsh) as (t1 & r & -> & _); discriminate|].
  intros f' rest' Hf Hc. apply reg_decl_d_complete.
  apply (reg_decl_shape_transfer (Rf tiers f) (Rf tiers f') rest rest'); [exact (Rf_to_Rf tiers f f' rest rest' Hf Hc)|exact Hsh].
Qed.

(* ====================================================================================== *)
(* 3. lists of declarations (generic)                                                     *)
(* ====================================================================================== *)
(* a stopped parse: the errors pushed before lie in the tokens, the last is the fallible action's *)
Definition Fat (toks : list tok) (dgs : list pdiag) : Prop :=
  exists ds0 d, dgs = ds0 ++ [d] /\ fatal_form toks d /\ forall d0, In d0 ds0 -> token_aligned toks (snd d0).

Lemma fatal_form_app w toks d : fatal_form toks d -> fatal_form (w ++ toks) d.
Proof.
  intros (pre & p & t & post & -> & Hw & Hsp & Hk). exists (w ++ pre), p, t, post.
  split; [rewrite <- app_assoc; reflexivity|]. split; [exact Hw|]. split; [exact Hsp|].
  destruct Hk as [Hk|(Hk & Hp)]; [left; exact Hk|]. right. split; [exact Hk|].
  destruct Hp as [Hp|(Hp & pre' & b & lo & w0 & -> & Hb & Hlo)]; [left; exact Hp|].
  right. split; [exact Hp|]. exists (w ++ pre'), b, lo, w0. split; [rewrite <- app_assoc; reflexivity|]. split; assumption.
Qed.

Lemma Fat_app w toks ds1 ds2 : (forall dg, In dg ds1 -> token_aligned w (snd dg)) -> Fat toks ds2 ->
  Fat (w ++ toks) (ds1 ++ ds2).
Proof.
  intros Hal (ds0 & d & -> & Hf & Hal0). exists (ds1 ++ ds0), d. split; [rewrite <- app_assoc; reflexivity|].
  split; [apply fatal_form_app; exact Hf|]. intros d0 Hin. apply in_app_or in Hin. destruct Hin as [Hin|Hin].
  - exact (aligned_seg _ _ _ (Hal d0 Hin) (seg_here w toks)).
  - exact (aligned_seg _ _ _ (Hal0 d0 Hin) (seg_there toks w)).
Qed.

Lemma Fat_app_nil w toks ds : Fat toks ds -> Fat (w ++ toks) ds.
Proof. intros H. apply (Fat_app w toks [] ds); [intros dg []|exact H]. Qed.

Lemma Fat_one pre p t post k : too_wide t ->
  (k = KInvalidWireWidth /\ tk p = TColon) \/ (k = KInvalidConstant /\ tk p = TOpenBracket) ->
  Fat (pre ++ p :: t :: post) [(k, tspan t)].
Proof.
  intros Hw Hk. exists [], (k, tspan t). split; [reflexivity|]. split; [|intros d0 []].
  exists pre, p, t, post. split; [reflexivity|]. split; [exact Hw|]. split; [reflexivity|].
  destruct Hk as [[-> Hp]|[-> Hp]]; [left; split; [reflexivity|exact Hp]|right; split; [reflexivity|left; exact Hp]].
Qed.

Section ListD.
  Context {A : Type}.
  Variables (starts : token -> bool) (sep : token) (item : nat -> list tok -> pres (A * list tok)).

  Section Sound.
    Variable shape : list tok -> list tok -> A -> list pdiag -> Prop.
    Hypothesis item_sound : forall f toks d rest ds, item f toks = POk (d, rest) ds ->
      exists it, toks = it ++ rest /\ shape rest it d ds.

    Lemma list_d_sound : forall f toks ds rest dgs, list_d starts sep item f toks = POk (ds, rest) dgs ->
      exists w, toks = w ++ rest /\ list_shape starts sep shape rest w ds dgs.
    Proof.
      induction f as [|f IH]; intros toks ds rest dgs H; [discriminate H|].
      cbn [list_d] in H.
      destruct toks as [|t1 toks'].
      { inj3 H. exists []. split; [reflexivity|]. apply LS_nil. intros t r Hr. discriminate Hr. }
      destruct (starts (tk t1)) eqn:Es.
      2:{ inj3 H. exists []. split; [reflexivity|]. apply LS_nil. intros t r Hr. injection Hr as <- <-. exact Es. }
      destruct (item f (t1 :: toks')) as [[d rest1] ds1|ds1|] eqn:Ei; try discriminate H.
      destruct (item_sound _ _ _ _ _ Ei) as (it & Hit & Hsh).
      destruct (next_is sep rest1) eqn:En.
      - destruct rest1 as [|c rest1']; [discriminate En|]. cbn [next_is] in En. apply token_eqb_true in En.
        cbn [tl] in H.
        destruct (list_d starts sep item f rest1') as [[more rest2] ds2|ds2|] eqn:El; try discriminate H.
        inj3 H. destruct (IH _ _ _ _ El) as (w & Hw & Hl).
        exists (it ++ c :: w). split; [rewrite Hit, Hw; napp; reflexivity|].
        apply LS_cons; [rewrite <- Hw; exact Hsh|exact En|exact Hl].
      - inj3 H. exists it. split; [exact Hit|]. apply LS_last; assumption.
    Qed.
  End Sound.

  Section Stable.
    Hypothesis item_stable : IStab item.

    Lemma list_d_stable : forall f toks ds rest dgs, list_d starts sep item f toks = POk (ds, rest) dgs ->
      exists w, toks = w ++ rest /\ forall f' rest', (f <= f')%nat -> compat rest rest' ->
        list_d starts sep item f' (w ++ rest') = POk (ds, rest') dgs.
    Proof.
      induction f as [|f IH]; intros toks ds rest dgs H; [discriminate H|].
      cbn [list_d] in H.
      destruct toks as [|t1 toks'].
      { inj3 H. exists []. split; [reflexivity|]. intros f' rest' Hf Hc. apply compat_nil_l in Hc. subst rest'.
        fuelS f'. reflexivity. }
      destruct (starts (tk t1)) eqn:Es.
      2:{ inj3 H. exists []. split; [reflexivity|]. intros f' rest' Hf Hc. fuelS f'. cbn [app list_d].
          destruct rest' as [|t' r']; [reflexivity|]. cbn in Hc. injection Hc as Hc. rewrite <- Hc, Es. reflexivity. }
      destruct (item f (t1 :: toks')) as [[d rest1] ds1|ds1|] eqn:Ei; try discriminate H.
      destruct (item_stable _ _ _ _ _ Ei) as (it & Hit & Hne & St).
      assert (Hhead : exists it', it = t1 :: it').
      { destruct it as [|x it']; [congruence|]. cbn [app] in Hit. injection Hit as <- _. exists it'. reflexivity. }
      destruct Hhead as (it' & ->).
      destruct (next_is sep rest1) eqn:En.
      - destruct rest1 as [|c rest1']; [discriminate En|]. cbn [next_is] in En. cbn [tl] in H.
        destruct (list_d starts sep item f rest1') as [[more rest2] ds2|ds2|] eqn:El; try discriminate H.
        inj3 H. destruct (IH _ _ _ _ El) as (w & Hw & St2).
        exists ((t1 :: it') ++ c :: w). split; [rewrite Hit, Hw; napp; reflexivity|].
        intros f' rest' Hf Hc. fuelS f'.
        replace (((t1 :: it') ++ c :: w) ++ rest') with ((t1 :: it') ++ c :: w ++ rest') by (napp; reflexivity).
        cbn [list_d app]. rewrite Es. change (t1 :: it' ++ c :: w ++ rest') with ((t1 :: it') ++ c :: w ++ rest').
        rewrite (St f' (c :: w ++ rest')); [|lia|reflexivity]. cbn [next_is tl]. rewrite En.
        rewrite (St2 f' rest'); [|lia|exact Hc]. reflexivity.
      - inj3 H. exists (t1 :: it'). split; [exact Hit|].
        intros f' rest' Hf Hc. fuelS f'. cbn [list_d app]. rewrite Es.
        change (t1 :: it' ++ rest') with ((t1 :: it') ++ rest').
        rewrite (St f' rest'); [|lia|exact Hc]. rewrite (next_is_compat _ _ _ Hc En). reflexivity.
    Qed.
  End Stable.

  Section Fatal.
    Hypothesis item_aligned : forall f toks d rest ds, item f toks = POk (d, rest) ds ->
      exists it, toks = it ++ rest /\ forall dg, In dg ds -> token_aligned it (snd dg).
    Hypothesis item_fatal : forall f toks ds, item f toks = PFatal ds -> Fat toks ds.

    Lemma list_d_fatal : forall f toks dgs, list_d starts sep item f toks = PFatal dgs -> Fat toks dgs.
    Proof.
      induction f as [|f IH]; intros toks dgs H; [discriminate H|].
      cbn [list_d] in H.
      destruct toks as [|t1 toks']; [discriminate H|].
      destruct (starts (tk t1)); [|discriminate H].
      destruct (item f (t1 :: toks')) as [[d rest1] ds1|ds1|] eqn:Ei; try discriminate H.
      - destruct (next_is sep rest1) eqn:En; [|discriminate H].
        destruct rest1 as [|c rest1']; [discriminate En|]. cbn [tl] in H.
        destruct (list_d starts sep item f rest1') as [[more rest2] ds2|ds2|] eqn:El; try discriminate H.
        injection H as <-. destruct (item_aligned _ _ _ _ _ Ei) as (it & Hit & Hal).
        rewrite Hit. replace (it ++ c :: rest1') with ((it ++ [c]) ++ rest1') by (napp; reflexivity).
        apply Fat_app; [|exact (IH _ _ El)].
        intros dg Hin. exact (aligned_seg _ _ _ (Hal dg Hin) (seg_here it [c])).
      - injection H as <-. exact (item_fatal _ _ _ Ei).
    Qed.
  End Fatal.
End ListD.

(* the spanned parser's lists in the same form *)
Fixpoint list_sp {A : Type} (starts : token -> bool) (sep : token)
         (item : nat -> list tok -> option (A * list tok)) (fuel : nat) (toks : list tok)
  : option (list A * list tok) :=
  match fuel with
  | O => None
  | S f =>
      match toks with
      | t1 :: _ =>
          if starts (tk t1) then
            match item f toks with
            | Some (d, rest) =>
                if next_is sep rest then
                  match list_sp starts sep item f (tl rest) with
                  | Some (more, rest2) => Some (d :: more, rest2)
                  | None => None
                  end
                else Some ([d], rest)
            | None => None
            end
          else Some ([], toks)
      | [] => Some ([], toks)
      end
  end.

Section ListConservative.
  Context {A B : Type}.
  Variables (starts_sp starts_d : token -> bool) (sep : token).
  Variable item_sp : nat -> list tok -> option (A * list tok).
  Variable item_d : nat -> list tok -> pres (B * list tok).
  Variable inj : A -> B.
  Variable Q : list tok -> Prop.
  Hypothesis Q_sep : forall rest, next_is sep rest = true -> Q rest.
  Hypothesis starts_incl : forall t, starts_sp t = true -> starts_d t = true.
  Hypothesis starts_Q : forall t r, Q (t :: r) -> starts_sp (tk t) = false -> starts_d (tk t) = false.
  Hypothesis item_starts : forall f t r x, item_sp f (t :: r) = Some x -> starts_sp (tk t) = true.
  Hypothesis item_fwd : forall f toks d rest, item_sp f toks = Some (d, rest) -> Q rest ->
    item_d f toks = POk (inj d, rest) [].
  Hypothesis item_bwd : forall f toks d' rest, item_d f toks = POk (d', rest) [] ->
    exists d, d' = inj d /\ item_sp f toks = Some (d, rest).

  Lemma list_fwd : forall f toks ds rest, list_sp starts_sp sep item_sp f toks = Some (ds, rest) -> Q rest ->
    list_d starts_d sep item_d f toks = POk (map inj ds, rest) [].
  Proof.
    induction f as [|f IH]; intros toks ds rest H HQ; [discriminate H|].
    cbn [list_sp] in H. cbn [list_d].
    destruct toks as [|t1 toks']; [injection H as <- <-; reflexivity|].
    destruct (starts_sp (tk t1)) eqn:Es.
    2:{ injection H as <- <-. rewrite (starts_Q _ _ HQ Es). reflexivity. }
    rewrite (starts_incl _ Es).
    destruct (item_sp f (t1 :: toks')) as [[d rest1]|] eqn:Ei; [|discriminate H].
    destruct (next_is sep rest1) eqn:En.
    - rewrite (item_fwd _ _ _ _ Ei (Q_sep _ En)), En.
      destruct (list_sp starts_sp sep item_sp f (tl rest1)) as [[more rest2]|] eqn:El; [|discriminate H].
      injection H as <- <-. rewrite (IH _ _ _ El HQ). reflexivity.
    - injection H as <- <-. rewrite (item_fwd _ _ _ _ Ei HQ), En. reflexivity.
  Qed.

  Lemma list_bwd : forall f toks ds' rest, list_d starts_d sep item_d f toks = POk (ds', rest) [] ->
    exists ds, ds' = map inj ds /\ list_sp starts_sp sep item_sp f toks = Some (ds, rest).
  Proof.
    induction f as [|f IH]; intros toks ds' rest H; [discriminate H|].
    cbn [list_d] in H. cbn [list_sp].
    destruct toks as [|t1 toks']; [injection H as <- <-; exists []; split; reflexivity|].
    destruct (starts_d (tk t1)) eqn:Es.
    2:{ injection H as <- <-. exists []. split; [reflexivity|].
        destruct (starts_sp (tk t1)) eqn:Es'; [|reflexivity]. rewrite (starts_incl _ Es') in Es. discriminate Es. }
    destruct (item_d f (t1 :: toks')) as [[d' rest1] ds1|ds1|] eqn:Ei; try discriminate H.
    assert (Hd1 : ds1 = []).
    { destruct (next_is sep rest1).
      - destruct (list_d starts_d sep item_d f (tl rest1)) as [[more rest2] ds2|ds2|]; try discriminate H.
        injection H as _ _ Hnil. apply app_eq_nil in Hnil. exact (proj1 Hnil).
      - injection H as _ _ Hnil. exact Hnil. }
    subst ds1. destruct (item_bwd _ _ _ _ Ei) as (d & -> & Hsp).
    rewrite (item_starts _ _ _ _ Hsp), Hsp.
    destruct (next_is sep rest1) eqn:En.
    - destruct (list_d starts_d sep item_d f (tl rest1)) as [[more rest2] ds2|ds2|] eqn:El; try discriminate H.
      injection H as <- <- Hnil. cbn [app] in Hnil. subst ds2.
      destruct (IH _ _ _ El) as (ds & -> & Hl).
      exists (d :: ds). split; [reflexivity|]. rewrite Hl. reflexivity.
    - injection H as <- <-. exists [d]. split; reflexivity.
  Qed.
End ListConservative.

(* ====================================================================================== *)
(* 4. where the expression parser stopped                                                 *)
(* ====================================================================================== *)
Definition FF (toks : list tok) (sp : srcspan) : Prop :=
  exists pre p t post, toks = pre ++ p :: t :: post /\ too_wide t /\ sp = tspan t /\
    (tk p = TOpenBracket \/
     (tk p = TDotDot /\ exists pre' b lo w0, pre = pre' ++ [b; lo] /\ tk b = TOpenBracket /\ width_of lo w0)).

Lemma FF_app w toks sp : FF toks sp -> FF (w ++ toks) sp.
Proof.
  intros (pre & p & t & post & -> & Hw & Hsp & Hp). exists (w ++ pre), p, t, post.
  split; [rewrite <- app_assoc; reflexivity|]. split; [exact Hw|]. split; [exact Hsp|].
  destruct Hp as [Hp|(Hp & pre' & b & lo & w0 & -> & Hb & Hlo)]; [left; exact Hp|].
  right. split; [exact Hp|]. exists (w ++ pre'), b, lo, w0. split; [rewrite <- app_assoc; reflexivity|]. split; assumption.
Qed.

Lemma FF_cons t toks sp : FF toks sp -> FF (t :: toks) sp.
Proof. intros H. exact (FF_app [t] toks sp H). Qed.

Lemma FF_Fat toks sp : FF toks sp -> Fat toks [(KInvalidConstant, sp)].
Proof.
  intros (pre & p & t & post & -> & Hw & -> & Hp). exists [], (KInvalidConstant, tspan t).
  split; [reflexivity|]. split; [|intros d0 []].
  exists pre, p, t, post. split; [reflexivity|]. split; [exact Hw|]. split; [reflexivity|].
  right. split; [reflexivity|exact Hp].
Qed.

Section FatalFinder.
  Variable tiers : list tier.

  Lemma sp_tiers_suffix f ts toks n ext rest : parse_tiers_sp tiers f ts toks = Some (n, ext, rest) ->
    exists w, toks = w ++ rest.
  Proof. intros H. destruct (proj1 (stable_all tiers f) ts _ _ _ H) as (w & Hw & _). exists w. exact Hw. Qed.
  Lemma sp_simple_suffix f toks n ext rest : parse_simple_sp tiers f toks = Some (n, ext, rest) ->
    exists w, toks = w ++ rest.
  Proof.
    intros H. destruct (proj1 (proj2 (proj2 (proj2 (stable_all tiers f)))) _ _ _ H) as (w & Hw & _). exists w. exact Hw.
  Qed.

  Definition ff_at (f : nat) : Prop :=
    (forall ts toks sp, fatal_tiers tiers f ts toks = Some sp -> FF toks sp) /\
    (forall rest ops toks sp, fatal_left_loop tiers f rest ops toks = Some sp -> FF toks sp) /\
    (forall toks sp, fatal_term tiers f toks = Some sp -> FF toks sp) /\
    (forall toks sp, fatal_simple tiers f toks = Some sp -> FF toks sp) /\
    (forall toks sp, fatal_mux_options tiers f toks = Some sp -> FF toks sp) /\
    (forall toks sp, fatal_commas_exprs tiers f toks = Some sp -> FF toks sp).

  Lemma ff_all : forall f, ff_at f.
  Proof.
    induction f as [|f IH].
    - unfold ff_at. repeat split; intros; discriminate.
    - destruct IH as (IH1 & IH2 & IH3 & IH4 & IH5 & IH6). unfold ff_at. repeat split.
      + (* tiers *)
        intros ts toks sp H. cbn [fatal_tiers] in H.
        destruct ts as [|[[| | |] ops] rest]; [exact (IH3 _ _ H)| | | |discriminate H].
        * destruct (parse_tiers_sp tiers f rest toks) as [[[l ext] toks1]|] eqn:E; [|exact (IH1 _ _ _ H)].
          destruct (sp_tiers_suffix _ _ _ _ _ _ E) as (w & ->). apply FF_app. exact (IH2 _ _ _ _ H).
        * destruct (parse_tiers_sp tiers f rest toks) as [[[l ext] [|t toks1]]|] eqn:E;
            [discriminate H| |exact (IH1 _ _ _ H)].
          destruct (op_of_token ops (tk t)); [|discriminate H].
          destruct (parse_tiers_sp tiers f rest toks1); [discriminate H|].
          destruct (sp_tiers_suffix _ _ _ _ _ _ E) as (w & ->). apply FF_app, FF_cons. exact (IH1 _ _ _ H).
        * destruct (parse_tiers_sp tiers f rest toks) as [[[l ext] [|t toks1]]|] eqn:E;
            [discriminate H| |exact (IH1 _ _ _ H)].
          destruct (token_eqb (tk t) TIn); [|discriminate H].
          destruct toks1 as [|t2 toks2]; [discriminate H|].
          destruct (token_eqb (tk t2) TOpenBrace); [|discriminate H].
          destruct (parse_commas_exprs_sp tiers f toks2); [discriminate H|].
          destruct (sp_tiers_suffix _ _ _ _ _ _ E) as (w & ->). apply FF_app, FF_cons, FF_cons. exact (IH6 _ _ H).
      + (* left loop *)
        intros rest ops toks sp H. cbn [fatal_left_loop] in H.
        destruct toks as [|t toks1]; [discriminate H|].
        destruct (op_of_token ops (tk t)); [|discriminate H].
        destruct (parse_tiers_sp tiers f rest toks1) as [[[r extr] toks2]|] eqn:E.
        * destruct (sp_tiers_suffix _ _ _ _ _ _ E) as (w & ->). apply FF_cons, FF_app. exact (IH2 _ _ _ _ H).
        * apply FF_cons. exact (IH1 _ _ _ H).
      + (* term *)
        intros toks sp H. cbn [fatal_term] in H.
        destruct toks as [|t toks1]; [discriminate H|].
        destruct (unop_of_token (tk t)); [apply FF_cons; exact (IH4 _ _ H)|].
        destruct (parse_simple_sp tiers f (t :: toks1)) as [[[e exte] rest]|] eqn:E; [|exact (IH4 _ _ H)].
        destruct rest as [|t1 [|t2 rest2]]; try discriminate H.
        destruct (token_eqb (tk t1) TOpenBracket) eqn:Eb; [|discriminate H]. apply token_eqb_true in Eb.
        destruct (sp_simple_suffix _ _ _ _ _ E) as (w & Hw). rewrite Hw.
        destruct (oversize (tk t2)) eqn:Eo.
        { injection H as <-. exists w, t1, t2, rest2. split; [reflexivity|]. split; [apply too_wide_oversize; exact Eo|].
          split; [reflexivity|left; exact Eb]. }
        destruct (small_constant (tk t2)) as [lo|] eqn:Elo; [|discriminate H].
        destruct rest2 as [|t3 [|t4 r]]; try discriminate H.
        destruct (token_eqb (tk t3) TDotDot) eqn:Ed; [|discriminate H]. apply token_eqb_true in Ed.
        destruct (oversize (tk t4)) eqn:Eo4; [|discriminate H].
        cbn [andb] in H. injection H as <-. exists (w ++ [t1; t2]), t3, t4, r.
        split; [rewrite <- app_assoc; reflexivity|]. split; [apply too_wide_oversize; exact Eo4|].
        split; [reflexivity|]. right. split; [exact Ed|]. exists w, t1, t2, lo.
        split; [reflexivity|]. split; [exact Eb|apply width_of_small; exact Elo].
      + (* simple *)
        intros toks sp H. cbn [fatal_simple] in H.
        destruct toks as [|t toks1]; [discriminate H|].
        destruct (tk t); try discriminate H.
        * destruct (parse_tiers_sp tiers f tiers toks1) as [[[e ext] [|t2 toks2]]|] eqn:E;
            [discriminate H| |apply FF_cons; exact (IH1 _ _ _ H)].
          destruct (token_eqb (tk t2) TCloseParen); [discriminate H|].
          destruct (token_eqb (tk t2) TDotDot); [|discriminate H].
          destruct (parse_tiers_sp tiers f tiers toks2); [discriminate H|].
          destruct (sp_tiers_suffix _ _ _ _ _ _ E) as (w & ->). apply FF_cons, FF_app, FF_cons. exact (IH1 _ _ _ H).
        * destruct (parse_mux_options_sp tiers f toks1); [discriminate H|]. apply FF_cons. exact (IH5 _ _ H).
      + (* mux options *)
        intros toks sp H. cbn [fatal_mux_options] in H.
        destruct toks as [|t toks0]; [discriminate H|].
        destruct (token_eqb (tk t) TCloseBracket); [discriminate H|].
        destruct (parse_tiers_sp tiers f tiers (t :: toks0)) as [[[c ext] [|t1 toks1]]|] eqn:E;
          [discriminate H| |exact (IH1 _ _ _ H)].
        destruct (token_eqb (tk t1) TColon); [|discriminate H].
        destruct (sp_tiers_suffix _ _ _ _ _ _ E) as (w & ->).
        destruct (parse_tiers_sp tiers f tiers toks1) as [[[v extv] [|t2 toks2]]|] eqn:E2;
          [discriminate H| |apply FF_app, FF_cons; exact (IH1 _ _ _ H)].
        destruct (token_eqb (tk t2) TSemicolon); [|discriminate H].
        destruct (sp_tiers_suffix _ _ _ _ _ _ E2) as (w2 & ->).
        apply FF_app, FF_cons, FF_app, FF_cons. exact (IH5 _ _ H).
      + (* items *)
        intros toks sp H. cbn [fatal_commas_exprs] in H.
        destruct toks as [|t toks0]; [discriminate H|].
        destruct (token_eqb (tk t) TCloseBrace); [discriminate H|].
        destruct (parse_tiers_sp tiers f tiers (t :: toks0)) as [[[c ext] [|t1 toks1]]|] eqn:E;
          [discriminate H| |exact (IH1 _ _ _ H)].
        destruct (token_eqb (tk t1) TComma); [|discriminate H].
        destruct (sp_tiers_suffix _ _ _ _ _ _ E) as (w & ->). apply FF_app, FF_cons. exact (IH6 _ _ H).
  Qed.

  Lemma fatal_of_Fat {A} (r : option srcspan) toks ds : (forall sp, r = Some sp -> FF toks sp) ->
    @fatal_of A r = PFatal ds -> Fat toks ds.
  Proof. intros Hr H. destruct r as [sp|]; [|discriminate H]. injection H as <-. apply FF_Fat. apply Hr. reflexivity. Qed.

  Lemma expr_d_fatal f toks ds : expr_d tiers f toks = PFatal ds -> Fat toks ds.
  Proof.
    unfold expr_d. destruct (parse_expr_sp tiers f toks); [discriminate|].
    apply fatal_of_Fat. intros sp Hsp. exact (proj1 (ff_all f) _ _ _ Hsp).
  Qed.
End FatalFinder.

(* ====================================================================================== *)
(* 5. the diagnostics of one declaration lie in its tokens                                *)
(* ====================================================================================== *)
Lemma aligned_prefix pre post : pre <> [] -> token_aligned (pre ++ post) (extent pre).
Proof. intros Hne. exact (aligned_sub pre (pre ++ post) Hne (seg_here pre post)). Qed.

Lemma aligned_head t w : token_aligned (t :: w) (tspan t).
Proof. apply aligned_tok. left. reflexivity. Qed.

Section ShapeAligned.
  Variable R : list tok -> list tok -> sexpr -> Prop.
  Variable RO : list tok -> list tok -> sarms -> Prop.
  Hypothesis R_ne : forall we rest e, R we rest e -> we <> [].

  Lemma wire_decl_shape_aligned rest it d ds : wire_decl_shape R rest it d ds ->
    forall dg, In dg ds -> token_aligned it (snd dg).
  Proof.
    intros H dg Hin. destruct H; cbn [In] in Hin.
    - destruct Hin.
    - destruct Hin as [<-|[]]. apply aligned_head.
    - assert (Hal : token_aligned (t1 :: t2 :: we) (tstart t1, tend t2))
        by exact (aligned_prefix [t1; t2] we ltac:(discriminate)).
      destruct Hin as [<-|[<-|[]]]; exact Hal.
    - destruct Hin as [<-|[]]. exact (aligned_prefix [t1; t2; t3; t4] we ltac:(discriminate)).
  Qed.

  Lemma const_decl_shape_aligned rest it d ds : const_decl_shape R rest it d ds ->
    forall dg, In dg ds -> token_aligned it (snd dg).
  Proof.
    intros H dg Hin. destruct H; cbn [In] in Hin.
    - destruct Hin.
    - destruct Hin as [<-|[]]. cbn [snd].
      apply (aligned_sub [t2; t3] (t1 :: t2 :: t3 :: t4 :: we)); [discriminate|]. exists [t1], (t4 :: we). reflexivity.
  Qed.

  Lemma assign_shape_aligned rest it a ds : assign_shape R RO rest it a ds ->
    forall dg, In dg ds -> token_aligned it (snd dg).
  Proof.
    intros H dg Hin. destruct H; cbn [In] in Hin.
    - destruct Hin.
    - destruct Hin as [<-|[]]. apply aligned_head.
  Qed.

  Lemma reg_decl_shape_aligned rest it r ds : reg_decl_shape R rest it r ds ->
    forall dg, In dg ds -> token_aligned it (snd dg).
  Proof.
    intros H dg Hin.
    destruct H as [t1 t2 t3 t4 we e nm w Hn Ht2 Hw Ht4 Hrd|t1 t2 we e nm Hn Ht2 Hrd|t1 t2 t3 we e nm Ht1 Hn Ht3 Hrd
                  |t1 t2 t3 t4 t5 we e nm w Ht1 Hn Ht3 Hw Ht5 Hrd]; cbn [In] in Hin.
    - destruct Hin.
    - destruct Hin as [<-|[]]. cbn [snd].
      pose proof (R_ne _ _ _ Hrd) as Hne. rewrite <- (last_end_cons2 t1 t2 we Hne).
      exact (aligned_extent (t1 :: t2 :: we) ltac:(discriminate)).
    - destruct Hin as [<-|[]]. apply aligned_head.
    - destruct Hin as [<-|[]]. apply aligned_head.
  Qed.
End ShapeAligned.

Lemma Rf_ne tiers f we rest e : Rf tiers f we rest e -> we <> [].
Proof. intros [H _]. exact H. Qed.
Lemma reads_expr_ne tiers we rest e : reads_expr tiers we rest e -> we <> [].
Proof. intros [H _]. exact H. Qed.

Section ItemFatal.
  Variable tiers : list tier.

  Ltac expr_fatal H E pre :=
    injection H as <-; apply (Fat_app_nil pre); exact (expr_d_fatal _ _ _ _ E).

  Lemma wire_decl_d_fatal f eof toks ds : wire_decl_d tiers f eof toks = PFatal ds -> Fat toks ds.
  Proof.
    unfold wire_decl_d. intros H.
    destruct toks as [|t1 rest1]; [discriminate H|].
    destruct (tk t1); try discriminate H.
    destruct rest1 as [|t2 rest2]; [discriminate H|].
    destruct (token_eqb (tk t2) TColon) eqn:Ec.
    - apply token_eqb_true in Ec. destruct rest2 as [|t3 rest3]; [discriminate H|].
      destruct (width_constant (tk t3)) as [w| |] eqn:Ew; [| |discriminate H].
      + destruct rest3 as [|t4 rest4]; [discriminate H|].
        destruct (token_eqb (tk t4) TAssign); [|discriminate H].
        destruct (expr_d tiers f rest4) as [[[e exte] rest5] dse|dse|] eqn:E; try discriminate H.
        expr_fatal H E [t1; t2; t3; t4].
      + destruct (follows_wire_width eof rest3); [|discriminate H]. injection H as <-.
        apply (Fat_one [t1] t2 t3 rest3); [apply too_wide_wc; exact Ew|left; split; [reflexivity|exact Ec]].
    - destruct (token_eqb (tk t2) TAssign); [|discriminate H].
      destruct (expr_d tiers f rest2) as [[[e exte] rest3] dse|dse|] eqn:E; try discriminate H.
      expr_fatal H E [t1; t2].
  Qed.

  Lemma const_decl_d_fatal f toks ds : const_decl_d tiers f toks = PFatal ds -> Fat toks ds.
  Proof.
    unfold const_decl_d. intros H.
    destruct toks as [|t1 [|t2 rest2]]; try discriminate H.
    destruct (tk t1); try discriminate H.
    destruct (token_eqb (tk t2) TAssign).
    - destruct (expr_d tiers f rest2) as [[[e exte] rest3] dse|dse|] eqn:E; try discriminate H.
      expr_fatal H E [t1; t2].
    - destruct (token_eqb (tk t2) TColon) eqn:Ec; [|discriminate H]. apply token_eqb_true in Ec.
      destruct rest2 as [|t3 [|t4 rest4]]; try discriminate H.
      destruct (width_constant (tk t3)) as [w| |] eqn:Ew; [| |discriminate H].
      + destruct (token_eqb (tk t4) TAssign); [|discriminate H].
        destruct (expr_d tiers f rest4) as [[[e exte] rest5] dse|dse|] eqn:E; try discriminate H.
        expr_fatal H E [t1; t2; t3; t4].
      + destruct (token_eqb (tk t4) TAssign); [|discriminate H]. injection H as <-.
        apply (Fat_one [t1] t2 t3 (t4 :: rest4)); [apply too_wide_wc; exact Ew|left; split; [reflexivity|exact Ec]].
  Qed.

  Lemma assignment_d_fatal f toks ds : assignment_d tiers f toks = PFatal ds -> Fat toks ds.
  Proof.
    unfold assignment_d. intros H.
    destruct toks as [|t1 [|t2 rest2]]; try discriminate H.
    destruct (tk t1); try discriminate H.
    destruct (token_eqb (tk t2) TOpenBracket).
    - destruct (parse_mux_options_sp tiers f rest2) as [[[|c v more] [|t3 rest3]]|] eqn:E; try discriminate H.
      + destruct (token_eqb (tk t3) TCloseBracket); discriminate H.
      + apply (Fat_app_nil [t1; t2]). revert H. apply fatal_of_Fat.
        intros sp Hsp. exact (proj1 (proj2 (proj2 (proj2 (proj2 (ff_all tiers f))))) _ _ Hsp).
    - destruct (parse_targets_sp (List.length (t1 :: t2 :: rest2)) (t1 :: t2 :: rest2)) as [names toks1] eqn:Et.
      destruct names as [|n0 names]; [discriminate H|].
      destruct (targets_sound _ _ _ _ (Nat.le_refl _) Et) as [(Hnil & _)|(wn & Hwn & _)]; [discriminate Hnil|].
      destruct (expr_d tiers f toks1) as [[[e exte] rest3] dse|dse|] eqn:E; try discriminate H.
      injection H as <-. rewrite Hwn. apply Fat_app_nil. exact (expr_d_fatal _ _ _ _ E).
  Qed.

  Lemma reg_value_d_fatal f toks mk ds : reg_value_d tiers f toks mk = PFatal ds -> Fat toks ds.
  Proof.
    unfold reg_value_d. intros H.
    destruct (expr_d tiers f toks) as [[[e exte] rest3] dse|dse|] eqn:E; try discriminate H.
    - destruct (mk e exte). discriminate H.
    - injection H as <-. exact (expr_d_fatal _ _ _ _ E).
  Qed.

  Lemma reg_width_d_fatal {A} p toks (k : N -> list tok -> pres A) ds : tk p = TColon ->
    reg_width_d toks k = PFatal ds -> (forall w rest4, k w rest4 = PFatal ds -> Fat rest4 ds) ->
    Fat (p :: toks) ds.
  Proof.
    unfold reg_width_d. intros Hp H Hk. destruct toks as [|t3 [|t4 rest4]]; try discriminate H.
    destruct (width_constant (tk t3)) as [w| |] eqn:Ew; [| |discriminate H].
    - destruct (token_eqb (tk t4) TAssign); [|discriminate H].
      apply (Fat_app_nil [p; t3; t4]). exact (Hk _ _ H).
    - destruct (token_eqb (tk t4) TAssign); [|discriminate H]. injection H as <-.
      apply (Fat_one [] p t3 (t4 :: rest4)); [apply too_wide_wc; exact Ew|left; split; [reflexivity|exact Hp]].
  Qed.

  Lemma reg_decl_d_fatal f toks ds : reg_decl_d tiers f toks = PFatal ds -> Fat toks ds.
  Proof.
    unfold reg_decl_d. intros H.
    destruct toks as [|t1 [|t2 rest2]]; try discriminate H.
    destruct (tk t1); try discriminate H.
    - destruct (tk t2); try discriminate H.
      destruct rest2 as [|t3 rest3]; [discriminate H|].
      destruct (token_eqb (tk t3) TAssign).
      + apply (Fat_app_nil [t1; t2; t3]). exact (reg_value_d_fatal _ _ _ _ H).
      + destruct (token_eqb (tk t3) TColon) eqn:Ec; [|discriminate H]. apply token_eqb_true in Ec.
        apply (Fat_app_nil [t1; t2]). apply (reg_width_d_fatal t3 rest3 _ ds Ec H).
        intros w rest5 H'. exact (reg_value_d_fatal _ _ _ _ H').
    - destruct (token_eqb (tk t2) TAssign).
      + apply (Fat_app_nil [t1; t2]). exact (reg_value_d_fatal _ _ _ _ H).
      + destruct (token_eqb (tk t2) TColon) eqn:Ec; [|discriminate H]. apply token_eqb_true in Ec.
        apply (Fat_app_nil [t1]). apply (reg_width_d_fatal t2 rest2 _ ds Ec H).
        intros w rest4 H'. exact (reg_value_d_fatal _ _ _ _ H').
  Qed.

  (* the diagnostics of a completed declaration lie in its tokens *)
  Lemma wire_decl_d_aligned eof f toks d rest ds : wire_decl_d tiers f eof toks = POk (d, rest) ds ->
    exists it, toks = it ++ rest /\ forall dg, In dg ds -> token_aligned it (snd dg).
  Proof.
    intros H. destruct (wire_decl_d_sound _ _ _ _ _ _ _ H) as (it & Hit & Hsh). exists it. split; [exact Hit|].
    exact (wire_decl_shape_aligned _ _ _ _ _ Hsh).
  Qed.
  Lemma const_decl_d_aligned f toks d rest ds : const_decl_d tiers f toks = POk (d, rest) ds ->
    exists it, toks = it ++ rest /\ forall dg, In dg ds -> token_aligned it (snd dg).
  Proof.
    intros H. destruct (const_decl_d_sound _ _ _ _ _ _ H) as (it & Hit & Hsh). exists it. split; [exact Hit|].
    exact (const_decl_shape_aligned _ _ _ _ _ Hsh).
  Qed.
  Lemma assignment_d_aligned f toks d rest ds : assignment_d tiers f toks = POk (d, rest) ds ->
    exists it, toks = it ++ rest /\ forall dg, In dg ds -> token_aligned it (snd dg).
  Proof.
    intros H. destruct (assignment_d_sound _ _ _ _ _ _ H) as (it & Hit & Hsh). exists it. split; [exact Hit|].
    exact (assign_shape_aligned _ _ _ _ _ _ Hsh).
  Qed.
  Lemma reg_decl_d_aligned f toks d rest ds : reg_decl_d tiers f toks = POk (d, rest) ds ->
    exists it, toks = it ++ rest /\ forall dg, In dg ds -> token_aligned it (snd dg).
  Proof.
    intros H. destruct (reg_decl_d_sound _ _ _ _ _ _ H) as (it & Hit & Hsh). exists it. split; [exact Hit|].
    exact (reg_decl_shape_aligned _ (Rf_ne tiers f) _ _ _ _ Hsh).
  Qed.
End ItemFatal.

(* ====================================================================================== *)
(* 6. the lists of the spanned parser in the generic form; one declaration, conservatively *)
(* ====================================================================================== *)
Definition wire_item_sp (_ : nat) (toks : list tok) : option (swire_decl * list tok) :=
  match toks with
  | t1 :: t2 :: t3 :: toks1 =>
      match tk t1, small_constant (tk t3) with
      | TIdentifier name, Some w =>
          if token_eqb (tk t2) TColon
          then Some ((string_of_name name, Bits w, (tstart t1, tend t3)), toks1) else None
      | _, _ => None
      end
  | _ => None
  end.

Lemma wire_decls_sp_list : forall f toks,
  parse_wire_decls_sp f toks = list_sp starts_name TComma wire_item_sp f toks.
Proof.
  induction f as [|f IH]; intros toks; [reflexivity|].
  cbn [parse_wire_decls_sp list_sp].
  destruct toks as [|t1 [|t2 [|t3 toks1]]]; [reflexivity| | |].
  - destruct (tk t1); reflexivity.
  - destruct (tk t1); reflexivity.
  - unfold wire_item_sp.
    destruct (tk t1) eqn:Ht1; cbn [starts_name]; try (destruct (small_constant (tk t3)); reflexivity).
    destruct (small_constant (tk t3)) as [w|]; [|reflexivity].
    destruct (token_eqb (tk t2) TColon); [|reflexivity].
    destruct toks1 as [|t4 toks2]; [reflexivity|]. cbn [next_is tl].
    destruct (token_eqb (tk t4) TComma); [|reflexivity]. rewrite IH. reflexivity.
Qed.

Section ItemConservative.
  Variable tiers : list tier.

  Definition const_item_sp (f : nat) (toks : list tok) : option (sconst_decl * list tok) :=
    match toks with
    | t1 :: t2 :: toks1 =>
        match tk t1 with
        | TIdentifier name =>
            if token_eqb (tk t2) TAssign then
              match parse_expr_sp tiers f toks1 with
              | Some (e, _, rest) => Some ((string_of_name name, tspan t1, e), rest)
              | None => None
              end
            else None
        | _ => None
        end
    | _ => None
    end.

  Lemma const_decls_sp_list : forall f toks,
    parse_const_decls_sp tiers f toks = list_sp starts_name TComma const_item_sp f toks.
  Proof.
    induction f as [|f IH]; intros toks; [reflexivity|].
    cbn [parse_const_decls_sp list_sp].
    destruct toks as [|t1 [|t2 toks1]]; [reflexivity| |].
    - destruct (tk t1); reflexivity.
    - unfold const_item_sp. destruct (tk t1) eqn:Ht1; cbn [starts_name]; try reflexivity.
      destruct (token_eqb (tk t2) TAssign); [|reflexivity].
      destruct (parse_expr_sp tiers f toks1) as [[[e exte] [|t3 toks2]]|]; try reflexivity.
      cbn [next_is tl]. destruct (token_eqb (tk t3) TComma); [|reflexivity]. rewrite IH. reflexivity.
  Qed.

  Definition reg_item_sp (f : nat) (toks : list tok) : option (sreg_decl * list tok) :=
    match toks with
    | t1 :: t2 :: t3 :: t4 :: toks1 =>
        match tk t1, small_constant (tk t3) with
        | TIdentifier name, Some w =>
            if token_eqb (tk t2) TColon && token_eqb (tk t4) TAssign then
              match parse_expr_sp tiers f toks1 with
              | Some (e, exte, rest) => Some ((string_of_name name, Bits w, e, (tstart t1, snd exte)), rest)
              | None => None
              end
            else None
        | _, _ => None
        end
    | _ => None
    end.

  Lemma reg_decls_sp_list : forall f toks,
    parse_register_decls_sp tiers f toks = list_sp starts_name TSemicolon reg_item_sp f toks.
  Proof.
    induction f as [|f IH]; intros toks; [reflexivity|].
    cbn [parse_register_decls_sp list_sp].
    destruct toks as [|t1 [|t2 [|t3 [|t4 toks1]]]]; [reflexivity| | | |].
    - destruct (tk t1); reflexivity.
    - destruct (tk t1); reflexivity.
    - destruct (tk t1); reflexivity.
    - unfold reg_item_sp.
      destruct (tk t1) eqn:Ht1; cbn [starts_name]; try (destruct (small_constant (tk t3)); reflexivity).
      destruct (small_constant (tk t3)) as [w|]; [|reflexivity].
      destruct (token_eqb (tk t2) TColon && token_eqb (tk t4) TAssign); [|reflexivity].
      destruct (parse_expr_sp tiers f toks1) as [[[e exte] [|t5 toks2]]|]; try reflexivity.
      cbn [next_is tl]. destruct (token_eqb (tk t5) TSemicolon); [|reflexivity].
      rewrite IH. reflexivity.
  Qed.
End ItemConservative.

Section ItemConservative2.
  Variable tiers : list tier.

  Lemma wire_item_fwd eof f toks d rest : wire_item_sp f toks = Some (d, rest) -> next_is TAssign rest = false ->
    wire_decl_d tiers f eof toks = POk (d, rest) [].
  Proof.
    unfold wire_item_sp. intros H Hna.
    destruct toks as [|t1 [|t2 [|t3 toks1]]]; try discriminate H.
    destruct (tk t1) eqn:Ht1; try (destruct (small_constant (tk t3)); discriminate H).
    destruct (small_constant (tk t3)) as [w|] eqn:Ew; [|discriminate H].
    destruct (token_eqb (tk t2) TColon) eqn:Ec; [|discriminate H]. injection H as <- <-.
    change (t1 :: t2 :: t3 :: toks1) with ([t1; t2; t3] ++ toks1). apply wire_decl_d_complete.
    apply WS_plain; [exists name; split; [exact Ht1|reflexivity]|exact (token_eqb_true _ _ Ec)|
                     apply width_of_small; exact Ew|exact Hna].
  Qed.

  Lemma wire_item_bwd eof f toks d rest : wire_decl_d tiers f eof toks = POk (d, rest) [] ->
    exists d0, d = (fun x : swire_decl => x) d0 /\ wire_item_sp f toks = Some (d0, rest).
  Proof.
    intros H. destruct (wire_decl_d_sound _ _ _ _ _ _ _ H) as (it & -> & Hsh). exists d. split; [reflexivity|].
    inversion Hsh as [t1 t2 t3 nm w (name & Ht1 & ->) Ht2 Hw Hna| | |]; subst.
    unfold wire_item_sp. cbn [app]. rewrite Ht1, (proj1 (width_of_small _ _) Hw), Ht2. reflexivity.
  Qed.

  Lemma wire_item_starts f t r x : wire_item_sp f (t :: r) = Some x -> starts_name (tk t) = true.
  Proof.
    unfold wire_item_sp. destruct r as [|t2 [|t3 toks1]]; try discriminate.
    destruct (tk t); try (destruct (small_constant (tk t3)); discriminate). reflexivity.
  Qed.

  Lemma const_item_fwd f toks d rest : const_item_sp tiers f toks = Some (d, rest) -> True ->
    const_decl_d tiers f toks = POk (d, rest) [].
  Proof.
    unfold const_item_sp, const_decl_d. intros H _.
    destruct toks as [|t1 [|t2 toks1]]; try discriminate H.
    destruct (tk t1); try discriminate H.
    destruct (token_eqb (tk t2) TAssign); [|discriminate H].
    unfold expr_d. destruct (parse_expr_sp tiers f toks1) as [[[e exte] rest1]|]; [|discriminate H].
    injection H as <- <-. reflexivity.
  Qed.

  Lemma const_item_bwd f toks d rest : const_decl_d tiers f toks = POk (d, rest) [] ->
    exists d0, d = (fun x : sconst_decl => x) d0 /\ const_item_sp tiers f toks = Some (d0, rest).
  Proof.
    intros H. destruct (const_decl_d_sound _ _ _ _ _ _ H) as (it & -> & Hsh). exists d. split; [reflexivity|].
    inversion Hsh as [t1 t2 we e nm (name & Ht1 & ->) Ht2 [_ HR]|]; subst.
    unfold const_item_sp. cbn [app]. rewrite Ht1, Ht2. cbn [token_eqb]. rewrite HR. reflexivity.
  Qed.

  Lemma const_item_starts f t r x : const_item_sp tiers f (t :: r) = Some x -> starts_name (tk t) = true.
  Proof. unfold const_item_sp. destruct r as [|t2 toks1]; try discriminate. destruct (tk t); try discriminate. reflexivity. Qed.

  Lemma reg_item_fwd f toks r rest : reg_item_sp tiers f toks = Some (r, rest) -> next_is TWire rest = false ->
    reg_decl_d tiers f toks = POk (DReg r, rest) [].
  Proof.
    unfold reg_item_sp. intros H _.
    destruct toks as [|t1 [|t2 [|t3 [|t4 toks1]]]]; try discriminate H.
    destruct (tk t1) eqn:Ht1; try (destruct (small_constant (tk t3)); discriminate H).
    destruct (small_constant (tk t3)) as [w|] eqn:Ew; [|discriminate H].
    destruct (token_eqb (tk t2) TColon && token_eqb (tk t4) TAssign) eqn:Ec; [|discriminate H].
    apply andb_prop in Ec. destruct Ec as [Ec Ea].
    destruct (parse_expr_sp tiers f toks1) as [[[e exte] rest1]|] eqn:E; [|discriminate H]. injection H as <- <-.
    destruct (expr_consumed _ _ _ _ _ _ E) as (we & -> & HR & ->).
    change (t1 :: t2 :: t3 :: t4 :: we ++ rest1) with ((t1 :: t2 :: t3 :: t4 :: we) ++ rest1).
    apply reg_decl_d_complete. cbn [snd extent].
    apply (RS_plain _ _ _ _ _ _ we e);
      [exists name; split; [exact Ht1|reflexivity]|exact (token_eqb_true _ _ Ec)|apply width_of_small; exact Ew|
       exact (token_eqb_true _ _ Ea)|exact HR].
  Qed.

  Lemma reg_item_bwd f toks d rest : reg_decl_d tiers f toks = POk (d, rest) [] ->
    exists r, d = DReg r /\ reg_item_sp tiers f toks = Some (r, rest).
  Proof.
    intros H. destruct (reg_decl_d_sound _ _ _ _ _ _ H) as (it & -> & Hsh).
    inversion Hsh as [t1 t2 t3 t4 we e nm w (name & Ht1 & ->) Ht2 Hw Ht4 [_ HR]| | |]; subst.
    eexists. split; [reflexivity|].
    unfold reg_item_sp. cbn [app]. rewrite Ht1, (proj1 (width_of_small _ _) Hw), Ht2, Ht4. cbn [token_eqb andb].
    rewrite HR. reflexivity.
  Qed.

  Lemma reg_item_starts f t r x : reg_item_sp tiers f (t :: r) = Some x -> starts_name (tk t) = true.
  Proof.
    unfold reg_item_sp. destruct r as [|t2 [|t3 [|t4 toks1]]]; try discriminate.
    destruct (tk t); try (destruct (small_constant (tk t3)); discriminate). reflexivity.
  Qed.

  Lemma sep_comma_not_assign rest : next_is TComma rest = true -> next_is TAssign rest = false.
  Proof. destruct rest as [|t r]; [discriminate|]. cbn [next_is]. intros H. apply token_eqb_true in H. rewrite H. reflexivity. Qed.
  Lemma sep_semi_not_wire rest : next_is TSemicolon rest = true -> next_is TWire rest = false.
  Proof. destruct rest as [|t r]; [discriminate|]. cbn [next_is]. intros H. apply token_eqb_true in H. rewrite H. reflexivity. Qed.

  (* ---- the three lists ---- *)
  Lemma wire_decls_fwd eof f toks ds rest : parse_wire_decls_sp f toks = Some (ds, rest) ->
    next_is TAssign rest = false -> wire_decls_d tiers f eof toks = POk (ds, rest) [].
  Proof.
    intros H HQ. rewrite wire_decls_sp_list in H. unfold wire_decls_d.
    rewrite <- (map_id ds).
    apply (list_fwd starts_name starts_name TComma wire_item_sp (fun f => wire_decl_d tiers f eof) (fun x => x)
                    (fun rest => next_is TAssign rest = false) sep_comma_not_assign
                    (fun t H => H) (fun t r _ H => H) (wire_item_fwd eof) f toks ds rest H HQ).
  Qed.

  Lemma wire_decls_bwd eof f toks ds rest : wire_decls_d tiers f eof toks = POk (ds, rest) [] ->
    parse_wire_decls_sp f toks = Some (ds, rest).
  Proof.
    intros H. rewrite wire_decls_sp_list.
    destruct (list_bwd starts_name starts_name TComma wire_item_sp (fun f => wire_decl_d tiers f eof) (fun x => x)
                       (fun t H => H) wire_item_starts (wire_item_bwd eof) f toks ds rest H) as (ds0 & -> & Hl).
    rewrite map_id. exact Hl.
  Qed.

  Lemma const_decls_fwd f toks ds rest : parse_const_decls_sp tiers f toks = Some (ds, rest) ->
    const_decls_d tiers f toks = POk (ds, rest) [].
  Proof.
    intros H. rewrite const_decls_sp_list in H. unfold const_decls_d.
    rewrite <- (map_id ds).
    apply (list_fwd starts_name starts_name TComma (const_item_sp tiers) (const_decl_d tiers) (fun x => x)
                    (fun _ => True) (fun _ _ => I)
                    (fun t H => H) (fun t r _ H => H) const_item_fwd f toks ds rest H I).
  Qed.

  Lemma const_decls_bwd f toks ds rest : const_decls_d tiers f toks = POk (ds, rest) [] ->
    parse_const_decls_sp tiers f toks = Some (ds, rest).
  Proof.
    intros H. rewrite const_decls_sp_list.
    destruct (list_bwd starts_name starts_name TComma (const_item_sp tiers) (const_decl_d tiers) (fun x => x)
                       (fun t H => H) const_item_starts const_item_bwd f toks ds rest H) as (ds0 & -> & Hl).
    rewrite map_id. exact Hl.
  Qed.

  Lemma starts_name_reg t : starts_name t = true -> starts_reg_decl t = true.
  Proof. destruct t; try discriminate. reflexivity. Qed.
  Lemma starts_reg_not_wire t r : next_is TWire (t :: r) = false -> starts_name (tk t) = false ->
    starts_reg_decl (tk t) = false.
  Proof. cbn [next_is]. destruct (tk t); try reflexivity; discriminate. Qed.

  Lemma reg_decls_fwd f toks regs rest : parse_register_decls_sp tiers f toks = Some (regs, rest) ->
    next_is TWire rest = false -> reg_decls_d tiers f toks = POk (map DReg regs, rest) [].
  Proof.
    intros H HQ. rewrite reg_decls_sp_list in H. unfold reg_decls_d.
    apply (list_fwd starts_name starts_reg_decl TSemicolon (reg_item_sp tiers) (reg_decl_d tiers) DReg
                    (fun rest => next_is TWire rest = false) sep_semi_not_wire
                    starts_name_reg starts_reg_not_wire reg_item_fwd f toks regs rest H HQ).
  Qed.

  Lemma reg_decls_bwd f toks regs' rest : reg_decls_d tiers f toks = POk (regs', rest) [] ->
    exists regs, regs' = map DReg regs /\ parse_register_decls_sp tiers f toks = Some (regs, rest).
  Proof.
    intros H. rewrite reg_decls_sp_list.
    exact (list_bwd starts_name starts_reg_decl TSemicolon (reg_item_sp tiers) (reg_decl_d tiers) DReg
                    starts_name_reg reg_item_starts reg_item_bwd f toks regs' rest H).
  Qed.
End ItemConservative2.

(* ====================================================================================== *)
(* 7. Commas1<Assignment>                                                                 *)
(* ====================================================================================== *)
Section Assignments.
  Variable tiers : list tier.

  Definition assign_item_sp (f : nat) (toks : list tok) : option (sassign * list tok) :=
    let '(names, toks1) := parse_targets_sp (List.length toks) toks in
    match names with
    | [] => None
    | n0 :: _ =>
        match parse_expr_sp tiers f toks1 with
        | Some (e, exte, rest) => Some ((names, e, (fst (snd n0), snd exte)), rest)
        | None => None
        end
    end.

  Lemma assignments_sp_S f toks :
    parse_assignments_sp tiers (S f) toks =
    match assign_item_sp f toks with
    | Some (a, rest) =>
        match rest with
        | t :: toks2 =>
            if token_eqb (tk t) TComma then
              match toks2 with
              | t2 :: _ =>
                  match tk t2 with
                  | TIdentifier _ =>
                      match parse_assignments_sp tiers f toks2 with
                      | Some (more, toks3) => Some (a :: more, toks3)
                      | None => None
                      end
                  | _ => Some ([a], toks2)
                  end
              | [] => Some ([a], toks2)
              end
            else Some ([a], rest)
        | [] => Some ([a], rest)
        end
    | None => None
    end.
  Proof.
    cbn [parse_assignments_sp]. unfold assign_item_sp.
    destruct (parse_targets_sp (List.length toks) toks) as [names toks1].
    destruct names as [|n0 names]; [reflexivity|].
    destruct (parse_expr_sp tiers f toks1) as [[[e exte] [|t toks2]]|]; reflexivity.
  Qed.

  Lemma assign_item_fwd f toks a rest : assign_item_sp f toks = Some (a, rest) ->
    assignment_d tiers f toks = POk (a, rest) [].
  Proof.
    unfold assign_item_sp. intros H.
    destruct (parse_targets_sp (List.length toks) toks) as [names toks1] eqn:Et.
    destruct names as [|n0 names]; [discriminate H|].
    destruct (targets_sound _ _ _ _ (Nat.le_refl _) Et) as [(Hnil & _)|(wn & Hwn & Hsh & _)]; [discriminate Hnil|].
    destruct (targets_shape_first _ _ _ Hsh) as [_ (t1 & t2 & w & -> & Hid & Ht2)].
    rewrite Hwn in Et |- *. cbn [app] in Et |- *. unfold assignment_d.
    destruct (tk t1); try discriminate Hid. rewrite Ht2. cbn [token_eqb]. rewrite Et.
    unfold expr_d. destruct (parse_expr_sp tiers f toks1) as [[[e exte] rest1]|]; [|discriminate H].
    injection H as <- <-. reflexivity.
  Qed.

  Lemma assign_item_bwd f toks a rest : assignment_d tiers f toks = POk (a, rest) [] ->
    assign_item_sp f toks = Some (a, rest).
  Proof.
    unfold assignment_d. intros H.
    destruct toks as [|t1 [|t2 rest2]]; try discriminate H.
    destruct (tk t1); try discriminate H.
    destruct (token_eqb (tk t2) TOpenBracket).
    - destruct (parse_mux_options_sp tiers f rest2) as [[[|c v more] [|t3 rest3]]|]; try discriminate H.
      + destruct (token_eqb (tk t3) TCloseBracket); discriminate H.
      + destruct (fatal_of_ok _ _ _ H).
    - unfold assign_item_sp.
      destruct (parse_targets_sp (List.length (t1 :: t2 :: rest2)) (t1 :: t2 :: rest2)) as [names toks1].
      destruct names as [|n0 names]; [discriminate H|].
      destruct (expr_d tiers f toks1) as [[[e exte] rest3] dse|dse|] eqn:E; try discriminate H.
      apply expr_d_ok in E. destruct E as [E _]. rewrite E. injection H as <- <-. reflexivity.
  Qed.

  Lemma assignments_fwd : forall f toks asg rest, parse_assignments_sp tiers f toks = Some (asg, rest) ->
    assignments_d tiers f toks = POk (asg, rest) [].
  Proof.
    induction f as [|f IH]; intros toks asg rest H; [discriminate H|].
    rewrite assignments_sp_S in H. cbn [assignments_d].
    destruct (assign_item_sp f toks) as [[a rest1]|] eqn:Ei; [|discriminate H].
    rewrite (assign_item_fwd _ _ _ _ Ei).
    destruct rest1 as [|t toks2]; [injection H as <- <-; reflexivity|].
    destruct (token_eqb (tk t) TComma); [|injection H as <- <-; reflexivity].
    destruct toks2 as [|t2 r]; [injection H as <- <-; reflexivity|].
    destruct (tk t2); try (injection H as <- <-; reflexivity).
    destruct (parse_assignments_sp tiers f (t2 :: r)) as [[more toks3]|] eqn:El; [|discriminate H].
    injection H as <- <-. rewrite (IH _ _ _ El). reflexivity.
  Qed.

  Lemma assignments_bwd : forall f toks asg rest, assignments_d tiers f toks = POk (asg, rest) [] ->
    parse_assignments_sp tiers f toks = Some (asg, rest).
  Proof.
    induction f as [|f IH]; intros toks asg rest H; [discriminate H|].
    rewrite assignments_sp_S. cbn [assignments_d] in H.
    destruct (assignment_d tiers f toks) as [[a rest1] ds1|ds1|] eqn:Ei; try discriminate H.
    assert (Hd1 : ds1 = []).
    { destruct rest1 as [|t toks2]; [injection H as _ _ Hn; exact Hn|].
      destruct (token_eqb (tk t) TComma); [|injection H as _ _ Hn; exact Hn].
      destruct toks2 as [|t2 r]; [injection H as _ _ Hn; exact Hn|].
      destruct (tk t2); try (injection H as _ _ Hn; exact Hn).
      destruct (assignments_d tiers f (t2 :: r)) as [[more rest3] ds2|ds2|]; try discriminate H.
      injection H as _ _ Hn. apply app_eq_nil in Hn. exact (proj1 Hn). }
    subst ds1. rewrite (assign_item_bwd _ _ _ _ Ei).
    destruct rest1 as [|t toks2]; [injection H as <- <-; reflexivity|].
    destruct (token_eqb (tk t) TComma); [|injection H as <- <-; reflexivity].
    destruct toks2 as [|t2 r]; [injection H as <- <-; reflexivity|].
    destruct (tk t2); try (injection H as <- <-; reflexivity).
    destruct (assignments_d tiers f (t2 :: r)) as [[more rest3] ds2|ds2|] eqn:El; try discriminate H.
    injection H as <- <- Hn. cbn [app] in Hn. subst ds2. rewrite (IH _ _ _ El). reflexivity.
  Qed.

  Section AShape.
    Variable shape : list tok -> list tok -> sassign -> list pdiag -> Prop.
    Hypothesis item_sound : forall f toks d rest ds, assignment_d tiers f toks = POk (d, rest) ds ->
      exists it, toks = it ++ rest /\ shape rest it d ds.

    Lemma assignments_d_sound : forall f toks asg rest dgs, assignments_d tiers f toks = POk (asg, rest) dgs ->
      exists w, toks = w ++ rest /\ asg <> [] /\ list_shape starts_name TComma shape rest w asg dgs.
    Proof.
      induction f as [|f IH]; intros toks asg rest dgs H; [discriminate H|].
      cbn [assignments_d] in H.
      destruct (assignment_d tiers f toks) as [[a rest1] ds1|ds1|] eqn:Ei; try discriminate H.
      destruct (item_sound _ _ _ _ _ Ei) as (it & Hit & Hsh).
      assert (Hlast : forall rest0, rest0 = rest1 -> next_is TComma rest0 = false ->
                POk ([a], rest0) ds1 = POk (asg, rest) dgs ->
                exists w, toks = w ++ rest /\ asg <> [] /\ list_shape starts_name TComma shape rest w asg dgs).
      { intros rest0 -> Hn Hinj. inj3 Hinj. exists it. split; [exact Hit|]. split; [discriminate|].
        apply LS_last; assumption. }
      assert (Htrail : forall t toks2, rest1 = t :: toks2 -> tk t = TComma ->
                (forall t0 r0, toks2 = t0 :: r0 -> starts_name (tk t0) = false) ->
                POk ([a], toks2) ds1 = POk (asg, rest) dgs ->
                exists w, toks = w ++ rest /\ asg <> [] /\ list_shape starts_name TComma shape rest w asg dgs).
      { intros t toks2 Hr Ht Hns Hinj. inj3 Hinj. exists (it ++ [t]).
        split; [rewrite Hit, Hr; napp; reflexivity|]. split; [discriminate|].
        rewrite <- (app_nil_r ds1). change [a] with (a :: []).
        apply (LS_cons starts_name TComma shape toks2 it a ds1 t [] [] []);
          [cbn [app]; rewrite <- Hr; exact Hsh|exact Ht|apply LS_nil; exact Hns]. }
      destruct rest1 as [|t toks2]; [apply (Hlast [] eq_refl eq_refl H)|].
      destruct (token_eqb (tk t) TComma) eqn:Ecm; [|apply (Hlast _ eq_refl Ecm H)].
      apply token_eqb_true in Ecm.
      destruct toks2 as [|t2 r]; [apply (Htrail t [] eq_refl Ecm); [intros t0 r0 Hx; discriminate Hx|exact H]|].
      destruct (starts_name (tk t2)) eqn:Eid.
      - destruct (tk t2) eqn:Ht2; try discriminate Eid.
        destruct (assignments_d tiers f (t2 :: r)) as [[more rest3] ds2|ds2|] eqn:El; try discriminate H.
        inj3 H. destruct (IH _ _ _ _ El) as (w & Hw & _ & Hl).
        exists (it ++ t :: w). split; [rewrite Hit, Hw; napp; reflexivity|]. split; [discriminate|].
        apply LS_cons; [rewrite <- Hw; exact Hsh|exact Ecm|exact Hl].
      - apply (Htrail t (t2 :: r) eq_refl Ecm).
        + intros t0 r0 Hx. injection Hx as <- <-. exact Eid.
        + destruct (tk t2); try exact H; discriminate Eid.
    Qed.
  End AShape.

  Lemma assign_shape_head2 R RO rest it a ds : assign_shape R RO rest it a ds ->
    exists t1 t2 r, it = t1 :: t2 :: r.
  Proof.
    intros H. destruct H as [wn names we e Hsh Hs Hrd|t1 t2 wo t3 nm c v more Hn Ht2 Hro Ht3].
    - destruct names as [|n0 ns]; [destruct (proj1 (targets_shape_nonempty _ _ Hsh) eq_refl)|].
      destruct (targets_shape_first _ _ _ Hsh) as [_ (t1 & t2 & w & -> & _ & _)].
      exists t1, t2, (w ++ we). reflexivity.
    - exists t1, t2, (wo ++ [t3]). reflexivity.
  Qed.

  Lemma assignments_d_stable : forall f toks asg rest dgs, assignments_d tiers f toks = POk (asg, rest) dgs ->
    exists w, toks = w ++ rest /\ (exists t1 t2 w', w = t1 :: t2 :: w') /\
      forall f' rest', (f <= f')%nat -> compat rest rest' ->
      assignments_d tiers f' (w ++ rest') = POk (asg, rest') dgs.
  Proof.
    induction f as [|f IH]; intros toks asg rest dgs H; [discriminate H|].
    cbn [assignments_d] in H.
    destruct (assignment_d tiers f toks) as [[a rest1] ds1|ds1|] eqn:Ei; try discriminate H.
    destruct (assignment_d_stable tiers _ _ _ _ _ Ei) as (it & Hit & Hne & St).
    assert (Hit2 : exists t1 t2 it', it = t1 :: t2 :: it').
    { destruct (assignment_d_sound _ _ _ _ _ _ Ei) as (it0 & Hit0 & Hsh0).
      rewrite Hit in Hit0. apply app_inv_tail in Hit0. subst it0. exact (assign_shape_head2 _ _ _ _ _ _ Hsh0). }
    destruct Hit2 as (i1 & i2 & it' & ->). clear Hne.
    destruct rest1 as [|t toks2].
    { inj3 H. exists (i1 :: i2 :: it'). split; [exact Hit|]. split; [exists i1, i2, it'; reflexivity|].
      intros f' rest' Hf Hc. apply compat_nil_l in Hc. subst rest'. fuelS f'. cbn [assignments_d].
      rewrite (St f' []); [reflexivity|lia|exact I]. }
    destruct (token_eqb (tk t) TComma) eqn:Ecm.
    2:{ inj3 H. exists (i1 :: i2 :: it'). split; [exact Hit|]. split; [exists i1, i2, it'; reflexivity|].
        intros f' rest' Hf Hc. fuelS f'. cbn [assignments_d]. rewrite (St f' rest'); [|lia|exact Hc].
        destruct rest' as [|t' r']; [reflexivity|]. cbn in Hc. injection Hc as Hc. rewrite <- Hc, Ecm. reflexivity. }
    assert (Htrail : forall toks2', toks2 = toks2' ->
              (forall t0 r0, toks2' = t0 :: r0 -> starts_name (tk t0) = false) ->
              POk ([a], toks2') ds1 = POk (asg, rest) dgs ->
              exists w, toks = w ++ rest /\ (exists t1 t2 w', w = t1 :: t2 :: w') /\
                forall f' rest', (S f <= f')%nat -> compat rest rest' ->
                assignments_d tiers f' (w ++ rest') = POk (asg, rest') dgs).
    { intros toks2' <- Hns Hinj. inj3 Hinj. exists ((i1 :: i2 :: it') ++ [t]). split; [rewrite Hit; napp; reflexivity|].
      split; [exists i1, i2, (it' ++ [t]); reflexivity|].
      intros f' rest' Hf Hc. fuelS f'. cbn [assignments_d]. rewrite <- app_assoc. cbn [app].
      change (i1 :: i2 :: it' ++ t :: rest') with ((i1 :: i2 :: it') ++ t :: rest').
      rewrite (St f' (t :: rest')); [|lia|reflexivity]. rewrite Ecm.
      destruct rest' as [|t2' r']; [reflexivity|].
      destruct toks2 as [|t2 r]; [discriminate Hc|]. cbn in Hc. injection Hc as Hc.
      pose proof (Hns t2 r eq_refl) as Hid. rewrite <- Hc.
      destruct (tk t2); try reflexivity; discriminate Hid. }
    destruct toks2 as [|t2 r]; [apply (Htrail [] eq_refl); [intros t0 r0 Hx; discriminate Hx|exact H]|].
    destruct (starts_name (tk t2)) eqn:Eid.
    - destruct (tk t2) eqn:Ht2; try discriminate Eid. clear Htrail.
      destruct (assignments_d tiers f (t2 :: r)) as [[more rest3] ds2|ds2|] eqn:El; try discriminate H.
      inj3 H. destruct (IH _ _ _ _ El) as (w & Hw & (w1 & w2 & w' & ->) & St2).
      assert (Hhead : w1 = t2) by (cbn [app] in Hw; injection Hw as <- _; reflexivity). subst w1.
      exists ((i1 :: i2 :: it') ++ t :: t2 :: w2 :: w'). split; [rewrite Hit, Hw; napp; reflexivity|].
      split; [exists i1, i2, (it' ++ t :: t2 :: w2 :: w'); reflexivity|].
      intros f' rest' Hf Hc. fuelS f'. cbn [assignments_d]. rewrite <- app_assoc. cbn [app].
      change (i1 :: i2 :: it' ++ t :: t2 :: w2 :: w' ++ rest') with ((i1 :: i2 :: it') ++ t :: t2 :: w2 :: w' ++ rest').
      rewrite (St f' (t :: t2 :: w2 :: w' ++ rest')); [|lia|reflexivity]. rewrite Ecm, Ht2.
      change (t2 :: w2 :: w' ++ rest') with ((t2 :: w2 :: w') ++ rest'). rewrite (St2 f' rest'); [|lia|exact Hc]. reflexivity.
    - apply (Htrail (t2 :: r) eq_refl).
      + intros t0 r0 Hx. injection Hx as <- <-. exact Eid.
      + destruct (tk t2); try exact H; discriminate Eid.
  Qed.

  Lemma assignments_d_fatal : forall f toks dgs, assignments_d tiers f toks = PFatal dgs -> Fat toks dgs.
  Proof.
    induction f as [|f IH]; intros toks dgs H; [discriminate H|].
    cbn [assignments_d] in H.
    destruct (assignment_d tiers f toks) as [[a rest1] ds1|ds1|] eqn:Ei; try discriminate H.
    - destruct rest1 as [|t toks2]; [discriminate H|].
      destruct (token_eqb (tk t) TComma); [|discriminate H].
      destruct toks2 as [|t2 r]; [discriminate H|].
      destruct (tk t2); try discriminate H.
      destruct (assignments_d tiers f (t2 :: r)) as [[more rest3] ds2|ds2|] eqn:El; try discriminate H.
      injection H as <-. destruct (assignment_d_aligned _ _ _ _ _ _ Ei) as (it & Hit & Hal).
      rewrite Hit. replace (it ++ t :: t2 :: r) with ((it ++ [t]) ++ t2 :: r) by (napp; reflexivity).
      apply Fat_app; [|exact (IH _ _ El)].
      intros dg Hin. exact (aligned_seg _ _ _ (Hal dg Hin) (seg_here it [t])).
    - injection H as <-. exact (assignment_d_fatal _ _ _ _ Ei).
  Qed.
End Assignments.

(* ====================================================================================== *)
(* 8. one statement                                                                       *)
(* ====================================================================================== *)
Lemma lift_list_ok {A} (mk : list A -> dstmt) r s k rest ds :
  lift_list mk r = POk (s, k, rest) ds -> exists d, r = POk (d, rest) ds /\ s = mk d /\ k = NeedSemi.
Proof.
  unfold lift_list. destruct r as [[d rest0] ds0|ds0|]; try discriminate.
  intros H. injection H as <- <- <- <-. exists d. repeat split.
Qed.
Lemma lift_list_fatal {A} (mk : list A -> dstmt) r ds : lift_list mk r = PFatal ds -> r = PFatal ds.
Proof. unfold lift_list. destruct r as [[d rest0] ds0|ds0|]; try discriminate. intros H. injection H as <-. reflexivity. Qed.

Lemma tiers_ok_dec tiers : tiers_ok tiers \/ forall f toks, parse_expr_sp tiers f toks = None.
Proof.
  destruct (forallb (fun x : tier => match fst x with KBad => false | _ => true end) tiers) eqn:E.
  - left. intros k ops Hin. rewrite forallb_forall in E. specialize (E _ Hin). cbn in E. intros ->. discriminate E.
  - right. intros f toks. destruct (parse_expr_sp tiers f toks) as [r|] eqn:Er; [|reflexivity]. exfalso.
    pose proof (parse_expr_some_ok _ _ _ _ Er) as Hok.
    assert (Hall : forallb (fun x : tier => match fst x with KBad => false | _ => true end) tiers = true).
    { apply forallb_forall. intros [k ops] Hin. cbn. specialize (Hok k ops Hin). destruct k; try reflexivity. congruence. }
    rewrite Hall in E. discriminate E.
Qed.

(* a simple term: what was consumed, and the recorded span is aligned in it *)
Lemma simple_consumed tiers f toks e ext rest : parse_simple_sp tiers f toks = Some (e, ext, rest) ->
  exists w, toks = w ++ rest /\ w <> [] /\ ext = extent w /\ token_aligned w (espan e).
Proof.
  intros H. destruct f as [|f]; [discriminate H|]. pose proof H as H0. rewrite parse_simple_sp_S in H.
  destruct toks as [|t toks1]; [discriminate H|].
  destruct (tk t) eqn:Ht; try discriminate H.
  - injection H as <- <- <-. exists [t]. split; [reflexivity|]. split; [discriminate|].
    split; [symmetry; apply extent_one|apply aligned_head].
  - (* "(" *)
    destruct (parse_tiers_sp tiers f tiers toks1) as [[[e1 ext1] [|t2 toks2]]|] eqn:E1; try discriminate H.
    pose proof (parse_expr_some_ok tiers f toks1 _ E1) as Hok.
    destruct (proj1 (proj2 (proj2 (proj2 (inv_all tiers Hok (S f))))) _ _ _ _ H0) as (w & Hw & Hne & Hext & Hsub).
    exists w. split; [exact Hw|]. split; [exact Hne|]. split; [exact Hext|].
    apply (sub_aligned tiers w e Hsub e). destruct e; left; reflexivity.
  - (* "[" *)
    destruct (parse_mux_options_sp tiers f toks1) as [[a [|t2 toks2]]|] eqn:E1; try discriminate H.
    destruct (token_eqb (tk t2) TCloseBracket); [|discriminate H]. cbv zeta in H. injection H as <- <- <-.
    destruct (proj1 (proj2 (proj2 (proj2 (proj2 (stable_all tiers f))))) _ _ _ E1) as (wo & Hwo & _).
    exists (t :: wo ++ [t2]). split; [rewrite Hwo; napp; reflexivity|]. split; [discriminate|].
    split; [symmetry; apply extent_wrap|]. cbn [espan]. rewrite <- (extent_wrap t wo t2). apply aligned_extent. discriminate.
  - injection H as <- <- <-. exists [t]. split; [reflexivity|]. split; [discriminate|].
    split; [symmetry; apply extent_one|apply aligned_head].
Qed.

Section Statement.
  Variable tiers : list tier.

  Lemma simple_statement_d_inv f ne toks s k rest ds :
    simple_statement_d tiers f ne toks = POk (s, k, rest) ds ->
    exists e ext, parse_simple_sp tiers f toks = Some (e, ext, rest) /\ s = DSError /\ k = NeedSemi /\
                  ds = (if ne then [(KExpectedStatementFoundExpr, espan e)] else []).
  Proof.
    unfold simple_statement_d. destruct (parse_simple_sp tiers f toks) as [[[e ext] rest0]|].
    - intros H. injection H as <- <- <- <-. exists e, ext. repeat split.
    - intros H. destruct (fatal_of_ok _ _ _ H).
  Qed.

  Lemma simple_statement_d_silent f toks s k rest :
    simple_statement_d tiers f true toks = POk (s, k, rest) [] -> False.
  Proof. intros H. destruct (simple_statement_d_inv _ _ _ _ _ _ _ H) as (e & ext & _ & _ & _ & Hd). discriminate Hd. Qed.

  Lemma assign_item_head f toks x : assign_item_sp tiers f toks = Some x ->
    exists t1 t2 r, toks = t1 :: t2 :: r /\ tk t2 = TAssign.
  Proof.
    unfold assign_item_sp. intros H.
    destruct (parse_targets_sp (List.length toks) toks) as [names toks1] eqn:Et.
    destruct names as [|n0 names]; [discriminate H|].
    destruct (targets_sound _ _ _ _ (Nat.le_refl _) Et) as [(Hnil & _)|(wn & Hwn & Hsh & _)]; [discriminate Hnil|].
    destruct (targets_shape_first _ _ _ Hsh) as [_ (t1 & t2 & w & -> & _ & Ht2)].
    exists t1, t2, (w ++ toks1). split; [exact Hwn|exact Ht2].
  Qed.

  (* ---- conservative ---- *)
  Lemma statement_fwd f eof ne toks s k rest : parse_statement_sp tiers f toks = Some (s, k, rest) ->
    (k = NeedSemi -> rest = [] \/ next_is TSemicolon rest = true) ->
    statement_d tiers f eof ne toks = POk (dstmt_of s, k, rest) [].
  Proof.
    unfold parse_statement_sp, statement_d. intros H Hk.
    assert (Hna : k = NeedSemi -> next_is TAssign rest = false).
    { intros Hn. destruct (Hk Hn) as [->|Hs]; [reflexivity|].
      destruct rest as [|t r]; [discriminate Hs|]. cbn [next_is] in Hs |- *. apply token_eqb_true in Hs. rewrite Hs. reflexivity. }
    destruct toks as [|t toks1]; [discriminate H|].
    destruct (tk t) eqn:Ht; try discriminate H.
    - destruct (parse_wire_decls_sp f toks1) as [[d rest1]|] eqn:E1; [|discriminate H]. injection H as <- <- <-.
      rewrite (wire_decls_fwd tiers eof _ _ _ _ E1 (Hna eq_refl)). reflexivity.
    - destruct (parse_const_decls_sp tiers f toks1) as [[d rest1]|] eqn:E1; [|discriminate H]. injection H as <- <- <-.
      rewrite (const_decls_fwd tiers _ _ _ _ E1). reflexivity.
    - destruct toks1 as [|t1 [|t2 toks2]]; try discriminate H.
      destruct (tk t1) eqn:Ht1; try discriminate H.
      destruct (token_eqb (tk t2) TOpenBrace); [|discriminate H].
      destruct (parse_register_decls_sp tiers f toks2) as [[regs [|t3 rest1]]|] eqn:E1; try discriminate H.
      destruct (token_eqb (tk t3) TCloseBrace) eqn:Ecb; [|discriminate H]. injection H as <- <- <-.
      rewrite (reg_decls_fwd tiers _ _ _ _ E1); [rewrite Ecb; reflexivity|].
      cbn [next_is]. apply token_eqb_true in Ecb. rewrite Ecb. reflexivity.
    - destruct (parse_assignments_sp tiers f (t :: toks1)) as [[a rest1]|] eqn:E1; [|discriminate H].
      injection H as <- <- <-.
      assert (Hdisp : next_is TAssign toks1 = true).
      { destruct f as [|f]; [discriminate E1|]. rewrite assignments_sp_S in E1.
        destruct (assign_item_sp tiers f (t :: toks1)) as [x|] eqn:Ei; [|discriminate E1].
        destruct (assign_item_head _ _ _ Ei) as (t1 & t2 & r & Heq & Ht2). injection Heq as <- ->.
        cbn [next_is]. rewrite Ht2. reflexivity. }
      rewrite Hdisp. cbn [orb]. rewrite (assignments_fwd tiers _ _ _ _ E1). reflexivity.
  Qed.

  Lemma statement_bwd f eof toks s' k rest : statement_d tiers f eof true toks = POk (s', k, rest) [] ->
    exists s, s' = dstmt_of s /\ parse_statement_sp tiers f toks = Some (s, k, rest).
  Proof.
    unfold parse_statement_sp, statement_d. intros H.
    destruct toks as [|t toks1]; [discriminate H|].
    destruct (tk t) eqn:Ht; try discriminate H;
      try (exfalso; exact (simple_statement_d_silent _ _ _ _ _ H)).
    - destruct (lift_list_ok _ _ _ _ _ _ H) as (d & Hr & -> & ->).
      rewrite (wire_decls_bwd tiers eof _ _ _ _ Hr). exists (SSWire d). split; reflexivity.
    - destruct (lift_list_ok _ _ _ _ _ _ H) as (d & Hr & -> & ->).
      rewrite (const_decls_bwd tiers _ _ _ _ Hr). exists (SSConst d). split; reflexivity.
    - destruct toks1 as [|t1 [|t2 toks2]]; try discriminate H.
      destruct (tk t1) eqn:Ht1; try discriminate H.
      destruct (token_eqb (tk t2) TOpenBrace); [|discriminate H].
      destruct (reg_decls_d tiers f toks2) as [[regs' [|t3 rest1]] ds1|ds1|] eqn:E1; try discriminate H.
      destruct (token_eqb (tk t3) TCloseBrace) eqn:Ecb; [|discriminate H]. injection H as <- <- <- ->.
      destruct (reg_decls_bwd tiers _ _ _ _ E1) as (regs & -> & Hsp). rewrite Hsp, Ecb.
      exists (SSBank (string_of_name name) (tspan t1) regs (tstart t, tend t3)). split; reflexivity.
    - destruct (next_is TAssign toks1 || next_is TOpenBracket toks1).
      + destruct (lift_list_ok _ _ _ _ _ _ H) as (d & Hr & -> & ->).
        rewrite (assignments_bwd tiers _ _ _ _ Hr). exists (SSAssign d). split; reflexivity.
      + exfalso. exact (simple_statement_d_silent _ _ _ _ _ H).
  Qed.
End Statement.

Section StatementForm.
  Variable tiers : list tier.

  (* one declaration: its form (with "some fuel") *)
  Lemma wire_decl_d_form eof f toks d rest ds : wire_decl_d tiers f eof toks = POk (d, rest) ds ->
    exists it, toks = it ++ rest /\ wire_decl_form tiers rest it d ds.
  Proof.
    intros H. destruct (wire_decl_d_sound _ _ _ _ _ _ _ H) as (it & Hit & Hsh). exists it. split; [exact Hit|].
    exact (wire_decl_shape_transfer _ _ rest rest (fun k Hk => Hk) (Rf_to_reads tiers f rest) _ _ _ Hsh).
  Qed.
  Lemma const_decl_d_form f toks d rest ds : const_decl_d tiers f toks = POk (d, rest) ds ->
    exists it, toks = it ++ rest /\ const_decl_form tiers rest it d ds.
  Proof.
    intros H. destruct (const_decl_d_sound _ _ _ _ _ _ H) as (it & Hit & Hsh). exists it. split; [exact Hit|].
    exact (const_decl_shape_transfer _ _ rest rest (Rf_to_reads tiers f rest) _ _ _ Hsh).
  Qed.
  Lemma assignment_d_form f toks a rest ds : assignment_d tiers f toks = POk (a, rest) ds ->
    exists it, toks = it ++ rest /\ assign_form tiers rest it a ds.
  Proof.
    intros H. destruct (assignment_d_sound _ _ _ _ _ _ H) as (it & Hit & Hsh). exists it. split; [exact Hit|].
    exact (assign_shape_transfer _ _ _ _ rest rest (Rf_to_reads tiers f rest)
                                 (fun wo t3 a0 HRO => ROf_reads _ _ _ _ _ HRO) _ _ _ Hsh).
  Qed.
  Lemma reg_decl_d_form f toks r rest ds : reg_decl_d tiers f toks = POk (r, rest) ds ->
    exists it, toks = it ++ rest /\ reg_decl_form tiers rest it r ds.
  Proof.
    intros H. destruct (reg_decl_d_sound _ _ _ _ _ _ H) as (it & Hit & Hsh). exists it. split; [exact Hit|].
    exact (reg_decl_shape_transfer _ _ rest rest (Rf_to_reads tiers f rest) _ _ _ Hsh).
  Qed.

  Lemma statement_d_sound f eof ne toks s k rest ds : statement_d tiers f eof ne toks = POk (s, k, rest) ds ->
    exists sg, toks = sg ++ rest /\ sg <> [] /\ statement_form tiers ne rest sg s k ds.
  Proof.
    unfold statement_d. intros H.
    assert (Hsimple : simple_statement_d tiers f ne toks = POk (s, k, rest) ds ->
              exists sg, toks = sg ++ rest /\ sg <> [] /\ statement_form tiers ne rest sg s k ds).
    { intros Hs. destruct (simple_statement_d_inv _ _ _ _ _ _ _ _ Hs) as (e & ext & Hp & -> & -> & ->).
      destruct (simple_consumed _ _ _ _ _ _ Hp) as (w & Hw & Hne & Hext & _).
      exists w. split; [exact Hw|]. split; [exact Hne|]. apply SH_expr.
      split; [exact Hne|]. exists f. rewrite <- Hw, <- Hext. exact Hp. }
    destruct toks as [|t toks1]; [discriminate H|].
    destruct (tk t) eqn:Ht; try discriminate H; try exact (Hsimple H).
    - destruct (lift_list_ok _ _ _ _ _ _ H) as (d & Hr & -> & ->).
      destruct (list_d_sound starts_name TComma (fun f => wire_decl_d tiers f eof) (wire_decl_form tiers)
                             (wire_decl_d_form eof) _ _ _ _ _ Hr) as (w & Hw & Hl).
      exists (t :: w). split; [rewrite Hw; reflexivity|]. split; [discriminate|]. apply SH_wire; assumption.
    - destruct (lift_list_ok _ _ _ _ _ _ H) as (d & Hr & -> & ->).
      destruct (list_d_sound starts_name TComma (const_decl_d tiers) (const_decl_form tiers)
                             const_decl_d_form _ _ _ _ _ Hr) as (w & Hw & Hl).
      exists (t :: w). split; [rewrite Hw; reflexivity|]. split; [discriminate|]. apply SH_const; assumption.
    - destruct toks1 as [|t1 [|t2 toks2]]; try discriminate H.
      destruct (tk t1) eqn:Ht1; try discriminate H.
      destruct (token_eqb (tk t2) TOpenBrace) eqn:Eb; [|discriminate H]. apply token_eqb_true in Eb.
      destruct (reg_decls_d tiers f toks2) as [[regs [|t3 rest1]] ds1|ds1|] eqn:E1; try discriminate H.
      destruct (token_eqb (tk t3) TCloseBrace) eqn:Ecb; [|discriminate H]. apply token_eqb_true in Ecb.
      injection H as <- <- <- <-.
      destruct (list_d_sound starts_reg_decl TSemicolon (reg_decl_d tiers) (reg_decl_form tiers)
                             reg_decl_d_form _ _ _ _ _ E1) as (w & Hw & Hl).
      exists (t :: t1 :: t2 :: w ++ [t3]). split; [rewrite Hw; napp; reflexivity|]. split; [discriminate|].
      apply SH_bank; try assumption. exists name. split; [exact Ht1|reflexivity].
    - destruct (next_is TAssign toks1 || next_is TOpenBracket toks1); [|exact (Hsimple H)].
      destruct (lift_list_ok _ _ _ _ _ _ H) as (d & Hr & -> & ->).
      destruct (assignments_d_sound tiers (assign_form tiers) assignment_d_form _ _ _ _ _ Hr) as (w & Hw & Hne & Hl).
      destruct (assignments_d_stable tiers _ _ _ _ _ Hr) as (w' & Hw' & (a1 & a2 & a3 & Hw2) & _).
      rewrite Hw in Hw'. apply app_inv_tail in Hw'. subst w'.
      exists w. split; [exact Hw|]. split; [rewrite Hw2; discriminate|]. apply SH_assign; assumption.
  Qed.

  Lemma statement_d_fatal f eof ne toks ds : statement_d tiers f eof ne toks = PFatal ds -> Fat toks ds.
  Proof.
    unfold statement_d. intros H.
    assert (Hsimple : simple_statement_d tiers f ne toks = PFatal ds -> Fat toks ds).
    { unfold simple_statement_d. destruct (parse_simple_sp tiers f toks) as [[[e ext] rest0]|]; [discriminate|].
      apply fatal_of_Fat. intros sp Hsp. exact (proj1 (proj2 (proj2 (proj2 (ff_all tiers f)))) _ _ Hsp). }
    destruct toks as [|t toks1]; [discriminate H|].
    destruct (tk t) eqn:Ht; try discriminate H; try exact (Hsimple H).
    - apply lift_list_fatal in H. apply (Fat_app_nil [t]).
      exact (list_d_fatal starts_name TComma (fun f => wire_decl_d tiers f eof)
                          (wire_decl_d_aligned tiers eof) (fun f => wire_decl_d_fatal tiers f eof) _ _ _ H).
    - apply lift_list_fatal in H. apply (Fat_app_nil [t]).
      exact (list_d_fatal starts_name TComma (const_decl_d tiers)
                          (const_decl_d_aligned tiers) (const_decl_d_fatal tiers) _ _ _ H).
    - destruct toks1 as [|t1 [|t2 toks2]]; try discriminate H.
      destruct (tk t1) eqn:Ht1; try discriminate H.
      destruct (token_eqb (tk t2) TOpenBrace); [|discriminate H].
      destruct (reg_decls_d tiers f toks2) as [[regs [|t3 rest1]] ds1|ds1|] eqn:E1; try discriminate H.
      + destruct (token_eqb (tk t3) TCloseBrace); discriminate H.
      + injection H as <-. apply (Fat_app_nil [t; t1; t2]).
        exact (list_d_fatal starts_reg_decl TSemicolon (reg_decl_d tiers)
                            (reg_decl_d_aligned tiers) (reg_decl_d_fatal tiers) _ _ _ E1).
    - destruct (next_is TAssign toks1 || next_is TOpenBracket toks1); [|exact (Hsimple H)].
      apply lift_list_fatal in H. exact (assignments_d_fatal tiers _ _ _ H).
  Qed.
End StatementForm.

(* ====================================================================================== *)
(* 9. the file                                                                            *)
(* ====================================================================================== *)
Lemma diags_of_app a b : diags_of (a ++ b) = diags_of a ++ diags_of b.
Proof. unfold diags_of. rewrite map_app, concat_app. reflexivity. Qed.

Lemma diags_of_cons s ds l : diags_of ((s, ds) :: l) = ds ++ diags_of l.
Proof. reflexivity. Qed.

Lemma diags_nil_in l : diags_of l = [] -> forall s ds, In (s, ds) l -> ds = [].
Proof.
  induction l as [|[s0 ds0] l IH]; intros H s ds Hin; [destruct Hin|].
  rewrite diags_of_cons in H. apply app_eq_nil in H. destruct H as [H0 Hl].
  destruct Hin as [Heq|Hin]; [injection Heq as _ <-; exact H0|exact (IH Hl s ds Hin)].
Qed.

Lemma in_diags_of l dg : In dg (diags_of l) <-> exists s ds, In (s, ds) l /\ In dg ds.
Proof.
  induction l as [|[s0 ds0] l IH]; [split; [intros []|intros (s & ds & [] & _)]|].
  rewrite diags_of_cons. split.
  - intros H. apply in_app_or in H. destruct H as [H|H].
    + exists s0, ds0. split; [left; reflexivity|exact H].
    + apply IH in H. destruct H as (s & ds & Hin & Hd). exists s, ds. split; [right; exact Hin|exact Hd].
  - intros (s & ds & [Heq|Hin] & Hd); apply in_or_app.
    + injection Heq as <- <-. left. exact Hd.
    + right. apply IH. exists s, ds. split; assumption.
Qed.

Lemma silent_diags l : diags_of (silent l) = [].
Proof. induction l as [|s l IH]; [reflexivity|]. cbn [silent map]. rewrite diags_of_cons. exact IH. Qed.

Lemma silent_no_diags l : no_diags (silent l) = true.
Proof. unfold no_diags. fold (silent l). rewrite silent_diags. reflexivity. Qed.

Lemma silent_rev l : silent (rev l) = rev (silent l).
Proof. unfold silent. apply map_rev. Qed.

Lemma map_DReg_inj : forall l l' : list sreg_decl, map DReg l = map DReg l' -> l = l'.
Proof.
  induction l as [|r l IH]; intros [|r' l'] H; try discriminate H; [reflexivity|].
  cbn [map] in H. injection H as -> H. f_equal. exact (IH _ H).
Qed.

Lemma dstmt_of_inj s s' : dstmt_of s = dstmt_of s' -> s = s'.
Proof.
  destruct s, s'; cbn [dstmt_of]; intros H; try discriminate H.
  - injection H as ->. reflexivity.
  - injection H as ->. reflexivity.
  - injection H as ->. reflexivity.
  - injection H as -> -> Hregs ->. apply map_DReg_inj in Hregs. subst. reflexivity.
Qed.

Lemma silent_inj l l' : silent l = silent l' -> l = l'.
Proof.
  revert l'. induction l as [|s l IH]; intros [|s' l'] H; try discriminate H; [reflexivity|].
  cbn in H. injection H as Hs H. f_equal; [exact (dstmt_of_inj _ _ Hs)|exact (IH _ H)].
Qed.

Lemma no_diags_cons s ds acc :
  no_diags ((s, ds) :: acc) = no_diags acc && match ds with [] => true | _ => false end.
Proof.
  unfold no_diags. rewrite diags_of_cons. destruct ds as [|d ds]; cbn [app].
  - rewrite Bool.andb_true_r. reflexivity.
  - rewrite Bool.andb_false_r. reflexivity.
Qed.

Lemma all_diags_stmts r : all_diags r = [] -> diags_of (result_stmts r) = [].
Proof. destruct r as [l|l ds]; cbn; [trivial|]. intros H. apply app_eq_nil in H. exact (proj1 H). Qed.

Lemma Fat_nonempty toks ds : Fat toks ds -> ds <> [].
Proof. intros (ds0 & d & -> & _). destruct ds0; discriminate. Qed.

Section Program.
  Variable tiers : list tier.

  Lemma statements_d_acc : forall f toks seen dacc r, statements_d tiers f toks seen dacc = Some r ->
    exists news, result_stmts r = rev dacc ++ news.
  Proof.
    induction f as [|f IH]; intros toks seen dacc r H; [discriminate H|].
    cbn [statements_d] in H.
    assert (Hstep : forall x rest, statements_d tiers f rest true (x :: dacc) = Some r ->
              exists news, result_stmts r = rev dacc ++ news).
    { intros x rest Hr. destruct (IH _ _ _ _ Hr) as (news & Hn). exists (x :: news).
      rewrite Hn. cbn [rev]. rewrite <- app_assoc. reflexivity. }
    destruct toks as [|t toks1].
    { destruct seen; [|discriminate H]. injection H as <-. exists []. cbn. rewrite app_nil_r. reflexivity. }
    destruct (token_eqb (tk t) TSemicolon).
    { destruct seen; [|discriminate H]. exact (IH _ _ _ _ H). }
    destruct (statement_d tiers (20 * S (List.length (t :: toks1))) seen (no_diags dacc) (t :: toks1))
      as [[[s k] rest] ds|ds|]; [| |discriminate H].
    - destruct k.
      + destruct rest as [|t2 rest].
        * destruct seen; [|discriminate H]. injection H as <-. exists [(s, ds)]. reflexivity.
        * destruct (token_eqb (tk t2) TSemicolon); [|discriminate H]. exact (Hstep _ _ H).
      + exact (Hstep _ _ H).
    - injection H as <-. exists []. cbn. rewrite app_nil_r. reflexivity.
  Qed.

  (* ---- (a) ---- *)
  Lemma statements_fwd : forall f toks seen acc res, parse_statements_sp tiers f toks seen acc = Some res ->
    statements_d tiers f toks seen (silent acc) = Some (DDone (silent res)).
  Proof.
    induction f as [|f IH]; intros toks seen acc res H; [discriminate H|].
    cbn [parse_statements_sp] in H. cbn [statements_d].
    destruct toks as [|t toks1].
    { destruct seen; [|discriminate H]. injection H as <-. rewrite silent_rev. reflexivity. }
    destruct (token_eqb (tk t) TSemicolon).
    { destruct seen; [|discriminate H]. exact (IH _ _ _ _ H). }
    destruct (parse_statement_sp tiers (20 * S (List.length (t :: toks1))) (t :: toks1)) as [[[s k] rest]|] eqn:Es;
      [|discriminate H].
    destruct k.
    - destruct rest as [|t2 rest].
      + rewrite (statement_fwd tiers _ seen (no_diags (silent acc)) _ _ _ _ Es (fun _ => or_introl eq_refl)).
        destruct seen; [|discriminate H]. injection H as <-.
        change ((dstmt_of s, @nil pdiag) :: silent acc) with (silent (s :: acc)). rewrite <- silent_rev. reflexivity.
      + destruct (token_eqb (tk t2) TSemicolon) eqn:E2; [|discriminate H].
        rewrite (statement_fwd tiers _ seen (no_diags (silent acc)) _ _ _ _ Es (fun _ => or_intror E2)). rewrite E2.
        exact (IH _ _ _ _ H).
    - rewrite (statement_fwd tiers _ seen (no_diags (silent acc)) _ _ _ _ Es ltac:(discriminate)).
      exact (IH _ _ _ _ H).
  Qed.

  Lemma statements_bwd : forall f toks seen acc r, statements_d tiers f toks seen (silent acc) = Some r ->
    all_diags r = [] -> exists l, r = DDone (silent l) /\ parse_statements_sp tiers f toks seen acc = Some l.
  Proof.
    induction f as [|f IH]; intros toks seen acc r H Hnil; [discriminate H|].
    cbn [statements_d] in H. cbn [parse_statements_sp].
    destruct toks as [|t toks1].
    { destruct seen; [|discriminate H]. injection H as <-. exists (rev acc). rewrite silent_rev. split; reflexivity. }
    destruct (token_eqb (tk t) TSemicolon).
    { destruct seen; [|discriminate H]. exact (IH _ _ _ _ H Hnil). }
    rewrite silent_no_diags in H.
    destruct (statement_d tiers (20 * S (List.length (t :: toks1))) seen true (t :: toks1))
      as [[[s' k] rest] ds|ds|] eqn:Es; [| |discriminate H].
    - assert (Hds : forall r0, result_stmts r0 = result_stmts r ->
                (exists news, result_stmts r0 = rev ((s', ds) :: silent acc) ++ news) -> ds = []).
      { intros r0 Heq (news & Hn). apply (diags_nil_in (result_stmts r) (all_diags_stmts r Hnil) s' ds).
        rewrite <- Heq, Hn. apply in_or_app. left. apply in_rev. rewrite rev_involutive. left. reflexivity. }
      assert (Hcont : forall rest1, statements_d tiers f rest1 true ((s', ds) :: silent acc) = Some r ->
                ds = [] /\ exists s, s' = dstmt_of s /\
                  parse_statement_sp tiers (20 * S (List.length (t :: toks1))) (t :: toks1) = Some (s, k, rest)).
      { intros rest1 Hr. assert (Hd : ds = []) by exact (Hds r eq_refl (statements_d_acc _ _ _ _ _ Hr)).
        split; [exact Hd|]. subst ds. exact (statement_bwd tiers _ _ _ _ _ _ Es). }
      destruct k.
      + destruct rest as [|t2 rest].
        * destruct seen; [|discriminate H]. injection H as <-.
          assert (Hd : ds = []).
          { apply (Hds (DDone (rev ((s', ds) :: silent acc))) eq_refl). exists []. cbn [result_stmts]. rewrite app_nil_r. reflexivity. }
          subst ds. destruct (statement_bwd tiers _ _ _ _ _ _ Es) as (s & -> & Hsp). rewrite Hsp.
          exists (rev (s :: acc)). rewrite silent_rev. split; reflexivity.
        * destruct (token_eqb (tk t2) TSemicolon) eqn:E2; [|discriminate H].
          destruct (Hcont _ H) as (-> & s & -> & Hsp). rewrite Hsp, E2.
          exact (IH _ _ (s :: acc) _ H Hnil).
      + destruct (Hcont _ H) as (-> & s & -> & Hsp). rewrite Hsp.
        exact (IH _ _ (s :: acc) _ H Hnil).
    - injection H as <-. cbn [all_diags] in Hnil. apply app_eq_nil in Hnil.
      destruct (Fat_nonempty _ _ (statement_d_fatal tiers _ _ _ _ _ Es) (proj2 Hnil)).
  Qed.
End Program.

Theorem diag_conservative_holds : stmt_diag_conservative.
Proof.
  intros tiers toks l. unfold parse_sp, parse_diag. split.
  - intros H. exact (statements_fwd tiers _ _ _ [] _ H).
  - intros H. destruct (statements_bwd tiers _ _ _ [] _ H) as (l0 & Heq & Hsp).
    { cbn [all_diags]. apply silent_diags. }
    injection Heq as Heq. apply silent_inj in Heq. subst l0. exact Hsp.
Qed.

Theorem diag_conservative_text_holds : stmt_diag_conservative_text.
Proof.
  intros uc tiers bytes l. unfold parse_text_sp, parse_text_diag.
  destruct (lex uc bytes) as [toks [e|]]; [split; discriminate|]. apply diag_conservative_holds.
Qed.

Theorem diag_none_iff_accepted_holds : stmt_diag_none_iff_accepted.
Proof.
  intros tiers toks. split.
  - intros (l & H). exists (DDone (silent l)). split; [apply diag_conservative_holds; exact H|].
    cbn [all_diags]. apply silent_diags.
  - intros (r & H & Hnil). unfold parse_diag in H.
    destruct (statements_bwd tiers _ _ _ [] _ H Hnil) as (l & _ & Hsp). exists l. exact Hsp.
Qed.

Theorem diag_outcome_ok_holds : stmt_diag_outcome_ok.
Proof.
  intros tiers toks r stmts H Ho.
  assert (Hnil : all_diags r = []).
  { destruct r as [l0|l0 ds]; cbn [outcome all_diags] in *; [|discriminate Ho].
    destruct (diags_of l0); [reflexivity|discriminate Ho]. }
  unfold parse_diag in H. destruct (statements_bwd tiers _ _ _ [] _ H Hnil) as (l & -> & Hsp).
  exists l. split; [exact Hsp|]. split; [|reflexivity].
  cbn [outcome] in Ho. rewrite silent_diags in Ho. injection Ho as <-.
  unfold silent. rewrite map_map. reflexivity.
Qed.

(* ====================================================================================== *)
(* 10. (c) the outcome is a derivation of the diagnostic grammar                          *)
(* ====================================================================================== *)
Section ProgramForm.
  Variable tiers : list tier.

  Lemma prog_form_semi t b toks tail l : is_semi t -> prog_form tiers b toks tail l ->
    prog_form tiers b (t :: toks) tail l.
  Proof.
    intros Ht H. inversion H as [b0 semis tail0 Hs|b0 semis sg rest tail0 s k ds more Hs Hne Hsh Hk Hrest]; subst.
    - change (t :: semis ++ tail) with ((t :: semis) ++ tail). apply PS_end. constructor; assumption.
    - change (t :: semis ++ sg ++ rest) with ((t :: semis) ++ sg ++ rest).
      apply (PS_stmt _ _ _ _ (t :: semis) sg rest _ s k ds more); [constructor; assumption|exact Hne|exact Hsh|exact Hk|exact Hrest].
  Qed.

  Lemma statements_d_sound : forall f toks seen dacc r, statements_d tiers f toks seen dacc = Some r ->
    exists news tail, result_stmts r = rev dacc ++ news /\ prog_form tiers (no_diags dacc) toks tail news /\
      match r with DDone _ => tail = [] | DFatal _ ds => Fat tail ds end.
  Proof.
    induction f as [|f IH]; intros toks seen dacc r H; [discriminate H|].
    cbn [statements_d] in H.
    destruct toks as [|t toks1].
    { destruct seen; [|discriminate H]. injection H as <-. exists [], []. cbn [result_stmts]. rewrite app_nil_r.
      split; [reflexivity|]. split; [exact (PS_end _ _ _ (no_diags dacc) [] [] (Forall_nil _))|reflexivity]. }
    destruct (token_eqb (tk t) TSemicolon) eqn:Esemi.
    { destruct seen; [|discriminate H]. destruct (IH _ _ _ _ H) as (news & tail & H1 & H2 & H3).
      exists news, tail. split; [exact H1|]. split; [|exact H3].
      apply prog_form_semi; [exact (token_eqb_true _ _ Esemi)|exact H2]. }
    destruct (statement_d tiers (20 * S (List.length (t :: toks1))) seen (no_diags dacc) (t :: toks1))
      as [[[s k] rest] ds|ds|] eqn:Es; [| |discriminate H].
    - destruct (statement_d_sound tiers _ _ _ _ _ _ _ _ Es) as (sg & Hsg & Hne & Hsh).
      assert (Hstep : forall rest1, statements_d tiers f rest1 true ((s, ds) :: dacc) = Some r ->
                (k = NeedSemi -> rest = [] \/ next_is TSemicolon rest = true) ->
                (forall news tail, prog_form tiers (no_diags ((s, ds) :: dacc)) rest1 tail news ->
                                   prog_form tiers (no_diags ((s, ds) :: dacc)) rest tail news) ->
                exists news tail, result_stmts r = rev dacc ++ news /\
                  prog_form tiers (no_diags dacc) (t :: toks1) tail news /\
                  match r with DDone _ => tail = [] | DFatal _ ds0 => Fat tail ds0 end).
      { intros rest1 Hr Hk Hlift. destruct (IH _ _ _ _ Hr) as (news & tail & H1 & H2 & H3).
        exists ((s, ds) :: news), tail. split; [rewrite H1; cbn [rev]; rewrite <- app_assoc; reflexivity|].
        split; [|exact H3]. rewrite Hsg. change (sg ++ rest) with ([] ++ sg ++ rest).
        apply (PS_stmt _ _ _ (no_diags dacc) [] sg rest tail s k ds news (Forall_nil _) Hne Hsh Hk).
        rewrite <- (no_diags_cons s ds dacc). apply Hlift. exact H2. }
      destruct k.
      + destruct rest as [|t2 rest].
        * destruct seen; [|discriminate H]. injection H as <-. exists [(s, ds)], []. cbn [result_stmts rev].
          split; [reflexivity|]. split; [|reflexivity]. rewrite Hsg. change (sg ++ []) with ([] ++ sg ++ []).
          apply (PS_stmt _ _ _ (no_diags dacc) [] sg [] [] s NeedSemi ds [] (Forall_nil _) Hne Hsh (fun _ => or_introl eq_refl)).
          exact (PS_end _ _ _ _ [] [] (Forall_nil _)).
        * destruct (token_eqb (tk t2) TSemicolon) eqn:E2; [|discriminate H].
          apply (Hstep rest H); [intros _; right; exact E2|].
          intros news tail Hp. apply prog_form_semi; [exact (token_eqb_true _ _ E2)|exact Hp].
      + apply (Hstep rest H); [discriminate|trivial].
    - injection H as <-. exists [], (t :: toks1). cbn [result_stmts]. rewrite app_nil_r. split; [reflexivity|].
      split; [exact (PS_end _ _ _ (no_diags dacc) [] (t :: toks1) (Forall_nil _))|].
      exact (statement_d_fatal tiers _ _ _ _ _ Es).
  Qed.

  Lemma prog_form_stmts b toks tail l : prog_form tiers b toks tail l ->
    forall s ds, In (s, ds) l ->
      exists b' before sg rest k, toks = before ++ sg ++ rest /\ sg <> [] /\ statement_form tiers b' rest sg s k ds.
  Proof.
    induction 1 as [b semis tail Hs|b semis sg rest tail s0 k0 ds0 more Hs Hne Hsh Hk Hrest IH]; intros s ds Hin; [destruct Hin|].
    destruct Hin as [Heq|Hin].
    - injection Heq as <- <-. exists b, semis, sg, rest, k0. repeat split; assumption.
    - destruct (IH s ds Hin) as (b' & before & sg' & rest' & k & Heq & Hne' & Hsh').
      exists b', (semis ++ sg ++ before), sg', rest', k. split; [rewrite Heq; napp; reflexivity|]. split; assumption.
  Qed.
End ProgramForm.

Theorem diag_grammar_sound_holds : stmt_diag_grammar_sound.
Proof.
  intros tiers toks r H. unfold parse_diag in H.
  destruct (statements_d_sound tiers _ _ _ _ _ H) as (news & tail & H1 & H2 & H3).
  cbn [rev app] in H1. subst news. exists tail. split; [exact H2|].
  destruct r as [l|l ds]; [exact H3|exact H3].
Qed.

Theorem diag_statement_forms_holds : stmt_diag_statement_forms.
Proof.
  intros tiers toks r H s ds Hin. destruct (diag_grammar_sound_holds tiers toks r H) as (tail & Hp & _).
  exact (prog_form_stmts tiers _ _ _ _ Hp s ds Hin).
Qed.

(* ====================================================================================== *)
(* 11. (b) the spans                                                                      *)
(* ====================================================================================== *)
Lemma list_shape_aligned {A} starts sep (shape : list tok -> list tok -> A -> list pdiag -> Prop) :
  (forall rest it d ds, shape rest it d ds -> forall dg, In dg ds -> token_aligned it (snd dg)) ->
  forall rest w l dgs, list_shape starts sep shape rest w l dgs -> forall dg, In dg dgs -> token_aligned w (snd dg).
Proof.
  intros Hit rest w l dgs H. induction H as [Hn|it d ds Hsh Hn|it d ds c w more dss Hsh Hc Hl IH]; intros dg Hin.
  - destruct Hin.
  - exact (Hit _ _ _ _ Hsh dg Hin).
  - apply in_app_or in Hin. destruct Hin as [Hin|Hin].
    + exact (aligned_seg _ _ _ (Hit _ _ _ _ Hsh dg Hin) (seg_here it (c :: w))).
    + exact (aligned_seg _ _ _ (IH dg Hin) (seg_app_l _ _ it (seg_cons _ _ c (seg_refl w)))).
Qed.

Lemma reads_simple_aligned tiers w rest e : reads_simple tiers w rest e -> token_aligned w (espan e).
Proof.
  intros (Hne & f & H). destruct (simple_consumed _ _ _ _ _ _ H) as (w' & Hw & _ & _ & Hal).
  apply app_inv_tail in Hw. subst w'. exact Hal.
Qed.

Lemma statement_form_aligned tiers b rest sg s k ds : statement_form tiers b rest sg s k ds ->
  forall dg, In dg ds -> token_aligned sg (snd dg).
Proof.
  intros H dg Hin. destruct H as [kw w l dgs Hkw Hl|kw w l dgs Hkw Hl|w a dgs Hne Hl|kw t1 t2 w t3 nm regs dgs Hkw Hn Ht2 Hl Ht3|w e HRS].
  - apply (aligned_seg w); [|exact (seg_cons _ _ kw (seg_refl w))].
    exact (list_shape_aligned _ _ _ (wire_decl_shape_aligned _) _ _ _ _ Hl dg Hin).
  - apply (aligned_seg w); [|exact (seg_cons _ _ kw (seg_refl w))].
    exact (list_shape_aligned _ _ _ (const_decl_shape_aligned _) _ _ _ _ Hl dg Hin).
  - exact (list_shape_aligned _ _ _ (assign_shape_aligned _ _) _ _ _ _ Hl dg Hin).
  - apply (aligned_seg w); [|exact (seg_cons _ _ kw (seg_cons _ _ t1 (seg_cons _ _ t2 (seg_here w [t3]))))].
    exact (list_shape_aligned _ _ _ (reg_decl_shape_aligned _ (reads_expr_ne tiers)) _ _ _ _ Hl dg Hin).
  - destruct b; [|destruct Hin]. destruct Hin as [<-|[]]. exact (reads_simple_aligned _ _ _ _ HRS).
Qed.

Lemma prog_form_layout tiers b toks tail l : prog_form tiers b toks tail l ->
  exists consumed segs, toks = consumed ++ tail /\ layout consumed segs /\
    Forall2 (fun sg (x : dstmt * list pdiag) => forall dg, In dg (snd x) -> token_aligned sg (snd dg)) segs l.
Proof.
  induction 1 as [b semis tail Hs|b semis sg rest tail s0 k0 ds0 more Hs Hne Hsh Hk Hrest IH].
  - exists semis, []. split; [reflexivity|]. split; [apply layout_end; exact Hs|constructor].
  - destruct IH as (consumed & segs & Hc & Hl & Hf).
    exists (semis ++ sg ++ consumed), (sg :: segs). split; [rewrite Hc; napp; reflexivity|].
    split; [apply layout_stmt; assumption|]. constructor; [|exact Hf].
    exact (statement_form_aligned _ _ _ _ _ _ _ Hsh).
Qed.

Theorem diag_spans_in_statement_holds : stmt_diag_spans_in_statement.
Proof.
  intros tiers toks r Ho H. destruct (diag_grammar_sound_holds tiers toks r H) as (tail & Hp & Hr).
  destruct (prog_form_layout _ _ _ _ _ Hp) as (consumed & segs & Hc & Hl & Hf).
  exists consumed, tail, segs. split; [exact Hc|]. split; [exact Hl|]. split.
  - assert (Hsegs : forall sg, In sg segs -> exists pos, tokens_from pos sg).
    { intros sg Hsg. apply (ord_seg toks sg Ho). rewrite Hc. apply seg_app_r. exact (layout_seg _ _ Hl sg Hsg). }
    clear -Hf Hsegs. induction Hf as [|sg x segs l Hx Hrest IH]; [constructor|].
    constructor; [|apply IH; intros sg' Hin; apply Hsegs; right; exact Hin].
    intros d Hd. destruct (Hsegs sg (or_introl eq_refl)) as (pos & Hpos).
    split; [exact (Hx d Hd)|exact (proj2 (proj2 (aligned_numbers pos sg _ Hpos (Hx d Hd))))].
  - destruct r as [l|l ds]; [exact Hr|].
    destruct Hr as (ds0 & d & -> & Hff & Hal0).
    assert (Htail : exists pos, tokens_from pos tail).
    { apply (ord_seg toks tail Ho). rewrite Hc. apply seg_there. }
    destruct Htail as (pos & Hpos).
    assert (Hald : token_aligned tail (snd d)).
    { destruct Hff as (pre & p & t & post & -> & _ & -> & _). apply aligned_tok. apply in_or_app. right. right. left. reflexivity. }
    intros d0 Hin. apply in_app_or in Hin.
    assert (Hal : token_aligned tail (snd d0)) by (destruct Hin as [Hin|[<-|[]]]; [exact (Hal0 d0 Hin)|exact Hald]).
    split; [exact Hal|exact (proj2 (proj2 (aligned_numbers pos tail _ Hpos Hal)))].
Qed.

Theorem diag_spans_token_aligned_holds : stmt_diag_spans_token_aligned.
Proof.
  intros tiers toks r H d Hd. destruct (diag_grammar_sound_holds tiers toks r H) as (tail & Hp & Hr).
  destruct (prog_form_layout _ _ _ _ _ Hp) as (consumed & segs & Hc & Hl & Hf).
  assert (Hdone : In d (diags_of (result_stmts r)) -> token_aligned toks (snd d)).
  { intros Hin. apply in_diags_of in Hin. destruct Hin as (s & ds & Hin & Hdd).
    destruct (Forall2_in_r _ _ _ Hf (s, ds) Hin) as (sg & Hsg & Hx).
    apply (aligned_seg sg); [exact (Hx d Hdd)|]. rewrite Hc. apply seg_app_r. exact (layout_seg _ _ Hl sg Hsg). }
  destruct r as [l|l ds]; [exact (Hdone Hd)|].
  cbn [all_diags] in Hd. apply in_app_or in Hd. destruct Hd as [Hd|Hd]; [exact (Hdone Hd)|].
  destruct Hr as (ds0 & d1 & -> & Hff & Hal0).
  apply (aligned_seg tail); [|rewrite Hc; apply seg_there].
  apply in_app_or in Hd. destruct Hd as [Hd|[<-|[]]]; [exact (Hal0 d Hd)|].
  destruct Hff as (pre & p & t & post & -> & _ & -> & _). apply aligned_tok. apply in_or_app. right. right. left. reflexivity.
Qed.

Theorem diag_spans_in_text_holds : stmt_diag_spans_in_text.
Proof.
  intros uc tiers text r Hsc H. unfold parse_text_diag in H.
  destruct (lex uc (utf8 text)) as [toks [e|]] eqn:Hlex; [discriminate H|].
  destruct (lex_tokens_ordered_holds uc text toks None Hsc Hlex) as [Ho Hb].
  exists toks. split; [reflexivity|]. split; [exact Ho|].
  intros d Hd. pose proof (diag_spans_token_aligned_holds tiers toks r H d Hd) as Hal.
  split; [exact Hal|]. destruct (aligned_numbers 0 toks (snd d) Ho Hal) as (_ & Hlt & _). split; [exact Hlt|].
  destruct Hal as (i & j & ti & tj & _ & _ & Hj & _ & He). rewrite He. exact (Hb tj (nth_error_In _ _ Hj)).
Qed.

(* ====================================================================================== *)
(* 12. (c) kind by kind                                                                   *)
(* ====================================================================================== *)
Ltac one_diag Hin := cbn [In] in Hin;
  repeat match type of Hin with
         | _ \/ _ => destruct Hin as [Hin|Hin]
         | False => destruct Hin
         end;
  try discriminate Hin.
Ltac asplit := repeat (first [assumption | reflexivity | split; [first [assumption|reflexivity]|]]).

Theorem diag_missing_wire_width_span_holds : stmt_diag_missing_wire_width_span.
Proof.
  intros tiers rest it d ds sp H Hin. destruct H as [t1 t2 t3 nm w Hn Ht2 Hw Hna|t1 nm Hn Hnc Hna|t1 t2 we e nm Hn Ht2 HR|t1 t2 t3 t4 we e nm w Hn Ht2 Hw Ht4 HR];
    one_diag Hin; injection Hin as <-; exists t1, nm; (split; [exact Hn|]); (split; [reflexivity|]).
  - left. asplit.
  - right. exists t2, we, e. split; [reflexivity|]. split; [exact Ht2|]. split; [exact HR|]. split; [reflexivity|].
    right. left. reflexivity.
Qed.

Theorem diag_wire_assigned_span_holds : stmt_diag_wire_assigned_span.
Proof.
  intros tiers rest it d ds sp H Hin. destruct H as [t1 t2 t3 nm w Hn Ht2 Hw Hna|t1 nm Hn Hnc Hna|t1 t2 we e nm Hn Ht2 HR|t1 t2 t3 t4 we e nm w Hn Ht2 Hw Ht4 HR];
    one_diag Hin; injection Hin as <-; exists t1, nm, we, e; (split; [exact Hn|]); (split; [exact HR|]).
  - left. exists t2. asplit.
  - right. exists t2, t3, t4, w. asplit.
Qed.

Theorem diag_added_const_width_span_holds : stmt_diag_added_const_width_span.
Proof.
  intros tiers rest it d ds sp H Hin. destruct H as [t1 t2 we e nm Hn Ht2 HR|t1 t2 t3 t4 we e nm w Hn Ht2 Hw Ht4 HR];
    one_diag Hin; injection Hin as <-.
  exists t1, t2, t3, t4, we, e, nm, w. asplit.
Qed.

Theorem diag_missing_assignment_mux_span_holds : stmt_diag_missing_assignment_mux_span.
Proof.
  intros tiers rest it a ds sp H Hin. destruct H as [wn names we e Hsh Hs HR|t1 t2 wo t3 nm c v more Hn Ht2 HRO Ht3];
    one_diag Hin; injection Hin as <-.
  exists t1, t2, wo, t3, nm, c, v, more. asplit.
Qed.

Theorem diag_missing_register_width_span_holds : stmt_diag_missing_register_width_span.
Proof.
  intros tiers rest it r ds sp H Hin.
  destruct H as [t1 t2 t3 t4 we e nm w Hn Ht2 Hw Ht4 HR|t1 t2 we e nm Hn Ht2 HR|t1 t2 t3 we e nm Ht1 Hn Ht3 HR|t1 t2 t3 t4 t5 we e nm w Ht1 Hn Ht3 Hw Ht5 HR];
    one_diag Hin; injection Hin as <-.
  exists t1, t2, we, e, nm. split; [reflexivity|]. split; [exact Hn|]. split; [exact Ht2|]. split; [exact HR|].
  split; [reflexivity|]. split; [|split; reflexivity].
  unfold extent. cbn [first_start]. rewrite (last_end_cons2 t1 t2 we (reads_expr_ne _ _ _ _ HR)). reflexivity.
Qed.

Theorem diag_register_declared_with_wire_span_holds : stmt_diag_register_declared_with_wire_span.
Proof.
  intros tiers rest it r ds sp H Hin.
  destruct H as [t1 t2 t3 t4 we e nm w Hn Ht2 Hw Ht4 HR|t1 t2 we e nm Hn Ht2 HR|t1 t2 t3 we e nm Ht1 Hn Ht3 HR|t1 t2 t3 t4 t5 we e nm w Ht1 Hn Ht3 Hw Ht5 HR];
    one_diag Hin; injection Hin as <-; pose proof (reads_expr_ne _ _ _ _ HR) as Hne.
  - exists t1, t2, nm, we, e, [t3]. split; [reflexivity|]. split; [exact Ht1|]. split; [exact Hn|]. split; [exact HR|].
    split; [reflexivity|]. split; [|split; [reflexivity|left; exists t3; split; [reflexivity|exact Ht3]]].
    unfold extent. cbn [first_start app]. rewrite (last_end_cons t1) by discriminate.
    rewrite (last_end_cons2 t2 t3 we Hne). reflexivity.
  - exists t1, t2, nm, we, e, [t3; t4; t5]. split; [reflexivity|]. split; [exact Ht1|]. split; [exact Hn|]. split; [exact HR|].
    split; [reflexivity|]. split; [|split; [reflexivity|right; exists t3, t4, t5, w; asplit]].
    unfold extent. cbn [first_start app]. rewrite (last_end_cons t1) by discriminate.
    rewrite (last_end_cons2 t2 t3 (t4 :: t5 :: we)) by discriminate. rewrite (last_end_cons2 t4 t5 we Hne). reflexivity.
Qed.

(* the items of a list *)
Lemma list_shape_item {A} starts sep (shape : list tok -> list tok -> A -> list pdiag -> Prop) rest w l dgs :
  list_shape starts sep shape rest w l dgs -> forall dg, In dg dgs ->
  exists it after d dsi, item_of sep w rest it after /\ shape after it d dsi /\ In d l /\ In dg dsi.
Proof.
  intros H. induction H as [Hn|it d ds Hsh Hn|it d ds c w more dss Hsh Hc Hl IH]; intros dg Hin.
  - destruct Hin.
  - exists it, rest, d, ds. split; [exists []; split; [reflexivity|left; reflexivity]|].
    split; [exact Hsh|]. split; [left; reflexivity|exact Hin].
  - apply in_app_or in Hin. destruct Hin as [Hin|Hin].
    + exists it, (c :: w ++ rest), d, ds. split; [exists []; split; [napp; reflexivity|left; reflexivity]|].
      split; [exact Hsh|]. split; [left; reflexivity|exact Hin].
    + destruct (IH dg Hin) as (it' & after & d' & dsi & (before & Heq & Hb) & Hsh' & Hd' & Hdg).
      exists it', after, d', dsi. split; [|split; [exact Hsh'|split; [right; exact Hd'|exact Hdg]]].
      exists (it ++ c :: before). split; [rewrite <- !app_assoc; cbn [app]; rewrite Heq; reflexivity|].
      right. destruct Hb as [->|(b & c' & -> & Hc')].
      * exists it, c. split; [reflexivity|exact Hc].
      * exists (it ++ c :: b), c'. split; [rewrite <- app_assoc; reflexivity|exact Hc'].
Qed.

Theorem diag_from_declaration_holds : stmt_diag_from_declaration.
Proof.
  intros tiers b rest sg s k ds dg H Hin.
  destruct H as [kw w l dgs Hkw Hl|kw w l dgs Hkw Hl|w a dgs Hne Hl|kw t1 t2 w t3 nm regs dgs Hkw Hn Ht2 Hl Ht3|w e HRS].
  - destruct (list_shape_item _ _ _ _ _ _ _ Hl dg Hin) as (it & after & d & dsi & H1 & H2 & H3 & H4).
    exists kw, w, it, after, d, dsi. asplit.
  - destruct (list_shape_item _ _ _ _ _ _ _ Hl dg Hin) as (it & after & d & dsi & H1 & H2 & H3 & H4).
    exists kw, w, it, after, d, dsi. asplit.
  - destruct (list_shape_item _ _ _ _ _ _ _ Hl dg Hin) as (it & after & d & dsi & H1 & H2 & H3 & H4).
    exists it, after, d, dsi. asplit.
  - destruct (list_shape_item _ _ _ _ _ _ _ Hl dg Hin) as (it & after & d & dsi & H1 & H2 & H3 & H4).
    exists kw, t1, t2, w, t3, it, after, d, dsi. asplit.
  - destruct b; [|destruct Hin]. destruct Hin as [<-|[]]. reflexivity.
Qed.

Theorem diag_expected_statement_span_holds : stmt_diag_expected_statement_span.
Proof.
  intros tiers b rest sg s k ds sp H Hin.
  pose proof (diag_from_declaration_holds tiers b rest sg s k ds _ H Hin) as Hfrom.
  destruct H as [kw w l dgs Hkw Hl|kw w l dgs Hkw Hl|w a dgs Hne Hl|kw t1 t2 w t3 nm regs dgs Hkw Hn Ht2 Hl Ht3|w e HRS].
  - exfalso. destruct Hfrom as (_ & _ & it & after & d & dsi & _ & _ & _ & Hsh & _ & Hd). destruct Hsh; one_diag Hd.
  - exfalso. destruct Hfrom as (_ & _ & it & after & d & dsi & _ & _ & _ & Hsh & _ & Hd). destruct Hsh; one_diag Hd.
  - exfalso. destruct Hfrom as (it & after & d & dsi & _ & Hsh & _ & Hd). destruct Hsh; one_diag Hd.
  - exfalso. destruct Hfrom as (_ & _ & _ & _ & _ & it & after & d & dsi & _ & _ & _ & _ & _ & Hsh & _ & Hd).
    destruct Hsh; one_diag Hd.
  - destruct b; [|destruct Hin]. destruct Hin as [Heq|[]]. injection Heq as <-.
    exists e. split; [exact HRS|]. split; [reflexivity|]. split; [reflexivity|]. split; [reflexivity|]. split; [reflexivity|].
    exact (reads_simple_aligned _ _ _ _ HRS).
Qed.

(* ---- conversely ---- *)
Lemma reads_Rf tiers we rest e : reads_expr tiers we rest e -> exists f0, forall f, (f0 <= f)%nat -> Rf tiers f we rest e.
Proof.
  intros (Hne & f0 & H). exists f0. intros f Hf. split; [exact Hne|].
  exact (Stab1_mono (parse_expr_sp tiers) f0 _ _ _ f (parse_expr_sp_stable tiers f0) H Hf).
Qed.
Lemma reads_ROf tiers wo rest a : reads_options tiers wo rest a -> exists f0, forall f, (f0 <= f)%nat -> ROf tiers f wo rest a.
Proof.
  intros (f0 & H). exists f0. intros f Hf.
  exact (Stab_mono (parse_mux_options_sp tiers) f0 _ _ _ f (proj1 (proj2 (proj2 (proj2 (proj2 (stable_all tiers f0)))))) H Hf).
Qed.

Theorem diag_wire_decl_complete_holds : stmt_diag_wire_decl_complete.
Proof.
  intros tiers rest it d ds H.
  destruct H as [t1 t2 t3 nm w Hn Ht2 Hw Hna|t1 nm Hn Hnc Hna|t1 t2 we e nm Hn Ht2 HR|t1 t2 t3 t4 we e nm w Hn Ht2 Hw Ht4 HR].
  - exists O. intros f eof _. apply wire_decl_d_complete. apply WS_plain; assumption.
  - exists O. intros f eof _. apply wire_decl_d_complete. apply WS_missing; assumption.
  - destruct (reads_Rf _ _ _ _ HR) as (f0 & Hf0). exists f0. intros f eof Hf. apply wire_decl_d_complete.
    apply (WS_assigned _ _ _ _ we e); try assumption. exact (Hf0 f Hf).
  - destruct (reads_Rf _ _ _ _ HR) as (f0 & Hf0). exists f0. intros f eof Hf. apply wire_decl_d_complete.
    apply (WS_width_assigned _ _ _ _ _ _ we e); try assumption. exact (Hf0 f Hf).
Qed.

Theorem diag_const_decl_complete_holds : stmt_diag_const_decl_complete.
Proof.
  intros tiers rest it d ds H.
  destruct H as [t1 t2 we e nm Hn Ht2 HR|t1 t2 t3 t4 we e nm w Hn Ht2 Hw Ht4 HR];
    destruct (reads_Rf _ _ _ _ HR) as (f0 & Hf0); exists f0; intros f Hf; apply const_decl_d_complete.
  - apply (CS_plain _ _ _ _ we e); try assumption. exact (Hf0 f Hf).
  - apply (CS_width _ _ _ _ _ _ we e _ w); try assumption. exact (Hf0 f Hf).
Qed.

Theorem diag_assignment_complete_holds : stmt_diag_assignment_complete.
Proof.
  intros tiers rest it a ds H.
  destruct H as [wn names we e Hsh Hs HR|t1 t2 wo t3 nm c v more Hn Ht2 HRO Ht3].
  - destruct (reads_Rf _ _ _ _ HR) as (f0 & Hf0). exists f0. intros f Hf. apply assignment_d_complete.
    apply AS_plain; try assumption. exact (Hf0 f Hf).
  - destruct (reads_ROf _ _ _ _ HRO) as (f0 & Hf0). exists f0. intros f Hf. apply assignment_d_complete.
    apply AS_mux; try assumption. exact (Hf0 f Hf).
Qed.

Theorem diag_reg_decl_complete_holds : stmt_diag_reg_decl_complete.
Proof.
  intros tiers rest it r ds H.
  destruct H as [t1 t2 t3 t4 we e nm w Hn Ht2 Hw Ht4 HR|t1 t2 we e nm Hn Ht2 HR|t1 t2 t3 we e nm Ht1 Hn Ht3 HR|t1 t2 t3 t4 t5 we e nm w Ht1 Hn Ht3 Hw Ht5 HR];
    destruct (reads_Rf _ _ _ _ HR) as (f0 & Hf0); exists f0; intros f Hf; apply reg_decl_d_complete.
  - apply (RS_plain _ _ _ _ _ _ we e); try assumption. exact (Hf0 f Hf).
  - apply (RS_nowidth _ _ _ _ we e nm); try assumption. exact (Hf0 f Hf).
  - apply (RS_wire _ _ _ _ _ we e nm); try assumption. exact (Hf0 f Hf).
  - apply (RS_wire_width _ _ _ _ _ _ _ we e nm w); try assumption. exact (Hf0 f Hf).
Qed.

Theorem diag_missing_wire_width_complete_holds : stmt_diag_missing_wire_width_complete.
Proof.
  intros tiers f eof t1 nm rest Hn Hnc Hna. change (t1 :: rest) with ([t1] ++ rest).
  apply wire_decl_d_complete. apply WS_missing; assumption.
Qed.

Theorem diag_wire_assigned_complete_holds : stmt_diag_wire_assigned_complete.
Proof.
  intros tiers t1 t2 t3 t4 nm w we e rest Hn Ht2 Hw Ht4 HR.
  exact (diag_wire_decl_complete_holds tiers rest _ _ _ (WS_width_assigned _ _ _ _ _ _ we e nm w Hn Ht2 Hw Ht4 HR)).
Qed.

Theorem diag_wire_assigned_nowidth_complete_holds : stmt_diag_wire_assigned_nowidth_complete.
Proof.
  intros tiers t1 t2 nm we e rest Hn Ht2 HR.
  exact (diag_wire_decl_complete_holds tiers rest _ _ _ (WS_assigned _ _ _ _ we e nm Hn Ht2 HR)).
Qed.

Theorem diag_added_const_width_complete_holds : stmt_diag_added_const_width_complete.
Proof.
  intros tiers t1 t2 t3 t4 nm w we e rest Hn Ht2 Hw Ht4 HR.
  exact (diag_const_decl_complete_holds tiers rest _ _ _ (CS_width _ _ _ _ _ _ we e nm w Hn Ht2 Hw Ht4 HR)).
Qed.

Theorem diag_missing_register_width_complete_holds : stmt_diag_missing_register_width_complete.
Proof.
  intros tiers t1 t2 nm we e rest Hn Ht2 HR.
  exact (diag_reg_decl_complete_holds tiers rest _ _ _ (RS_nowidth _ _ _ _ we e nm Hn Ht2 HR)).
Qed.

Theorem diag_register_declared_with_wire_complete_holds : stmt_diag_register_declared_with_wire_complete.
Proof.
  intros tiers t1 t2 t3 nm we e rest Ht1 Hn Ht3 HR.
  exact (diag_reg_decl_complete_holds tiers rest _ _ _ (RS_wire _ _ _ _ _ we e nm Ht1 Hn Ht3 HR)).
Qed.

Theorem diag_missing_assignment_mux_complete_holds : stmt_diag_missing_assignment_mux_complete.
Proof.
  intros tiers t1 t2 wo t3 nm c v more rest Hn Ht2 Ht3 HRO.
  destruct (diag_assignment_complete_holds tiers rest _ _ _ (AS_mux _ _ _ _ _ _ _ _ _ _ _ Hn Ht2 HRO Ht3)) as (f0 & Hf0).
  exists f0. intros f Hf. specialize (Hf0 f Hf). cbn [app] in Hf0. rewrite <- app_assoc in Hf0. exact Hf0.
Qed.

Theorem diag_invalid_wire_width_complete_holds : stmt_diag_invalid_wire_width_complete.
Proof.
  intros tiers f eof t1 t2 t3 nm rest (name & Ht1 & ->) Ht2 Hw Hfol.
  unfold wire_decl_d. rewrite Ht1, Ht2. cbn [token_eqb]. rewrite (proj1 (too_wide_wc _) Hw), Hfol. reflexivity.
Qed.

(* ====================================================================================== *)
(* 13. a statement depends only on its tokens and on the kind of the next token           *)
(* ====================================================================================== *)
Section StatementStable.
  Variable tiers : list tier.

  Lemma statement_d_stable f eof ne toks s k rest ds :
    statement_d tiers f eof ne toks = POk (s, k, rest) ds ->
    exists sg, toks = sg ++ rest /\ sg <> [] /\
      forall f' rest', (f <= f')%nat -> k = NoSemi \/ compat rest rest' ->
        statement_d tiers f' eof ne (sg ++ rest') = POk (s, k, rest') ds.
  Proof.
    unfold statement_d. intros H.
    assert (Hsimple : simple_statement_d tiers f ne toks = POk (s, k, rest) ds ->
              exists w, toks = w ++ rest /\ w <> [] /\ k = NeedSemi /\
                forall f' rest', (f <= f')%nat -> compat rest rest' ->
                  simple_statement_d tiers f' ne (w ++ rest') = POk (s, k, rest') ds).
    { intros Hs. destruct (simple_statement_d_inv _ _ _ _ _ _ _ _ Hs) as (e & ext & Hp & -> & -> & ->).
      destruct (proj1 (proj2 (proj2 (proj2 (stable_all tiers f)))) _ _ _ Hp) as (w & Hw & Hne & St).
      exists w. split; [exact Hw|]. split; [exact Hne|]. split; [reflexivity|].
      intros f' rest' Hf Hc. unfold simple_statement_d. rewrite (St f' rest' Hf Hc). reflexivity. }
    destruct toks as [|t toks1]; [discriminate H|].
    destruct (tk t) eqn:Ht; try discriminate H.
    - (* literal *)
      destruct (Hsimple H) as (w & Hw & Hne & -> & St). exists w. split; [exact Hw|]. split; [exact Hne|].
      intros f' rest' Hf [Hk|Hc]; [discriminate Hk|].
      destruct w as [|x w']; [congruence|]. cbn [app] in Hw |- *. injection Hw as <- _. rewrite Ht. exact (St f' rest' Hf Hc).
    - destruct (Hsimple H) as (w & Hw & Hne & -> & St). exists w. split; [exact Hw|]. split; [exact Hne|].
      intros f' rest' Hf [Hk|Hc]; [discriminate Hk|].
      destruct w as [|x w']; [congruence|]. cbn [app] in Hw |- *. injection Hw as <- _. rewrite Ht. exact (St f' rest' Hf Hc).
    - destruct (Hsimple H) as (w & Hw & Hne & -> & St). exists w. split; [exact Hw|]. split; [exact Hne|].
      intros f' rest' Hf [Hk|Hc]; [discriminate Hk|].
      destruct w as [|x w']; [congruence|]. cbn [app] in Hw |- *. injection Hw as <- _. rewrite Ht. exact (St f' rest' Hf Hc).
    - (* wire *)
      destruct (lift_list_ok _ _ _ _ _ _ H) as (d & Hr & -> & ->).
      destruct (list_d_stable starts_name TComma (fun f => wire_decl_d tiers f eof) (wire_decl_d_stable tiers eof)
                              _ _ _ _ _ Hr) as (w & Hw & St).
      exists (t :: w). split; [rewrite Hw; reflexivity|]. split; [discriminate|].
      intros f' rest' Hf [Hk|Hc]; [discriminate Hk|]. cbn [app]. rewrite Ht. unfold wire_decls_d.
      rewrite (St f' rest' Hf Hc). reflexivity.
    - destruct (lift_list_ok _ _ _ _ _ _ H) as (d & Hr & -> & ->).
      destruct (list_d_stable starts_name TComma (const_decl_d tiers) (const_decl_d_stable tiers)
                              _ _ _ _ _ Hr) as (w & Hw & St).
      exists (t :: w). split; [rewrite Hw; reflexivity|]. split; [discriminate|].
      intros f' rest' Hf [Hk|Hc]; [discriminate Hk|]. cbn [app]. rewrite Ht. unfold const_decls_d.
      rewrite (St f' rest' Hf Hc). reflexivity.
    - (* register *)
      destruct toks1 as [|t1 [|t2 toks2]]; try discriminate H.
      destruct (tk t1) eqn:Ht1; try discriminate H.
      destruct (token_eqb (tk t2) TOpenBrace) eqn:Eb; [|discriminate H].
      destruct (reg_decls_d tiers f toks2) as [[regs [|t3 rest1]] ds1|ds1|] eqn:E1; try discriminate H.
      destruct (token_eqb (tk t3) TCloseBrace) eqn:Ecb; [|discriminate H].
      injection H as <- <- <- <-.
      destruct (list_d_stable starts_reg_decl TSemicolon (reg_decl_d tiers) (reg_decl_d_stable tiers)
                              _ _ _ _ _ E1) as (w & Hw & St).
      exists (t :: t1 :: t2 :: w ++ [t3]). split; [rewrite Hw; napp; reflexivity|]. split; [discriminate|].
      intros f' rest' Hf _. napp. rewrite Ht, Ht1, Eb. unfold reg_decls_d.
      rewrite (St f' (t3 :: rest') Hf (compat_cons t3 rest1 rest')). rewrite Ecb. reflexivity.
    - (* identifier *)
      destruct (next_is TAssign toks1 || next_is TOpenBracket toks1) eqn:Edisp.
      + destruct (lift_list_ok _ _ _ _ _ _ H) as (d & Hr & -> & ->).
        destruct (assignments_d_stable tiers _ _ _ _ _ Hr) as (w & Hw & (a1 & a2 & w' & ->) & St).
        exists (a1 :: a2 :: w'). split; [exact Hw|]. split; [discriminate|].
        intros f' rest' Hf [Hk|Hc]; [discriminate Hk|].
        cbn [app] in Hw. injection Hw as -> ->. cbn [app]. rewrite Ht.
        cbn [next_is app] in Edisp |- *. rewrite Edisp.
        change (a1 :: a2 :: w' ++ rest') with ((a1 :: a2 :: w') ++ rest'). rewrite (St f' rest' Hf Hc). reflexivity.
      + destruct (Hsimple H) as (w & Hw & Hne & -> & St).
        (* the term is the identifier alone *)
        assert (Hw1 : w = [t]).
        { destruct (simple_statement_d_inv _ _ _ _ _ _ _ _ H) as (e & ext & Hp & _).
          destruct f as [|f0]; [discriminate Hp|]. rewrite parse_simple_sp_S, Ht in Hp. injection Hp as _ _ Hr.
          rewrite <- Hr in Hw. change (t :: toks1) with ([t] ++ toks1) in Hw. apply app_inv_tail in Hw. symmetry. exact Hw. }
        subst w. exists [t]. split; [exact Hw|]. split; [discriminate|].
        intros f' rest' Hf [Hk|Hc]; [discriminate Hk|]. cbn [app]. rewrite Ht.
        cbn [app] in Hw. injection Hw as ->.
        apply Bool.orb_false_iff in Edisp. destruct Edisp as [E1 E2].
        rewrite (next_is_compat _ _ _ Hc E1), (next_is_compat _ _ _ Hc E2). cbn [orb].
        exact (St f' rest' Hf Hc).
  Qed.
End StatementStable.

(* ====================================================================================== *)
(* 14. the statements after those of a preamble                                           *)
(* ====================================================================================== *)
Lemma Fat_aligned toks ds : Fat toks ds -> forall dg, In dg ds -> token_aligned toks (snd dg).
Proof.
  intros (ds0 & d & -> & Hff & Hal0) dg Hin. apply in_app_or in Hin. destruct Hin as [Hin|[<-|[]]]; [exact (Hal0 dg Hin)|].
  destruct Hff as (pre & p & t & post & -> & _ & -> & _). apply aligned_tok. apply in_or_app. right. right. left. reflexivity.
Qed.

Section AfterPrefixD.
  Variable tiers : list tier.

  Definition tail_ok (u : list tok) (x : dstmt * list pdiag) : Prop :=
    forall dg, In dg (snd x) -> token_aligned u (snd dg).

  Lemma tail_ok_suffix p u x : tail_ok u x -> tail_ok (p ++ u) x.
  Proof. intros H dg Hin. exact (aligned_seg _ _ _ (H dg Hin) (seg_there u p)). Qed.

  Lemma run_in_tail_d f u seen dacc r : statements_d tiers f u seen dacc = Some r ->
    exists news, result_stmts r = rev dacc ++ news /\ (forall x, In x news -> tail_ok u x) /\
      (forall l ds, r = DFatal l ds -> forall dg, In dg ds -> token_aligned u (snd dg)).
  Proof.
    intros H. destruct (statements_d_sound tiers _ _ _ _ _ H) as (news & tail & H1 & H2 & H3).
    destruct (prog_form_layout _ _ _ _ _ H2) as (consumed & segs & Hc & Hl & Hf).
    exists news. split; [exact H1|]. split.
    - intros x Hx dg Hin. destruct (Forall2_in_r _ _ _ Hf x Hx) as (sg & Hsg & Hal).
      apply (aligned_seg sg); [exact (Hal dg Hin)|]. rewrite Hc. apply seg_app_r. exact (layout_seg _ _ Hl sg Hsg).
    - intros l ds -> dg Hin. apply (aligned_seg tail); [exact (Fat_aligned _ _ H3 dg Hin)|]. rewrite Hc. apply seg_there.
  Qed.

  Lemma stmts_d_after_prefix : forall fa a seen acca resa,
    parse_statements_sp tiers fa a seen acca = Some resa ->
    forall f u dacc r, statements_d tiers f (a ++ u) seen dacc = Some r ->
      exists newsa news, resa = rev acca ++ newsa /\ result_stmts r = rev dacc ++ news /\
        (forall x, In x (skipn (List.length newsa) news) -> tail_ok u x) /\
        (forall l ds, r = DFatal l ds -> (List.length newsa <= List.length news)%nat ->
                      forall dg, In dg ds -> token_aligned u (snd dg)).
  Proof.
    induction fa as [|fa IH]; intros a seen acca resa Ha f u dacc r Hc; [discriminate Ha|].
    cbn [parse_statements_sp] in Ha.
    destruct a as [|t a1].
    { destruct seen; [|discriminate Ha]. injection Ha as <-. cbn [app] in Hc.
      destruct (run_in_tail_d _ _ _ _ _ Hc) as (news & Hres & Hin & Hfat).
      exists [], news. rewrite app_nil_r. split; [reflexivity|]. split; [exact Hres|]. split; [exact Hin|].
      intros l ds Hr _. exact (Hfat l ds Hr). }
    destruct f as [|f]; [discriminate Hc|]. cbn [statements_d app] in Hc.
    destruct (token_eqb (tk t) TSemicolon) eqn:Esemi.
    { destruct seen; [|discriminate Ha]. exact (IH _ _ _ _ Ha _ _ _ _ Hc). }
    change (t :: a1 ++ u) with ((t :: a1) ++ u) in Hc.
    set (Fa := (20 * S (List.length (t :: a1)))%nat) in Ha.
    set (F := (20 * S (List.length ((t :: a1) ++ u)))%nat) in Hc.
    assert (HF : (Fa <= F)%nat) by (unfold Fa, F; rewrite app_length; lia).
    destruct (parse_statement_sp tiers Fa (t :: a1)) as [[[sa ka] resta]|] eqn:Esa; [|discriminate Ha].
    destruct (statement_stable tiers _ _ _ _ _ Esa) as (w & Hw & Hwne & St).
    (* the statement of the prefix, read by the diagnostic parser in front of other tokens *)
    assert (Hsame : forall rest', ka = NoSemi \/ compat resta rest' ->
              (ka = NeedSemi -> rest' = [] \/ next_is TSemicolon rest' = true) ->
              statement_d tiers F seen (no_diags dacc) (w ++ rest') = POk (dstmt_of sa, ka, rest') []).
    { intros rest' Hk Hside. apply statement_fwd; [exact (St F rest' HF Hk)|exact Hside]. }
    assert (Hcons : forall newsa' news', resa = rev (sa :: acca) ++ newsa' ->
              result_stmts r = rev ((dstmt_of sa, []) :: dacc) ++ news' ->
              (forall x, In x (skipn (List.length newsa') news') -> tail_ok u x) ->
              (forall l ds, r = DFatal l ds -> (List.length newsa' <= List.length news')%nat ->
                            forall dg, In dg ds -> token_aligned u (snd dg)) ->
              exists newsa news, resa = rev acca ++ newsa /\ result_stmts r = rev dacc ++ news /\
                (forall x, In x (skipn (List.length newsa) news) -> tail_ok u x) /\
                (forall l ds, r = DFatal l ds -> (List.length newsa <= List.length news)%nat ->
                              forall dg, In dg ds -> token_aligned u (snd dg))).
    { intros newsa' news' H1 H2 H3 H4. exists (sa :: newsa'), ((dstmt_of sa, []) :: news').
      split; [rewrite H1; cbn [rev]; rewrite <- app_assoc; reflexivity|].
      split; [rewrite H2; cbn [rev]; rewrite <- app_assoc; reflexivity|].
      split; [exact H3|]. intros l ds Hr Hlen. apply (H4 l ds Hr). cbn [List.length] in Hlen. lia. }
    destruct ka.
    - destruct resta as [|t2 r0].
      + (* the last statement of the prefix has no ";" of its own *)
        destruct seen; [|discriminate Ha]. injection Ha as <-.
        rewrite app_nil_r in Hw.
        destruct (statement_d tiers F true (no_diags dacc) ((t :: a1) ++ u)) as [[[sc kc] restc] dsc|dsc|] eqn:Esc;
          [| |discriminate Hc].
        2:{ injection Hc as <-. exists [sa], []. split; [reflexivity|]. cbn [result_stmts]. rewrite app_nil_r.
            split; [reflexivity|]. split; [intros x []|]. intros l ds _ Hlen. cbn in Hlen. lia. }
        destruct (statement_d_stable tiers _ _ _ _ _ _ _ _ Esc) as (wc & Hwc & Hwcne & Stc).
        assert (Hsuffix : exists u1, u = u1 ++ restc).
        { destruct (app_eq_app _ _ _ _ Hwc) as (l & [[H1 H2]|[H1 H2]]).
          - destruct l as [|x l]; [exists []; rewrite H2; reflexivity|]. exfalso.
            assert (Hc1 : kc = NoSemi \/ compat restc (x :: l)) by (right; rewrite H2; reflexivity).
            pose proof (Stc F (x :: l) (Nat.le_refl _) Hc1) as E1. rewrite <- H1 in E1.
            pose proof (Hsame [] (or_intror I) (fun _ => or_introl eq_refl)) as E2. rewrite app_nil_r, <- Hw in E2.
            rewrite E2 in E1. discriminate E1.
          - exists l. exact H2. }
        destruct Hsuffix as (u1 & Hu).
        assert (Hfin : forall news', result_stmts r = rev ((sc, dsc) :: dacc) ++ news' ->
                  (forall x, In x news' -> tail_ok u x) ->
                  (forall l ds, r = DFatal l ds -> forall dg, In dg ds -> token_aligned u (snd dg)) ->
                  exists newsa news, rev (sa :: acca) = rev acca ++ newsa /\ result_stmts r = rev dacc ++ news /\
                    (forall x, In x (skipn (List.length newsa) news) -> tail_ok u x) /\
                    (forall l ds, r = DFatal l ds -> (List.length newsa <= List.length news)%nat ->
                                  forall dg, In dg ds -> token_aligned u (snd dg))).
        { intros news' H1 H2 H3. exists [sa], ((sc, dsc) :: news'). split; [reflexivity|].
          split; [rewrite H1; cbn [rev]; rewrite <- app_assoc; reflexivity|]. split; [exact H2|].
          intros l ds Hr _. exact (H3 l ds Hr). }
        assert (Hrun : forall rest1 p1, u = p1 ++ rest1 -> statements_d tiers f rest1 true ((sc, dsc) :: dacc) = Some r ->
                  exists newsa news, rev (sa :: acca) = rev acca ++ newsa /\ result_stmts r = rev dacc ++ news /\
                    (forall x, In x (skipn (List.length newsa) news) -> tail_ok u x) /\
                    (forall l ds, r = DFatal l ds -> (List.length newsa <= List.length news)%nat ->
                                  forall dg, In dg ds -> token_aligned u (snd dg))).
        { intros rest1 p1 Hp Hrun. destruct (run_in_tail_d _ _ _ _ _ Hrun) as (news' & Hres & Hin & Hfat).
          apply (Hfin news' Hres).
          - intros x Hx. rewrite Hp. apply tail_ok_suffix. exact (Hin x Hx).
          - intros l ds Hr dg Hdg. rewrite Hp. exact (aligned_seg _ _ _ (Hfat l ds Hr dg Hdg) (seg_there rest1 p1)). }
        destruct kc.
        * destruct restc as [|t2 restc].
          -- injection Hc as <-. apply (Hfin []); [cbn [result_stmts]; rewrite app_nil_r; reflexivity|intros x []|].
             intros l ds Hr. discriminate Hr.
          -- destruct (token_eqb (tk t2) TSemicolon); [|discriminate Hc].
             apply (Hrun restc (u1 ++ [t2])); [rewrite Hu, <- app_assoc; reflexivity|exact Hc].
        * exact (Hrun restc u1 Hu Hc).
      + destruct (token_eqb (tk t2) TSemicolon) eqn:E2; [|discriminate Ha].
        rewrite Hw, <- app_assoc in Hc.
        rewrite (Hsame ((t2 :: r0) ++ u) (or_intror eq_refl) (fun _ => or_intror E2)) in Hc.
        cbn [app] in Hc. rewrite E2 in Hc.
        destruct (IH _ _ _ _ Ha _ _ _ _ Hc) as (newsa' & news' & H1 & H2 & H3 & H4).
        exact (Hcons newsa' news' H1 H2 H3 H4).
    - rewrite Hw, <- app_assoc in Hc.
      rewrite (Hsame (resta ++ u) (or_introl eq_refl) ltac:(discriminate)) in Hc.
      destruct (IH _ _ _ _ Ha _ _ _ _ Hc) as (newsa' & news' & H1 & H2 & H3 & H4).
      exact (Hcons newsa' news' H1 H2 H3 H4).
  Qed.

  Lemma parse_diag_after_prefix a u pstmts r :
    parse_sp tiers a = Some pstmts -> parse_diag tiers (a ++ u) = Some r ->
    forall d, In d (user_diags (List.length pstmts) r) -> token_aligned u (snd d).
  Proof.
    unfold parse_sp, parse_diag. intros Ha Hc d Hd.
    destruct (stmts_d_after_prefix _ _ _ _ _ Ha _ _ _ _ Hc) as (newsa & news & H1 & H2 & H3 & H4).
    cbn [rev app] in H1, H2. subst newsa.
    assert (Hdone : In d (diags_of (skipn (List.length pstmts) (result_stmts r))) -> token_aligned u (snd d)).
    { intros Hin. apply in_diags_of in Hin. destruct Hin as (s & ds & Hin & Hdd).
      rewrite H2 in Hin. exact (H3 (s, ds) Hin d Hdd). }
    destruct r as [l|l ds]; cbn [user_diags result_stmts] in *; [exact (Hdone Hd)|].
    apply in_app_or in Hd. destruct Hd as [Hd|Hd]; [exact (Hdone Hd)|].
    destruct (Nat.leb (List.length pstmts) (List.length l)) eqn:Ele; [|destruct Hd].
    apply Nat.leb_le in Ele. subst l. exact (H4 news ds eq_refl Ele d Hd).
  Qed.
End AfterPrefixD.

Theorem diag_user_span_rendered_holds : stmt_diag_user_span_rendered.
Proof.
  intros uc tiers ptext utext fname pstmts r Hsc Hp Hw pre user fc d Hd.
  unfold parse_text_sp in Hp. unfold parse_text_diag in Hw.
  destruct (lex uc (utf8 (ptext ++ [10]))) as [toks_a [e|]] eqn:Ha; [discriminate Hp|].
  destruct (lex uc (utf8 ((ptext ++ [10]) ++ utext))) as [toks [e|]] eqn:Hl; [discriminate Hw|].
  destruct (lex_whole uc ptext utext toks_a toks Hsc Ha Hl) as (toks_b & ->).
  pose proof (parse_diag_after_prefix tiers _ _ _ _ Hp Hw d Hd) as Hal.
  assert (Hsc' : Forall scalar ((ptext ++ [10]) ++ utext)) by (rewrite <- app_assoc; exact Hsc).
  assert (Hall : In d (all_diags r)).
  { destruct r as [l|l ds]; cbn [user_diags all_diags] in *.
    - apply in_diags_of in Hd. destruct Hd as (s & ds & Hin & Hdd). apply in_diags_of. exists s, ds.
      split; [|exact Hdd]. rewrite <- (firstn_skipn (List.length pstmts) l). apply in_or_app. right. exact Hin.
    - apply in_app_or in Hd. apply in_or_app. destruct Hd as [Hd|Hd].
      + left. apply in_diags_of in Hd. destruct Hd as (s & ds0 & Hin & Hdd). apply in_diags_of. exists s, ds0.
        split; [|exact Hdd]. rewrite <- (firstn_skipn (List.length pstmts) l). apply in_or_app. right. exact Hin.
      + right. destruct (Nat.leb (List.length pstmts) (List.length l)); [exact Hd|destruct Hd]. }
  assert (Htext : parse_text_diag uc tiers (utf8 ((ptext ++ [10]) ++ utext)) = Some r).
  { unfold parse_text_diag. rewrite Hl. exact Hw. }
  destruct (diag_spans_in_text_holds uc tiers _ r Hsc' Htext) as (toks' & _ & _ & Hin).
  destruct (Hin d Hall) as (_ & Hlt & Hle).
  apply (rendered_in_user_file pre user fname (fst (snd d)) (snd (snd d)) (wf_text_utf8 _) (wf_text_utf8 _)).
  - exact (aligned_shifted _ _ _ Hal).
  - exact Hlt.
  - rewrite utf8_app, app_length in Hle. exact Hle.
Qed.

Theorem diag_user_span_rendered_gen_holds : stmt_diag_user_span_rendered_gen.
Proof.
  intros uc utext fname r Hsc Hw user fc d Hd.
  destruct gen_preamble_ok_holds as (ptext & ptoks & Hpre & Hscp & Hlex).
  destruct preamble_parses as (l & Hl & Hlen).
  assert (Hp : parse_text_sp uc doc_tiers (utf8 (ptext ++ [10])) = Some l).
  { rewrite <- Hpre. unfold parse_text_sp in Hl |- *. rewrite Hlex in Hl |- *. exact Hl. }
  assert (Hsc' : Forall scalar (ptext ++ [10] ++ utext)).
  { rewrite app_assoc. apply Forall_app. split; assumption. }
  assert (Hw' : parse_text_diag uc doc_tiers (utf8 ((ptext ++ [10]) ++ utext)) = Some r).
  { rewrite utf8_app, <- Hpre. exact Hw. }
  rewrite <- Hlen in Hd.
  pose proof (diag_user_span_rendered_holds uc doc_tiers ptext utext fname l r Hsc' Hp Hw' d Hd) as H.
  cbv zeta in H. rewrite <- Hpre in H. exact H.
Qed.

(* ---- an oversized bit index stops the expression parser, whatever follows ---- *)
Section InvalidConstant.
  Variable tiers : list tier.
  Variables (t1 t2 t3 : tok) (rest : list tok).
  Hypothesis Ht1 : starts_name (tk t1) = true \/ (exists v, tk t1 = TLit v).
  Hypothesis Ht2 : tk t2 = TOpenBracket.
  Hypothesis Ht3 : too_wide t3.

  Let toks := t1 :: t2 :: t3 :: rest.

  Lemma ic_unop : unop_of_token (tk t1) = None.
  Proof. destruct Ht1 as [H|(v & ->)]; [destruct (tk t1); try discriminate H; reflexivity|reflexivity]. Qed.

  Lemma ic_simple f : exists n, parse_simple_sp tiers (S f) toks = Some (n, tspan t1, t2 :: t3 :: rest).
  Proof.
    rewrite parse_simple_sp_S. unfold toks.
    destruct Ht1 as [H|(v & ->)]; [destruct (tk t1); try discriminate H|]; eexists; reflexivity.
  Qed.

  Lemma ic_term f : parse_term_sp tiers f toks = None.
  Proof.
    destruct f as [|f]; [reflexivity|]. rewrite parse_term_sp_S. unfold toks at 1. rewrite ic_unop.
    destruct f as [|f]; [reflexivity|]. destruct (ic_simple f) as (n & ->).
    pose proof (oversize_not_small _ (proj1 (too_wide_oversize t3) Ht3)) as Hs.
    destruct rest as [|r1 [|r2 [|r3 rest']]]; rewrite Ht2; cbn [token_eqb]; try reflexivity.
    rewrite Hs. reflexivity.
  Qed.

  Lemma ic_tiers : forall ts f, parse_tiers_sp tiers f ts toks = None.
  Proof.
    induction ts as [|[k ops] ts IH]; intros f; (destruct f as [|f]; [reflexivity|]); rewrite parse_tiers_sp_S.
    - apply ic_term.
    - rewrite IH. destruct k; reflexivity.
  Qed.

  Lemma ic_fatal_term f : fatal_term tiers (S (S f)) toks = Some (tspan t3).
  Proof.
    cbn [fatal_term]. unfold toks at 1. rewrite ic_unop. destruct (ic_simple f) as (n & ->).
    rewrite Ht2. cbn [token_eqb]. rewrite (proj1 (too_wide_oversize t3) Ht3). reflexivity.
  Qed.

  Lemma ic_fatal_tiers : forall ts f, (forall k ops, In (k, ops) ts -> k <> KBad) ->
    fatal_tiers tiers (List.length ts + 3 + f) ts toks = Some (tspan t3).
  Proof.
    induction ts as [|[k ops] ts IH]; intros f Hok.
    - cbn [List.length Nat.add fatal_tiers]. apply ic_fatal_term.
    - cbn [List.length Nat.add fatal_tiers]. rewrite ic_tiers.
      assert (Hk : k <> KBad) by (apply (Hok k ops); left; reflexivity).
      specialize (IH f (fun k' o' Hin => Hok k' o' (or_intror Hin))).
      destruct k; try exact IH. congruence.
  Qed.
End InvalidConstant.

Theorem diag_invalid_constant_complete_holds : stmt_diag_invalid_constant_complete.
Proof.
  intros tiers f t1 t2 t3 rest Ht1 Ht2 Ht3 Hok Hf. unfold expr_d, parse_expr_sp.
  rewrite (ic_tiers tiers t1 t2 t3 rest Ht1 Ht2 Ht3).
  replace f with (List.length tiers + 3 + (f - List.length tiers - 3))%nat by lia.
  rewrite (ic_fatal_tiers tiers t1 t2 t3 rest Ht1 Ht2 Ht3 tiers _ Hok). reflexivity.
Qed.

Theorem diag_statements_in_text_order_holds : stmt_diag_statements_in_text_order.
Proof.
  intros tiers toks r Ho H. destruct (diag_grammar_sound_holds tiers toks r H) as (tail & Hp & Hr).
  destruct (prog_form_layout _ _ _ _ _ Hp) as (consumed & segs & Hc & Hl & Hf).
  unfold tokens_ordered in Ho. rewrite Hc in Ho. destruct (tokens_from_app _ _ _ Ho) as [Hoc _].
  split.
  - intros i j xi xj di dj Hij Hi Hj Hdi Hdj.
    destruct (Forall2_nth _ _ _ Hf i xi Hi) as (sgi & Hsgi & Hali).
    destruct (Forall2_nth _ _ _ Hf j xj Hj) as (sgj & Hsgj & Halj).
    exact (layout_order 0 consumed segs Hoc Hl i j sgi sgj (snd di) (snd dj) Hij Hsgi Hsgj (Hali di Hdi) (Halj dj Hdj)).
  - intros l ds -> x di dj Hx Hdi Hdj. cbn [result_stmts] in Hf.
    destruct (Forall2_in_r _ _ _ Hf x Hx) as (sg & Hsg & Hal).
    pose proof (layout_seg _ _ Hl sg Hsg) as Hseg. pose proof (layout_nonempty _ _ Hl sg Hsg) as Hne.
    assert (Hcne : consumed <> []).
    { destruct Hseg as (p & q & ->). destruct p; [destruct sg; [congruence|discriminate]|discriminate]. }
    pose proof (aligned_seg _ _ _ (Hal di Hdi) Hseg) as Hali.
    destruct (aligned_numbers 0 consumed (snd di) Hoc Hali) as (_ & _ & Hin).
    pose proof (aligned_after 0 consumed tail (snd dj) Ho Hcne (Fat_aligned _ _ Hr dj Hdj)) as Haft.
    unfold inside, extent in Hin. cbn [fst snd] in Hin. lia.
Qed.

(* ---- a prefix whose every statement is terminated: its statements are read unchanged ---- *)
Section TerminatedPrefix.
  Variable tiers : list tier.

  Fixpoint terminated_run (fuel : nat) (toks : list tok) (seen : bool) : bool :=
    match fuel with
    | O => false
    | S f =>
        match toks with
        | [] => seen
        | t :: toks1 =>
            if token_eqb (tk t) TSemicolon then (if seen then terminated_run f toks1 true else false)
            else
              match parse_statement_sp tiers (20 * S (List.length toks)) toks with
              | Some (_, NoSemi, rest) => terminated_run f rest true
              | Some (_, NeedSemi, t2 :: rest) =>
                  if token_eqb (tk t2) TSemicolon then terminated_run f rest true else false
              | _ => false
              end
        end
    end.

  Lemma stmts_d_after_terminated : forall fa a seen acca resa,
    parse_statements_sp tiers fa a seen acca = Some resa -> terminated_run fa a seen = true ->
    forall f u dacc r, statements_d tiers f (a ++ u) seen dacc = Some r ->
      exists newsa news, resa = rev acca ++ newsa /\ result_stmts r = rev dacc ++ silent newsa ++ news.
  Proof.
    induction fa as [|fa IH]; intros a seen acca resa Ha Ht f u dacc r Hc; [discriminate Ha|].
    cbn [parse_statements_sp] in Ha. cbn [terminated_run] in Ht.
    destruct a as [|t a1].
    { destruct seen; [|discriminate Ha]. injection Ha as <-. cbn [app] in Hc.
      destruct (statements_d_acc _ _ _ _ _ _ Hc) as (news & Hres).
      exists [], news. rewrite app_nil_r. split; [reflexivity|exact Hres]. }
    destruct f as [|f]; [discriminate Hc|]. cbn [statements_d app] in Hc.
    destruct (token_eqb (tk t) TSemicolon) eqn:Esemi.
    { destruct seen; [|discriminate Ha]. exact (IH _ _ _ _ Ha Ht _ _ _ _ Hc). }
    change (t :: a1 ++ u) with ((t :: a1) ++ u) in Hc.
    set (Fa := (20 * S (List.length (t :: a1)))%nat) in Ha, Ht.
    set (F := (20 * S (List.length ((t :: a1) ++ u)))%nat) in Hc.
    assert (HF : (Fa <= F)%nat) by (unfold Fa, F; rewrite app_length; lia).
    destruct (parse_statement_sp tiers Fa (t :: a1)) as [[[sa ka] resta]|] eqn:Esa; [|discriminate Ha].
    destruct (statement_stable tiers _ _ _ _ _ Esa) as (w & Hw & Hwne & St).
    assert (Hsame : forall rest', ka = NoSemi \/ compat resta rest' ->
              (ka = NeedSemi -> rest' = [] \/ next_is TSemicolon rest' = true) ->
              statement_d tiers F seen (no_diags dacc) (w ++ rest') = POk (dstmt_of sa, ka, rest') []).
    { intros rest' Hk Hside. apply statement_fwd; [exact (St F rest' HF Hk)|exact Hside]. }
    assert (Hcons : forall newsa' news', resa = rev (sa :: acca) ++ newsa' ->
              result_stmts r = rev ((dstmt_of sa, []) :: dacc) ++ silent newsa' ++ news' ->
              exists newsa news, resa = rev acca ++ newsa /\ result_stmts r = rev dacc ++ silent newsa ++ news).
    { intros newsa' news' H1 H2. exists (sa :: newsa'), news'.
      split; [rewrite H1; cbn [rev]; rewrite <- app_assoc; reflexivity|].
      rewrite H2. cbn [rev silent map]. rewrite <- app_assoc. reflexivity. }
    destruct ka.
    - destruct resta as [|t2 r0]; [discriminate Ht|].
      destruct (token_eqb (tk t2) TSemicolon) eqn:E2; [|discriminate Ha].
      rewrite Hw, <- app_assoc in Hc.
      rewrite (Hsame ((t2 :: r0) ++ u) (or_intror eq_refl) (fun _ => or_intror E2)) in Hc.
      cbn [app] in Hc. rewrite E2 in Hc.
      destruct (IH _ _ _ _ Ha Ht _ _ _ _ Hc) as (newsa' & news' & H1 & H2). exact (Hcons newsa' news' H1 H2).
    - rewrite Hw, <- app_assoc in Hc.
      rewrite (Hsame (resta ++ u) (or_introl eq_refl) ltac:(discriminate)) in Hc.
      destruct (IH _ _ _ _ Ha Ht _ _ _ _ Hc) as (newsa' & news' & H1 & H2). exact (Hcons newsa' news' H1 H2).
  Qed.

  Lemma all_user_after_terminated a u pstmts r :
    parse_sp tiers a = Some pstmts -> terminated_run (S (List.length a)) a false = true ->
    parse_diag tiers (a ++ u) = Some r -> all_diags r = user_diags (List.length pstmts) r.
  Proof.
    unfold parse_sp, parse_diag. intros Ha Ht Hc.
    destruct (stmts_d_after_terminated _ _ _ _ _ Ha Ht _ _ _ _ Hc) as (newsa & news & H1 & H2).
    cbn [rev app] in H1, H2. subst newsa.
    assert (Hlen : List.length (silent pstmts) = List.length pstmts) by (unfold silent; apply map_length).
    assert (Hskip : skipn (List.length pstmts) (silent pstmts ++ news) = news).
    { rewrite <- Hlen. rewrite skipn_app, skipn_all, Nat.sub_diag. reflexivity. }
    destruct r as [l|l ds]; cbn [result_stmts all_diags user_diags] in *; subst l.
    - rewrite Hskip, diags_of_app, silent_diags. reflexivity.
    - rewrite Hskip, diags_of_app, silent_diags. cbn [app].
      replace (Nat.leb (List.length pstmts) (List.length (silent pstmts ++ news))) with true; [reflexivity|].
      symmetry. apply Nat.leb_le. rewrite app_length, Hlen. lia.
  Qed.
End TerminatedPrefix.

Theorem diag_all_user_gen_holds : stmt_diag_all_user_gen.
Proof.
  intros uc utext r Hsc Hw.
  destruct gen_preamble_ok_holds as (ptext & ptoks & Hpre & Hscp & Hlex).
  destruct preamble_parses as (l & Hl & Hlen).
  unfold parse_text_sp in Hl. rewrite (Hlex test_uclass) in Hl.
  assert (Hsc' : Forall scalar (ptext ++ [10] ++ utext)).
  { rewrite app_assoc. apply Forall_app. split; assumption. }
  assert (Hterm : terminated_run doc_tiers (S (List.length ptoks)) ptoks false = true).
  { pose proof (Hlex test_uclass) as Hc. clear -Hc. vm_compute in Hc. injection Hc as <-. vm_compute. reflexivity. }
  unfold parse_text_diag in Hw.
  assert (Hbytes : preamble_bytes ++ utf8 utext = utf8 ((ptext ++ [10]) ++ utext)) by (rewrite utf8_app, <- Hpre; reflexivity).
  rewrite Hbytes in Hw.
  destruct (lex uc (utf8 ((ptext ++ [10]) ++ utext))) as [toks [e|]] eqn:Hlw; [discriminate Hw|].
  assert (Hlex' : lex uc (utf8 (ptext ++ [10])) = (ptoks, None)) by (rewrite <- Hpre; exact (Hlex uc)).
  destruct (lex_whole uc ptext utext ptoks toks Hsc' Hlex' Hlw) as (toks_b & ->).
  rewrite <- Hlen. exact (all_user_after_terminated doc_tiers ptoks _ l r Hl Hterm Hw).
Qed.

(* ====================================================================================== *)
(* 15. non-vacuity: real texts, with comments and blanks around the tokens.  The kinds,    *)
(* spans and their order below are also those the real parser reports (harness "parse").  *)
(* ====================================================================================== *)
Module DiagExamples.
Import String.
Local Open Scope string_scope.

Definition dlf : string := String (Ascii.ascii_of_nat 10) EmptyString.
Definition dcr : string := String (Ascii.ascii_of_nat 13) EmptyString.
Definition dtab : string := String (Ascii.ascii_of_nat 9) EmptyString.
Definition run (s : string) : option dresult := parse_text_diag test_uclass doc_tiers (bytes_of_string s).
Definition one (v : N) : wval := mkV v Unl.

(* MissingWireWidth: exactly the name (offset 13), not the comment before nor the blank after *)
Example ex_missing_wire_width :
  run ("wire /* w */ x # no width" ++ dlf ++ " ;" ++ dlf) =
  Some (DDone [(DSWire [("x", Bits 0, (13, 14)%nat)], [(KMissingWireWidth, (13, 14)%nat)])]).
Proof. vm_compute. reflexivity. Qed.

(* wire x = 1: two errors from one action, MissingWireWidth first, both from the name to the "=" *)
Example ex_wire_assigned_nowidth :
  run ("wire" ++ dtab ++ "x /* c */ = 1 ;" ++ dlf) =
  Some (DDone [(DSWire [("x", Bits 0, (5, 16)%nat)],
                [(KMissingWireWidth, (5, 16)%nat); (KWireAssignedInDeclaration, (5, 16)%nat)])]).
Proof. vm_compute. reflexivity. Qed.

(* wire x : 8 = 1 (the value on the next line, CR LF): name .. "=", the placeholder keeps the width *)
Example ex_wire_assigned :
  run ("wire x : 8 /* c */ =" ++ dcr ++ dlf ++ " 1 ;" ++ dlf) =
  Some (DDone [(DSWire [("x", Bits 8, (5, 20)%nat)], [(KWireAssignedInDeclaration, (5, 20)%nat)])]).
Proof. vm_compute. reflexivity. Qed.

(* const K : 8 = 1: from the ":" (16) to the end of the width (20): neither the comment after K nor
   the one after 8 *)
Example ex_added_const_width :
  run ("const K /* c */ :  8 /* d */ = 1 ;" ++ dlf) =
  Some (DDone [(DSConst [("K", (6, 7)%nat, SEConst (31, 32)%nat (one 1))], [(KAddedConstWidth, (16, 20)%nat)])]).
Proof. vm_compute. reflexivity. Qed.

(* x [ 1 : 2 ; ]: the name; the placeholder's case expression begins at the END of the name (1) *)
Example ex_missing_assignment_mux :
  run ("x /* c */ [ 1 : 2 ; ] ;" ++ dlf) =
  Some (DDone [(DSAssign [([("x", (0, 1)%nat)],
                           SEMux (1, 21)%nat (SACons (SEConst (12, 13)%nat (one 1)) (SEConst (16, 17)%nat (one 2)) SANil),
                           (0, 21)%nat)],
                [(KMissingAssignmentMux, (0, 1)%nat)])]).
Proof. vm_compute. reflexivity. Qed.

(* register xY { r = 1 +  2 }: from the name to the end of the value (32), not the comment after it *)
Example ex_missing_register_width :
  run ("register xY { r /* c */ = 1 +  2 # e" ++ dlf ++ " ; }" ++ dlf) =
  Some (DDone [(DSBank "xY" (9, 11)%nat [DRegError (14, 32)%nat] (0, 41)%nat,
                [(KMissingRegisterWidth, (14, 32)%nat)])]).
Proof. vm_compute. reflexivity. Qed.

(* register xY { wire r : 8 = 1; }: the keyword "wire" only *)
Example ex_register_declared_with_wire :
  run ("register xY { wire /* c */ r : 8 = 1; }" ++ dlf) =
  Some (DDone [(DSBank "xY" (9, 11)%nat [DRegError (14, 36)%nat] (0, 39)%nat,
                [(KRegisterDeclaredWithWire, (14, 18)%nat)])]).
Proof. vm_compute. reflexivity. Qed.

(* a width above 128 stops the parse: the errors pushed before, then InvalidWireWidth on the constant *)
Example ex_invalid_wire_width :
  run ("wire y ; wire x : /* c */ 200 ;" ++ dlf) =
  Some (DFatal [(DSWire [("y", Bits 0, (5, 6)%nat)], [(KMissingWireWidth, (5, 6)%nat)])]
               [(KInvalidWireWidth, (26, 29)%nat)]).
Proof. vm_compute. reflexivity. Qed.

(* a bit index above 128 *)
Example ex_invalid_constant :
  run ("wire q; x = y [ 0 .. /* c */ 200 ] ;" ++ dlf) =
  Some (DFatal [(DSWire [("q", Bits 0, (5, 6)%nat)], [(KMissingWireWidth, (5, 6)%nat)])]
               [(KInvalidConstant, (29, 32)%nat)]).
Proof. vm_compute. reflexivity. Qed.

(* the declaration in which the parse stops is never reduced: no WireAssignedInDeclaration *)
Example ex_invalid_constant_in_wire :
  option_map all_diags (run ("wire a, q : 4 = y[0..200];")) =
  Some [(KMissingWireWidth, (5, 6)%nat); (KInvalidConstant, (21, 24)%nat)].
Proof. vm_compute. reflexivity. Qed.

(* a bare term: the span of the term (of x, inside the parentheses) *)
Example ex_expected_statement :
  run (" ( /* c */ x ) ;" ++ dlf) =
  Some (DDone [(DSError, [(KExpectedStatementFoundExpr, (11, 12)%nat)])]).
Proof. vm_compute. reflexivity. Qed.

(* several errors in one text, in text order; the final bare "y" is not reported any more *)
Example ex_several :
  option_map all_diags
    (run "wire a; const K : 4 = 1; x [ 1 : 2 ]; register xY { r = 1; wire s = 2 } y;") =
  Some [(KMissingWireWidth, (5, 6)%nat); (KAddedConstWidth, (16, 19)%nat); (KMissingAssignmentMux, (25, 26)%nat);
        (KMissingRegisterWidth, (52, 57)%nat); (KRegisterDeclaredWithWire, (59, 63)%nat)].
Proof. vm_compute. reflexivity. Qed.

(* what only error recovery handles stays None; an accepted text has no diagnostics *)
Example ex_recovery_only : run "wire x y;" = None /\ run "x + 1;" = None /\ run "wire x : 200 200;" = None.
Proof. vm_compute. repeat split; reflexivity. Qed.

Example ex_accepted :
  run "wire x : 8; x = 200;" =
  Some (DDone (silent [SSWire [("x", Bits 8, (5, 10)%nat)];
                       SSAssign [([("x", (12, 13)%nat)], SEConst (16, 19)%nat (one 200), (12, 19)%nat)]])).
Proof. vm_compute. reflexivity. Qed.

(* the theorems on these texts *)
Example ex_conservative_thm :
  parse_text_sp test_uclass doc_tiers (bytes_of_string "wire x : 8; x = 200;") =
  Some [SSWire [("x", Bits 8, (5, 10)%nat)];
        SSAssign [([("x", (12, 13)%nat)], SEConst (16, 19)%nat (one 200), (12, 19)%nat)]].
Proof. apply diag_conservative_text_holds. exact ex_accepted. Qed.

Definition ex_text : list N :=
  bytes_of_string ("wire a; const K : 4 = 1; x [ 1 : 2 ]; register xY { r = 1; wire s = 2 } y;").

Example ex_in_text_thm :
  exists r, parse_text_diag test_uclass doc_tiers ex_text = Some r /\ List.length (all_diags r) = 5%nat /\
    forall d, In d (all_diags r) -> (fst (snd d) < snd (snd d))%nat /\ (snd (snd d) <= List.length ex_text)%nat.
Proof.
  destruct (Examples.ascii_text ex_text ltac:(vm_compute; reflexivity)) as [Hu Hsc].
  destruct (parse_text_diag test_uclass doc_tiers ex_text) as [r|] eqn:E; [|vm_compute in E; discriminate E].
  exists r. split; [reflexivity|]. split; [vm_compute in E; injection E as <-; reflexivity|].
  rewrite Hu in E. destruct (diag_spans_in_text_holds test_uclass doc_tiers ex_text r Hsc E) as (toks & _ & _ & H).
  intros d Hd. destruct (H d Hd) as (_ & H1 & H2). rewrite <- Hu in H2. split; assumption.
Qed.

Example ex_grammar_thm :
  forall r, parse_text_diag test_uclass doc_tiers ex_text = Some r ->
    exists toks tail, lex test_uclass ex_text = (toks, None) /\ prog_form doc_tiers true toks tail (result_stmts r).
Proof.
  intros r H. unfold parse_text_diag in H. destruct (lex test_uclass ex_text) as [toks [e|]] eqn:El; [discriminate H|].
  destruct (diag_grammar_sound_holds doc_tiers toks r H) as (tail & Hp & _). exists toks, tail. split; [reflexivity|exact Hp].
Qed.

(* a user's file after the compiled preamble (1027 bytes, 17 statements)
       wire y : 4;
       wire  x ; # oops
   MissingWireWidth: the x of line 2, column 6, one caret *)
Definition ex_user : list N := bytes_of_string ("wire y : 4;" ++ dlf ++ "wire  x ; # oops" ++ dlf).
Definition ex_file : list N := bytes_of_string "ex.hcl".

Example ex_user_diags :
  option_map (user_diags preamble_statement_count)
             (parse_text_diag test_uclass doc_tiers (app preamble_bytes ex_user)) =
  Some [(KMissingWireWidth, (1045, 1046)%nat)] /\
  option_map all_diags (parse_text_diag test_uclass doc_tiers (app preamble_bytes ex_user)) =
  Some [(KMissingWireWidth, (1045, 1046)%nat)].
Proof. vm_compute. split; reflexivity. Qed.

Example ex_user_rendered :
  show_region (new_from_data preamble_bytes ex_user ex_file) 1045 1046 =
  Some (one_line_region ex_file 2 (bytes_of_string "wire  x ; # oops") 6 1).
Proof. vm_compute. reflexivity. Qed.

Example ex_user_rendered_thm :
  forall r, parse_text_diag test_uclass doc_tiers (app preamble_bytes ex_user) = Some r ->
  forall d, In d (user_diags preamble_statement_count r) ->
    exists us ue, fst (snd d) = (List.length preamble_bytes + us)%nat /\ snd (snd d) = (List.length preamble_bytes + ue)%nat /\
      (us < ue)%nat /\ (ue <= List.length ex_user)%nat /\
      (exists out, show_region (new_from_data preamble_bytes ex_user ex_file) (fst (snd d)) (snd (snd d)) = Some out /\
                   exists rest, out = app (RegionSpec.sp 5) (app [45; 62; 32] (app ex_file (app [58] rest)))) /\
      (count_lf (firstn (ue - us) (skipn us ex_user)) = O ->
         show_region (new_from_data preamble_bytes ex_user ex_file) (fst (snd d)) (snd (snd d)) =
         Some (one_line_region ex_file (line_no ex_user us) (line_text ex_user us) (col_of ex_user us) (ue - us))).
Proof.
  destruct (Examples.ascii_text ex_user ltac:(vm_compute; reflexivity)) as [Hu Hsc].
  intros r Hp. rewrite Hu in Hp at 1.
  pose proof (diag_user_span_rendered_gen_holds test_uclass ex_user ex_file r Hsc Hp) as H.
  cbv zeta in H. rewrite <- Hu in H. exact H.
Qed.

(* the forms and their converses on tokens *)
Definition tkn (s : nat) (k : token) (e : nat) : tok := (s, k, e).
Definition name_x : token := TIdentifier [120].

Example ex_missing_wire_width_complete_thm :
  wire_decl_d doc_tiers 0%nat false [tkn 5 name_x 6; tkn 7 TSemicolon 8] =
  POk (("x", Bits 0, (5, 6)%nat), [tkn 7 TSemicolon 8]) [(KMissingWireWidth, (5, 6)%nat)].
Proof.
  apply (diag_missing_wire_width_complete_holds doc_tiers 0%nat false (tkn 5 name_x 6) "x" [tkn 7 TSemicolon 8]);
    [exists [120]; split; reflexivity|reflexivity|reflexivity].
Qed.

Example ex_wire_decl_form :
  wire_decl_form doc_tiers [tkn 11 TSemicolon 12]
                 [tkn 5 name_x 6; tkn 7 TAssign 8; tkn 9 (TLit (one 1)) 10]
                 ("x", Bits 0, (5, 8)%nat)
                 [(KMissingWireWidth, (5, 8)%nat); (KWireAssignedInDeclaration, (5, 8)%nat)].
Proof.
  apply (WS_assigned (reads_expr doc_tiers) [tkn 11 TSemicolon 12] (tkn 5 name_x 6) (tkn 7 TAssign 8)
                     [tkn 9 (TLit (one 1)) 10] (SEConst (9, 10)%nat (one 1)) "x");
    [exists [120]; split; reflexivity|reflexivity|].
  split; [discriminate|]. exists 20%nat. vm_compute. reflexivity.
Qed.

Example ex_missing_wire_width_span_thm :
  forall sp, In (KMissingWireWidth, sp)
                [(KMissingWireWidth, (5, 8)%nat); (KWireAssignedInDeclaration, (5, 8)%nat)] -> sp = (5, 8)%nat.
Proof.
  intros sp Hin.
  destruct (diag_missing_wire_width_span_holds doc_tiers _ _ _ _ sp ex_wire_decl_form Hin) as (t1 & nm & _ & Hd & _).
  injection Hd as _ Hsp. symmetry. exact Hsp.
Qed.

Example ex_invalid_constant_complete_thm :
  expr_d doc_tiers 30%nat [tkn 0 name_x 1; tkn 1 TOpenBracket 2; tkn 2 (TLit (one 200)) 5] =
  PFatal [(KInvalidConstant, (2, 5)%nat)].
Proof.
  apply (diag_invalid_constant_complete_holds doc_tiers 30%nat (tkn 0 name_x 1) (tkn 1 TOpenBracket 2) (tkn 2 (TLit (one 200)) 5) []).
  - left. reflexivity.
  - reflexivity.
  - exists (one 200). split; [reflexivity|reflexivity].
  - intros k ops Hin. vm_compute in Hin. intuition congruence.
  - vm_compute. lia.
Qed.
End DiagExamples.

Print Assumptions diag_conservative_holds.
Print Assumptions diag_conservative_text_holds.
Print Assumptions diag_none_iff_accepted_holds.
Print Assumptions diag_outcome_ok_holds.
Print Assumptions diag_spans_token_aligned_holds.
Print Assumptions diag_spans_in_statement_holds.
Print Assumptions diag_spans_in_text_holds.
Print Assumptions diag_statements_in_text_order_holds.
Print Assumptions diag_user_span_rendered_holds.
Print Assumptions diag_user_span_rendered_gen_holds.
Print Assumptions diag_all_user_gen_holds.
Print Assumptions diag_grammar_sound_holds.
Print Assumptions diag_statement_forms_holds.
Print Assumptions diag_from_declaration_holds.
Print Assumptions diag_missing_wire_width_span_holds.
Print Assumptions diag_wire_assigned_span_holds.
Print Assumptions diag_added_const_width_span_holds.
Print Assumptions diag_missing_assignment_mux_span_holds.
Print Assumptions diag_missing_register_width_span_holds.
Print Assumptions diag_register_declared_with_wire_span_holds.
Print Assumptions diag_expected_statement_span_holds.
Print Assumptions diag_wire_decl_complete_holds.
Print Assumptions diag_const_decl_complete_holds.
Print Assumptions diag_assignment_complete_holds.
Print Assumptions diag_reg_decl_complete_holds.
Print Assumptions diag_missing_wire_width_complete_holds.
Print Assumptions diag_wire_assigned_complete_holds.
Print Assumptions diag_wire_assigned_nowidth_complete_holds.
Print Assumptions diag_added_const_width_complete_holds.
Print Assumptions diag_missing_register_width_complete_holds.
Print Assumptions diag_register_declared_with_wire_complete_holds.
Print Assumptions diag_missing_assignment_mux_complete_holds.
Print Assumptions diag_invalid_wire_width_complete_holds.
Print Assumptions diag_invalid_constant_complete_holds.
