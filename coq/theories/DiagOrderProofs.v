From Coq Require Import Permutation Sorted ZifyBool ZifyNat ZifyN.
From HclV Require Import Base Expr ExprProofs Machine Graph GraphSpec GraphProofs Build MachineSpec
     MachineProofs SchedSpec SchedProofs BuildSpec BuildProofs LoopSpec LoopProofs CompleteProofs
     TableProofs Generated DiagOrderSpec.
Open Scope string_scope.
Open Scope list_scope.
Open Scope N_scope.

Theorem build_with_id_holds : stmt_build_with_id.
Proof. intros f fixed is_lower is_upper stmts. reflexivity. Qed.

(* ---- generic permutation facts ------------------------------------------------------------------ *)
Lemma flat_map_perm_pointwise {A B} (g g' : A -> list B) (l : list A) :
  (forall x, In x l -> Permutation (g x) (g' x)) -> Permutation (flat_map g l) (flat_map g' l).
Proof.
  induction l as [|x r IH]; intros H; cbn [flat_map]; [apply perm_nil|].
  apply Permutation_app; [apply H; left; reflexivity|]. apply IH. intros y Hy. apply H. right. exact Hy.
Qed.

Lemma flat_map_perm2 {A B} (g g' : A -> list B) (l l' : list A) :
  Permutation l l' -> (forall x, Permutation (g x) (g' x)) ->
  Permutation (flat_map g l) (flat_map g' l').
Proof.
  intros Hl Hg. eapply perm_trans; [apply Permutation_flat_map; exact Hl|].
  apply flat_map_perm_pointwise. intros x _. apply Hg.
Qed.

Lemma perm_nil_iff {A} (l l' : list A) : Permutation l l' -> (l = [] <-> l' = []).
Proof.
  intros H. split; intros ->.
  - now apply Permutation_nil in H.
  - now apply Permutation_sym, Permutation_nil in H.
Qed.

(* ---- phase 1: the declaration pass -------------------------------------------------------------- *)
Section Decl.
  Variable fixed : list fixed_fn.
  Variable o : ord.
  Hypothesis Hok : ord_ok o.

  Lemma const_assigned_perm s : Permutation (const_assigned_errors_with o s) (const_assigned_errors s).
  Proof.
    unfold const_assigned_errors_with, const_assigned_errors.
    apply Permutation_flat_map. apply (proj1 Hok).
  Qed.

  Lemma const_ref_perm s : Permutation (const_ref_errors_with o s) (const_ref_errors s).
  Proof.
    unfold const_ref_errors_with, const_ref_errors.
    destruct Hok as (_ & H2 & H3 & _).
    apply flat_map_perm2; [apply H2|]. intros ne. cbv zeta.
    apply Permutation_flat_map. apply H3.
  Qed.

  Lemma decl_pass_perm s :
    Permutation (s_errs s ++ const_assigned_errors_with o s ++ const_ref_errors_with o s)
                (s_errs s ++ const_assigned_errors s ++ const_ref_errors s).
  Proof.
    apply Permutation_app_head. apply Permutation_app; [apply const_assigned_perm|apply const_ref_perm].
  Qed.
End Decl.

Theorem decl_pass_order_free_holds fixed : stmt_decl_pass_order_free fixed.
Proof. intros o stmts Hok s. apply decl_pass_perm. exact Hok. Qed.

(* ---- phase 2: the graph of the constants, for any insertion order ---------------------------------- *)
Lemma graph_gen_fold (src : string * expr -> list string) :
  (forall ne, NoDup (src ne)) -> (forall ne x, In x (src ne) <-> In x (refs (snd ne))) ->
  forall cs g,
  gwf g -> NoDup (map fst cs) ->
  (forall n, In n (map fst cs) -> forall x, ~ gedge g x n) ->
  let g' := fold_left (fun g ne =>
                         graph_add_node (fold_left (fun g1 r => graph_insert g1 r (fst ne)) (src ne) g) (fst ne))
                      cs g in
  gwf g' /\
  (forall x y, gedge g' x y <-> gedge g x y \/ exists e, In (y, e) cs /\ In x (refs e)) /\
  (forall x, In x (g_nodes g') <->
             In x (g_nodes g) \/ In x (map fst cs) \/ exists y e, In (y, e) cs /\ In x (refs e)).
Proof.
  intros Hsnd Hsin.
  induction cs as [|[n e] cs IH]; intros g Hwf Hnd Hne; cbn [fold_left].
  - split; [exact Hwf|]. split.
    + intros x y. split; [intros H; left; exact H | intros [H|[e [[] _]]]; exact H].
    + intros x. cbn [map In]. split; [intros H; left; exact H | intros [H|[[]|[y [e [[] _]]]]]; exact H].
  - cbn [map fst] in Hnd, Hne. apply NoDup_cons_iff in Hnd. destruct Hnd as [Hn Hnd]. cbn [fst snd].
    pose proof (Hsin (n, e)) as Hs. cbn [snd] in Hs.
    destruct (insert_ins_wf n (src (n, e)) g Hwf (Hsnd (n, e))) as [J1 [J2 _]].
    { intros i _. apply (Hne n (or_introl eq_refl) i). }
    cbv zeta in J1, J2.
    pose proof (LoopProofs.insert_ins_nodes n (src (n, e)) g) as J3.
    set (g1 := fold_left (fun g1 r => graph_insert g1 r n) (src (n, e)) g) in *.
    assert (Hwf2 : gwf (graph_add_node g1 n)) by (apply graph_add_node_wf; exact J1).
    assert (Hne2 : forall n0, In n0 (map fst cs) -> forall x, ~ gedge (graph_add_node g1 n) x n0).
    { intros n0 H0 x He. apply graph_add_node_edge in He. apply J2 in He. destruct He as [He|[He _]].
      - apply (Hne n0 (or_intror H0) x). exact He.
      - subst n0. apply Hn. exact H0. }
    destruct (IH (graph_add_node g1 n) Hwf2 Hnd Hne2) as [I1 [I2 I3]]. cbv zeta in I1, I2, I3.
    split; [exact I1|]. split.
    + intros x y. rewrite I2, graph_add_node_edge, J2. cbn [In]. split.
      * intros [[H|[H1 H2]]|[e0 [H1 H2]]].
        -- left. exact H.
        -- right. exists e. subst y. split; [left; reflexivity | apply Hs; exact H2].
        -- right. exists e0. split; [right; exact H1 | exact H2].
      * intros [H|[e0 [[H1|H1] H2]]].
        -- left. left. exact H.
        -- injection H1 as <- <-. left. right. split; [reflexivity | apply Hs; exact H2].
        -- right. exists e0. split; assumption.
    + intros x. rewrite I3, graph_add_node_nodes. cbn [map fst In].
      pose proof (J3 x) as J3x. split.
      * intros [[H|H]|[H|[y [e0 [H1 H2]]]]]; [apply (proj1 J3x) in H; destruct H as [H|[H|[H _]]]| | |].
        -- left. exact H.
        -- right. right. exists n, e. split; [left; reflexivity | apply Hs; exact H].
        -- right. left. left. symmetry. exact H.
        -- right. left. left. symmetry. exact H.
        -- right. left. right. exact H.
        -- right. right. exists y, e0. split; [right; exact H1 | exact H2].
      * intros [H|[[H|H]|[y [e0 [[H1|H1] H2]]]]].
        -- left. left. apply (proj2 J3x). left. exact H.
        -- left. right. symmetry. exact H.
        -- right. left. exact H.
        -- injection H1 as <- <-. left. left. apply (proj2 J3x). right. left. apply Hs. exact H2.
        -- right. right. exists y, e0. split; assumption.
Qed.

Section ConstGraph.
  Variable o : ord.
  Hypothesis Hok : ord_ok o.

  Lemma const_graph_with_facts cs : NoDup (map fst cs) ->
    gwf (const_graph_with o cs) /\
    (forall x y, gedge (const_graph_with o cs) x y <-> exists e, In (y, e) cs /\ In x (refs e)) /\
    (forall x, In x (g_nodes (const_graph_with o cs)) <->
               In x (map fst cs) \/ exists y e, In (y, e) cs /\ In x (refs e)).
  Proof.
    intros Hnd. destruct Hok as (_ & _ & _ & H4 & H5 & _).
    assert (Hp := H4 cs).
    assert (Hnd' : NoDup (map fst (o_consts_graph o cs))).
    { exact (Permutation_NoDup (Permutation_sym (Permutation_map fst Hp)) Hnd). }
    destruct (graph_gen_fold (fun ne => o_refs_graph o (fst ne) (nodup_str (refs (snd ne))))) with
        (cs := o_consts_graph o cs) (g := empty_graph) as [I1 [I2 I3]].
    - intros ne. apply (Permutation_NoDup (Permutation_sym (H5 _ _))). apply nodup_str_NoDup.
    - intros ne x. rewrite <- (nodup_str_In x (refs (snd ne))). split; intros H.
      + exact (Permutation_in _ (H5 _ _) H).
      + exact (Permutation_in _ (Permutation_sym (H5 _ _)) H).
    - exact empty_graph_wf.
    - exact Hnd'.
    - intros n _ x. apply empty_graph_edge.
    - cbv zeta in I1, I2, I3. fold (const_graph_with o cs) in I1, I2, I3.
      assert (Hin : forall y e, In (y, e) (o_consts_graph o cs) <-> In (y, e) cs).
      { intros y e. split; intros H; [exact (Permutation_in _ Hp H)|exact (Permutation_in _ (Permutation_sym Hp) H)]. }
      assert (Hk : forall x, In x (map fst (o_consts_graph o cs)) <-> In x (map fst cs)).
      { intros x. split; intros H.
        - exact (Permutation_in _ (Permutation_map fst Hp) H).
        - exact (Permutation_in _ (Permutation_sym (Permutation_map fst Hp)) H). }
      split; [exact I1|]. split.
      + intros x y. rewrite I2. split.
        * intros [H|[e [H1 H2]]]; [exfalso; exact (empty_graph_edge x y H)|].
          exists e. split; [apply Hin; exact H1|exact H2].
        * intros [e [H1 H2]]. right. exists e. split; [apply Hin; exact H1|exact H2].
      + intros x. rewrite I3, Hk. cbn [empty_graph g_nodes In]. split.
        * intros [[]|[H|[y [e [H1 H2]]]]]; [left; exact H|].
          right. exists y, e. split; [apply Hin; exact H1|exact H2].
        * intros [H|[y [e [H1 H2]]]]; [right; left; exact H|].
          right. right. exists y, e. split; [apply Hin; exact H1|exact H2].
  Qed.
End ConstGraph.

(* ---- phase 2: evaluating the constants along any topological order ---------------------------- *)
Section EvalOrder.
  Variable f : features.
  Variable cs : list (string * expr).

  Definition cenvw (V : list (string * wval)) : string -> option width :=
    fun k => match lookup V k with Some v => Some (wd v) | None => None end.

  (* what one constant contributes, given the table of the others *)
  Definition out (V : list (string * wval)) (n : string) : option wval * list err :=
    match lookup cs n with
    | None => (None, [])
    | Some e =>
        match check f (cenvw V) (lookup V) e with
        | Err es => (None, es)
        | Ok _ => match eval f (lookup V) e with
                  | Ok v => (Some v, [])
                  | Err es => (None, es)
                  end
        end
    end.

  (* every constant is listed after the constants it reads *)
  Definition tsorted (order : list string) : Prop :=
    forall l1 n l2 e, order = l1 ++ n :: l2 -> lookup cs n = Some e ->
                      forall r, In r (refs e) -> ~ In r (n :: l2).

  Lemma tsorted_tail n r : tsorted (n :: r) -> tsorted r.
  Proof. intros H l1 m l2 e Heq. apply (H (n :: l1) m l2 e). rewrite Heq. reflexivity. Qed.

  Lemma agree_outside : forall rest vals errs V E,
    eval_consts f cs rest vals errs = (V, E) -> forall r, ~ In r rest -> lookup vals r = lookup V r.
  Proof.
    induction rest as [|n rest IH]; intros vals errs V E H r Hr; cbn [eval_consts] in H.
    - injection H as <- _. reflexivity.
    - assert (Hr' : ~ In r rest) by (intros Hx; apply Hr; right; exact Hx).
      assert (Hne : r <> n) by (intros ->; apply Hr; left; reflexivity).
      destruct (lookup cs n) as [e|]; [|injection H as <- _; reflexivity].
      destruct (check f _ (lookup vals) e) as [w|es].
      + destruct (eval f (lookup vals) e) as [v|es].
        * rewrite <- (IH _ _ _ _ H r Hr'). symmetry. apply lookup_upd_ne. exact Hne.
        * exact (IH _ _ _ _ H r Hr').
      + exact (IH _ _ _ _ H r Hr').
  Qed.

  Lemma env_ext V V' e : (forall r, In r (refs e) -> lookup V r = lookup V' r) ->
    check f (cenvw V) (lookup V) e = check f (cenvw V') (lookup V') e /\
    eval f (lookup V) e = eval f (lookup V') e.
  Proof.
    intros H. split.
    - apply CompleteProofs.check_ext. intros n Hn. unfold cenvw. rewrite (H n Hn). split; reflexivity.
    - apply eval_ext_ok. exact H.
  Qed.

  Lemma out_ext V V' n : (forall e, lookup cs n = Some e -> forall r, In r (refs e) -> lookup V r = lookup V' r) ->
    out V n = out V' n.
  Proof.
    intros H. unfold out. destruct (lookup cs n) as [e|]; [|reflexivity].
    destruct (env_ext V V' e (H e eq_refl)) as [-> ->]. reflexivity.
  Qed.

  Lemma run_char : forall order vals errs V E,
    eval_consts f cs order vals errs = (V, E) ->
    NoDup order -> (forall n, In n order -> has cs n = true) ->
    (forall n, In n order -> lookup vals n = None) -> tsorted order ->
    E = errs ++ flat_map (fun n => snd (out V n)) order /\
    forall n, In n order -> lookup V n = fst (out V n).
  Proof.
    induction order as [|n r IH]; intros vals errs V E H Hnd Hhas Hfresh Hts.
    - cbn [eval_consts] in H. injection H as <- <-. cbn [flat_map]. rewrite app_nil_r.
      split; [reflexivity|intros n []].
    - pose proof (agree_outside _ _ _ _ _ H) as Hag.
      cbn [eval_consts] in H.
      inversion Hnd as [|x1 x2 Hnin Hnd']; subst x1 x2.
      destruct (proj1 (has_lookup cs n) (Hhas n (or_introl eq_refl))) as [e El].
      rewrite El in H.
      assert (Hrefs : forall r0, In r0 (refs e) -> lookup vals r0 = lookup V r0).
      { intros r0 Hr0. apply Hag. exact (Hts [] n r e eq_refl El r0 Hr0). }
      destruct (env_ext vals V e Hrefs) as [Ec Ee].
      assert (Hhas' : forall m, In m r -> has cs m = true) by (intros m Hm; apply Hhas; right; exact Hm).
      pose proof (tsorted_tail n r Hts) as Hts'.
      assert (Hout : out V n = match check f (cenvw vals) (lookup vals) e with
                               | Err es => (None, es)
                               | Ok _ => match eval f (lookup vals) e with
                                         | Ok v => (Some v, []) | Err es => (None, es) end
                               end).
      { unfold out. rewrite El, <- Ec, <- Ee. reflexivity. }
      cbn [flat_map]. rewrite Hout.
      destruct (check f (cenvw vals) (lookup vals) e) as [w|es] eqn:Eck.
      + fold (cenvw vals) in H. rewrite Eck in H.
        destruct (eval f (lookup vals) e) as [v|es] eqn:Eev.
        * destruct (IH (upd vals n v) errs V E H Hnd' Hhas') as [I1 I2]; [|exact Hts'|].
          { intros m Hm. rewrite lookup_upd_ne; [apply Hfresh; right; exact Hm|].
            intros ->. exact (Hnin Hm). }
          cbn [snd fst app]. split; [exact I1|].
          intros m [<-|Hm]; [|exact (I2 m Hm)].
          rewrite Hout. cbn [fst].
          rewrite <- (agree_outside _ _ _ _ _ H n Hnin). apply lookup_upd_same.
        * destruct (IH vals (errs ++ es) V E H Hnd' Hhas') as [I1 I2]; [|exact Hts'|].
          { intros m Hm. apply Hfresh. right. exact Hm. }
          cbn [snd fst]. split; [rewrite I1, app_assoc; reflexivity|].
          intros m [<-|Hm]; [|exact (I2 m Hm)].
          rewrite Hout. cbn [fst].
          rewrite <- (agree_outside _ _ _ _ _ H n Hnin). apply Hfresh. left. reflexivity.
      + fold (cenvw vals) in H. rewrite Eck in H.
        destruct (IH vals (errs ++ es) V E H Hnd' Hhas') as [I1 I2]; [|exact Hts'|].
        { intros m Hm. apply Hfresh. right. exact Hm. }
        cbn [snd fst]. split; [rewrite I1, app_assoc; reflexivity|].
        intros m [<-|Hm]; [|exact (I2 m Hm)].
        rewrite Hout. cbn [fst].
        rewrite <- (agree_outside _ _ _ _ _ H n Hnin). apply Hfresh. left. reflexivity.
  Qed.

  (* a table that satisfies its own defining equations along a topological order is unique *)
  Lemma fix_unique V1 V2 : forall l2 l1,
    NoDup (l1 ++ l2) -> tsorted (l1 ++ l2) ->
    (forall k, In k l1 -> lookup V1 k = lookup V2 k) ->
    (forall k, ~ In k (l1 ++ l2) -> lookup V1 k = lookup V2 k) ->
    (forall n, In n l2 -> lookup V1 n = fst (out V1 n) /\ lookup V2 n = fst (out V2 n)) ->
    forall k, In k l2 -> lookup V1 k = lookup V2 k.
  Proof.
    induction l2 as [|n l2 IH]; intros l1 Hnd Hts H1 Hout Hfix k Hk; [destruct Hk|].
    assert (Hn : lookup V1 n = lookup V2 n).
    { destruct (Hfix n (or_introl eq_refl)) as [F1 F2]. rewrite F1, F2. f_equal.
      apply out_ext. intros e El r Hr.
      pose proof (Hts l1 n l2 e eq_refl El r Hr) as Hnr.
      destruct (in_dec string_dec r l1) as [Hi|Hi]; [exact (H1 r Hi)|].
      apply Hout. intros Hx. apply in_app_iff in Hx. destruct Hx as [Hx|Hx]; [exact (Hi Hx)|exact (Hnr Hx)]. }
    destruct Hk as [<-|Hk]; [exact Hn|].
    apply (IH (l1 ++ [n])).
    - rewrite <- app_assoc. exact Hnd.
    - rewrite <- app_assoc. exact Hts.
    - intros k0 Hk0. apply in_app_iff in Hk0. destruct Hk0 as [Hk0|[<-|[]]]; [exact (H1 k0 Hk0)|exact Hn].
    - intros k0 Hk0. apply Hout. rewrite <- app_assoc in Hk0. exact Hk0.
    - intros m Hm. apply Hfix. right. exact Hm.
    - exact Hk.
  Qed.

  Theorem eval_consts_order_free order order' V E V' E' :
    NoDup order -> Permutation order order' ->
    (forall n, In n order -> has cs n = true) -> tsorted order -> tsorted order' ->
    eval_consts f cs order [] [] = (V, E) -> eval_consts f cs order' [] [] = (V', E') ->
    (forall k, lookup V k = lookup V' k) /\ Permutation E E' /\
    NoDup (map fst V) /\ NoDup (map fst V').
  Proof.
    intros Hnd Hp Hhas Hts Hts' H H'.
    assert (Hnd' : NoDup order') by exact (Permutation_NoDup Hp Hnd).
    assert (Hhas' : forall n, In n order' -> has cs n = true).
    { intros n Hn. apply Hhas. exact (Permutation_in _ (Permutation_sym Hp) Hn). }
    destruct (run_char order [] [] V E H Hnd Hhas (fun _ _ => eq_refl) Hts) as [E1 F1].
    destruct (run_char order' [] [] V' E' H' Hnd' Hhas' (fun _ _ => eq_refl) Hts') as [E2 F2].
    assert (Hall : forall k, lookup V k = lookup V' k).
    { intros k. destruct (in_dec string_dec k order) as [Hk|Hk].
      - apply (fix_unique V V' order []); cbn [app]; try assumption.
        + intros k0 [].
        + intros k0 Hk0. rewrite <- (agree_outside _ _ _ _ _ H k0 Hk0).
          rewrite <- (agree_outside _ _ _ _ _ H' k0); [reflexivity|].
          intros Hx. apply Hk0. exact (Permutation_in _ (Permutation_sym Hp) Hx).
        + intros n Hn. split; [exact (F1 n Hn)|]. apply F2. exact (Permutation_in _ Hp Hn).
      - rewrite <- (agree_outside _ _ _ _ _ H k Hk).
        rewrite <- (agree_outside _ _ _ _ _ H' k); [reflexivity|].
        intros Hx. apply Hk. exact (Permutation_in _ (Permutation_sym Hp) Hx). }
    split; [exact Hall|]. split.
    - rewrite E1, E2. cbn [app]. apply flat_map_perm2; [exact Hp|].
      intros n. rewrite (out_ext V V' n); [apply Permutation_refl|]. intros e _ r _. apply Hall.
    - split.
      + exact (proj1 (eval_consts_keys f cs _ _ _ _ _ H) (NoDup_nil _)).
      + exact (proj1 (eval_consts_keys f cs _ _ _ _ _ H') (NoDup_nil _)).
  Qed.
End EvalOrder.

(* ---- phase 2: resolve_constants under any iteration order --------------------------------------- *)
Lemma NoDup_split_unique {A} (n : A) : forall l1 l2 l1' l2',
  NoDup (l1 ++ n :: l2) -> l1 ++ n :: l2 = l1' ++ n :: l2' -> l1 = l1' /\ l2 = l2'.
Proof.
  induction l1 as [|a l1 IH]; intros l2 l1' l2' Hnd Heq.
  - destruct l1' as [|a' l1']; cbn [app] in *.
    + injection Heq as ->. split; reflexivity.
    + injection Heq as <- ->. exfalso. inversion Hnd as [|x1 x2 Hnin _]. apply Hnin.
      apply in_app_iff. right. left. reflexivity.
  - destruct l1' as [|a' l1']; cbn [app] in *.
    + injection Heq as -> <-. exfalso. inversion Hnd as [|x1 x2 Hnin _]. apply Hnin.
      apply in_app_iff. right. left. reflexivity.
    + injection Heq as <- Heq. inversion Hnd as [|x1 x2 _ Hnd']; subst.
      destruct (IH _ _ _ Hnd' Heq) as [-> ->]. split; reflexivity.
Qed.

Definition cedge (cs : list (string * expr)) (x y : string) : Prop := exists e, In (y, e) cs /\ In x (refs e).

Lemma linear_tsorted cs g order :
  NoDup (map fst cs) ->
  (forall x y, gedge g x y <-> cedge cs x y) ->
  linear_extension string String.eqb g order -> tsorted cs order.
Proof.
  intros Hnd Hed (Hn & _ & Hl) l1 n l2 e Heq El r Hr Hin.
  assert (Hedge : gedge g r n).
  { apply Hed. exists e. split; [apply lookup_In; exact El|exact Hr]. }
  destruct (Hl r n Hedge) as (a1 & a2 & a3 & Ho).
  assert (Ho' : order = (a1 ++ r :: a2) ++ n :: a3) by (rewrite Ho, <- app_assoc; reflexivity).
  rewrite Heq in Hn.
  destruct (NoDup_split_unique n l1 l2 (a1 ++ r :: a2) a3 Hn) as [E1 E2].
  { rewrite <- Heq. exact Ho'. }
  subst l1 l2. rewrite <- app_assoc in Hn. cbn [app] in Hn.
  apply NoDup_remove_2 in Hn. apply Hn. apply in_app_iff. right. apply in_app_iff. right. exact Hin.
Qed.

Lemma has_cycle_edges g g' : (forall a b, gedge g a b <-> gedge g' a b) -> (ghas_cycle g <-> ghas_cycle g').
Proof.
  intros H. unfold has_cycle. split; intros [c Hc]; exists c.
  - apply is_cycle_cycle_of. apply is_cycle_cycle_of in Hc.
    revert Hc. apply cycle_of_mono. intros a b Hab. apply H. exact Hab.
  - apply is_cycle_cycle_of. apply is_cycle_cycle_of in Hc.
    revert Hc. apply cycle_of_mono. intros a b Hab. apply H. exact Hab.
Qed.

Section Resolve.
  Variable f : features.

  Definition closed (cs : list (string * expr)) : Prop :=
    forall n e r, In (n, e) cs -> In r (refs e) -> has cs r = true.

  (* what one run of resolve_constants does *)
  Lemma resolve_with_cases o cs : ord_ok o -> NoDup (map fst cs) -> closed cs ->
    (exists cyc, resolve_constants_with f o cs = Err [mkErr WireLoop cyc] /\ cycle_of (cedge cs) cyc) \/
    ((forall c, ~ cycle_of (cedge cs) c) /\
     exists order V Er,
       NoDup order /\ (forall n, In n order <-> In n (map fst cs)) /\ tsorted cs order /\
       eval_consts f cs order [] [] = (V, Er) /\
       resolve_constants_with f o cs = match Er with [] => Ok V | _ => Err Er end).
  Proof.
    intros Hok Hnd Hcl.
    destruct (const_graph_with_facts o Hok cs Hnd) as [G1 [G2 G3]].
    assert (Hpres : presentation_ok (o_present_consts o)) by (destruct Hok as (_&_&_&_&_&H&_); exact H).
    destruct (Hpres _ G1) as [P1 [P2 P3]].
    set (G := o_present_consts o (const_graph_with o cs)) in *.
    assert (Hed : forall x y, gedge G x y <-> cedge cs x y).
    { intros x y. rewrite P3, G2. reflexivity. }
    assert (Hnodes : forall x, In x (g_nodes G) <-> In x (map fst cs)).
    { intros x. rewrite P2, G3. split; [|intros H; left; exact H].
      intros [H|[y [e [H1 H2]]]]; [exact H|]. apply has_In. exact (Hcl y e x H1 H2). }
    destruct (toposort_total G P1) as [[order [Ht Hac]]|[cyc [Ht Hc]]].
    - right. split.
      + intros c Hc. apply Hac. exists c. apply is_cycle_cycle_of.
        revert Hc. apply cycle_of_mono. intros a b Hab. apply Hed. exact Hab.
      + pose proof (order_valid string String.eqb String.eqb_eq G order P1 Ht) as Hlin.
        destruct (eval_consts f cs order [] []) as [V Er] eqn:Ee.
        exists order, V, Er. split; [exact (proj1 Hlin)|]. split.
        { intros n. rewrite (proj1 (proj2 Hlin) n). apply Hnodes. }
        split; [exact (linear_tsorted cs G order Hnd Hed Hlin)|]. split; [exact Ee|].
        unfold resolve_constants_with. fold G. rewrite Ht. cbn [bind]. rewrite Ee. reflexivity.
    - left. exists cyc. split.
      + unfold resolve_constants_with. fold G. rewrite Ht. reflexivity.
      + apply is_cycle_cycle_of in Hc. revert Hc. apply cycle_of_mono. intros a b Hab. apply Hed. exact Hab.
  Qed.

  (* two runs *)
  Lemma resolve_with_two o o' cs : ord_ok o -> ord_ok o' -> NoDup (map fst cs) -> closed cs ->
    match resolve_constants_with f o cs, resolve_constants_with f o' cs with
    | Err es, Err es' =>
        es <> [] /\
        (Permutation es es' \/
         exists c c', es = [mkErr WireLoop c] /\ es' = [mkErr WireLoop c'] /\
                      cycle_of (cedge cs) c /\ cycle_of (cedge cs) c')
    | Ok consts, Ok consts' =>
        Permutation consts consts' /\ NoDup (map fst consts) /\
        (forall k, In k (map fst consts) <-> In k (map fst cs))
    | _, _ => False
    end.
  Proof.
    intros Hok Hok' Hnd Hcl.
    destruct (resolve_with_cases o cs Hok Hnd Hcl) as [[c [R Hc]]|[Hac (order & V & Er & N1 & N2 & N3 & N4 & R)]];
    destruct (resolve_with_cases o' cs Hok' Hnd Hcl) as [[c' [R' Hc']]|[Hac' (order' & V' & Er' & N1' & N2' & N3' & N4' & R')]];
      rewrite R, R'.
    - split; [discriminate|]. right. exists c, c'. repeat split; assumption.
    - exfalso. exact (Hac' c Hc).
    - exfalso. exact (Hac c' Hc').
    - assert (Hp : Permutation order order').
      { apply NoDup_Permutation; [exact N1|exact N1'|]. intros n. rewrite N2, N2'. reflexivity. }
      assert (Hhas : forall n, In n order -> has cs n = true).
      { intros n Hn. apply has_In. apply N2. exact Hn. }
      destruct (eval_consts_order_free f cs order order' V Er V' Er' N1 Hp Hhas N3 N3' N4 N4')
        as (Hl & HpE & Hd & Hd').
      destruct Er as [|e0 Er]; destruct Er' as [|e0' Er'].
      + split; [exact (perm_of_lookup V V' Hd Hd' Hl)|]. split; [exact Hd|].
        intros k. rewrite <- N2. split.
        * intros Hk. destruct (in_dec string_dec k order) as [Hi|Hi]; [exact Hi|]. exfalso.
          pose proof (agree_outside f cs _ _ _ _ _ N4 k Hi) as Ha. cbn [lookup] in Ha.
          symmetry in Ha. apply lookup_None in Ha. exact (Ha Hk).
        * intros Hk.
          destruct (run_char f cs order [] [] V [] N4 N1 Hhas (fun _ _ => eq_refl) N3) as [E1 F1].
          cbn [app] in E1.
          assert (Hz : snd (out f cs V k) = []).
          { symmetry in E1. apply (flat_map_nil_inv _ _ E1 k Hk). }
          pose proof (F1 k Hk) as Fk. unfold out in Fk, Hz.
          destruct (proj1 (has_lookup cs k) (Hhas k Hk)) as [e El]. rewrite El in Fk, Hz.
          destruct (check f (cenvw V) (lookup V) e) as [w|es] eqn:Eck.
          -- destruct (eval f (lookup V) e) as [v|es] eqn:Eev.
             ++ cbn [fst] in Fk. apply lookup_In in Fk. apply in_map_iff. exists (k, v). split; [reflexivity|exact Fk].
             ++ cbn [snd] in Hz. subst es. exfalso.
                destruct (LoopProofs.eval_err f (lookup V) e [] Eev) as [Hne _]. exact (Hne eq_refl).
          -- cbn [snd] in Hz. subst es. exfalso.
             destruct (LoopProofs.check_kinds f (cenvw V) (lookup V) e [] Eck) as [Hne _]. exact (Hne eq_refl).
      + exfalso. apply Permutation_nil in HpE. discriminate HpE.
      + exfalso. apply Permutation_sym, Permutation_nil in HpE. discriminate HpE.
      + split; [discriminate|]. left. exact HpE.
  Qed.
End Resolve.

Section ConstPhase.
  Variable f : features.
  Variable fixed : list fixed_fn.
  Variable is_lower : string -> bool.
  Variable is_upper : string -> bool.

  Notation S1 stmts := (fold_left (step1 fixed) stmts (init1 fixed)).

  Lemma cedge_const_flows stmts : decl_pass_clean fixed stmts ->
    NoDup (map fst (s_consts (S1 stmts))) /\ closed (s_consts (S1 stmts)) /\
    forall c, cycle_of (cedge (s_consts (S1 stmts))) c <-> const_cycle stmts c.
  Proof.
    intros Hc. destruct (const_edges fixed is_lower is_upper stmts Hc) as [Hnd [Hcl [_ G2]]].
    split; [exact Hnd|]. split; [exact Hcl|].
    destruct (const_graph_facts _ Hnd) as [_ [G2' _]].
    intros c. unfold const_cycle. apply cycle_of_iff. intros a b. rewrite <- G2. symmetry. apply G2'.
  Qed.

  Theorem resolve_constants_order_free_holds : stmt_resolve_constants_order_free f fixed.
  Proof.
    intros o o' stmts Hok Hok' s Hclean.
    destruct (cedge_const_flows stmts Hclean) as [Hnd [Hcl Hcyc]].
    pose proof (resolve_with_two f o o' (s_consts s) Hok Hok' Hnd Hcl) as H.
    subst s.
    destruct (resolve_constants_with f o (s_consts (S1 stmts))) as [c1|e1];
    destruct (resolve_constants_with f o' (s_consts (S1 stmts))) as [c2|e2]; try exact H.
    - destruct H as [H1 [H2 _]]. split; assumption.
    - destruct H as [Hne [Hp|(c & c' & -> & -> & Hc & Hc')]]; (split; [exact Hne|]).
      + left. exact Hp.
      + right. exists c, c'. repeat split; try reflexivity; apply Hcyc; assumption.
  Qed.
End ConstPhase.

(* ---- phase 3: the register banks ------------------------------------------------------------------ *)
(* two constant tables that are the same map *)
Definition ceq (c c' : list (string * wval)) : Prop := forall k, lookup c k = lookup c' k.

Lemma ceq_has c c' k : ceq c c' -> has c k = has c' k.
Proof. intros H. unfold has. now rewrite (H k). Qed.

Lemma ceq_check f c c' e : ceq c c' ->
  check f (fun k => match lookup c k with Some v => Some (wd v) | None => None end) (lookup c) e =
  check f (fun k => match lookup c' k with Some v => Some (wd v) | None => None end) (lookup c') e.
Proof. intros H. apply CompleteProofs.check_ext. intros n _. rewrite (H n). split; reflexivity. Qed.

Lemma ceq_eval f c c' e : ceq c c' -> eval f (lookup c) e = eval f (lookup c') e.
Proof. intros H. apply eval_ext_ok. intros n _. apply H. Qed.

(* the same bank state up to the order of the diagnostics *)
Definition steq (t t' : st3) : Prop :=
  t_banks t = t_banks t' /\ t_defaulted t = t_defaulted t' /\ t_types t = t_types t' /\
  t_seen t = t_seen t' /\ t_in_spans t = t_in_spans t' /\ Permutation (t_errs t) (t_errs t').

Notation racc := (st3 * list (string * string * width) * list (string * wval))%type.
Definition acceq (a a' : racc) : Prop :=
  steq (fst (fst a)) (fst (fst a')) /\ snd (fst a) = snd (fst a') /\ snd a = snd a'.

Section Banks.
  Variable f : features.
  Variable is_lower : string -> bool.
  Variable is_upper : string -> bool.

  (* step3_register with the list of NonConstantWireRead diagnostics as a parameter *)
  Definition reg_core (s : st1) (consts : list (string * wval)) (bank_name inp outp : string)
             (e_nonconst : list err) (acc : racc) (r : string * width * expr) : racc :=
    let '(t, sigs, defaults) := acc in
    let '(rname, w, dflt) := r in
    let in_name := (inp ++ "_" ++ rname)%string in
    let out_name := (outp ++ "_" ++ rname)%string in
    let types := upd (upd (t_types t) in_name TRegisterBankInput) out_name TRegisterBankOutput in
    let e_redecl := flat_map (fun n => if mem_str n (s_decls s) then [mkErr RedeclaredWire [n]] else [])
                             [in_name; out_name] in
    let e_dup := if has defaults out_name then [mkErr DuplicateRegister [bank_name; rname]] else [] in
    let e_assigned := if has (s_assigns s) out_name then [mkErr DoubleAssignedRegisterWire [out_name]] else [] in
    let e_out := if mem_str out_name (t_seen t) then [mkErr DoubleDeclaredRegisterOutWire [out_name]] else [] in
    let seen1 := add_set out_name (t_seen t) in
    let e_in := if mem_str in_name seen1 then [mkErr DoubleDeclaredRegisterOutWire [in_name]] else [] in
    let seen2 := add_set in_name seen1 in
    let pre := e_redecl ++ e_nonconst ++ e_dup ++ e_assigned ++ e_out ++ e_in in
    match pre with
    | _ :: _ =>
        (mkSt3 (t_banks t) (t_defaulted t) types seen2 (t_in_spans t) (t_errs t ++ pre), sigs, defaults)
    | [] =>
        match check f (fun k => match lookup consts k with Some v => Some (wd v) | None => None end)
                    (lookup consts) dflt with
        | Err es =>
            (mkSt3 (t_banks t) (t_defaulted t) types seen2 (t_in_spans t) (t_errs t ++ es), sigs, defaults)
        | Ok _ =>
        match eval f (lookup consts) dflt with
        | Ok v =>
            let e_w := match wcombine (wd v) w with
                       | None => [mkErr MismatchedRegisterDefaultWidths [bank_name; rname]]
                       | Some _ => []
                       end in
            (mkSt3 (t_banks t) (t_defaulted t) types seen2 (add_set in_name (t_in_spans t)) (t_errs t ++ e_w),
             sigs ++ [(in_name, out_name, w)], upd defaults out_name (as_width w v))
        | Err es =>
            (mkSt3 (t_banks t) (t_defaulted t) types seen2 (t_in_spans t) (t_errs t ++ es), sigs, defaults)
        end
        end
    end.

  Definition nonconst_errs (s : st1) (consts : list (string * wval)) (dflt : expr) (l : list string) : list err :=
    flat_map (fun rf => if has (s_wires s) rf && negb (has consts rf)
                        then errs_for NonConstantWireRead rf (count_str rf (refs dflt)) else []) l.

  Lemma reg_with_core o s consts bn inp outp acc rname w dflt :
    step3_register_with f o s consts bn inp outp acc (rname, w, dflt) =
    reg_core s consts bn inp outp
             (nonconst_errs s consts dflt (o_refs_bank o (outp ++ "_" ++ rname)%string (nodup_str (refs dflt))))
             acc (rname, w, dflt).
  Proof. destruct acc as [[t sigs] defaults]. reflexivity. Qed.

  Lemma reg_core_rel s consts consts' bn inp outp en en' a a' r :
    ceq consts consts' -> Permutation en en' -> acceq a a' ->
    acceq (reg_core s consts bn inp outp en a r) (reg_core s consts' bn inp outp en' a' r).
  Proof.
    intros Hc Hp Ha.
    destruct a as [[t sigs] dfl], a' as [[t' sigs'] dfl'].
    destruct Ha as [Ht [Hs Hd]]. cbn [fst snd] in Ht, Hs, Hd. subst sigs' dfl'.
    destruct t as [tb td tt tse tsp te], t' as [tb' td' tt' tse' tsp' te'].
    destruct Ht as (H1 & H2 & H3 & H4 & H5 & H6). cbn in H1, H2, H3, H4, H5, H6. subst tb' td' tt' tse' tsp'.
    destruct r as [[rname w] dflt].
    unfold reg_core. cbv beta iota zeta. cbn [t_banks t_defaulted t_types t_seen t_in_spans t_errs].
    set (in_name := (inp ++ "_" ++ rname)%string). set (out_name := (outp ++ "_" ++ rname)%string).
    set (A := flat_map (fun n => if mem_str n (s_decls s) then [mkErr RedeclaredWire [n]] else [])
                       [in_name; out_name]).
    set (B := (if has dfl out_name then [mkErr DuplicateRegister [bn; rname]] else []) ++
              (if has (s_assigns s) out_name then [mkErr DoubleAssignedRegisterWire [out_name]] else []) ++
              (if mem_str out_name tse then [mkErr DoubleDeclaredRegisterOutWire [out_name]] else []) ++
              (if mem_str in_name (add_set out_name tse)
               then [mkErr DoubleDeclaredRegisterOutWire [in_name]] else [])).
    assert (Hpre : Permutation (A ++ en ++ B) (A ++ en' ++ B)).
    { apply Permutation_app_head. apply Permutation_app_tail. exact Hp. }
    destruct (A ++ en ++ B) as [|x xs] eqn:E1; destruct (A ++ en' ++ B) as [|x' xs'] eqn:E2.
    - rewrite <- (ceq_check f consts consts' dflt Hc), <- (ceq_eval f consts consts' dflt Hc).
      destruct (check f _ (lookup consts) dflt) as [wc|es].
      + destruct (eval f (lookup consts) dflt) as [v|es].
        * repeat split; cbn [fst snd t_errs]; try reflexivity.
          apply Permutation_app_tail. exact H6.
        * repeat split; cbn [fst snd t_errs]; try reflexivity. apply Permutation_app_tail. exact H6.
      + repeat split; cbn [fst snd t_errs]; try reflexivity. apply Permutation_app_tail. exact H6.
    - exfalso. apply Permutation_nil in Hpre. discriminate Hpre.
    - exfalso. apply Permutation_sym, Permutation_nil in Hpre. discriminate Hpre.
    - repeat split; cbn [fst snd t_errs]; try reflexivity. apply Permutation_app; assumption.
  Qed.

  Lemma nonconst_errs_rel s consts consts' dflt l l' :
    ceq consts consts' -> Permutation l l' ->
    Permutation (nonconst_errs s consts dflt l) (nonconst_errs s consts' dflt l').
  Proof.
    intros Hc Hp. unfold nonconst_errs. apply flat_map_perm2; [exact Hp|].
    intros rf. rewrite (ceq_has consts consts' rf Hc). apply Permutation_refl.
  Qed.

  Lemma step3_register_rel o o' s consts consts' bn inp outp a a' r :
    ord_ok o -> ord_ok o' -> ceq consts consts' -> acceq a a' ->
    acceq (step3_register_with f o s consts bn inp outp a r)
          (step3_register_with f o' s consts' bn inp outp a' r).
  Proof.
    intros Hok Hok' Hc Ha. destruct r as [[rname w] dflt]. rewrite !reg_with_core.
    apply reg_core_rel; [exact Hc| |exact Ha].
    apply nonconst_errs_rel; [exact Hc|].
    destruct Hok as (_&_&_&_&_&_&H7&_). destruct Hok' as (_&_&_&_&_&_&H7'&_).
    eapply perm_trans; [apply H7|]. apply Permutation_sym. apply H7'.
  Qed.

  Lemma fold_acceq o o' s consts consts' bn inp outp :
    ord_ok o -> ord_ok o' -> ceq consts consts' ->
    forall regs a a', acceq a a' ->
    acceq (fold_left (step3_register_with f o s consts bn inp outp) regs a)
          (fold_left (step3_register_with f o' s consts' bn inp outp) regs a').
  Proof.
    intros Hok Hok' Hc. induction regs as [|r regs IH]; intros a a' Ha; cbn [fold_left]; [exact Ha|].
    apply IH. apply step3_register_rel; assumption.
  Qed.

  Lemma step3_bank_rel o o' s consts consts' t t' b :
    ord_ok o -> ord_ok o' -> ceq consts consts' -> steq t t' ->
    steq (step3_bank_with f is_lower is_upper o s consts t b)
         (step3_bank_with f is_lower is_upper o' s consts' t' b).
  Proof.
    intros Hok Hok' Hc Ht. destruct b as [name regs].
    destruct t as [tb td tt tse tsp te], t' as [tb' td' tt' tse' tsp' te'].
    destruct Ht as (H1 & H2 & H3 & H4 & H5 & H6). cbn in H1, H2, H3, H4, H5, H6. subst tb' td' tt' tse' tsp'.
    unfold step3_bank_with. cbv beta iota.
    destruct (utf8_chars name "") as [|inp [|outp [|x l]]];
      try (repeat split; cbn [t_errs]; try reflexivity; apply Permutation_app_tail; exact H6).
    destruct (negb (is_lower inp) || negb (is_upper outp));
      [repeat split; cbn [t_errs]; try reflexivity; apply Permutation_app_tail; exact H6|].
    cbn [t_banks t_defaulted t_types t_seen t_in_spans t_errs].
    match goal with
    | |- context [fold_left (step3_register_with f o s consts name inp outp) regs ?A] => set (A0 := A)
    end.
    match goal with
    | |- context [fold_left (step3_register_with f o' s consts' name inp outp) regs ?A] => set (A0' := A)
    end.
    assert (Ha : acceq A0 A0').
    { subst A0 A0'. repeat split; cbn [fst snd t_errs]; try reflexivity. apply Permutation_app_tail. exact H6. }
    pose proof (fold_acceq o o' s consts consts' name inp outp Hok Hok' Hc regs A0 A0' Ha) as Hf.
    clearbody A0 A0'. clear Ha.
    destruct (fold_left (step3_register_with f o s consts name inp outp) regs A0) as [[t2 sigs] dfl].
    destruct (fold_left (step3_register_with f o' s consts' name inp outp) regs A0') as [[t2' sigs'] dfl'].
    destruct Hf as [(K1 & K2 & K3 & K4 & K5 & K6) [Ks Kd]]. cbn [fst snd] in *. subst sigs' dfl'.
    repeat split; cbn [t_banks t_defaulted t_types t_seen t_in_spans t_errs]; try assumption.
    rewrite K1. reflexivity.
  Qed.

  Lemma T3_rel o o' s consts consts' :
    ord_ok o -> ord_ok o' -> ceq consts consts' ->
    steq (fold_left (step3_bank_with f is_lower is_upper o s consts) (s_banks s) (mkSt3 [] [] (s_types s) [] [] []))
         (fold_left (step3_bank_with f is_lower is_upper o' s consts') (s_banks s) (mkSt3 [] [] (s_types s) [] [] [])).
  Proof.
    intros Hok Hok' Hc.
    assert (H0 : steq (mkSt3 [] [] (s_types s) [] [] []) (mkSt3 [] [] (s_types s) [] [] [])).
    { repeat split; apply Permutation_refl. }
    revert H0. generalize (mkSt3 [] [] (s_types s) [] [] []) at 1 3.
    generalize (mkSt3 [] [] (s_types s) [] [] []).
    induction (s_banks s) as [|b bs IH]; intros t' t Ht; cbn [fold_left]; [exact Ht|].
    apply IH. apply step3_bank_rel; assumption.
  Qed.
End Banks.

(* ---- phase 5: the graph of the assignments, for any insertion order ------------------------------- *)
Lemma insert_sources_nodes_iff (skip : string -> bool) (n : string) : forall rs g x,
  In n (g_nodes g) ->
  (In x (g_nodes (fold_left (fun g1 r => if skip r then g1 else graph_insert g1 r n) rs g)) <->
   In x (g_nodes g) \/ (In x rs /\ skip x = false)).
Proof.
  induction rs as [|r rs IH]; intros g x Hn; cbn [fold_left In].
  - tauto.
  - destruct (skip r) eqn:Esk.
    + rewrite (IH g x Hn). split.
      * intros [H|[H1 H2]]; [left; exact H|right; split; [right; exact H1|exact H2]].
      * intros [H|[[H1|H1] H2]]; [left; exact H| |right; split; assumption].
        subst x. rewrite Esk in H2. discriminate H2.
    + rewrite (IH (graph_insert g r n) x).
      2:{ apply graph_insert_nodes. left. exact Hn. }
      rewrite graph_insert_nodes. split.
      * intros [[H|[H|H]]|[H1 H2]].
        -- left. exact H.
        -- right. subst x. split; [left; reflexivity|exact Esk].
        -- left. subst x. exact Hn.
        -- right. split; [right; exact H1|exact H2].
      * intros [H|[[H1|H1] H2]].
        -- left. left. exact H.
        -- left. right. left. symmetry. exact H1.
        -- right. split; assumption.
Qed.

Lemma assign_gen_fold (known : list string) (src : string * expr -> list string) :
  (forall ne, NoDup (src ne)) -> (forall ne x, In x (src ne) <-> In x (refs (snd ne))) ->
  forall assigns g,
  gwf g -> NoDup (map fst assigns) ->
  (forall n, In n (map fst assigns) -> forall x, ~ gedge g x n) ->
  let g' := fold_left (fun g ne =>
                         fold_left (fun g1 r => if mem_str r known then g1 else graph_insert g1 r (fst ne))
                                   (src ne) (graph_add_node g (fst ne)))
                      assigns g in
  gwf g' /\
  (forall x y, gedge g' x y <->
               gedge g x y \/ exists e, In (y, e) assigns /\ In x (refs e) /\ mem_str x known = false) /\
  (forall x, In x (g_nodes g') <->
             In x (g_nodes g) \/ In x (map fst assigns) \/
             exists y e, In (y, e) assigns /\ In x (refs e) /\ mem_str x known = false).
Proof.
  intros Hsnd Hsin.
  induction assigns as [|[n e] assigns IH]; intros g Hwf Hnd Hne; cbn [fold_left].
  - split; [exact Hwf|]. split.
    + intros x y. split; [intros H; left; exact H | intros [H|[e [[] _]]]; exact H].
    + intros x. cbn [map In]. split; [intros H; left; exact H | intros [H|[[]|[y [e [[] _]]]]]; exact H].
  - cbn [map fst] in Hnd, Hne. apply NoDup_cons_iff in Hnd. destruct Hnd as [Hn Hnd]. cbn [fst snd].
    pose proof (Hsin (n, e)) as Hs. cbn [snd] in Hs.
    assert (Hwf1 : gwf (graph_add_node g n)) by (apply graph_add_node_wf; exact Hwf).
    destruct (insert_sources_wf (fun r => mem_str r known) n (src (n, e)) (graph_add_node g n) Hwf1
                                (Hsnd (n, e))) as [J1 [J2 _]].
    { intros r _ He. apply graph_add_node_edge in He. apply (Hne n (or_introl eq_refl) r). exact He. }
    cbv zeta in J1, J2.
    pose proof (fun x => insert_sources_nodes_iff (fun r => mem_str r known) n (src (n, e))
                           (graph_add_node g n) x
                           (proj2 (graph_add_node_nodes g n n) (or_intror eq_refl))) as J3.
    cbv beta in J3.
    set (g2 := fold_left (fun g1 r => if mem_str r known then g1 else graph_insert g1 r n)
                         (src (n, e)) (graph_add_node g n)) in *.
    assert (Hne2 : forall n0, In n0 (map fst assigns) -> forall x, ~ gedge g2 x n0).
    { intros n0 H0 x He. apply J2 in He. destruct He as [He|[He _]].
      - apply graph_add_node_edge in He. apply (Hne n0 (or_intror H0) x). exact He.
      - subst n0. apply Hn. exact H0. }
    destruct (IH g2 J1 Hnd Hne2) as [I1 [I2 I3]]. cbv zeta in I1, I2, I3.
    split; [exact I1|]. split.
    + intros x y. rewrite I2, J2, graph_add_node_edge. cbn [In]. split.
      * intros [[H|[H1 [H2 H3]]]|[e0 [H1 H2]]].
        -- left. exact H.
        -- right. exists e. subst y. split; [left; reflexivity|]. split; [apply Hs; exact H2 | exact H3].
        -- right. exists e0. split; [right; exact H1 | exact H2].
      * intros [H|[e0 [[H1|H1] [H2 H3]]]].
        -- left. left. exact H.
        -- injection H1 as <- <-. left. right. split; [reflexivity|]. split; [apply Hs; exact H2 | exact H3].
        -- right. exists e0. split; [exact H1|]. split; assumption.
    + intros x. rewrite I3. pose proof (J3 x) as J3x. rewrite graph_add_node_nodes in J3x.
      cbn [map fst In]. split.
      * intros [H|[H|[y [e0 [H1 H2]]]]].
        -- apply (proj1 J3x) in H. destruct H as [[H|H]|[H1 H2]].
           ++ left. exact H.
           ++ right. left. left. symmetry. exact H.
           ++ right. right. exists n, e. split; [left; reflexivity|]. split; [apply Hs; exact H1|exact H2].
        -- right. left. right. exact H.
        -- right. right. exists y, e0. split; [right; exact H1|exact H2].
      * intros [H|[[H|H]|[y [e0 [[H1|H1] [H2 H3]]]]]].
        -- left. apply (proj2 J3x). left. left. exact H.
        -- left. apply (proj2 J3x). left. right. symmetry. exact H.
        -- right. left. exact H.
        -- injection H1 as <- <-. left. apply (proj2 J3x). right. split; [apply Hs; exact H2|exact H3].
        -- right. right. exists y, e0. split; [exact H1|]. split; assumption.
Qed.

Section AssignGraph.
  Variable o : ord.
  Hypothesis Hok : ord_ok o.

  Lemma assign_graph_with_facts assigns known : NoDup (map fst assigns) ->
    gwf (assign_graph_with o assigns known) /\
    (forall x y, gedge (assign_graph_with o assigns known) x y <->
                 exists e, In (y, e) assigns /\ In x (refs e) /\ mem_str x known = false) /\
    (forall x, In x (g_nodes (assign_graph_with o assigns known)) <->
               In x (map fst assigns) \/
               exists y e, In (y, e) assigns /\ In x (refs e) /\ mem_str x known = false).
  Proof.
    intros Hnd. destruct Hok as (_&_&_&_&_&_&_&_&H9&H10&_).
    assert (Hp := H9 assigns).
    assert (Hnd' : NoDup (map fst (o_assigns o assigns))).
    { exact (Permutation_NoDup (Permutation_sym (Permutation_map fst Hp)) Hnd). }
    destruct (assign_gen_fold known (fun ne => o_refs_assign o (fst ne) (nodup_str (refs (snd ne))))) with
        (assigns := o_assigns o assigns) (g := empty_graph) as [I1 [I2 I3]].
    - intros ne. apply (Permutation_NoDup (Permutation_sym (H10 _ _))). apply nodup_str_NoDup.
    - intros ne x. rewrite <- (nodup_str_In x (refs (snd ne))). split; intros H.
      + exact (Permutation_in _ (H10 _ _) H).
      + exact (Permutation_in _ (Permutation_sym (H10 _ _)) H).
    - exact empty_graph_wf.
    - exact Hnd'.
    - intros n _ x. apply empty_graph_edge.
    - cbv zeta in I1, I2, I3. fold (assign_graph_with o assigns known) in I1, I2, I3.
      assert (Hin : forall y e, In (y, e) (o_assigns o assigns) <-> In (y, e) assigns).
      { intros y e. split; intros H; [exact (Permutation_in _ Hp H)|exact (Permutation_in _ (Permutation_sym Hp) H)]. }
      assert (Hk : forall x, In x (map fst (o_assigns o assigns)) <-> In x (map fst assigns)).
      { intros x. split; intros H.
        - exact (Permutation_in _ (Permutation_map fst Hp) H).
        - exact (Permutation_in _ (Permutation_sym (Permutation_map fst Hp)) H). }
      split; [exact I1|]. split.
      + intros x y. rewrite I2. split.
        * intros [H|[e [H1 H2]]]; [exfalso; exact (empty_graph_edge x y H)|].
          exists e. split; [apply Hin; exact H1|exact H2].
        * intros [e [H1 H2]]. right. exists e. split; [apply Hin; exact H1|exact H2].
      + intros x. rewrite I3, Hk. cbn [empty_graph g_nodes In]. split.
        * intros [[]|[H|[y [e [H1 H2]]]]]; [left; exact H|].
          right. exists y, e. split; [apply Hin; exact H1|exact H2].
        * intros [H|[y [e [H1 H2]]]]; [right; left; exact H|].
          right. right. exists y, e. split; [apply Hin; exact H1|exact H2].
  Qed.
End AssignGraph.

(* ---- phase 5: the built-in components on two presentations of the same graph --------------------- *)
Definition geqn (g g' : graph string) : Prop :=
  (forall x, In x (g_nodes g) <-> In x (g_nodes g')) /\ (forall a b, gedge g a b <-> gedge g' a b).

Lemma geqn_refl g : geqn g g.
Proof. split; intros; reflexivity. Qed.

Lemma geqn_sym g g' : geqn g g' -> geqn g' g.
Proof. intros [H1 H2]. split; intros; symmetry; [apply H1|apply H2]. Qed.

Lemma geqn_trans g g' g'' : geqn g g' -> geqn g' g'' -> geqn g g''.
Proof. intros [H1 H2] [H3 H4]. split; intros; [rewrite H1; apply H3|rewrite H2; apply H4]. Qed.

Lemma fold_insert_geqn (o : string) : forall ins g g',
  geqn g g' ->
  geqn (fold_left (fun g1 n => graph_insert g1 n o) ins g) (fold_left (fun g1 n => graph_insert g1 n o) ins g').
Proof.
  induction ins as [|i ins IH]; intros g g' H; cbn [fold_left]; [exact H|].
  apply IH. destruct H as [H1 H2]. split.
  - intros x. rewrite !graph_insert_nodes, H1. reflexivity.
  - intros a b. rewrite !graph_insert_edge, H2. reflexivity.
Qed.

Lemma geqn_has_node g g' n : geqn g g' -> graph_has_node g n = graph_has_node g' n.
Proof.
  intros [H _]. unfold graph_has_node.
  destruct (mem_str n (g_nodes g)) eqn:E; destruct (mem_str n (g_nodes g')) eqn:E'; try reflexivity.
  - apply mem_str_In in E. apply H in E. apply mem_str_false in E'. contradiction.
  - apply mem_str_In in E'. apply H in E'. apply mem_str_false in E. contradiction.
Qed.

Notation pacc := (graph string * list (string * fixed_fn) * list fixed_fn * list err)%type.
Definition pacceq (a a' : pacc) : Prop :=
  geqn (fst (fst (fst a))) (fst (fst (fst a'))) /\ snd (fst (fst a)) = snd (fst (fst a')) /\
  snd (fst a) = snd (fst a') /\ snd a = snd a'.

Section Preprocess.
  Variable f : features.

  Lemma preprocess_one_rel consts consts' assigns a a' ff :
    ceq consts consts' -> pacceq a a' ->
    pacceq (preprocess_one f consts assigns a ff) (preprocess_one f consts' assigns a' ff).
  Proof.
    intros Hc Ha. destruct a as [[[g b] n] e], a' as [[[g' b'] n'] e'].
    destruct Ha as (Hg & Hb & Hn & He). cbn [fst snd] in Hg, Hb, Hn, He. subst b' n' e'.
    unfold preprocess_one. cbv beta iota zeta.
    destruct (filter (fun n0 => negb (has assigns n0)) (fixed_in_names ff)) as [|m ms].
    - destruct (ff_out ff) as [[o w]|]; repeat split; cbn [fst snd]; try reflexivity;
        try apply Hg; apply (fold_insert_geqn o _ _ _ Hg).
    - destruct (ff_mandatory ff).
      + destruct (ff_out ff) as [[o w]|]; repeat split; cbn [fst snd]; try reflexivity;
          try apply Hg; apply (fold_insert_geqn o _ _ _ Hg).
      + repeat split; cbn [fst snd]; try apply Hg.
        f_equal. f_equal.
        * destruct (ff_out ff) as [[o w]|]; [|reflexivity].
          rewrite (geqn_has_node g g' o Hg). reflexivity.
        * destruct ((List.length (m :: ms) =? List.length (ff_ins ff))%nat); [reflexivity|].
          destruct (ff_enable ff) as [en|]; [|reflexivity].
          destruct (lookup assigns en) as [ee|]; [|reflexivity].
          rewrite (ceq_eval f consts consts' ee Hc). reflexivity.
  Qed.

  Lemma preprocess_rel consts consts' assigns : ceq consts consts' ->
    forall l a a', pacceq a a' ->
    pacceq (fold_left (preprocess_one f consts assigns) l a) (fold_left (preprocess_one f consts' assigns) l a').
  Proof.
    intros Hc. induction l as [|ff l IH]; intros a a' Ha; cbn [fold_left]; [exact Ha|].
    apply IH. apply preprocess_one_rel; assumption.
  Qed.
End Preprocess.

(* ---- phase 5: the loop over the sorted names ------------------------------------------------------ *)
Section Schedule.
  Variable f : features.

  (* what one name contributes *)
  Definition sched_one (widths : list (string * width)) (consts : list (string * wval))
             (assigns : list (string * expr)) (by_out : list (string * fixed_fn)) (decls : list string)
             (n : string) : list action * list err * list string :=
    match lookup assigns n with
    | Some e =>
        match lookup widths n with
        | Some w =>
            match check f (lookup widths) (lookup consts) e with
            | Ok we => ([AAssign n e w],
                        match wcombine w we with None => [mkErr MismatchedWireWidths [n]] | Some _ => [] end, [])
            | Err es => ([], es, [])
            end
        | None => ([], [mkErr UndeclaredWireAssigned [n]], [])
        end
    | None =>
        match lookup by_out n with
        | Some ff => ([ff_action ff], [], [])
        | None => if mem_str n decls then ([], [mkErr UnsetWire [n]], []) else ([], [], [n])
        end
    end.

  Lemma schedule_char widths consts assigns by_out decls : forall order acts errs und,
    schedule f widths consts assigns by_out decls order acts errs und =
    (acts ++ flat_map (fun n => fst (fst (sched_one widths consts assigns by_out decls n))) order,
     errs ++ flat_map (fun n => snd (fst (sched_one widths consts assigns by_out decls n))) order,
     fold_left (fun l x => add_set x l)
               (flat_map (fun n => snd (sched_one widths consts assigns by_out decls n)) order) und).
  Proof.
    induction order as [|n r IH]; intros acts errs und; cbn [schedule flat_map fold_left].
    - rewrite !app_nil_r. reflexivity.
    - assert (Hn : forall a1 e1 u1, sched_one widths consts assigns by_out decls n = (a1, e1, u1) ->
                   schedule f widths consts assigns by_out decls r (acts ++ a1) (errs ++ e1)
                            (fold_left (fun l x => add_set x l) u1 und) =
                   (acts ++ a1 ++ flat_map (fun n => fst (fst (sched_one widths consts assigns by_out decls n))) r,
                    errs ++ e1 ++ flat_map (fun n => snd (fst (sched_one widths consts assigns by_out decls n))) r,
                    fold_left (fun l x => add_set x l)
                      (u1 ++ flat_map (fun n => snd (sched_one widths consts assigns by_out decls n)) r) und)).
      { intros a1 e1 u1 _. rewrite IH, fold_left_app, !app_assoc. reflexivity. }
      destruct (sched_one widths consts assigns by_out decls n) as [[a1 e1] u1] eqn:Es.
      cbn [fst snd]. rewrite <- (Hn a1 e1 u1 eq_refl). clear Hn.
      unfold sched_one in Es.
      destruct (lookup assigns n) as [e|].
      + destruct (lookup widths n) as [w|].
        * destruct (check f (lookup widths) (lookup consts) e) as [we|es]; injection Es as <- <- <-;
            cbn [fold_left]; rewrite ?app_nil_r; reflexivity.
        * injection Es as <- <- <-. cbn [fold_left]. rewrite ?app_nil_r. reflexivity.
      + destruct (lookup by_out n) as [ff|].
        * injection Es as <- <- <-. cbn [fold_left]. rewrite ?app_nil_r. reflexivity.
        * destruct (mem_str n decls); injection Es as <- <- <-; cbn [fold_left]; rewrite ?app_nil_r; reflexivity.
  Qed.

  Lemma sched_one_ext widths widths' consts consts' assigns by_out decls n :
    (forall k, lookup widths k = lookup widths' k) -> ceq consts consts' ->
    sched_one widths consts assigns by_out decls n = sched_one widths' consts' assigns by_out decls n.
  Proof.
    intros Hw Hc. unfold sched_one. rewrite (Hw n).
    destruct (lookup assigns n) as [e|]; [|reflexivity].
    destruct (lookup widths' n) as [w|]; [|reflexivity].
    rewrite (CompleteProofs.check_ext f (lookup widths) (lookup widths') (lookup consts) (lookup consts') e);
      [reflexivity|].
    intros k _. split; [apply Hw|apply Hc].
  Qed.
End Schedule.

(* ---- phase 5: assignments_to_actions under two iteration orders ----------------------------------- *)
Section Actions.
  Variable f : features.
  Variable fixed : list fixed_fn.

  (* the two kinds of edges handed to the sorter *)
  Definition wrel (A : list (string * expr)) (known : list string) (x y : string) : Prop :=
    (exists e, In (y, e) A /\ In x (refs e) /\ mem_str x known = false) \/
    (exists ff w, In ff fixed /\ (forall i, In i (fixed_in_names ff) -> has A i = true) /\
                  ff_out ff = Some (y, w) /\ In x (fixed_in_names ff)).

  Definition a2a_same (A : list (string * expr)) (known : list string) (pre_errs : list err)
             (r r' : result (list action)) : Prop :=
    match r, r' with
    | Ok acts, Ok acts' => Permutation acts acts'
    | Err es, Err es' =>
        es <> [] /\
        (Permutation es es' \/
         exists c c', es = [mkErr WireLoop c] /\ es' = [mkErr WireLoop c'] /\ pre_errs = [] /\
                      cycle_of (wrel A known) c /\ cycle_of (wrel A known) c')
    | _, _ => False
    end.

  Lemma a2a_rel o o' widths widths' consts consts' A known known' decls :
    ord_ok o -> ord_ok o' ->
    Forall (fun ff => NoDup (fixed_in_names ff)) fixed -> NoDup (fixed_out_names fixed) ->
    NoDup (map fst A) -> (forall n, has A n = true -> ~ In n (fixed_out_names fixed)) ->
    (forall k, lookup widths k = lookup widths' k) -> ceq consts consts' ->
    (forall x, mem_str x known = mem_str x known') ->
    a2a_same A known
      (snd (fold_left (preprocess_one f consts A) fixed (assign_graph_with o A known, [], [], [])))
      (assignments_to_actions_with f fixed o widths consts A known decls)
      (assignments_to_actions_with f fixed o' widths' consts' A known' decls).
  Proof.
    intros Hok Hok' Tins Touts HA1 HA2 Hw Hc Hk.
    destruct (assign_graph_with_facts o Hok A known HA1) as [G1 [G2 G3]].
    destruct (assign_graph_with_facts o' Hok' A known' HA1) as [G1' [G2' G3']].
    assert (Hg0 : geqn (assign_graph_with o A known) (assign_graph_with o' A known')).
    { split.
      - intros x. rewrite G3, G3'. split; (intros [H|[y [e [H1 [H2 H3]]]]]; [left; exact H|]);
          right; exists y, e; (split; [exact H1|]); (split; [exact H2|]); [rewrite <- Hk|rewrite Hk]; exact H3.
      - intros a b. rewrite G2, G2'. split; intros [e [H1 [H2 H3]]]; exists e;
          (split; [exact H1|]); (split; [exact H2|]); [rewrite <- Hk|rewrite Hk]; exact H3. }
    assert (Hnoe : forall g0, (forall x y, gedge g0 x y -> exists e, In (y, e) A) ->
                   forall o0, In o0 (fixed_out_names fixed) -> forall x, ~ gedge g0 x o0).
    { intros g0 Hg o0 Ho x Hxo. destruct (Hg x o0 Hxo) as [e Hoe].
      apply (HA2 o0); [|exact Ho]. apply has_In. apply (in_map fst) in Hoe. exact Hoe. }
    unfold assignments_to_actions_with.
    pose proof (preprocess_rel f consts consts' A Hc fixed
                  (assign_graph_with o A known, [], [], []) (assign_graph_with o' A known', [], [], [])) as Hpre.
    destruct (fold_left (preprocess_one f consts A) fixed (assign_graph_with o A known, [], [], []))
      as [[[g b] n] e0] eqn:Ep.
    destruct (fold_left (preprocess_one f consts' A) fixed (assign_graph_with o' A known', [], [], []))
      as [[[g' b'] n'] e0'] eqn:Ep'.
    destruct Hpre as (Hg & Hb & Hn & He).
    { repeat split; cbn [fst snd]; try reflexivity; apply Hg0. }
    cbn [fst snd] in Hg, Hb, Hn, He. subst b' n' e0'.
    destruct e0 as [|d0 e0]; [|cbn [a2a_same]; split; [discriminate|left; apply Permutation_refl]].
    destruct (preprocess_edges f consts A fixed _ _ _ _ _ _ G1 Touts Tins
                (Hnoe _ (fun x y H => match proj1 (G2 x y) H with ex_intro _ e (conj H1 _) => ex_intro _ e H1 end)) Ep)
      as [P1 P2].
    destruct (preprocess_edges f consts' A fixed _ _ _ _ _ _ G1' Touts Tins
                (Hnoe _ (fun x y H => match proj1 (G2' x y) H with ex_intro _ e (conj H1 _) => ex_intro _ e H1 end)) Ep')
      as [P1' P2'].
    assert (Hpw : presentation_ok (o_present_wires o)) by (destruct Hok as (_&_&_&_&_&_&_&_&_&_&H&_); exact H).
    assert (Hpw' : presentation_ok (o_present_wires o')) by (destruct Hok' as (_&_&_&_&_&_&_&_&_&_&H&_); exact H).
    destruct (Hpw g P1) as [Q1 [Q2 Q3]]. destruct (Hpw' g' P1') as [Q1' [Q2' Q3']].
    set (G := o_present_wires o g) in *. set (G' := o_present_wires o' g') in *.
    assert (HR : forall x y, gedge G x y <-> wrel A known x y).
    { intros x y. rewrite Q3, P2, G2. reflexivity. }
    assert (HR' : forall x y, gedge G' x y <-> wrel A known x y).
    { intros x y. rewrite Q3', <- (proj2 Hg), <- Q3. apply HR. }
    assert (Hcyc : ghas_cycle G <-> ghas_cycle G').
    { apply has_cycle_edges. intros a0 b0. rewrite HR, HR'. reflexivity. }
    destruct (toposort_total G Q1) as [[order [Ht Hac]]|[cyc [Ht Hcy]]];
    destruct (toposort_total G' Q1') as [[order' [Ht' Hac']]|[cyc' [Ht' Hcy']]]; rewrite Ht, Ht'; cbn [bind].
    - (* both sorted *)
      destruct (order_valid string String.eqb String.eqb_eq G order Q1 Ht) as [N1 [N2 _]].
      destruct (order_valid string String.eqb String.eqb_eq G' order' Q1' Ht') as [N1' [N2' _]].
      assert (Hp : Permutation order order').
      { apply NoDup_Permutation; [exact N1|exact N1'|]. intros x.
        rewrite N2, N2', Q2, Q2'. apply (proj1 Hg). }
      rewrite !schedule_char. cbn [app].
      set (so := sched_one f widths consts A b decls).
      assert (Hso : forall x, sched_one f widths' consts' A b decls x = so x).
      { intros x. symmetry. apply sched_one_ext; assumption. }
      assert (Hacts : Permutation (flat_map (fun x => fst (fst (so x))) order)
                                  (flat_map (fun x => fst (fst (sched_one f widths' consts' A b decls x))) order')).
      { apply flat_map_perm2; [exact Hp|]. intros x. rewrite Hso. apply Permutation_refl. }
      assert (Herrs : Permutation (flat_map (fun x => snd (fst (so x))) order)
                                  (flat_map (fun x => snd (fst (sched_one f widths' consts' A b decls x))) order')).
      { apply flat_map_perm2; [exact Hp|]. intros x. rewrite Hso. apply Permutation_refl. }
      assert (Hund : Permutation
                (fold_left (fun l x => add_set x l) (flat_map (fun x => snd (so x)) order) [])
                (fold_left (fun l x => add_set x l)
                           (flat_map (fun x => snd (sched_one f widths' consts' A b decls x)) order') [])).
      { apply NoDup_Permutation; try (apply fold_add_set_NoDup; constructor).
        intros x. rewrite !fold_add_set_In. cbn [In].
        assert (Hu : Permutation (flat_map (fun x => snd (so x)) order)
                                 (flat_map (fun x => snd (sched_one f widths' consts' A b decls x)) order')).
        { apply flat_map_perm2; [exact Hp|]. intros y. rewrite Hso. apply Permutation_refl. }
        split; (intros [[]|H]; right); [exact (Permutation_in _ Hu H)|exact (Permutation_in _ (Permutation_sym Hu) H)]. }
      assert (Hou : forall l, Permutation (o_undeclared o l) l) by (destruct Hok as (_&_&_&_&_&_&_&_&_&_&_&H); exact H).
      assert (Hou' : forall l, Permutation (o_undeclared o' l) l) by (destruct Hok' as (_&_&_&_&_&_&_&_&_&_&_&H); exact H).
      match goal with
      | |- a2a_same _ _ _ (match ?e1 with [] => _ | _ :: _ => _ end) (match ?e2 with [] => _ | _ :: _ => _ end) =>
          assert (Hall : Permutation e1 e2)
      end.
      { apply Permutation_app; [exact Herrs|]. apply Permutation_map.
        eapply perm_trans; [apply Hou|]. eapply perm_trans; [exact Hund|]. apply Permutation_sym, Hou'. }
      match goal with
      | |- a2a_same _ _ _ (match ?e1 with [] => _ | _ :: _ => _ end) (match ?e2 with [] => _ | _ :: _ => _ end) =>
          destruct e1 as [|x1 l1]; destruct e2 as [|x2 l2]
      end.
      + cbn [a2a_same]. apply Permutation_app_tail. exact Hacts.
      + exfalso. apply Permutation_nil in Hall. discriminate Hall.
      + exfalso. apply Permutation_sym, Permutation_nil in Hall. discriminate Hall.
      + cbn [a2a_same]. split; [discriminate|left; exact Hall].
    - exfalso. apply Hac. apply Hcyc. exists cyc'. exact Hcy'.
    - exfalso. apply Hac'. apply Hcyc. exists cyc. exact Hcy.
    - cbn [a2a_same]. split; [discriminate|]. right. exists cyc, cyc'.
      split; [reflexivity|]. split; [reflexivity|]. split; [reflexivity|]. split.
      + apply is_cycle_cycle_of in Hcy. revert Hcy. apply cycle_of_mono. intros a0 b0 H0. apply HR. exact H0.
      + apply is_cycle_cycle_of in Hcy'. revert Hcy'. apply cycle_of_mono. intros a0 b0 H0. apply HR'. exact H0.
  Qed.
End Actions.

(* ---- everything after the constants ------------------------------------------------------------------ *)
Lemma fold_upd_map_lookup {V W} (h : V -> W) : forall (l : list (string * V)) (m : list (string * W)) k,
  NoDup (map fst l) ->
  lookup (fold_left (fun m nv => upd m (fst nv) (h (snd nv))) l m) k =
  match lookup l k with Some v => Some (h v) | None => lookup m k end.
Proof.
  induction l as [|[k0 v0] r IH]; intros m k Hnd; cbn [fold_left lookup fst snd]; [reflexivity|].
  cbn [map fst] in Hnd. inversion Hnd as [|x1 x2 Hnin Hnd']; subst x1 x2.
  rewrite (IH _ k Hnd'). destruct (String.eqb k k0) eqn:E.
  - apply String.eqb_eq in E. subst k0.
    rewrite (proj2 (lookup_None r k) Hnin). apply lookup_upd_same.
  - destruct (lookup r k); [reflexivity|]. apply lookup_upd_ne. intros ->. rewrite String.eqb_refl in E. discriminate.
Qed.

Lemma mem_str_perm x l l' : Permutation l l' -> mem_str x l = mem_str x l'.
Proof.
  intros Hp. destruct (mem_str x l) eqn:E; destruct (mem_str x l') eqn:E'; try reflexivity.
  - apply mem_str_In in E. apply mem_str_false in E'. exfalso. exact (E' (Permutation_in _ Hp E)).
  - apply mem_str_In in E'. apply mem_str_false in E. exfalso. exact (E (Permutation_in _ (Permutation_sym Hp) E')).
Qed.

Section Tail.
  Variable f : features.
  Variable fixed : list fixed_fn.
  Variable is_lower : string -> bool.
  Variable is_upper : string -> bool.

  Definition T3w (o : ord) (s : st1) (consts : list (string * wval)) : st3 :=
    fold_left (step3_bank_with f is_lower is_upper o s consts) (s_banks s) (mkSt3 [] [] (s_types s) [] [] []).
  Definition needed_of (s : st1) (t : st3) : list string :=
    fold_left (fun l x => add_set x l) (all_in_names (t_banks t)) (s_needed s).
  Definition errs4w (o : ord) (s : st1) (consts : list (string * wval)) : list err :=
    t_errs (T3w o s consts) ++ unset_errors s (T3w o s consts) (o_needed o (needed_of s (T3w o s consts))).
  Definition knownw (t : st3) (consts : list (string * wval)) : list string :=
    all_out_names (t_banks t) ++ t_defaulted t ++ map fst consts.
  Definition prew (o : ord) (s : st1) (consts : list (string * wval)) :=
    fold_left (preprocess_one f consts (s_assigns s)) fixed
              (assign_graph_with o (s_assigns s) (knownw (T3w o s consts) consts), [], [], []).

  Definition tail_with (o : ord) (s : st1) (consts : list (string * wval)) : result program :=
    let t := T3w o s consts in
    match errs4w o s consts with
    | _ :: _ => Err (errs4w o s consts)
    | [] =>
        do acts <- assignments_to_actions_with f fixed o (widths_of s t consts) consts (s_assigns s)
                                               (knownw t consts) (s_decls s);
        Ok (mkProgram consts acts (t_banks t) (t_defaulted t) (t_types t))
    end.

  Lemma build_with_tail o stmts :
    build_program_with f fixed is_lower is_upper o stmts =
    let s := fold_left (step1 fixed) stmts (init1 fixed) in
    match s_errs s ++ const_assigned_errors_with o s ++ const_ref_errors_with o s with
    | _ :: _ => Err (s_errs s ++ const_assigned_errors_with o s ++ const_ref_errors_with o s)
    | [] => do consts <- resolve_constants_with f o (s_consts s); tail_with o s consts
    end.
  Proof.
    unfold build_program_with, tail_with, errs4w, T3w, needed_of, knownw, widths_of. cbv zeta.
    destruct (s_errs _ ++ _ ++ _); [|reflexivity].
    destruct (resolve_constants_with f o _) as [consts|es]; cbn [bind]; [|reflexivity].
    destruct (t_errs _ ++ unset_errors _ _ _); reflexivity.
  Qed.

  (* the outcome of the tail for two runs *)
  Definition tail_same (o : ord) (s : st1) (consts : list (string * wval)) (r r' : result program) : Prop :=
    match r, r' with
    | Ok p, Ok p' =>
        p_consts p = consts /\ p_banks p = p_banks p' /\ p_defaulted p = p_defaulted p' /\
        p_types p = p_types p' /\ Permutation (p_actions p) (p_actions p')
    | Err es, Err es' =>
        es <> [] /\
        (Permutation es es' \/
         exists c c', es = [mkErr WireLoop c] /\ es' = [mkErr WireLoop c'] /\
                      errs4w o s consts = [] /\ snd (prew o s consts) = [] /\
                      cycle_of (wrel fixed (s_assigns s) (knownw (T3w o s consts) consts)) c /\
                      cycle_of (wrel fixed (s_assigns s) (knownw (T3w o s consts) consts)) c')
    | _, _ => False
    end.

  Lemma tail_rel o o' stmts consts consts' :
    let s := fold_left (step1 fixed) stmts (init1 fixed) in
    ord_ok o -> ord_ok o' -> fixed_table_distinct fixed -> s_errs s = [] ->
    Permutation consts consts' -> NoDup (map fst consts) ->
    tail_same o s consts (tail_with o s consts) (tail_with o' s consts') /\
    (forall p', tail_with o' s consts' = Ok p' -> p_consts p' = consts').
  Proof.
    intros s Hok Hok' [Tins Touts] He Hp Hnd.
    assert (Hnd' : NoDup (map fst consts')) by exact (Permutation_NoDup (Permutation_map fst Hp) Hnd).
    assert (Hc : ceq consts consts') by exact (lookup_perm_holds consts consts' Hnd Hp).
    pose proof (T3_rel f is_lower is_upper o o' s consts consts' Hok Hok' Hc) as HT.
    fold (T3w o s consts) in HT. fold (T3w o' s consts') in HT.
    unfold tail_with, errs4w.
    set (T := T3w o s consts) in *. set (T' := T3w o' s consts') in *.
    destruct HT as (H1 & H2 & H3 & H4 & H5 & H6).
    assert (Hneed : needed_of s T = needed_of s T') by (unfold needed_of; rewrite H1; reflexivity).
    assert (Hun : Permutation (unset_errors s T (o_needed o (needed_of s T)))
                              (unset_errors s T' (o_needed o' (needed_of s T')))).
    { unfold unset_errors. rewrite <- H5, <- Hneed. apply Permutation_flat_map.
      destruct Hok as (_&_&_&_&_&_&_&Hn&_). destruct Hok' as (_&_&_&_&_&_&_&Hn'&_).
      eapply perm_trans; [apply Hn|]. apply Permutation_sym, Hn'. }
    assert (H4p : Permutation (t_errs T ++ unset_errors s T (o_needed o (needed_of s T)))
                              (t_errs T' ++ unset_errors s T' (o_needed o' (needed_of s T')))).
    { apply Permutation_app; assumption. }
    destruct (t_errs T ++ unset_errors s T (o_needed o (needed_of s T))) as [|x4 l4] eqn:E4;
    destruct (t_errs T' ++ unset_errors s T' (o_needed o' (needed_of s T'))) as [|x4' l4'] eqn:E4'.
    2:{ exfalso. apply Permutation_nil in H4p. discriminate H4p. }
    2:{ exfalso. apply Permutation_sym, Permutation_nil in H4p. discriminate H4p. }
    2:{ split; [|intros p' Hx; discriminate Hx]. cbn [tail_same]. split; [discriminate|left; exact H4p]. }
    assert (HA1 : NoDup (map fst (s_assigns s))) by apply S1_assigns_NoDup.
    assert (HA2 : forall n, has (s_assigns s) n = true -> ~ In n (fixed_out_names fixed)).
    { intros n Hn. apply (S1_assigns_has fixed is_lower is_upper) in Hn.
      destruct (S1_assigned_fresh fixed is_lower is_upper stmts He) as [_ Hfr]. apply Hfr. exact Hn. }
    assert (Hw : forall k, lookup (widths_of s T consts) k = lookup (widths_of s T' consts') k).
    { intros k. unfold widths_of. rewrite !fold_upd_map_lookup by assumption. rewrite <- H1, (Hc k). reflexivity. }
    assert (Hk : forall x, mem_str x (knownw T consts) = mem_str x (knownw T' consts')).
    { intros x. unfold knownw. rewrite <- H1, <- H2. apply mem_str_perm.
      apply Permutation_app_head. apply Permutation_app_head. apply Permutation_map. exact Hp. }
    rewrite <- fixed_out_names_eq in Touts.
    pose proof (a2a_rel f fixed o o' _ _ consts consts' (s_assigns s) _ _ (s_decls s)
                        Hok Hok' Tins Touts HA1 HA2 Hw Hc Hk) as Ha.
    destruct (assignments_to_actions_with f fixed o (widths_of s T consts) consts (s_assigns s)
                                          (knownw T consts) (s_decls s)) as [acts|es] eqn:Ea;
    destruct (assignments_to_actions_with f fixed o' (widths_of s T' consts') consts' (s_assigns s)
                                          (knownw T' consts') (s_decls s)) as [acts'|es'] eqn:Ea';
      cbn [a2a_same] in Ha; try contradiction; cbn [bind].
    - split; [|intros p' Hx; injection Hx as <-; reflexivity].
      cbn [tail_same p_consts p_banks p_defaulted p_types p_actions]. repeat split; assumption.
    - split; [|intros p' Hx; discriminate Hx].
      cbn [tail_same]. destruct Ha as [Hne [Hpe|(c & c' & -> & -> & Hpe0 & Hcy & Hcy')]]; (split; [exact Hne|]).
      + left. exact Hpe.
      + right. exists c, c'. split; [reflexivity|]. split; [reflexivity|].
        split; [unfold errs4w; fold T; exact E4|].
        split; [unfold prew; fold T; exact Hpe0|split; assumption].
  Qed.
End Tail.

(* ---- the model of Build.v is the run with insertion order everywhere ----------------------------- *)
Lemma presentation_id : presentation_ok (fun g => g).
Proof. intros g Hwf. split; [exact Hwf|]. split; intros; reflexivity. Qed.

Lemma ord_id_ok : ord_ok ord_id.
Proof.
  unfold ord_ok, ord_id. cbn [o_assigned o_consts_check o_refs_check o_consts_graph o_refs_graph
    o_present_consts o_refs_bank o_needed o_assigns o_refs_assign o_present_wires o_undeclared].
  split; [intros; apply Permutation_refl|]. split; [intros; apply Permutation_refl|].
  split; [intros; apply Permutation_refl|]. split; [intros; apply Permutation_refl|].
  split; [intros; apply Permutation_refl|]. split; [exact presentation_id|].
  split; [intros; apply Permutation_refl|]. split; [intros; apply Permutation_refl|].
  split; [intros; apply Permutation_refl|]. split; [intros; apply Permutation_refl|].
  split; [exact presentation_id|]. intros; apply Permutation_refl.
Qed.

Section ModelIsId.
  Variable f : features.
  Variable fixed : list fixed_fn.
  Variable is_lower : string -> bool.
  Variable is_upper : string -> bool.

  Lemma resolve_id cs : resolve_constants_with f ord_id cs = resolve_constants f cs.
  Proof. reflexivity. Qed.
  Lemma T3w_id s consts : T3w f is_lower is_upper ord_id s consts = T3 f is_lower is_upper s consts.
  Proof. reflexivity. Qed.
  Lemma errs4w_id s consts : errs4w f is_lower is_upper ord_id s consts = errs4_of f is_lower is_upper s consts.
  Proof. reflexivity. Qed.
  Lemma knownw_id s consts :
    knownw (T3w f is_lower is_upper ord_id s consts) consts = known_of f is_lower is_upper s consts.
  Proof. reflexivity. Qed.
  Lemma prew_id s consts : prew f fixed is_lower is_upper ord_id s consts = pre_of f fixed is_lower is_upper s consts.
  Proof. reflexivity. Qed.
End ModelIsId.

(* ---- the edges handed to the sorter are the direct reads of the program ------------------------ *)
Section Main.
  Variable f : features.
  Variable fixed : list fixed_fn.
  Variable is_lower : string -> bool.
  Variable is_upper : string -> bool.

  Notation S1 stmts := (fold_left (step1 fixed) stmts (init1 fixed)).

  Lemma wrel_wire_flows o stmts consts :
    ord_ok o -> fixed_table_distinct fixed -> decl_pass_clean fixed stmts ->
    resolve_constants_with f o (s_consts (S1 stmts)) = Ok consts ->
    errs4w f is_lower is_upper o (S1 stmts) consts = [] ->
    snd (prew f fixed is_lower is_upper o (S1 stmts) consts) = [] ->
    forall c, cycle_of (wrel fixed (s_assigns (S1 stmts))
                             (knownw (T3w f is_lower is_upper o (S1 stmts) consts) consts)) c ->
              wire_cycle fixed stmts c.
  Proof.
    intros Hok Hfix Hclean Hres H4 Hpre c Hc.
    set (s := S1 stmts) in *.
    destruct (cedge_const_flows fixed is_lower is_upper stmts Hclean) as [Hnd [Hcl _]]. fold s in Hnd, Hcl.
    destruct (decl_clean_inv fixed stmts Hclean) as [He _]. fold s in He.
    (* the model's constants *)
    pose proof (resolve_with_two f o ord_id (s_consts s) Hok ord_id_ok Hnd Hcl) as H2.
    rewrite Hres, resolve_id in H2.
    destruct (resolve_constants f (s_consts s)) as [cm|em] eqn:Erm; [|contradiction].
    destruct H2 as [Hp [Hndc _]].
    assert (Hceq : ceq consts cm) by exact (lookup_perm_holds consts cm Hndc Hp).
    (* the model gets as far as the sorter too *)
    pose proof (T3_rel f is_lower is_upper o ord_id s consts cm Hok ord_id_ok Hceq) as HT.
    fold (T3w f is_lower is_upper o s consts) in HT. fold (T3w f is_lower is_upper ord_id s cm) in HT.
    destruct HT as (T1 & T2 & T3' & T4 & T5 & T6).
    assert (Hk : forall x, mem_str x (knownw (T3w f is_lower is_upper o s consts) consts) =
                           mem_str x (known_of f is_lower is_upper s cm)).
    { intros x. rewrite <- knownw_id. unfold knownw. rewrite <- T1, <- T2. apply mem_str_perm.
      apply Permutation_app_head. apply Permutation_app_head. apply Permutation_map. exact Hp. }
    assert (Hready : sort_ready f fixed is_lower is_upper stmts cm).
    { split; [exact Hclean|]. split; [exact Erm|]. split.
      - change (errs4w f is_lower is_upper ord_id s cm = []). unfold errs4w in *.
        apply app_eq_nil in H4. destruct H4 as [H4a H4b].
        rewrite H4a in T6. apply Permutation_nil in T6. rewrite T6. cbn [app].
        unfold unset_errors in *. rewrite <- T5. unfold needed_of in *. rewrite <- T1.
        cbn [o_needed ord_id].
        assert (Hpn : Permutation (o_needed o (fold_left (fun l x => add_set x l)
                         (all_in_names (t_banks (T3w f is_lower is_upper o s consts))) (s_needed s)))
                       (fold_left (fun l x => add_set x l)
                         (all_in_names (t_banks (T3w f is_lower is_upper o s consts))) (s_needed s))).
        { destruct Hok as (_&_&_&_&_&_&_&Hn&_). apply Hn. }
        apply (Permutation_flat_map (fun n =>
                 if has (s_assigns s) n then []
                 else if mem_str n (s_decls s) then [mkErr UnsetWire [n]]
                 else if mem_str n (t_in_spans (T3w f is_lower is_upper o s consts))
                      then [mkErr UnsetRegisterInputWire [n]] else [mkErr UnsetBuiltinWire [n]])) in Hpn.
        rewrite H4b in Hpn. apply Permutation_nil in Hpn. exact Hpn.
      - change (snd (prew f fixed is_lower is_upper ord_id s cm) = []). unfold prew in *.
        assert (HA1 : NoDup (map fst (s_assigns s))) by apply S1_assigns_NoDup.
        destruct (assign_graph_with_facts o Hok (s_assigns s)
                    (knownw (T3w f is_lower is_upper o s consts) consts) HA1) as [_ [G2 G3]].
        destruct (assign_graph_with_facts ord_id ord_id_ok (s_assigns s)
                    (knownw (T3w f is_lower is_upper ord_id s cm) cm) HA1) as [_ [G2' G3']].
        rewrite knownw_id in G2', G3'.
        pose proof (preprocess_rel f consts cm (s_assigns s) Hceq fixed
                      (assign_graph_with o (s_assigns s) (knownw (T3w f is_lower is_upper o s consts) consts), [], [], [])
                      (assign_graph_with ord_id (s_assigns s) (knownw (T3w f is_lower is_upper ord_id s cm) cm), [], [], []))
          as Hpr.
        destruct Hpr as (_ & _ & _ & Hpe).
        { split; [|split; [reflexivity|split; reflexivity]]. cbn [fst snd]. rewrite knownw_id. split.
          - intros x0. rewrite G3, G3'.
            split; (intros [H|[y [e [K1 [K2 K3]]]]]; [left; exact H|]);
              right; exists y, e; (split; [exact K1|]); (split; [exact K2|]); [rewrite <- Hk|rewrite Hk]; exact K3.
          - intros a b. rewrite G2, G2'. split; intros [e [K1 [K2 K3]]]; exists e;
              (split; [exact K1|]); (split; [exact K2|]); [rewrite <- Hk|rewrite Hk]; exact K3. }
        rewrite <- Hpe. exact Hpre. }
    pose proof (wire_rel_iff f fixed is_lower is_upper stmts cm Hready) as Hrel. fold s in Hrel.
    unfold wire_cycle. revert Hc. apply cycle_of_mono. intros x y Hxy. apply Hrel.
    destruct Hxy as [[e [K1 [K2 K3]]]|Hxy]; [|right; exact Hxy].
    left. exists e. split; [exact K1|]. split; [exact K2|]. rewrite <- Hk. exact K3.
  Qed.

  Theorem diagnostics_order_free_holds : stmt_diagnostics_order_free f fixed is_lower is_upper.
  Proof.
    intros Hfix o o' stmts Hok Hok'.
    rewrite !build_with_tail. cbv zeta. set (s := S1 stmts).
    pose proof (decl_pass_perm o Hok s) as D1. pose proof (decl_pass_perm o' Hok' s) as D2.
    destruct (s_errs s ++ const_assigned_errors s ++ const_ref_errors s) as [|m0 ms] eqn:Em.
    2:{ destruct (s_errs s ++ const_assigned_errors_with o s ++ const_ref_errors_with o s) as [|x l] eqn:E1;
          [apply Permutation_nil in D1; discriminate D1|].
        destruct (s_errs s ++ const_assigned_errors_with o' s ++ const_ref_errors_with o' s) as [|x' l'] eqn:E2;
          [apply Permutation_nil in D2; discriminate D2|].
        cbn [same_outcome_build]. split; [discriminate|]. left.
        eapply perm_trans; [exact D1|]. apply Permutation_sym. exact D2. }
    apply Permutation_sym, Permutation_nil in D1. apply Permutation_sym, Permutation_nil in D2.
    rewrite D1, D2.
    assert (Hclean : decl_pass_clean fixed stmts) by exact Em.
    destruct (cedge_const_flows fixed is_lower is_upper stmts Hclean) as [Hnd [Hcl Hcyc]]. fold s in Hnd, Hcl, Hcyc.
    destruct (decl_clean_inv fixed stmts Hclean) as [He _]. fold s in He.
    pose proof (resolve_with_two f o o' (s_consts s) Hok Hok' Hnd Hcl) as H2.
    destruct (resolve_constants_with f o (s_consts s)) as [consts|es] eqn:R1;
    destruct (resolve_constants_with f o' (s_consts s)) as [consts'|es'] eqn:R2; try contradiction; cbn [bind].
    2:{ cbn [same_outcome_build]. destruct H2 as [Hne [Hp|(c & c' & -> & -> & Hc & Hc')]]; (split; [exact Hne|]).
        - left. exact Hp.
        - right. exists c, c'. split; [reflexivity|]. split; [reflexivity|]. left.
          split; apply Hcyc; assumption. }
    destruct H2 as [Hp [Hndc _]].
    destruct (tail_rel f fixed is_lower is_upper o o' stmts consts consts' Hok Hok' Hfix He Hp Hndc) as [Ht Hc'].
    fold s in Ht, Hc'.
    destruct (tail_with f fixed is_lower is_upper o s consts) as [p|es] eqn:T1;
    destruct (tail_with f fixed is_lower is_upper o' s consts') as [p'|es'] eqn:T2;
      cbn [tail_same] in Ht; try contradiction; cbn [same_outcome_build].
    - destruct Ht as (K1 & K2 & K3 & K4 & K5). unfold same_program.
      rewrite K1, (Hc' p' eq_refl). repeat split; assumption.
    - destruct Ht as [Hne [Hpe|(c & c' & -> & -> & K4 & Kp & Kc & Kc')]]; (split; [exact Hne|]).
      + left. exact Hpe.
      + right. exists c, c'. split; [reflexivity|]. split; [reflexivity|]. right.
        split; apply (wrel_wire_flows o stmts consts Hok Hfix Hclean R1 K4 Kp); assumption.
  Qed.

  Theorem model_order_is_representative_holds : stmt_model_order_is_representative f fixed is_lower is_upper.
  Proof.
    intros Hfix o stmts Hok.
    rewrite <- (build_with_id_holds f fixed is_lower is_upper stmts).
    apply diagnostics_order_free_holds; [exact Hfix|exact ord_id_ok|exact Hok].
  Qed.
End Main.

(* ---- C01 for every iteration order: the schedule of an accepted program is valid ------------------ *)
Section Valid.
  Variable f : features.
  Variable fixed : list fixed_fn.
  Variable is_lower : string -> bool.
  Variable is_upper : string -> bool.

  Notation S1 stmts := (fold_left (step1 fixed) stmts (init1 fixed)).

  Lemma a2a_with_inv o widths consts assigns known decls acts : ord_ok o ->
    assignments_to_actions_with f fixed o widths consts assigns known decls = Ok acts ->
    exists g by_out no_out order sacts,
      fold_left (preprocess_one f consts assigns) fixed (assign_graph_with o assigns known, [], [], [])
        = (g, by_out, no_out, []) /\
      toposort string String.eqb (o_present_wires o g) = Ok (inl order) /\
      schedule f widths consts assigns by_out decls order [] [] [] = (sacts, [], []) /\
      acts = sacts ++ map ff_action no_out.
  Proof.
    intros Hok. unfold assignments_to_actions_with. intros H.
    destruct (fold_left (preprocess_one f consts assigns) fixed (assign_graph_with o assigns known, [], [], []))
      as [[[g by_out] no_out] errs0] eqn:Ef.
    destruct errs0 as [|e0 errs0]; [|discriminate H].
    destruct (toposort string String.eqb (o_present_wires o g)) as [[order|cyc]|es1] eqn:Et; cbn [bind] in H;
      [|unfold err1 in H; discriminate H | discriminate H].
    destruct (schedule f widths consts assigns by_out decls order [] [] []) as [[sacts errs] und] eqn:Es.
    destruct (errs ++ map (fun n => mkErr UnsetUndeclaredWire [n]) (o_undeclared o und)) as [|x l] eqn:Ee;
      [|discriminate H].
    injection H as <-. apply app_eq_nil in Ee. destruct Ee as [-> Eu].
    apply map_eq_nil in Eu.
    assert (Hu : und = []).
    { destruct Hok as (_&_&_&_&_&_&_&_&_&_&_&Hou). pose proof (Hou und) as Hp. rewrite Eu in Hp.
      apply Permutation_nil in Hp. exact Hp. }
    subst und. exists g, by_out, no_out, order, sacts. split; [reflexivity|]. split; [exact Et|].
    split; [exact Es|reflexivity].
  Qed.

  Theorem with_valid_schedule_holds : stmt_with_valid_schedule f fixed is_lower is_upper.
  Proof.
    intros Hfok Hsok o stmts p Hok Hb.
    destruct (fixed_sched_ok_inv fixed Hsok) as [Tins [Touts Tplain]].
    assert (Hfix : fixed_table_distinct fixed) by (split; [exact Tins|rewrite <- fixed_out_names_eq; exact Touts]).
    rewrite build_with_tail in Hb. cbv zeta in Hb. set (s := S1 stmts) in *.
    pose proof (decl_pass_perm o Hok s) as D1.
    destruct (s_errs s ++ const_assigned_errors_with o s ++ const_ref_errors_with o s) as [|x0 l0]; [|discriminate Hb].
    apply Permutation_nil in D1.
    assert (Hclean : decl_pass_clean fixed stmts) by exact D1.
    destruct (decl_clean_inv fixed stmts Hclean) as [He [Hca _]]. fold s in He, Hca.
    destruct (cedge_const_flows fixed is_lower is_upper stmts Hclean) as [Hnd [Hcl _]]. fold s in Hnd, Hcl.
    destruct (resolve_constants_with f o (s_consts s)) as [consts|es] eqn:R1; cbn [bind] in Hb; [|discriminate Hb].
    (* the model's constants and banks *)
    pose proof (resolve_with_two f o ord_id (s_consts s) Hok ord_id_ok Hnd Hcl) as H2.
    rewrite R1, resolve_id in H2.
    destruct (resolve_constants f (s_consts s)) as [cm|em] eqn:Erm; [|contradiction].
    destruct H2 as [Hp [Hndc _]].
    assert (Hceq : ceq consts cm) by exact (lookup_perm_holds consts cm Hndc Hp).
    pose proof (T3_rel f is_lower is_upper o ord_id s consts cm Hok ord_id_ok Hceq) as HT.
    fold (T3w f is_lower is_upper o s consts) in HT. fold (T3w f is_lower is_upper ord_id s cm) in HT.
    rewrite T3w_id in HT. destruct HT as (T1 & T2 & _ & _ & _ & T6).
    unfold tail_with in Hb. cbv zeta in Hb.
    destruct (errs4w f is_lower is_upper o s consts) as [|x4 l4] eqn:E4; [|discriminate Hb].
    unfold errs4w in E4. apply app_eq_nil in E4. destruct E4 as [E4a _].
    rewrite E4a in T6. apply Permutation_nil in T6.
    set (T := T3w f is_lower is_upper o s consts) in *.
    set (Tm := T3 f is_lower is_upper s cm) in *.
    set (A := s_assigns s) in *.
    set (known := knownw T consts) in *.
    destruct (assignments_to_actions_with f fixed o (widths_of s T consts) consts A known (s_decls s))
      as [acts|es] eqn:Ea; cbn [bind] in Hb; [|discriminate Hb].
    injection Hb as Hp'. symmetry in Hp'.
    destruct (a2a_with_inv o _ _ _ _ _ _ Hok Ea) as [g [by_out [no_out [order [sacts [Hf [Ht [Hs Hacts']]]]]]]].
    assert (HA1 : NoDup (map fst A)) by apply S1_assigns_NoDup.
    assert (HA2 : forall n, has A n = true -> ~ In n (fixed_out_names fixed)).
    { intros n Hn. apply (S1_assigns_has fixed is_lower is_upper) in Hn.
      destruct (S1_assigned_fresh fixed is_lower is_upper stmts He) as [_ Hfr]. apply Hfr. exact Hn. }
    assert (Hkm : forall n, In n known <-> In n (known_of f is_lower is_upper s cm)).
    { intros n. unfold known, knownw, known_of. fold Tm. rewrite T1, T2, !in_app_iff.
      assert (Hc : In n (map fst consts) <-> In n (map fst cm)).
      { split; intros H; [exact (Permutation_in _ (Permutation_map fst Hp) H)|
                          exact (Permutation_in _ (Permutation_sym (Permutation_map fst Hp)) H)]. }
      rewrite Hc. reflexivity. }
    assert (HK : forall n, In n known -> has A n = false /\ ~ In n (fixed_out_names fixed)).
    { intros n Hn. apply Hkm in Hn.
      apply (known_not_written f fixed is_lower is_upper stmts cm He Hca Erm T6); [|exact Hn].
      intros o0 Ho. apply fixed_out_in_names in Ho. apply Tplain in Ho. exact Ho. }
    destruct (assign_graph_with_facts o Hok A known HA1) as [G1 [G2 G3]].
    destruct (preprocess_shape _ _ _ _ _ _ _ _ _ _ Hf) as [Hby [extra [Hno [Hsub Hex]]]].
    cbn [app] in Hno. subst no_out.
    assert (Hby' : forall n ff, lookup by_out n = Some ff ->
                     In ff fixed /\ (exists w, ff_out ff = Some (n, w)) /\
                     forall i, In i (fixed_in_names ff) -> has A i = true).
    { intros n ff Hl. destruct (Hby n ff Hl) as [Hx|Hx]; [discriminate Hx | exact Hx]. }
    assert (Hnoe : forall o0, In o0 (fixed_out_names fixed) -> forall x, ~ gedge (assign_graph_with o A known) x o0).
    { intros o0 Ho x Hxo. apply G2 in Hxo. destruct Hxo as [e [Hoe _]].
      apply (HA2 o0); [|exact Ho]. apply has_In. apply (in_map fst) in Hoe. exact Hoe. }
    destruct (preprocess_graph _ _ _ _ _ _ _ _ _ _ G1 Touts Tins Hnoe Hf) as [P1 [P2 [P3 P4]]].
    assert (Hpw : presentation_ok (o_present_wires o)) by (destruct Hok as (_&_&_&_&_&_&_&_&_&_&H&_); exact H).
    destruct (Hpw g P1) as [Q1 [Q2 Q3]].
    assert (Hbyedge : forall n ff, lookup by_out n = Some ff ->
                        forall i, In i (fixed_in_names ff) -> gedge g i n).
    { intros n ff Hl. destruct (P4 n ff Hl) as [Hx|Hx]; [discriminate Hx | exact Hx]. }
    destruct (order_valid string String.eqb String.eqb_eq _ order Q1 Ht) as [L1 [L2 L3]].
    destruct (schedule_ok _ _ _ _ _ _ _ _ _ _ _ Hs) as [_ [_ [new [Hn HF]]]]. cbn [app] in Hn. subst sacts.
    assert (Hpa : p_actions p = new ++ map ff_action extra) by (rewrite Hp'; cbn [p_actions]; exact Hacts').
    assert (Hby2 : forall n ff, lookup by_out n = Some ff -> In ff fixed /\ exists w, ff_out ff = Some (n, w)).
    { intros n ff Hl. destruct (Hby' n ff Hl) as [Hx [Hy _]]. split; assumption. }
    assert (Hwr : forall a m, In a (p_actions p) -> written a = Some m ->
                    has A m = true \/ In m (fixed_out_names fixed)).
    { intros a m Ha Hw. rewrite Hpa in Ha. apply in_app_iff in Ha. destruct Ha as [Ha|Ha].
      - destruct (Forall2_In_r _ _ _ _ HF Ha) as [n [_ Hem]].
        destruct (emitted_pure _ _ _ _ _ _ _ _ Hfok Hby2 Hem) as [_ Hwn]. rewrite Hwn in Hw. injection Hw as <-.
        destruct Hem as [[e [w [we [Hl _]]]]|[_ [ff [Hl _]]]].
        + left. apply has_lookup. exists e. exact Hl.
        + right. destruct (Hby2 n ff Hl) as [Hin [w Ho]]. apply (In_fixed_out_names fixed ff n w Hin Ho).
      - apply in_map_iff in Ha. destruct Ha as [ff [<- Hff]].
        destruct (Hex ff Hff) as [Hin [Ho _]].
        destruct (fixed_fn_ok_noout ff (fixed_ok_In fixed ff Hfok Hin) Ho) as [Heff _].
        rewrite (effect_written _ Heff) in Hw. discriminate Hw. }
    assert (HK0 : forall n, In n known -> In n (known0 p)).
    { intros n Hn. apply known0_In. split.
      - unfold start_wires. rewrite Hp'. cbn [p_consts p_banks]. unfold known, knownw in Hn.
        apply in_app_iff in Hn. destruct Hn as [Hn|Hn].
        + apply in_or_app. right. apply in_or_app. left. exact Hn.
        + apply in_app_iff in Hn. destruct Hn as [Hn|Hn].
          * rewrite T2 in Hn. destruct (T3_defaulted f is_lower is_upper s cm n Hn) as [_ [b0 [Hb0 H2']]].
            change (In b0 (t_banks Tm)) in Hb0. rewrite <- T1 in Hb0.
            apply in_or_app. right. apply in_or_app. right. apply in_or_app. right.
            apply in_flat_map. exists b0. split; [exact Hb0|]. cbn [In]. destruct H2' as [->| ->]; auto.
          * apply in_or_app. left. exact Hn.
      - intros a Ha Hw. destruct (HK n Hn) as [Hk1 Hk2].
        destruct (Hwr a n Ha Hw) as [Hx|Hx]; [rewrite Hx in Hk1; discriminate Hk1 | exact (Hk2 Hx)]. }
    rewrite Hpa.
    assert (HW : forall n a, emitted f (widths_of s T consts) consts A by_out n a -> written a = Some n).
    { intros n a Hem. apply (emitted_pure _ _ _ _ _ _ _ _ Hfok Hby2 Hem). }
    apply (vs_pure _ HW order new HF).
    - exact L1.
    - intros n Hn Hk. apply known0_In in Hk. destruct Hk as [_ Hk].
      destruct (Forall2_In_l _ _ _ _ HF Hn) as [a [Ha Hem]].
      apply (Hk a); [rewrite Hpa; apply in_or_app; left; exact Ha|].
      apply (emitted_pure _ _ _ _ _ _ _ _ Hfok Hby2 Hem).
    - intros n a r Hn Hem Hr.
      destruct Hem as [[e [w [we [Hl [_ [_ [_ ->]]]]]]]|[_ [ff [Hl ->]]]].
      + cbn [reads] in Hr. destruct (mem_str r known) eqn:Ek.
        * left. apply HK0. apply mem_str_In. exact Ek.
        * right. apply L3. apply Q3. apply P2. apply G2. exists e. split; [apply lookup_In; exact Hl|].
          split; [exact Hr | exact Ek].
      + right. apply L3. apply Q3. apply (Hbyedge n ff Hl).
        destruct (Hby2 n ff Hl) as [Hin [w Ho]].
        destruct (fixed_fn_ok_out ff n w (fixed_ok_In fixed ff Hfok Hin) Ho) as [_ [_ Hrd]]. apply Hrd. exact Hr.
    - intros b Hb'. apply in_map_iff in Hb'. destruct Hb' as [ff [<- Hff]].
      destruct (Hex ff Hff) as [Hin [Ho Hall]].
      destruct (fixed_fn_ok_noout ff (fixed_ok_In fixed ff Hfok Hin) Ho) as [Heff Hrd].
      split; [exact Heff|]. intros r Hr. right. apply L2. apply Q2. apply P3. apply G3. left.
      apply has_In. apply Hall. apply Hrd. exact Hr.
  Qed.
End Valid.

(* ---- a run that walks every hash collection backwards ------------------------------------------- *)
Definition rev_graph (g : graph string) : graph string :=
  mkGraph (rev (g_nodes g)) (g_succ g) (g_num_edges g).

Lemma rev_graph_ok : presentation_ok rev_graph.
Proof.
  intros g [W1 [W2 [W3 W4]]]. split; [|split].
  - unfold wf_graph, rev_graph. cbn [g_nodes g_succ g_num_edges].
    split; [apply NoDup_rev; exact W1|]. split; [exact W2|]. split.
    + intros a l Hin. destruct (W3 a l Hin) as [H1 [H2 H3]].
      split; [apply -> in_rev; exact H1|]. split; [exact H2|]. intros b Hb. apply -> in_rev. apply H3. exact Hb.
    + rewrite W4, !edge_total_et. reflexivity.
  - intros x. unfold rev_graph. cbn [g_nodes]. symmetry. apply in_rev.
  - intros a b. rewrite !gedge_iff. reflexivity.
Qed.

Definition ord_rev : ord :=
  mkOrd (@rev _) (@rev _) (fun _ => @rev _) (@rev _) (fun _ => @rev _) rev_graph
        (fun _ => @rev _) (@rev _) (@rev _) (fun _ => @rev _) rev_graph (@rev _).
(* only the constants and the assignments are met in another order *)
Definition ord_rev2 : ord :=
  mkOrd (fun l => l) (fun l => l) (fun _ l => l) (@rev _) (fun _ l => l) (fun g => g)
        (fun _ l => l) (fun l => l) (@rev _) (fun _ l => l) (fun g => g) (fun l => l).

Lemma ord_rev_ok : ord_ok ord_rev.
Proof.
  unfold ord_ok, ord_rev. cbn [o_assigned o_consts_check o_refs_check o_consts_graph o_refs_graph
    o_present_consts o_refs_bank o_needed o_assigns o_refs_assign o_present_wires o_undeclared].
  split; [intros; apply Permutation_sym, Permutation_rev|]. split; [intros; apply Permutation_sym, Permutation_rev|].
  split; [intros; apply Permutation_sym, Permutation_rev|]. split; [intros; apply Permutation_sym, Permutation_rev|].
  split; [intros; apply Permutation_sym, Permutation_rev|]. split; [exact rev_graph_ok|].
  split; [intros; apply Permutation_sym, Permutation_rev|]. split; [intros; apply Permutation_sym, Permutation_rev|].
  split; [intros; apply Permutation_sym, Permutation_rev|]. split; [intros; apply Permutation_sym, Permutation_rev|].
  split; [exact rev_graph_ok|]. intros; apply Permutation_sym, Permutation_rev.
Qed.

Lemma ord_rev2_ok : ord_ok ord_rev2.
Proof.
  unfold ord_ok, ord_rev2. cbn [o_assigned o_consts_check o_refs_check o_consts_graph o_refs_graph
    o_present_consts o_refs_bank o_needed o_assigns o_refs_assign o_present_wires o_undeclared].
  split; [intros; apply Permutation_refl|]. split; [intros; apply Permutation_refl|].
  split; [intros; apply Permutation_refl|]. split; [intros; apply Permutation_sym, Permutation_rev|].
  split; [intros; apply Permutation_refl|]. split; [exact presentation_id|].
  split; [intros; apply Permutation_refl|]. split; [intros; apply Permutation_refl|].
  split; [intros; apply Permutation_sym, Permutation_rev|]. split; [intros; apply Permutation_refl|].
  split; [exact presentation_id|]. intros; apply Permutation_refl.
Qed.

Definition bw (o : ord) := build_program_with gen_features gen_fixed ascii_lower ascii_upper o.

(* two diagnostics of the declaration pass, met in either order *)
Definition ex_decl : list stmt :=
  [SWire [("a", Bits 1); ("b", Bits 1)];
   SConst [("K", EBin Add (EWire "a") (EWire "zz"))];
   SAssign [(["pc"], EConst (mkV 0 (Bits 64)))];
   SAssign [(["Stat"], EConst (mkV 2 (Bits 3)))]].

Example ex_decl_orders :
  bw ord_id ex_decl = Err [mkErr NonConstantWireRead ["a"]; mkErr UndeclaredWireRead ["zz"]] /\
  bw ord_rev ex_decl = Err [mkErr UndeclaredWireRead ["zz"]; mkErr NonConstantWireRead ["a"]] /\
  same_outcome_build gen_fixed ex_decl (bw ord_id ex_decl) (bw ord_rev ex_decl).
Proof.
  split; [vm_compute; reflexivity|]. split; [vm_compute; reflexivity|].
  exact (diagnostics_order_free_holds gen_features gen_fixed ascii_lower ascii_upper gen_fixed_distinct
           ord_id ord_rev ex_decl ord_id_ok ord_rev_ok).
Qed.

(* two unassigned wires *)
Definition ex_unset : list stmt :=
  [SWire [("a", Bits 1); ("b", Bits 1)];
   SAssign [(["pc"], EConst (mkV 0 (Bits 64)))];
   SAssign [(["Stat"], EConst (mkV 2 (Bits 3)))]].

Example ex_unset_orders :
  bw ord_id ex_unset = Err [mkErr UnsetWire ["a"]; mkErr UnsetWire ["b"]] /\
  bw ord_rev ex_unset = Err [mkErr UnsetWire ["b"]; mkErr UnsetWire ["a"]].
Proof. split; vm_compute; reflexivity. Qed.

(* two independent loops: which one is shown depends on the order, each is a real loop *)
Definition ex_loops : list stmt :=
  [SWire [("a", Bits 1); ("b", Bits 1); ("c", Bits 1); ("d", Bits 1)];
   SAssign [(["a"], EWire "b")]; SAssign [(["b"], EWire "a")];
   SAssign [(["c"], EWire "d")]; SAssign [(["d"], EWire "c")];
   SAssign [(["pc"], EConst (mkV 0 (Bits 64)))];
   SAssign [(["Stat"], EConst (mkV 2 (Bits 3)))]].
Definition ex_constloops : list stmt :=
  [SConst [("A", EWire "B"); ("B", EWire "A"); ("C", EWire "D"); ("D", EWire "C")]].

Example ex_loops_orders :
  (bw ord_id ex_loops = Err [mkErr WireLoop ["a"; "b"]] /\
   bw ord_rev2 ex_loops = Err [mkErr WireLoop ["d"; "c"]]) /\
  (bw ord_id ex_constloops = Err [mkErr WireLoop ["B"; "A"]] /\
   bw ord_rev2 ex_constloops = Err [mkErr WireLoop ["C"; "D"]]) /\
  same_outcome_build gen_fixed ex_loops (bw ord_id ex_loops) (bw ord_rev2 ex_loops) /\
  same_outcome_build gen_fixed ex_constloops (bw ord_id ex_constloops) (bw ord_rev2 ex_constloops).
Proof.
  split; [split; vm_compute; reflexivity|].
  split; [split; vm_compute; reflexivity|].
  split; apply (diagnostics_order_free_holds gen_features gen_fixed ascii_lower ascii_upper gen_fixed_distinct);
    try exact ord_id_ok; exact ord_rev2_ok.
Qed.

(* an accepted program: the same program, its actions scheduled in another valid order *)
Definition ex_ok : list stmt :=
  [SConst [("K", EConst (mkV 1 (Bits 8))); ("L", EBin Add (EWire "K") (EWire "K"))];
   SWire [("foo", Bits 8); ("FOO", Bits 8)];
   SBank "xC" [("n", Bits 8, EConst (mkV 0 (Bits 8)))];
   SAssign [(["x_n"], EBin Add (EWire "C_n") (EWire "L"))];
   SAssign [(["foo"], EWire "C_n")];
   SAssign [(["FOO"], EWire "x_n")];
   SAssign [(["pc"], EConst (mkV 0 (Bits 64)))];
   SAssign [(["Stat"], EConst (mkV 2 (Bits 3)))]].

Example ex_ok_orders :
  match bw ord_id ex_ok, bw ord_rev ex_ok with
  | Ok p, Ok p' =>
      same_program p p' /\ p_actions p <> p_actions p' /\
      valid_schedule (known0 p') (p_actions p') = true
  | _, _ => False
  end.
Proof.
  pose proof (diagnostics_order_free_holds gen_features gen_fixed ascii_lower ascii_upper gen_fixed_distinct
                ord_id ord_rev ex_ok ord_id_ok ord_rev_ok) as H.
  pose proof (with_valid_schedule_holds gen_features gen_fixed ascii_lower ascii_upper) as Hv.
  fold (bw ord_id ex_ok) in H. fold (bw ord_rev ex_ok) in H.
  destruct (bw ord_id ex_ok) as [p|e] eqn:E1; [|vm_compute in E1; discriminate E1].
  destruct (bw ord_rev ex_ok) as [p'|e'] eqn:E2; [|vm_compute in E2; discriminate E2].
  split; [exact H|]. split.
  - vm_compute in E1, E2. injection E1 as <-. injection E2 as <-. cbn [p_actions]. discriminate.
  - apply (Hv ltac:(vm_compute; reflexivity) ltac:(vm_compute; reflexivity) ord_rev ex_ok p' ord_rev_ok E2).
Qed.

Print Assumptions build_with_id_holds.
Print Assumptions decl_pass_order_free_holds.
Print Assumptions resolve_constants_order_free_holds.
Print Assumptions diagnostics_order_free_holds.
Print Assumptions model_order_is_representative_holds.
Print Assumptions with_valid_schedule_holds.
Print Assumptions eval_consts_order_free.
