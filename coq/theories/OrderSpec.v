(* C01 / C12: "This is true whatever textual order the declarations and assignments appear in" /
   "reordering statements leaves every wire's value in every cycle and the final machine state
   unchanged", as statements about build_program and the simulator.

   "Reordering the statements" = a Permutation of the statement list.  One statement is one
   `const` / `wire` / assignment / `register` item of the program text; the declarators inside one
   item (and the registers inside one bank) keep their order.

   Statements only; proofs are in OrderProofs.v. *)
From Coq Require Import Permutation.
From HclV Require Import Base Expr ExprSpec Machine MachineSpec SchedSpec Build BuildSpec Generated
     TableSpec.
Open Scope string_scope.
Open Scope list_scope.
Open Scope N_scope.

Section OrderSpec.
  Variable f : features.
  Variable is_lower : string -> bool.
  Variable is_upper : string -> bool.

  Notation build := (build_program f gen_fixed is_lower is_upper).

  (* ---- (1) acceptance ---------------------------------------------------------------------- *)
  Definition stmt_acceptance_order_free : Prop :=
    forall stmts stmts', Permutation stmts stmts' ->
      ((exists p, build stmts = Ok p) <-> (exists p', build stmts' = Ok p')).

  (* ---- (2) the compiled program -------------------------------------------------------------- *)
  (* the same constants (as a map, and as a list up to order), the same register banks up to
     order, the same actions up to order - the state-changing ones (register-file writes, memory
     write, status) even in the same order - the same defaulted control signals and the same wire
     kinds *)
  Definition same_program (p p' : program) : Prop :=
    (forall k, lookup (p_consts p) k = lookup (p_consts p') k) /\
    Permutation (p_consts p) (p_consts p') /\
    Permutation (p_banks p) (p_banks p') /\
    Permutation (p_actions p) (p_actions p') /\
    effect_part (p_actions p) = effect_part (p_actions p') /\
    Permutation (p_defaulted p) (p_defaulted p') /\
    (forall k, type_of p k = type_of p' k).

  Definition stmt_program_order_free : Prop :=
    forall stmts stmts' p p', Permutation stmts stmts' ->
      build stmts = Ok p -> build stmts' = Ok p' -> same_program p p'.

  (* ---- (3) the simulation ---------------------------------------------------------------------- *)
  (* two machine states with the same wire values (as maps), memory, registers, status, cycle *)
  Definition same_machine (s s' : mstate) : Prop :=
    (forall k, lookup (values s) k = lookup (values s') k) /\
    mem s = mem s' /\ regs s = regs s' /\ last_status s = last_status s' /\ cycle s = cycle s'.

  (* both fail with the same diagnostics, or both succeed in the same machine state *)
  Definition same_result (r r' : result mstate) : Prop :=
    match r, r' with
    | Ok s, Ok s' => same_machine s s'
    | Err e, Err e' => e = e'
    | _, _ => False
    end.

  (* n cycles from the initial state (MachineSpec.iter_step: n times Machine.step) *)
  Definition run_cycles (n : nat) (o : options) (p : program) : result mstate :=
    do s0 <- initial_state p; iter_step n f o p s0.

  (* any number of cycles, any output options (even different ones for the two programs).
     [Forall wf_stmt]: what the grammar guarantees (literal / declared / slice widths <= 128) *)
  Definition stmt_simulation_order_free : Prop :=
    forall stmts stmts' p p', Forall wf_stmt stmts -> Permutation stmts stmts' ->
      build stmts = Ok p -> build stmts' = Ok p' ->
      forall n o o', same_result (run_cycles n o p) (run_cycles n o' p').

  (* the whole run loop, under any output options with the same cycle budget: the same final
     machine state (or the same failure); the printed text is not compared here - trace lines
     follow the schedule and the bank lines of the dumps follow the declaration order *)
  Definition same_run (r r' : result (mstate * string)) : Prop :=
    match r, r' with
    | Ok (s, _), Ok (s', _) => same_machine s s'
    | Err e, Err e' => e = e'
    | _, _ => False
    end.

  Definition stmt_run_order_free : Prop :=
    forall stmts stmts' p p' s0 s0', Forall wf_stmt stmts -> Permutation stmts stmts' ->
      build stmts = Ok p -> build stmts' = Ok p' ->
      initial_state p = Ok s0 -> initial_state p' = Ok s0' ->
      forall fuel o o', o_timeout o = o_timeout o' ->
        same_run (run fuel f o p s0) (run fuel f o' p' s0').

  (* ---- the printed state dump -------------------------------------------------------------------- *)
  (* the dump of two such states is byte-identical provided the banks that share an output letter
     were declared in the same relative order (the dump lists the banks letter by letter, and in
     declaration order within a letter: TableSpec.canonical_bank_order) *)
  Definition stmt_dump_order_free : Prop :=
    forall o p p' s s',
      same_machine s s' ->
      (forall l, banks_of_letter (p_banks p) l = banks_of_letter (p_banks p') l) ->
      dump_y86 o p s = dump_y86 o p' s'.

  (* in general the bank sections list the same banks, each with the same text; only the order of
     the lines within one letter can differ *)
  Definition stmt_dump_banks_same_lines : Prop :=
    forall p p' s s' t t',
      same_machine s s' -> Permutation (p_banks p) (p_banks p') ->
      dump_custom_registers (values s) (p_banks p) = Ok t ->
      dump_custom_registers (values s') (p_banks p') = Ok t' ->
      exists order order' texts texts',
        canonical_bank_order (p_banks p) order /\ canonical_bank_order (p_banks p') order' /\
        Permutation order order' /\
        (forall l, Permutation (banks_of_letter (p_banks p) l) (banks_of_letter (p_banks p') l)) /\
        Forall2 (fun b x => dump_bank (values s) b = Ok x) order texts /\
        Forall2 (fun b x => dump_bank (values s') b = Ok x) order' texts' /\
        t = concat_strings texts /\ t' = concat_strings texts' /\
        (forall b, dump_bank (values s) b = dump_bank (values s') b).
End OrderSpec.

(* ---- (4) rejected programs ----------------------------------------------------------------------- *)
(* the multiset of diagnostics (kind, names) of a rejected program: is it independent of the
   statement order?  NO (OrderProofs.v: diagnostics_order_free_refuted, three independent reasons).
   What holds: a reordering of a rejected program is rejected, with at least one diagnostic *)
Definition diag_of (e : err) : ekind * list string := (ek e, enames e).

Definition stmt_diagnostics_order_free : Prop :=
  forall stmts stmts' es es', Permutation stmts stmts' ->
    build_program gen_features gen_fixed ascii_lower ascii_upper stmts = Err es ->
    build_program gen_features gen_fixed ascii_lower ascii_upper stmts' = Err es' ->
    Permutation (map diag_of es) (map diag_of es').

Definition stmt_rejection_order_free : Prop :=
  forall f is_lower is_upper stmts stmts' es, Permutation stmts stmts' ->
    build_program f gen_fixed is_lower is_upper stmts = Err es ->
    exists es', build_program f gen_fixed is_lower is_upper stmts' = Err es' /\ es' <> [].

(* whether the FIRST pass (declarations, double assignments, what constants read) reports anything
   does not depend on the order: so a reordering never moves a program from "rejected by the first
   pass" to "rejected later" or back *)
Definition first_pass_errs (fixed : list fixed_fn) (stmts : list stmt) : list err :=
  let s := fold_left (step1 fixed) stmts (init1 fixed) in
  s_errs s ++ const_assigned_errors s ++ const_ref_errors s.

Definition stmt_first_pass_order_free : Prop :=
  forall fixed stmts stmts', Permutation stmts stmts' ->
    (first_pass_errs fixed stmts = [] <-> first_pass_errs fixed stmts' = []).
