(* C16, last sentence: "Every line is delimited in the same way, so the dump can be read back
   into exactly that state."  Statements about the reader of DumpParse.v applied to the text
   the model prints (Machine.dump_memory, dump_program_registers, dump_bank). *)
From Coq Require Import Permutation.
From HclV Require Import Base Expr Disasm DisasmProofs Machine MemSpec DumpSpec TableSpec DumpParse.
Open Scope string_scope.
Open Scope N_scope.

(* ---- 1. memory --------------------------------------------------------------------------- *)
(* reading the memory section of the dump of any memory state (ascending 64-bit addresses, byte
   values) returns exactly that state: every used byte at its address, nothing else *)
Definition stmt_memory_readback : Prop :=
  forall m, wf_mem m -> parse_memory_section (dump_memory m) = Some m.

(* hence no two memory states have the same text *)
Definition stmt_memory_dump_injective : Prop :=
  forall m1 m2, wf_mem m1 -> wf_mem m2 -> dump_memory m1 = dump_memory m2 -> m1 = m2.

(* the reader only ever returns memory states *)
Definition stmt_memory_read_is_state : Prop :=
  forall s m, parse_memory_section s = Some m -> wf_mem m.

(* ---- 2. program registers ------------------------------------------------------------------ *)
(* whatever the register file holds, reading the register section returns the values of
   registers 0..14 (a missing register reads 0, as in the model's [nth]) *)
Definition stmt_registers_readback : Prop :=
  forall r, parse_registers_section (dump_program_registers r) =
            Some (map (fun i => nth i r 0) (seq 0 15)).

(* for the Y86 register file (16 registers, the last one the always-zero "no register") these
   are exactly the first fifteen registers *)
Definition stmt_registers_readback_16 : Prop :=
  forall r, List.length r = 16%nat ->
    parse_registers_section (dump_program_registers r) = Some (firstn 15 r).

(* ---- 3. one register bank ------------------------------------------------------------------ *)
Definition no_char (p : ascii -> bool) (s : string) : bool := sall (fun c => negb (p c)) s.
(* a register name the dump can show unambiguously: no blank, no '=', no newline *)
Definition plain_name (s : string) : bool :=
  no_char (fun c => is_space c || is_equals c || is_newline c) s.
(* a bank label: no '(' and no newline *)
Definition plain_label (s : string) : bool := no_char (fun c => is_lparen c || is_newline c) s.

(* the state to be shown, in terms of the current wire values *)
Definition wire_bits (vals : list (string * wval)) (name : string) : N :=
  match lookup vals name with Some v => bits v | None => 0 end.
Definition bank_state (vals : list (string * wval)) (b : bank) : string :=
  if 0 <? wire_bits vals (b_bubble b) then "B"
  else if 0 <? wire_bits vals (b_stall b) then "S" else "N".
(* every register of the bank, in declaration order: its own name (the input wire name after the
   bank prefix) and the current value of its output wire *)
Definition bank_registers (vals : list (string * wval)) (b : bank) : list (string * N) :=
  map (fun s => (after_underscore (fst (fst s)), wire_bits vals (snd (fst s)))) (b_signals b).

(* reading the text of a bank - wrapped over however many lines - returns its label, its
   bubbled/stalled/normal state letter and every register with its value, in order *)
Definition stmt_bank_readback : Prop :=
  forall vals b text,
    plain_label (b_label b) = true ->
    (forall i o w, In (i, o, w) (b_signals b) -> plain_name (after_underscore i) = true) ->
    dump_bank vals b = Ok text ->
    parse_bank text = Some (b_label b, bank_state vals b, bank_registers vals b).

(* the same without the side conditions on the names: FALSE (see bank_readback_unconditional_refuted:
   a register named "x=0 y" prints like two registers x and y) *)
Definition stmt_bank_readback_unconditional : Prop :=
  forall vals b text,
    dump_bank vals b = Ok text ->
    parse_bank text = Some (b_label b, bank_state vals b, bank_registers vals b).

(* ---- 4. the whole state dump ----------------------------------------------------------------- *)
Definition bank_info (vals : list (string * wval)) (b : bank) : string * string * list (string * N) :=
  (b_label b, bank_state vals b, bank_registers vals b).
Definition plain_bank (b : bank) : Prop :=
  plain_label (b_label b) = true /\
  forall i o w, In (i, o, w) (b_signals b) -> plain_name (after_underscore i) = true.

(* reading a whole state dump - whichever of the four headings it carries, with or without the
   banks, with or without the "Cycles run"/"Error code" trailer - returns the fifteen program
   registers, EVERY declared bank exactly once (label, state, registers with values), in the
   canonical dump order (TableSpec.canonical_bank_order: letters P F D E M W, then the other
   letters in byte order, declaration order within a letter), and the memory *)
Definition stmt_dump_readback : Prop :=
  forall o p s text order,
    wf_mem (mem s) ->
    (forall b, In b (p_banks p) -> plain_bank b) ->
    canonical_bank_order (p_banks p) order ->
    dump_y86 o p s = Ok text ->
    parse_dump text =
    Some (map (fun i => nth i (regs s) 0) (seq 0 15),
          (if o_show_banks o then map (bank_info (values s)) order else []),
          mem s).

(* without naming the order: when banks are shown, what is read back is the registers, the
   memory, and a permutation of the declared banks' (label, state, registers) *)
Definition stmt_dump_readback_perm : Prop :=
  forall o p s text,
    wf_mem (mem s) ->
    (forall b, In b (p_banks p) -> plain_bank b) ->
    o_show_banks o = true ->
    dump_y86 o p s = Ok text ->
    exists infos,
      parse_dump text = Some (map (fun i => nth i (regs s) 0) (seq 0 15), infos, mem s) /\
      Permutation infos (map (bank_info (values s)) (p_banks p)).
