(* C14 ("every diagnostic that shows a source location names ... the 1-based line on which the
   offending token or expression really is ... underlines exactly the offending span") and C13
   (never an internal error) for the diagnostic the parser itself produces on a text that is not in
   the grammar:  `Unexpected token '...', expected ...`  (Error::UnrecognizedToken).

   ParseLoc.first_error_index / first_error_span say WHICH token that is.  Here: what they must
   satisfy, in the vocabulary of formal languages - sentence, viable prefix - over token KINDS.
   Definitions only.

   THE GRAMMAR is the one ParseDiag.parse_diag reads to the end (outcome DDone): the language
   proper plus the productions the author wrote to accept a malformed construct with a diagnostic
   (src/parser.lalrpop; ParseDiag.v lists them).  The two fallible actions (a width or bit index
   above 128) are not syntax: a token list is a sentence if SOME token list of the same kinds is
   read to the end.  *)
From HclV Require Import Base Expr Build Lexer Parser LexParseSpec TriviaSpec Yo Region RegionSpec
                         LexLocSpec Generated SpanParser SpanParserSpec ParseDiag ParseDiagSpec ParseLoc.
Open Scope list_scope.

(* ====================================================================================== *)
(* vocabulary                                                                             *)
(* ====================================================================================== *)
(* the kind of a token (ParseLoc.kind_of): its constructor - the value of a literal and the spelling of
   an identifier are forgotten (c_lit, c_id: one literal and one identifier chosen once and for all) *)
Definition same_kinds (a b : list token) : Prop := map kind_of a = map kind_of b.

(* a sentence of the grammar with the diagnostic productions: some token list of these kinds -
   whatever the offsets, values and names - is read to the end by parse_diag *)
Definition sentence (tiers : list tier) (ks : list token) : Prop :=
  exists toks l, same_kinds (map tk toks) ks /\ parse_diag tiers toks = Some (DDone l).

(* a viable prefix: it can be continued to a sentence *)
Definition viable_prefix (tiers : list tier) (pre : list token) : Prop :=
  exists suf, sentence tiers (pre ++ suf).

(* the precedence tables for which the statements hold: no tier of unknown kind (then nothing is
   an expression) and at most 16 tiers (FrontTotalSpec: the fuel the model gives a statement is
   enough); the grammar's table, doc_tiers, has 10 *)
Definition table_ok (tiers : list tier) : Prop := tiers_ok tiers /\ (List.length tiers <= 16)%nat.

(* no constant above 128 stands directly after ":", "[" or ".." - a sufficient condition for no
   fallible action (WidthConstant, SimpleConstant) to fail *)
Definition after_opener (p : token) : bool :=
  token_eqb p TColon || token_eqb p TOpenBracket || token_eqb p TDotDot.
Fixpoint no_oversize_index (ks : list token) : bool :=
  match ks with
  | p :: (t :: _) as rest => (if after_opener p then negb (oversize t) else true) && no_oversize_index rest
  | _ => true
  end.

(* ====================================================================================== *)
(* (a) no error  iff  sentence                                                            *)
(* ====================================================================================== *)
Definition stmt_first_error_none_iff_sentence : Prop :=
  forall tiers toks, first_error_index tiers toks = None <-> sentence tiers (map tk toks).

(* on the very tokens: whatever parse_diag reads to the end has no first error ... *)
Definition stmt_first_error_none_if_parsed : Prop :=
  forall tiers toks l, parse_diag tiers toks = Some (DDone l) -> first_error_index tiers toks = None.
(* ... in particular every text of the language proper *)
Definition stmt_first_error_none_if_accepted : Prop :=
  forall tiers toks stmts, parse_sp tiers toks = Some stmts -> first_error_index tiers toks = None.
(* ... and conversely when no fallible action can fail: then  no first error  iff  parse_diag answers
   (and the answer is a text read to the end) *)
Definition stmt_first_error_none_iff_parse_diag : Prop :=
  forall tiers toks, no_oversize_index (map tk toks) = true ->
    (first_error_index tiers toks = None <-> exists l, parse_diag tiers toks = Some (DDone l)) /\
    (forall r, parse_diag tiers toks = Some r -> exists l, r = DDone l).
(* draft without the hypothesis: false.  "wire x : 200 ; )" is no sentence - its first error is the
   ")" - but parse_diag has an answer: the parser stopped at the width (InvalidWireWidth) *)
Definition stmt_first_error_none_iff_parse_diag_any : Prop :=
  forall tiers toks,
    (first_error_index tiers toks = None <-> exists r, parse_diag tiers toks = Some r).
(* what remains true of every token list: an outcome of parse_diag is either a sentence read to the
   end or a fallible action that failed *)
Definition stmt_parse_diag_done_no_error : Prop :=
  forall tiers toks r, parse_diag tiers toks = Some r ->
    first_error_index tiers toks = None \/ exists l ds, r = DFatal l ds.

(* ====================================================================================== *)
(* (b) the index is the first token that cannot continue a sentence                       *)
(* ====================================================================================== *)
(* first_error_index = Some i:  i <= length; the first i tokens are a viable prefix; if i < length
   the first i + 1 tokens are not (token i is the first that cannot continue any sentence); if
   i = length the whole text is a viable prefix but not a sentence (unexpected end of input) *)
Definition stmt_first_error_sound : Prop :=
  forall tiers toks i, table_ok tiers -> first_error_index tiers toks = Some i ->
    let ks := map tk toks in
    (i <= List.length ks)%nat /\
    viable_prefix tiers (firstn i ks) /\
    ((i < List.length ks)%nat -> ~ viable_prefix tiers (firstn (S i) ks)) /\
    (i = List.length ks -> ~ sentence tiers ks).

(* viability is witnessed: [completion] returns tokens that complete the text to a sentence - read
   to the end by parse_diag - exactly when the text is a viable prefix and not a sentence *)
Definition stmt_completion_sound : Prop :=
  forall tiers toks c, table_ok tiers -> completion tiers toks = Some c ->
    first_error_index tiers toks = Some (List.length toks) /\
    sentence tiers (map tk (toks ++ c)) /\
    (no_oversize_index (map tk toks) = true -> exists l, parse_diag tiers (toks ++ c) = Some (DDone l)).
Definition stmt_completion_complete : Prop :=
  forall tiers toks, table_ok tiers -> first_error_index tiers toks = Some (List.length toks) ->
    exists c, completion tiers toks = Some c.

(* every token list is classified: a sentence, or an error at exactly one index *)
Definition stmt_first_error_total : Prop :=
  forall tiers toks,
    (first_error_index tiers toks = None /\ sentence tiers (map tk toks)) \/
    (exists i, first_error_index tiers toks = Some i /\ ~ sentence tiers (map tk toks)).

(* ====================================================================================== *)
(* (c) uniqueness, determinism                                                            *)
(* ====================================================================================== *)
(* the conditions of (b) determine the index: first_error_index is THE first token that cannot
   continue a sentence *)
Definition stmt_first_error_unique : Prop :=
  forall tiers toks i, table_ok tiers ->
    let ks := map tk toks in
    (i <= List.length ks)%nat -> viable_prefix tiers (firstn i ks) ->
    ((i < List.length ks)%nat -> ~ viable_prefix tiers (firstn (S i) ks)) ->
    (i = List.length ks -> ~ sentence tiers ks) ->
    first_error_index tiers toks = Some i.

(* it depends on the kinds of the tokens only - not on offsets, values or names - and only on the
   tokens up to and including the offending one *)
Definition stmt_first_error_kinds_only : Prop :=
  forall tiers toks toks', same_kinds (map tk toks) (map tk toks') ->
    first_error_index tiers toks = first_error_index tiers toks'.
Definition stmt_first_error_prefix_only : Prop :=
  forall tiers toks i, table_ok tiers -> first_error_index tiers toks = Some i -> (i < List.length toks)%nat ->
    forall rest', first_error_index tiers (firstn (S i) toks ++ rest') = Some i.

(* ====================================================================================== *)
(* (d) the span                                                                           *)
(* ====================================================================================== *)
(* the located span is exactly one token of the text, or - at the end of input - the one-byte range
   that begins where the last token ends *)
Definition stmt_first_error_span_is_a_token : Prop :=
  forall tiers toks sp, first_error_span tiers toks = Some sp ->
    exists i, first_error_index tiers toks = Some i /\
      ((exists t, nth_error toks i = Some t /\ sp = tspan t /\ token_aligned toks sp) \/
       (i = List.length toks /\ sp = eof_span toks)).

(* in the text: a non-empty range inside the text that begins at the first and ends after the last
   byte of one token; at the end of input it begins where the last token ends *)
Definition stmt_first_error_span_in_text : Prop :=
  forall uc tiers text sp, Forall scalar text ->
    first_error_span_text uc tiers (utf8 text) = Some sp ->
    exists toks, lex uc (utf8 text) = (toks, None) /\ tokens_ordered toks /\
      ((exists t, In t toks /\ sp = tspan t /\ (fst sp < snd sp)%nat /\ (snd sp <= List.length (utf8 text))%nat) \/
       (first_error_index tiers toks = Some (List.length toks) /\ sp = eof_span toks /\
        (fst sp <= List.length (utf8 text))%nat)).

(* hclrs parses  preamble ++ user's text.  If the preamble - a text that ends with a line feed - is
   accepted on its own, it is a sentence, so the first error - if any - is a token of the USER's text
   (or the end of the user's text, which then has at least one token): rendered by show_region the
   token's span is headed by the user's file name and, when on one line, is the one-line region: the
   user's file, the 1-based line counted in the user's text, the text of that line, carets under
   exactly the token.
   (SpanParserProofs.rendered_in_user_file, which quotes RegionProofs.never_preamble_partial,
   locate_one_line_ok, show_region_total_ok - the same composition as
   SpanParserSpec.stmt_user_span_rendered_in_user_file.) *)
Definition first_error_rendered (uc : N -> uclass) (tiers : list tier) (pre user fname : list N) (sp : srcspan) : Prop :=
  let fc := new_from_data pre user fname in
  exists ptoks utoks i,
    lex uc (pre ++ user) = (ptoks ++ utoks, None) /\
    lex uc pre = (ptoks, None) /\
    first_error_index tiers (ptoks ++ utoks) = Some (List.length ptoks + i)%nat /\
    utoks <> [] /\
    (* the rendering never fails and names the user's file *)
    (exists out, show_region fc (fst sp) (snd sp) = Some out /\
                 exists rest, out = RegionSpec.sp 5 ++ [45; 62; 32] ++ fname ++ [58] ++ rest) /\
    ((* an offending token: token i of the user's text *)
     (exists t us ue, nth_error utoks i = Some t /\ sp = tspan t /\
        fst sp = (List.length pre + us)%nat /\ snd sp = (List.length pre + ue)%nat /\
        (us < ue)%nat /\ (ue <= List.length user)%nat /\
        (count_lf (firstn (ue - us) (skipn us user)) = O ->
           show_region fc (fst sp) (snd sp) =
           Some (one_line_region fname (line_no user us) (line_text user us) (col_of user us) (ue - us)))) \/
     (* the end of input: the range begins where the user's last token ends *)
     (i = List.length utoks /\ exists t, nth_error utoks (List.length utoks - 1) = Some t /\
        sp = (tend t, S (tend t)) /\
        (List.length pre < tend t)%nat /\ (tend t <= List.length pre + List.length user)%nat)).

Definition stmt_first_error_rendered : Prop :=
  forall uc tiers ptext utext fname pstmts sp, table_ok tiers ->
    Forall scalar (ptext ++ [10] ++ utext) ->
    parse_text_sp uc tiers (utf8 (ptext ++ [10])) = Some pstmts ->
    first_error_span_text uc tiers (utf8 ((ptext ++ [10]) ++ utext)) = Some sp ->
    first_error_rendered uc tiers (utf8 (ptext ++ [10])) (utf8 utext) fname sp.

(* the same for the compiled preamble (LexLocSpec.preamble_bytes): what hclrs really parses *)
Definition stmt_first_error_rendered_gen : Prop :=
  forall uc utext fname sp, Forall scalar utext ->
    first_error_span_text uc doc_tiers (preamble_bytes ++ utf8 utext) = Some sp ->
    first_error_rendered uc doc_tiers preamble_bytes (utf8 utext) fname sp.
